(* C01: the format hypothesis [fmt_ok] of parse_spells holds for every format that can be built through
   ArgsFormatBuilder / ArgsFormat (Model/Format.v).

   fmt_ok f says that the parser's own construction aug_format f (one REQUIRED pseudo-argument
   "cmd<j><i>" per command name in front of the declared arguments, then the options, re-added to
   a fresh ArgsFormat) succeeds and yields what it is meant to.  It follows from
     - args_wf f                (C06: argument order rules, flags agree with the listing, names distinct),
     - akeys_inv f              (new: every argument is listed under its own name),
     - opts_inv f               (new: options are listed under their long names, their short names are
                                 indexed, and no two listed options - across the base chain - share a name),
   and these three hold for the empty builder, are kept by every builder operation and by build_format
   (so they hold for every stacked base as well).  names_wf of C06 is not needed.

   Ingredients: the decimal text of a natural number determines it and concatenations "cmd<j><i>"
   with j < j', i <= i' are distinct (valuation of digit strings); the fresh-name loop finds an unused
   name within |arguments|+1 attempts (pigeonhole); re-adding REQUIRED single-valued arguments in front
   of an order_ok list is accepted by add_argument; re-adding options with pairwise disjoint names is
   accepted by add_option. *)
From Coq Require Import Lia DecimalPos DecimalZ.
From Clikit Require Import Base.Prelude Base.Res Model.Conv Model.Flags Model.Format Model.Parser Model.Spell
     Proofs.StrLemmas Proofs.FormatLemmas Proofs.SpellOpts.

(* ====================================================================================== *)
(* 1. decimal texts                                                                        *)
(* ====================================================================================== *)
Fixpoint valf (acc : N) (s : str) : N :=
  match s with [] => acc | c :: r => valf (10 * acc + (c - 48)) r end.

Lemma valf_app a s t : valf a (s ++ t) = valf (valf a s) t.
Proof. revert a. induction s as [|c r IH]; intros a; cbn [app valf]; [reflexivity|apply IH]. Qed.

Lemma valf_shift t : forall a, valf a t = (a * 10 ^ N.of_nat (length t) + valf 0 t)%N.
Proof.
  induction t as [|c r IH]; intros a.
  - cbn [valf length N.of_nat]. rewrite N.pow_0_r. lia.
  - cbn [valf length]. rewrite (IH (10 * a + (c - 48))%N), (IH (10 * 0 + (c - 48))%N).
    rewrite Nat2N.inj_succ, N.pow_succ_r'. lia.
Qed.

Lemma valf_acc_uint u : forall acc, valf (Npos acc) (chars_of_uint u) = Npos (Pos.of_uint_acc u acc).
Proof.
  induction u as [|u IH|u IH|u IH|u IH|u IH|u IH|u IH|u IH|u IH|u IH]; intros acc;
    cbn [chars_of_uint valf Pos.of_uint_acc]; [reflexivity|..]; rewrite <- IH; f_equal; lia.
Qed.
Lemma valf_uint u : valf 0 (chars_of_uint u) = Pos.of_uint u.
Proof.
  induction u as [|u IH|u IH|u IH|u IH|u IH|u IH|u IH|u IH|u IH|u IH];
    cbn [chars_of_uint valf Pos.of_uint]; [reflexivity|exact IH|..];
    rewrite <- valf_acc_uint; f_equal.
Qed.

Lemma valf_dec_text n : valf 0 (dec_text (Z.of_nat n)) = N.of_nat n.
Proof.
  unfold dec_text. destruct n as [|n]; [reflexivity|].
  cbn [Z.of_nat Z.to_int]. rewrite valf_uint, Unsigned.of_to. reflexivity.
Qed.

Lemma dec_text_nat_inj n m : dec_text (Z.of_nat n) = dec_text (Z.of_nat m) -> n = m.
Proof.
  intros H. apply Nat2N.inj. rewrite <- (valf_dec_text n), <- (valf_dec_text m), H. reflexivity.
Qed.

Lemma pow10_pos k : (1 <= 10 ^ k)%N.
Proof. pose proof (N.pow_nonzero 10 k). lia. Qed.

(* the same j: the name determines i *)
Lemma pseudo_name_inj_i j i i' : pseudo_name j i = pseudo_name j i' -> i = i'.
Proof.
  unfold pseudo_name. intros H. apply app_inv_head in H. apply app_inv_head in H. now apply dec_text_nat_inj.
Qed.

(* different j, i not decreasing: the names differ ("cmd1"+"11" against "cmd11"+"1" needs i to decrease) *)
Lemma pseudo_name_distinct j i j' i' : j < j' -> i <= i' -> pseudo_name j i <> pseudo_name j' i'.
Proof.
  intros Hj Hi H. unfold pseudo_name in H. apply app_inv_head in H.
  apply app_eq_app in H as [t [[H1 H2]|[H1 H2]]].
  - (* dec j = dec j' ++ t *)
    assert (N.of_nat j = N.of_nat j' * 10 ^ N.of_nat (length t) + valf 0 t)%N as E.
    { rewrite <- (valf_dec_text j), H1, valf_app, valf_shift, valf_dec_text. reflexivity. }
    destruct t as [|c t].
    + rewrite app_nil_r in H1. apply dec_text_nat_inj in H1. lia.
    + cbn [length] in E. rewrite Nat2N.inj_succ, N.pow_succ_r' in E.
      pose proof (pow10_pos (N.of_nat (length t))). nia.
  - (* dec i = t ++ dec i' *)
    assert (N.of_nat i = valf 0 t * 10 ^ N.of_nat (length (dec_text (Z.of_nat i'))) + N.of_nat i')%N as E.
    { rewrite <- (valf_dec_text i) at 1. rewrite H2, valf_app, valf_shift, valf_dec_text. reflexivity. }
    pose proof (pow10_pos (N.of_nat (length (dec_text (Z.of_nat i'))))) as Hp.
    assert (i = i') as Ei by nia. subst i'.
    assert (length (dec_text (Z.of_nat i)) = length (t ++ dec_text (Z.of_nat i))) as El by (rewrite <- H2; reflexivity).
    rewrite app_length in El. destruct t as [|c t]; [|cbn in El; lia].
    rewrite app_nil_r in H1. apply dec_text_nat_inj in H1. lia.
Qed.

(* ====================================================================================== *)
(* 2. small facts about str-keyed association lists                                        *)
(* ====================================================================================== *)
Lemma shas_in_keys {V} n (d : list (str * V)) : shas n d = true -> In n (map fst d).
Proof.
  unfold shas, ahas. intros H. destruct (aget str_eqb n d) eqn:E; [|discriminate].
  apply sget_in in E. apply in_map_iff. exists (n, v). split; [reflexivity|exact E].
Qed.
Lemma keys_in_shas {V} n (d : list (str * V)) : In n (map fst d) -> shas n d = true.
Proof.
  unfold shas, ahas. intros H. destruct (aget str_eqb n d) eqn:E; [reflexivity|].
  apply sget_none_notin in E. contradiction.
Qed.
Lemma shas_false_notin {V} n (d : list (str * V)) : shas n d = false -> ~ In n (map fst d).
Proof. intros H Hi. apply keys_in_shas in Hi. congruence. Qed.
Lemma notin_shas_false {V} n (d : list (str * V)) : ~ In n (map fst d) -> shas n d = false.
Proof. intros H. destruct (shas n d) eqn:E; [|reflexivity]. apply shas_in_keys in E. contradiction. Qed.
Lemma shas_sset {V} n k (v : V) d : shas n (sset k v d) = str_eqb n k || shas n d.
Proof. unfold shas, ahas, sset. rewrite sget_sset. destruct (str_eqb n k); reflexivity. Qed.
Lemma sget_nodup_in' {V} (l : list (str * V)) n v : NoDup (map fst l) -> In (n, v) l -> sget n l = Some v.
Proof.
  induction l as [|[k w] r IH]; cbn [map fst In]; intros Hnd Hi; [contradiction|].
  inversion Hnd as [|? ? Hk Hr]; subst. cbn [sget aget]. unfold sget in IH.
  destruct Hi as [E|Hi].
  - inversion E; subst. now rewrite str_eqb_refl.
  - destruct (str_eqb_spec n k) as [->|Hn]; [|now apply IH].
    exfalso. apply Hk. apply in_map_iff. exists (k, v). split; [reflexivity|exact Hi].
Qed.
Lemma NoDup_app_intro {X} (l1 l2 : list X) :
  NoDup l1 -> NoDup l2 -> (forall x, In x l1 -> ~ In x l2) -> NoDup (l1 ++ l2).
Proof.
  induction l1 as [|a r IH]; intros H1 H2 Hd; cbn [app]; [exact H2|].
  inversion H1 as [|? ? Ha Hr]; subst. constructor.
  - rewrite in_app_iff. intros [Hi|Hi]; [contradiction|]. apply (Hd a); [now left|exact Hi].
  - apply IH; [exact Hr|exact H2|]. intros x Hx. apply Hd. now right.
Qed.
Lemma skipn_length_app {X} (l1 l2 : list X) : skipn (length l1) (l1 ++ l2) = l2.
Proof. induction l1 as [|a r IH]; cbn [length app skipn]; [reflexivity|exact IH]. Qed.
Lemma firstn_length_app {X} (l1 l2 : list X) : firstn (length l1) (l1 ++ l2) = l1.
Proof. induction l1 as [|a r IH]; cbn [length app firstn]; [now destruct l2|now rewrite IH]. Qed.

(* ====================================================================================== *)
(* 3. the fresh-name loop                                                                  *)
(* ====================================================================================== *)
Section Fresh.
  Variable f : fmt.
  Let AR := get_arguments_all f.

  Lemma fresh_i_spec j : forall fuel i seen,
    NoDup seen -> incl seen (map fst AR) ->
    (forall n, In n seen -> exists k, k < i /\ n = pseudo_name j k) ->
    length AR < length seen + fuel ->
    i <= fresh_i fuel f j i /\ shas (pseudo_name j (fresh_i fuel f j i)) AR = false.
  Proof.
    induction fuel as [|fu IH]; intros i seen Hnd Hincl Hseen Hlen.
    - exfalso. pose proof (NoDup_incl_length Hnd Hincl) as Hle. rewrite map_length in Hle. lia.
    - cbn [fresh_i has_argument get_arguments]. fold AR.
      destruct (shas (pseudo_name j i) AR) eqn:E; [|split; [lia|exact E]].
      destruct (IH (S i) (pseudo_name j i :: seen)) as [Hle Hfr].
      + constructor; [|exact Hnd]. intros Hi. destruct (Hseen _ Hi) as [k [Hk Ek]].
        apply pseudo_name_inj_i in Ek. lia.
      + intros x [<-|Hx]; [now apply shas_in_keys|now apply Hincl].
      + intros n [<-|Hn]; [exists i; split; [lia|reflexivity]|].
        destruct (Hseen _ Hn) as [k [Hk Ek]]. exists k. split; [lia|exact Ek].
      + cbn [length]. lia.
      + split; [lia|exact Hfr].
  Qed.

  Lemma fresh_i_fresh j i :
    let r := fresh_i (S (length AR)) f j i in i <= r /\ shas (pseudo_name j r) AR = false.
  Proof.
    apply (fresh_i_spec j (S (length AR)) i []); [constructor|intros x []|intros n []|cbn [length]; lia].
  Qed.

  Definition parg (n : str) : arg := {| a_name := n; a_flags := REQUIRED_FLAGS; a_default := VNone |}.
  Definition pnames (cns : list cname) (j i : nat) : list str := map (fun p => fst (fst p)) (pseudo_args f cns j i).

  Lemma pseudo_args_args cns : forall j i,
    map (fun p => (fst (fst p), snd (fst p))) (pseudo_args f cns j i) = map (fun n => (n, parg n)) (pnames cns j i).
  Proof.
    unfold pnames. induction cns as [|c r IH]; intros j i; cbn [pseudo_args map fst snd]; [reflexivity|].
    fold AR. rewrite IH. reflexivity.
  Qed.
  Lemma pseudo_args_cns cns : forall j i,
    map fst (map (fun p => (fst (fst p), snd p)) (pseudo_args f cns j i)) = pnames cns j i.
  Proof. intros j i. unfold pnames. rewrite map_map. reflexivity. Qed.
  Lemma pnames_length cns : forall j i, length (pnames cns j i) = length cns.
  Proof.
    unfold pnames. induction cns as [|c r IH]; intros j i; cbn [pseudo_args map length]; [reflexivity|].
    now rewrite IH.
  Qed.

  Lemma pnames_spec cns : forall j i,
    Forall (fun n => shas n AR = false /\ exists j' i', j <= j' /\ i <= i' /\ n = pseudo_name j' i') (pnames cns j i) /\
    NoDup (pnames cns j i).
  Proof.
    unfold pnames. induction cns as [|c r IH]; intros j i; cbn [pseudo_args map fst snd]; [split; constructor|].
    fold AR. destruct (fresh_i_fresh j i) as [Hle Hfr]. cbn zeta in Hle, Hfr.
    set (i1 := fresh_i (S (length AR)) f j i) in *.
    destruct (IH (S j) i1) as [Hall Hnd]. split.
    - constructor.
      + split; [exact Hfr|]. exists j, i1. repeat split; [lia|exact Hle].
      + eapply Forall_impl; [|exact Hall]. cbn beta. intros n [Hn [j' [i' [Hj [Hi En]]]]].
        split; [exact Hn|]. exists j', i'. repeat split; [lia|lia|exact En].
    - constructor; [|exact Hnd]. intros Hi. rewrite Forall_forall in Hall.
      destruct (Hall _ Hi) as [_ [j' [i' [Hj [Hi' En]]]]].
      revert En. apply pseudo_name_distinct; lia.
  Qed.
End Fresh.

(* ====================================================================================== *)
(* 4. re-adding the arguments to a fresh builder                                           *)
(* ====================================================================================== *)
Definition keyed (l : list arg) : list (str * arg) := map (fun a => (a_name a, a)) l.
(* the fresh builder after the command names and the arguments p have been added *)
Definition ast (cn : list cname) (p : list arg) : fmt :=
  Fmt None cn [] [] (keyed p) [] [] (existsb a_multi p) (existsb a_optional p).

Lemma keyed_keys l : map fst (keyed l) = map a_name l.
Proof. unfold keyed. rewrite map_map. reflexivity. Qed.
Lemma keyed_app l1 l2 : keyed (l1 ++ l2) = keyed l1 ++ keyed l2.
Proof. unfold keyed. apply map_app. Qed.
Lemma keyed_id (l : list (str * arg)) :
  Forall (fun na => fst na = a_name (snd na)) l -> keyed (map snd l) = l.
Proof.
  induction l as [|[k a] r IH]; intros H; [reflexivity|].
  inversion H as [|? ? Hk Hr]; subst. cbn [map snd keyed fst] in *. unfold keyed in IH. rewrite (IH Hr).
  cbn [fst snd] in Hk. now rewrite <- Hk.
Qed.

Lemma order_ok_mid_multi p a l : order_ok (p ++ a :: l) = true -> existsb a_multi p = false.
Proof.
  induction p as [|x r IH]; cbn [app existsb order_ok]; [reflexivity|]. intros H.
  apply andb_prop in H as [H Hr]. apply andb_prop in H as [Hm _].
  rewrite (IH Hr), orb_false_r. destruct (a_multi x); [|reflexivity].
  destruct r; cbn [app] in Hm; discriminate.
Qed.
Lemma order_ok_mid_req p a l :
  order_ok (p ++ a :: l) = true -> a_required a = true -> forallb a_required p = true.
Proof.
  induction p as [|x r IH]; cbn [app forallb order_ok]; [reflexivity|]. intros H Ha.
  apply andb_prop in H as [H Hr]. apply andb_prop in H as [_ Hq].
  rewrite (IH Hr Ha), andb_true_r. destruct (a_required x); [reflexivity|].
  rewrite forallb_app in Hq. apply andb_prop in Hq as [_ Hq]. cbn [forallb] in Hq. rewrite Ha in Hq. discriminate.
Qed.
Lemma required_not_optional p :
  forallb arg_valid p = true -> forallb a_required p = true -> existsb a_optional p = false.
Proof.
  induction p as [|x r IH]; cbn [forallb existsb]; [reflexivity|]. intros Hv Hr.
  apply andb_prop in Hv as [Hx Hv]. apply andb_prop in Hr as [Hrx Hr]. rewrite (IH Hv Hr), orb_false_r.
  unfold arg_valid in Hx. rewrite Hrx in Hx. destruct (a_optional x); [discriminate|reflexivity].
Qed.

Lemma add_args_seq cn rest : forall l prev,
  NoDup (map a_name (prev ++ l)) -> order_ok (prev ++ l) = true -> forallb arg_valid (prev ++ l) = true ->
  add_elements (ast cn prev) (map EArg l ++ rest) = add_elements (ast cn (prev ++ l)) rest.
Proof.
  induction l as [|a l IH]; intros prev Hnd Ho Hv.
  - rewrite app_nil_r. reflexivity.
  - cbn [map app add_elements].
    assert (add_argument (ast cn prev) a = Ok (ast cn (prev ++ [a]))) as ->.
    { unfold add_argument, ast. cbn [has_argument get_arguments get_arguments_all has_multi_all has_optional_all].
      rewrite keyed_app, !existsb_app. cbn [keyed map existsb]. fold (keyed prev). rewrite !orb_false_r.
      assert (shas (a_name a) (keyed prev) = false) as ->.
      { apply notin_shas_false. rewrite keyed_keys. rewrite map_app in Hnd. cbn [map] in Hnd.
        apply NoDup_remove_2 in Hnd. intros Hi. apply Hnd. apply in_or_app. now left. }
      rewrite (order_ok_mid_multi _ _ _ Ho).
      assert (a_required a && existsb a_optional prev = false) as ->.
      { destruct (a_required a) eqn:Ea; [|reflexivity]. cbn [andb].
        apply required_not_optional; [|exact (order_ok_mid_req _ _ _ Ho Ea)].
        rewrite forallb_app in Hv. now apply andb_prop in Hv as [Hv _]. }
      unfold sset. rewrite sset_absent; [reflexivity|].
      apply notin_sget_none. rewrite keyed_keys. rewrite map_app in Hnd. cbn [map] in Hnd.
      apply NoDup_remove_2 in Hnd. intros Hi. apply Hnd. apply in_or_app. now left. }
    cbn [bind].
    replace (prev ++ a :: l) with ((prev ++ [a]) ++ l) in * by (rewrite <- app_assoc; reflexivity).
    apply IH; assumption.
Qed.

Lemma add_cnames_seq rest : forall l cn,
  add_elements (ast cn []) (map ECName l ++ rest) = add_elements (ast (cn ++ l) []) rest.
Proof.
  induction l as [|c l IH]; intros cn; [now rewrite app_nil_r|].
  cbn [map app add_elements]. unfold ast at 1. cbn [add_command_name bind keyed map existsb].
  replace (cn ++ c :: l) with ((cn ++ [c]) ++ l) by (rewrite <- app_assoc; reflexivity).
  apply IH.
Qed.

(* REQUIRED single-valued arguments in front keep the order rules *)
Lemma order_ok_front p l :
  forallb (fun a => a_required a && negb (a_multi a)) p = true -> order_ok l = true -> order_ok (p ++ l) = true.
Proof.
  induction p as [|x r IH]; intros Hp Hl; [exact Hl|].
  cbn [forallb] in Hp. apply andb_prop in Hp as [Hx Hp]. apply andb_prop in Hx as [Hr Hm].
  cbn [app order_ok]. rewrite Hr, (IH Hp Hl). destruct (a_multi x); [discriminate|reflexivity].
Qed.

(* ====================================================================================== *)
(* 5. re-adding the options                                                                *)
(* ====================================================================================== *)
Definition onames (o : opt) : list str := o_long o :: olist (o_short o).
Definition odisj (o1 o2 : opt) : Prop := forall n, In n (onames o1) -> In n (onames o2) -> False.
(* no two options of the list share a long or short name *)
Fixpoint opts_sep (l : list opt) : Prop :=
  match l with [] => True | o :: r => (forall o', In o' r -> odisj o o') /\ opts_sep r end.

Lemma odisj_sym o1 o2 : odisj o1 o2 -> odisj o2 o1.
Proof. intros H n H2 H1. exact (H n H1 H2). Qed.
Lemma opts_sep_app l1 l2 :
  opts_sep l1 -> opts_sep l2 -> (forall a b, In a l1 -> In b l2 -> odisj a b) -> opts_sep (l1 ++ l2).
Proof.
  induction l1 as [|o r IH]; intros H1 H2 Hc; [exact H2|].
  destruct H1 as [Ho Hr]. cbn [app opts_sep]. split.
  - intros o' Hi. apply in_app_or in Hi as [Hi|Hi]; [now apply Ho|]. apply Hc; [now left|exact Hi].
  - apply IH; [exact Hr|exact H2|]. intros a b Ha Hb. apply Hc; [now right|exact Hb].
Qed.

Lemma in_onames n o : In n (onames o) <-> n = o_long o \/ o_short o = Some n.
Proof.
  unfold onames. cbn [In]. destruct (o_short o) as [s|]; cbn [olist In]; split.
  - intros [H|[H|[]]]; [now left|right; now subst].
  - intros [H|H]; [now left|right; left; congruence].
  - intros [H|[]]; now left.
  - intros [H|H]; [now left|discriminate].
Qed.

Lemma add_option_taken f o f' n :
  add_option f o = Ok f' -> opt_name_taken f' n = true -> In n (onames o) \/ opt_name_taken f n = true.
Proof.
  unfold add_option. destruct (opt_name_taken f (o_long o)); [discriminate|].
  destruct (optname_taken f (o_short o)); [discriminate|].
  destruct f as [b cn co cs ar os oss hm ho]. intros H. inversion H; subst. clear H.
  unfold opt_name_taken. cbn [has_option_all has_command_option_all]. rewrite shas_sset.
  rewrite in_onames.
  destruct (str_eqb_spec n (o_long o)) as [->|Hn]; [intros _; left; now left|]. cbn [orb].
  destruct (o_short o) as [s|]; [|intros H; now right].
  rewrite shas_sset. destruct (str_eqb_spec n s) as [->|Hs]; [intros _; left; now right|]. cbn [orb].
  intros H. now right.
Qed.
Lemma add_option_same f o f' :
  add_option f o = Ok f' -> f_base f' = f_base f /\ f_args f' = f_args f /\ f_cnames f' = f_cnames f.
Proof.
  unfold add_option. destruct (opt_name_taken f (o_long o)); [discriminate|].
  destruct (optname_taken f (o_short o)); [discriminate|].
  destruct f as [b cn co cs ar os oss hm ho]. intros H. inversion H; subst. cbn. repeat split; reflexivity.
Qed.
Lemma add_option_accepts f o :
  (forall n, In n (onames o) -> opt_name_taken f n = false) -> exists f', add_option f o = Ok f'.
Proof.
  intros H. unfold add_option. rewrite (H (o_long o)) by (apply in_onames; now left).
  assert (optname_taken f (o_short o) = false) as ->.
  { destruct (o_short o) as [s|] eqn:E; [|reflexivity]. cbn [optname_taken]. apply H. apply in_onames. now right. }
  destruct f. eauto.
Qed.

Lemma add_opts_seq : forall l g,
  opts_sep l -> (forall n o, In o l -> In n (onames o) -> opt_name_taken g n = false) ->
  exists g', add_elements g (map EOpt l) = Ok g' /\ f_base g' = f_base g /\ f_args g' = f_args g.
Proof.
  induction l as [|o l IH]; intros g Hs Hfree; cbn [map add_elements]; [eauto|].
  destruct Hs as [Ho Hs].
  destruct (add_option_accepts g o) as [g1 E1]; [intros n Hn; apply (Hfree n o); [now left|exact Hn]|].
  rewrite E1. cbn [bind].
  destruct (IH g1 Hs) as [g' [E' [Hb Ha]]].
  - intros n o' Hi Hn. destruct (opt_name_taken g1 n) eqn:Et; [|reflexivity].
    destruct (add_option_taken g o g1 n E1 Et) as [Hin|Hold].
    + exfalso. exact (Ho o' Hi n Hin Hn).
    + rewrite (Hfree n o') in Hold; [discriminate|now right|exact Hn].
  - destruct (add_option_same g o g1 E1) as [Hb1 [Ha1 _]].
    exists g'. split; [exact E'|]. split; congruence.
Qed.

(* ====================================================================================== *)
(* 6. the invariants that are missing in C06's wf                                          *)
(* ====================================================================================== *)
Definition akeyed (na : str * arg) : Prop := fst na = a_name (snd na).
Definition okeyed (no : str * opt) : Prop := fst no = o_long (snd no).

(* every argument is listed under its own name, at every level *)
Fixpoint akeys_inv (f : fmt) : Prop :=
  match f with Fmt b _ _ _ ar _ _ _ _ =>
    Forall akeyed ar /\ match b with None => True | Some bf => akeys_inv bf end end.

(* options: listed under their long name, once; the short name of a listed option is indexed;
   listed options have pairwise disjoint names, also against every option of the base chain *)
Fixpoint opts_inv (f : fmt) : Prop :=
  match f with Fmt b _ _ _ _ os oss _ _ =>
    Forall okeyed os /\ NoDup (map fst os) /\
    (forall k o s, In (k, o) os -> o_short o = Some s -> shas s oss = true) /\
    opts_sep (map snd os) /\
    match b with
    | None => True
    | Some bf => opts_inv bf /\ (forall k o n, In (k, o) os -> In n (onames o) -> has_option_all bf n = false)
    end end.

(* the invariant of formats reachable through the API *)
Definition fmt_inv (f : fmt) : Prop := args_wf f /\ akeys_inv f /\ opts_inv f.

Lemma Forall_sset {V} (P : str * V -> Prop) k v d : Forall P d -> P (k, v) -> Forall P (sset k v d).
Proof.
  intros Hd Hp. induction d as [|[k' v'] r IH]; cbn [sset aset]; [constructor; [exact Hp|constructor]|].
  inversion Hd as [|? ? H1 H2]; subst. destruct (str_eqb_spec k k') as [->|Hn]; constructor; auto.
Qed.

(* ---- what the invariants say about the flattened listings ---- *)
Lemma args_all_nodup f : args_inv f -> NoDup (map fst (get_arguments_all f)).
Proof.
  induction f as [cn co cs ar os oss hm ho|bf cn co cs ar os oss hm ho IH] using fmt_ind'; intros Hi.
  - destruct Hi as (_ & _ & Hnd & _). exact Hnd.
  - rewrite (args_all_app _ Hi). cbn [f_base f_args]. destruct Hi as (_ & _ & Hnd & _ & Hb & Hfr).
    rewrite map_app. apply NoDup_app_intro; [exact (IH Hb)|exact Hnd|].
    intros x Hx Hown. specialize (Hfr x Hown). apply sget_none_notin in Hfr. contradiction.
Qed.
Lemma args_all_keyed f : args_inv f -> akeys_inv f -> Forall akeyed (get_arguments_all f).
Proof.
  induction f as [cn co cs ar os oss hm ho|bf cn co cs ar os oss hm ho IH] using fmt_ind'; intros Hi Hk.
  - destruct Hk as [Hk _]. exact Hk.
  - rewrite (args_all_app _ Hi). cbn [f_base f_args]. destruct Hk as [Hk Hkb].
    destruct Hi as (_ & _ & _ & _ & Hb & _). apply Forall_app. split; [exact (IH Hb Hkb)|exact Hk].
Qed.

Lemma opts_all_spec f : opts_inv f ->
  NoDup (map fst (get_options_all f)) /\ Forall okeyed (get_options_all f) /\
  opts_sep (map snd (get_options_all f)) /\
  (forall k o n, In (k, o) (get_options_all f) -> In n (onames o) -> has_option_all f n = true).
Proof.
  induction f as [cn co cs ar os oss hm ho|bf cn co cs ar os oss hm ho IH] using fmt_ind'; intros Hi.
  - destruct Hi as (Hk & Hnd & Hsh & Hsep & _). cbn [get_options_all has_option_all].
    repeat split; auto. intros k o n Hin Hn. apply in_onames in Hn as [->|Hs].
    + rewrite Forall_forall in Hk. specialize (Hk _ Hin). unfold okeyed in Hk. cbn [fst snd] in Hk. rewrite <- Hk.
      rewrite keys_in_shas; [reflexivity|]. apply in_map_iff. exists (k, o). split; [reflexivity|exact Hin].
    + rewrite (Hsh k o n Hin Hs). now rewrite orb_true_r.
  - destruct Hi as (Hk & Hnd & Hsh & Hsep & Hb & Hfr). destruct (IH Hb) as (Hndb & Hkb & Hsepb & Hnb).
    assert (get_options_all (Fmt (Some bf) cn co cs ar os oss hm ho) = os ++ get_options_all bf) as E.
    { cbn [get_options_all]. apply supdate_fresh; [exact Hndb|].
      intros k Hkin. destruct (sget k os) as [o|] eqn:Eg; [exfalso|reflexivity].
      apply sget_in in Eg. pose proof Hk as Hk'. rewrite Forall_forall in Hk'. specialize (Hk' _ Eg).
      unfold okeyed in Hk'. cbn [fst snd] in Hk'.
      assert (has_option_all bf k = false) as Hf by (apply (Hfr k o k Eg); apply in_onames; now left).
      apply in_map_iff in Hkin as [[k' o'] [Ek' Hin']]. cbn [fst] in Ek'. subst k'.
      rewrite Forall_forall in Hkb. pose proof (Hkb _ Hin') as Hko. unfold okeyed in Hko. cbn [fst snd] in Hko.
      rewrite (Hnb k o' k Hin') in Hf; [discriminate|]. apply in_onames. now left. }
    rewrite E. repeat split.
    + rewrite map_app. apply NoDup_app_intro; [exact Hnd|exact Hndb|].
      intros k Hk1 Hk2. apply in_map_iff in Hk1 as [[k1 o1] [E1 Hin1]]. apply in_map_iff in Hk2 as [[k2 o2] [E2 Hin2]].
      cbn [fst] in E1, E2. subst k1 k2.
      assert (In k (onames o1)) as Hn1.
      { rewrite Forall_forall in Hk. specialize (Hk _ Hin1). unfold okeyed in Hk. cbn [fst snd] in Hk. apply in_onames. now left. }
      assert (In k (onames o2)) as Hn2.
      { rewrite Forall_forall in Hkb. specialize (Hkb _ Hin2). unfold okeyed in Hkb. cbn [fst snd] in Hkb. apply in_onames. now left. }
      pose proof (Hnb k o2 k Hin2 Hn2) as Ht. rewrite (Hfr k o1 k Hin1 Hn1) in Ht. discriminate.
    + apply Forall_app. split; assumption.
    + rewrite map_app. apply opts_sep_app; [exact Hsep|exact Hsepb|].
      intros a b Ha Hbb n Hna Hnb'. apply in_map_iff in Ha as [[k1 o1] [E1 Hin1]]. apply in_map_iff in Hbb as [[k2 o2] [E2 Hin2]].
      cbn [snd] in E1, E2. subst o1 o2.
      pose proof (Hnb k2 b n Hin2 Hnb') as Ht. rewrite (Hfr k1 a n Hin1 Hna) in Ht. discriminate.
    + intros k o n Hin Hn. cbn [has_option_all]. apply in_app_or in Hin as [Hin|Hin].
      * apply in_onames in Hn as [->|Hs].
        -- rewrite Forall_forall in Hk. specialize (Hk _ Hin). unfold okeyed in Hk. cbn [fst snd] in Hk. rewrite <- Hk.
           rewrite keys_in_shas; [reflexivity|]. apply in_map_iff. exists (k, o). split; [reflexivity|exact Hin].
        -- rewrite (Hsh k o n Hin Hs). now rewrite orb_true_r.
      * rewrite (Hnb k o n Hin Hn). now rewrite !orb_true_r.
Qed.

(* ====================================================================================== *)
(* 7. the invariant implies fmt_ok                                                         *)
(* ====================================================================================== *)
Lemma pyval_eqb_refl : forall a, pyval_eqb a a = true.
Proof.
  fix IH 1. intros [| x | x | x | x | l]; cbn [pyval_eqb].
  - reflexivity.
  - apply eqb_reflx.
  - apply Z.eqb_refl.
  - apply str_eqb_refl.
  - apply str_eqb_refl.
  - induction l as [|x l IHl]; [reflexivity|]. rewrite IH, IHl. reflexivity.
Qed.
Lemma narg_eqb_refl p : narg_eqb p p = true.
Proof. unfold narg_eqb, arg_eqb. now rewrite !str_eqb_refl, Z.eqb_refl, pyval_eqb_refl. Qed.
Lemma list_eqb_refl {X} (eqb : X -> X -> bool) : (forall x, eqb x x = true) -> forall l, list_eqb eqb l l = true.
Proof. intros He. induction l as [|x l IH]; cbn [list_eqb]; [reflexivity|]. now rewrite He, IH. Qed.
Lemma NoDup_nodupb l : NoDup l -> nodupb l = true.
Proof.
  induction l as [|x l IH]; intros H; cbn [nodupb]; [reflexivity|]. inversion H as [|? ? Hx Hl]; subst.
  rewrite (IH Hl), andb_true_r. destruct (existsb (str_eqb x) l) eqn:E; [|reflexivity].
  apply existsb_exists in E as [y [Hy Exy]]. apply str_eqb_eq in Exy. subst y. contradiction.
Qed.
Lemma args_all_nobase g : f_base g = None -> get_arguments_all g = f_args g.
Proof. destruct g as [[bf|] cn co cs ar os oss hm ho]; cbn; [discriminate|reflexivity]. Qed.
Lemma keyed_names (l : list (str * arg)) : Forall akeyed l -> map a_name (map snd l) = map fst l.
Proof.
  induction l as [|[k a] r IH]; intros H; [reflexivity|]. inversion H as [|? ? Hk Hr]; subst.
  cbn [map fst snd]. rewrite (IH Hr). unfold akeyed in Hk. cbn [fst snd] in Hk. now rewrite Hk.
Qed.
Lemma parg_facts n : a_required (parg n) = true /\ a_multi (parg n) = false /\ arg_valid (parg n) = true.
Proof. repeat split; reflexivity. Qed.

Theorem fmt_ok_of_inv f : args_wf f -> akeys_inv f -> opts_inv f -> fmt_ok f = true.
Proof.
  intros [Hai Hord] Hak Hoi.
  pose proof (args_all_nodup f Hai) as Hnd. pose proof (args_all_keyed f Hai Hak) as Hkeyed.
  pose proof (args_valid_all f Hai) as Hval. unfold args_of in Hord, Hval.
  destruct (opts_all_spec f Hoi) as (_ & _ & Hsep & _).
  set (AR := get_arguments_all f) in *. set (CN := get_command_names_all f).
  set (PN := pnames f CN 1 1).
  destruct (pnames_spec f CN 1 1) as [Hpn Hpnd]. fold PN AR in Hpn, Hpnd. rewrite Forall_forall in Hpn.
  set (PS := map (fun n => (n, parg n)) PN).
  assert (map fst PS = PN) as Epk by (unfold PS; rewrite map_map; cbn [fst]; apply map_id).
  assert (map snd PS = map parg PN) as Eps by (unfold PS; rewrite map_map; reflexivity).
  assert (forall k, In k PN -> ~ In k (map fst AR)) as Hdisj.
  { intros k Hk. destruct (Hpn _ Hk) as [Hfr _]. now apply shas_false_notin. }
  assert (supdate PS AR = PS ++ AR) as Esup.
  { apply supdate_fresh; [exact Hnd|]. intros k Hk. apply notin_sget_none. rewrite Epk. intros Hi. exact (Hdisj k Hi Hk). }
  assert (Forall akeyed (PS ++ AR)) as Hkall.
  { apply Forall_app. split; [|exact Hkeyed]. unfold PS. apply Forall_forall. intros x Hx.
    apply in_map_iff in Hx as [n [<- _]]. reflexivity. }
  assert (NoDup (map fst (PS ++ AR))) as Hndall.
  { rewrite map_app, Epk. apply NoDup_app_intro; [exact Hpnd|exact Hnd|exact Hdisj]. }
  assert (exists F', format_of_elements (map ECName CN ++ map (fun na => EArg (snd na)) (PS ++ AR) ++
                                         map (fun no => EOpt (snd no)) (get_options_all f)) None = Ok F' /\
                     get_arguments_all F' = PS ++ AR) as [F' [EF HF]].
  { unfold format_of_elements. change (empty_builder None) with (ast [] []).
    rewrite add_cnames_seq. cbn [app].
    rewrite <- (map_map snd EArg), <- (map_map snd EOpt).
    rewrite (add_args_seq CN _ (map snd (PS ++ AR)) []); cbn [app].
    - destruct (add_opts_seq (map snd (get_options_all f)) (ast CN (map snd (PS ++ AR))) Hsep) as [g' [Eg [Hb Ha]]].
      { intros n o _ _. reflexivity. }
      rewrite Eg. cbn [bind]. eexists. split; [reflexivity|].
      destruct (build_format_same g') as (Hb' & _ & Ha' & _).
      rewrite args_all_nobase by (rewrite Hb', Hb; reflexivity).
      rewrite Ha', Ha. cbn [ast f_args]. now apply keyed_id.
    - rewrite keyed_names by exact Hkall. exact Hndall.
    - rewrite map_app, Eps. apply order_ok_front; [|exact Hord].
      apply forallb_forall. intros x Hx. apply in_map_iff in Hx as [n [<- _]]. reflexivity.
    - rewrite map_app, forallb_app, Hval, andb_true_r, Eps.
      apply forallb_forall. intros x Hx. apply in_map_iff in Hx as [n [<- _]]. reflexivity. }
  unfold fmt_ok, aug_format. cbv zeta. fold CN. rewrite (pseudo_args_args f CN 1 1). fold PN PS AR.
  rewrite Esup, EF. cbn [bind]. rewrite HF.
  assert (length (map (fun p => (fst (fst p), snd p)) (pseudo_args f CN 1 1)) = length PS) as ->.
  { unfold PS, PN, pnames. now rewrite !map_length. }
  rewrite (pseudo_args_cns f CN 1 1). fold PN.
  rewrite skipn_length_app, firstn_length_app, Epk.
  repeat (apply andb_true_intro; split).
  - apply list_eqb_refl. exact narg_eqb_refl.
  - apply list_eqb_refl. exact narg_eqb_refl.
  - apply list_eqb_refl. exact str_eqb_refl.
  - unfold PS. apply forallb_forall. intros x Hx. apply in_map_iff in Hx as [n [<- _]]. reflexivity.
  - apply forallb_forall. intros n Hn. destruct (Hpn _ Hn) as [Hfr _]. now rewrite Hfr.
  - now apply NoDup_nodupb.
  - apply forallb_forall. intros x Hx. rewrite Forall_forall in Hkall. specialize (Hkall _ Hx).
    unfold akeyed in Hkall. rewrite Hkall. apply str_eqb_refl.
Qed.

(* ====================================================================================== *)
(* 8. every format reachable through the API satisfies the invariant                       *)
(* ====================================================================================== *)
Lemma add_option_inv f o f' : fmt_inv f -> add_option f o = Ok f' -> fmt_inv f'.
Proof.
  intros (Ha & Hk & Ho) H. unfold add_option in H.
  destruct (opt_name_taken f (o_long o)) eqn:Hl; [discriminate|].
  destruct (optname_taken f (o_short o)) eqn:Hs; [discriminate|].
  destruct f as [b cn co cs ar os oss hm ho]. inversion H; subst. clear H.
  split; [exact Ha|]. split; [exact Hk|].
  assert (forall n, In n (onames o) ->
            shas n os = false /\ shas n oss = false /\
            match b with Some bf => has_option_all bf n = false | None => True end) as Hfree.
  { intros n Hn.
    assert (opt_name_taken (Fmt b cn co cs ar os oss hm ho) n = false) as Hf.
    { apply in_onames in Hn as [->|Hn]; [exact Hl|]. rewrite Hn in Hs. exact Hs. }
    unfold opt_name_taken in Hf. cbn [has_option_all] in Hf.
    apply orb_false_elim in Hf as [Hf _]. apply orb_false_elim in Hf as [Hf Hb]. apply orb_false_elim in Hf as [H1 H2].
    split; [exact H1|]. split; [exact H2|]. destruct b; [exact Hb|exact I]. }
  destruct Ho as (Hkeyed & Hnd & Hsh & Hsep & Hb).
  assert (sset (o_long o) o os = os ++ [(o_long o, o)]) as Eset.
  { unfold sset. apply sset_absent. destruct (Hfree (o_long o)) as [H1 _]; [apply in_onames; now left|].
    unfold shas, ahas in H1. destruct (aget str_eqb (o_long o) os); [discriminate|reflexivity]. }
  cbn [opts_inv]. rewrite Eset. split; [|split; [|split; [|split]]].
  - apply Forall_app. split; [exact Hkeyed|]. constructor; [reflexivity|constructor].
  - rewrite map_app. cbn [map fst]. apply NoDup_app_snoc; [exact Hnd|].
    apply shas_false_notin. apply (Hfree (o_long o)). apply in_onames. now left.
  - intros k o' s Hin Hso.
    assert (shas s oss = true \/ (o' = o)) as [Hold| ->].
    { apply in_app_or in Hin as [Hin|[E|[]]]; [left; exact (Hsh k o' s Hin Hso)|right; congruence]. }
    + destruct (o_short o); [rewrite shas_sset, Hold; apply orb_true_r|exact Hold].
    + rewrite Hso. rewrite shas_sset, str_eqb_refl. reflexivity.
  - rewrite map_app. cbn [map snd]. apply opts_sep_app; [exact Hsep|split; [intros o' []|exact I]|].
    intros a b' Hain [<-|[]] n Hna Hno. destruct (Hfree n Hno) as (H1 & H2 & _).
    apply in_map_iff in Hain as [[k a'] [E Hin]]. cbn [snd] in E. subst a'.
    apply in_onames in Hna as [->|Hsa].
    + rewrite Forall_forall in Hkeyed. specialize (Hkeyed _ Hin). unfold okeyed in Hkeyed. cbn [fst snd] in Hkeyed.
      rewrite <- Hkeyed in H1. rewrite keys_in_shas in H1; [discriminate|].
      apply in_map_iff. exists (k, a). split; [reflexivity|exact Hin].
    + rewrite (Hsh k a n Hin Hsa) in H2. discriminate.
  - destruct b as [bf|]; [|exact I]. destruct Hb as [Hbi Hbf]. split; [exact Hbi|].
    intros k o' n Hin Hn. apply in_app_or in Hin as [Hin|[E|[]]]; [exact (Hbf k o' n Hin Hn)|].
    inversion E; subst. apply (Hfree n Hn).
Qed.

Lemma add_copt_inv f c f' : fmt_inv f -> add_command_option f c = Ok f' -> fmt_inv f'.
Proof.
  intros (Ha & Hk & Ho) H. unfold add_command_option in H.
  repeat match type of H with (if ?c then _ else _) = _ => destruct c; [discriminate|] end.
  destruct f. inversion H; subst. split; [exact Ha|split; [exact Hk|exact Ho]].
Qed.
Lemma add_argument_inv f a f' : fmt_inv f -> arg_valid a = true -> add_argument f a = Ok f' -> fmt_inv f'.
Proof.
  intros (Ha & Hk & Ho) Hv H. split; [eapply add_argument_keeps_wf; eauto|].
  unfold add_argument in H.
  repeat match type of H with (if ?c then _ else _) = _ => destruct c; [discriminate|] end.
  destruct f. inversion H; subst. split; [|exact Ho].
  cbn [akeys_inv] in *. destruct Hk as [Hk Hkb]. split; [|exact Hkb]. apply Forall_sset; [exact Hk|reflexivity].
Qed.
Lemma add_cname_inv f c f' : fmt_inv f -> add_command_name f c = Ok f' -> fmt_inv f'.
Proof. intros Hi H. destruct f. cbn in H. inversion H; subst. exact Hi. Qed.

Lemma add_all_inv {X} (add : fmt -> X -> res fmt) (ok : X -> bool) :
  (forall f x f', fmt_inv f -> ok x = true -> add f x = Ok f' -> fmt_inv f') ->
  forall xs f, fmt_inv f -> forallb ok xs = true -> fmt_inv (fst (add_all add f xs)).
Proof.
  intros Hadd. induction xs as [|x r IH]; intros f Hw Hok; cbn [add_all]; [exact Hw|].
  cbn [forallb] in Hok. apply andb_prop in Hok as [Hx Hr].
  destruct (add f x) as [f'|k] eqn:E; [|exact Hw]. apply IH; [eapply Hadd; eauto|exact Hr].
Qed.
Lemma forallb_const_true {X} (l : list X) : forallb (fun _ => true) l = true.
Proof. induction l; cbn; auto. Qed.

Lemma reset_opts_inv b cn co cs ar os oss hm ho :
  fmt_inv (Fmt b cn co cs ar os oss hm ho) -> fmt_inv (Fmt b cn co cs ar [] [] hm ho).
Proof.
  intros (Ha & Hk & Ho). split; [exact Ha|split; [exact Hk|]]. cbn [opts_inv] in *.
  destruct Ho as (_ & _ & _ & _ & Hb).
  split; [constructor|split; [constructor|split; [intros k o s []|split; [exact I|]]]].
  destruct b as [bf|]; [|exact I]. destruct Hb as [Hb _]. split; [exact Hb|intros k o n []].
Qed.
Lemma reset_args_inv b cn co cs ar os oss hm ho :
  fmt_inv (Fmt b cn co cs ar os oss hm ho) -> fmt_inv (Fmt b cn co cs [] os oss false false).
Proof.
  intros ([Hi Hord] & Hk & Ho). split; [|split; [|exact Ho]].
  - split.
    + cbn [args_inv] in *. destruct Hi as (_ & _ & _ & _ & Hb). repeat split; auto; try constructor.
      destruct b as [bf|]; [|exact I]. destruct Hb as [Hb _]. split; [exact Hb|]. intros k [].
    + unfold args_of in *. rewrite (args_all_app _ Hi) in Hord. cbn [f_base f_args] in Hord.
      rewrite map_app in Hord. apply order_ok_prefix in Hord.
      destruct b as [bf|]; cbn; [|reflexivity]. exact Hord.
  - cbn [akeys_inv] in *. destruct Hk as [_ Hkb]. split; [constructor|exact Hkb].
Qed.

Lemma bstep_inv f o : fmt_inv f -> bop_valid o = true -> fmt_inv (fst (bstep f o)).
Proof.
  intros Hw Hv. destruct o as [o|c|a|c|l|l|l|l]; cbn [bstep bop_valid] in *.
  - destruct (add_option f o) eqn:E; cbn; [eapply add_option_inv; eauto|exact Hw].
  - destruct (add_command_option f c) eqn:E; cbn; [eapply add_copt_inv; eauto|exact Hw].
  - destruct (add_argument f a) eqn:E; cbn; [eapply add_argument_inv; eauto|exact Hw].
  - destruct (add_command_name f c) eqn:E; cbn; [eapply add_cname_inv; eauto|exact Hw].
  - destruct f as [b cn co cs ar os oss hm ho].
    apply (add_all_inv add_option (fun _ => true));
      [intros; eapply add_option_inv; eauto|eapply reset_opts_inv; eauto|apply forallb_const_true].
  - destruct f as [b cn co cs ar os oss hm ho].
    apply (add_all_inv add_command_option (fun _ => true));
      [intros; eapply add_copt_inv; eauto|exact Hw|apply forallb_const_true].
  - destruct f as [b cn co cs ar os oss hm ho].
    apply (add_all_inv add_argument arg_valid); [intros; eapply add_argument_inv; eauto|eapply reset_args_inv; eauto|exact Hv].
  - destruct f as [b cn co cs ar os oss hm ho].
    apply (add_all_inv add_command_name (fun _ => true));
      [intros; eapply add_cname_inv; eauto|exact Hw|apply forallb_const_true].
Qed.

Lemma brun_inv ops : forall f, fmt_inv f -> forallb bop_valid ops = true -> fmt_inv (brun f ops).
Proof.
  induction ops as [|o r IH]; intros f Hw Hv; cbn [brun]; [exact Hw|].
  cbn [forallb] in Hv. apply andb_prop in Hv as [Ho Hr]. apply IH; [apply bstep_inv; assumption|exact Hr].
Qed.

Lemma empty_builder_inv_none : fmt_inv (empty_builder None).
Proof.
  split; [exact (proj2 empty_builder_wf_none)|]. split; cbn; repeat split; try constructor.
  intros k o s [].
Qed.
Lemma empty_builder_inv_some bf : fmt_inv bf -> fmt_inv (empty_builder (Some bf)).
Proof.
  intros ([Hi Hord] & Hk & Ho). split; [|split].
  - split.
    + cbn. repeat split; auto; try constructor. intros k [].
    + unfold args_of. cbn. exact Hord.
  - cbn. split; [constructor|exact Hk].
  - cbn. split; [constructor|split; [constructor|split; [intros k o s []|split; [exact I|split; [exact Ho|intros k o n []]]]]].
Qed.

(* the short-name index rebuilt by build_format knows the short name of every listed option *)
Lemma short_index_has (os : list (str * opt)) : forall d s,
  (exists k o, In (k, o) os /\ o_short o = Some s) \/ shas s d = true ->
  shas s (fold_left (fun d no => match o_short (snd no) with Some s => sset s (snd no) d | None => d end) os d) = true.
Proof.
  induction os as [|[k0 o0] r IH]; intros d s H; cbn [fold_left snd].
  - destruct H as [[k [o [[] _]]]|H]. exact H.
  - apply IH. destruct H as [[k [o [[E|Hin] Hs]]]|H].
    + inversion E; subst. right. rewrite Hs, shas_sset, str_eqb_refl. reflexivity.
    + left. eauto.
    + right. destruct (o_short o0); [rewrite shas_sset, H; apply orb_true_r|exact H].
Qed.

Lemma build_format_inv f : fmt_inv f -> fmt_inv (build_format f).
Proof.
  intros (Ha & Hk & Ho). split; [now apply build_format_args_wf|].
  destruct f as [b cn co cs ar os oss hm ho]. unfold build_format.
  destruct (index_copts (map snd co)). split; [exact Hk|].
  cbn [opts_inv] in *. destruct Ho as (Hkeyed & Hnd & Hsh & Hsep & Hb).
  split; [exact Hkeyed|split; [exact Hnd|split; [|split; [exact Hsep|exact Hb]]]].
  intros k o s Hin Hs. apply short_index_has. left. eauto.
Qed.

(* ArgsFormat(elements, base) is a special case of builder + build_format *)
Definition op_of_element (e : element) : bop :=
  match e with EOpt o => AddOption o | ECOpt c => AddCommandOption c | EArg a => AddArgument a | ECName c => AddCommandName c end.
Definition element_valid (e : element) : bool := match e with EArg a => arg_valid a | _ => true end.
Lemma add_elements_brun : forall es f f', add_elements f es = Ok f' -> brun f (map op_of_element es) = f'.
Proof.
  induction es as [|e r IH]; intros f f' H; cbn [add_elements map brun] in *; [congruence|].
  destruct e as [o|c|a|c]; cbn [op_of_element bstep];
    match type of H with bind ?x _ = _ => destruct x as [f1|k] eqn:E end; cbn [bind lift fst] in *;
    try discriminate; now apply IH.
Qed.
Lemma elements_valid_ops es : forallb element_valid es = true -> forallb bop_valid (map op_of_element es) = true.
Proof.
  induction es as [|e r IH]; cbn [forallb map]; [reflexivity|]. intros H. apply andb_prop in H as [He Hr].
  rewrite (IH Hr), andb_true_r. destruct e; exact He.
Qed.
Lemma format_of_elements_built es base f :
  format_of_elements es base = Ok f -> f = build_format (brun (empty_builder base) (map op_of_element es)).
Proof.
  unfold format_of_elements. destruct (add_elements (empty_builder base) es) as [g|k] eqn:E; cbn [bind]; [|discriminate].
  intros H. inversion H; subst. now rewrite (add_elements_brun _ _ _ E).
Qed.

(* ---- the formats of the public API: a builder over no base or over such a format, any operations, then .format ---- *)
Inductive api_format : fmt -> Prop :=
| api_root ops : forallb bop_valid ops = true -> api_format (build_format (brun (empty_builder None) ops))
| api_over bf ops : api_format bf -> forallb bop_valid ops = true ->
                    api_format (build_format (brun (empty_builder (Some bf)) ops)).

Lemma api_format_inv f : api_format f -> fmt_inv f.
Proof.
  induction 1 as [ops Hv|bf ops _ IH Hv]; apply build_format_inv, brun_inv; auto.
  - exact empty_builder_inv_none.
  - now apply empty_builder_inv_some.
Qed.

Theorem wf_implies_fmt_ok_lemma f : fmt_inv f -> fmt_ok f = true.
Proof. intros (Ha & Hk & Ho). now apply fmt_ok_of_inv. Qed.

Theorem reachable_fmt_ok_lemma base ops :
  match base with Some bf => fmt_inv bf | None => True end -> forallb bop_valid ops = true ->
  fmt_inv (build_format (brun (empty_builder base) ops)) /\
  fmt_ok (build_format (brun (empty_builder base) ops)) = true.
Proof.
  intros Hb Hv.
  assert (fmt_inv (build_format (brun (empty_builder base) ops))) as Hi.
  { apply build_format_inv, brun_inv; [|exact Hv].
    destruct base as [bf|]; [now apply empty_builder_inv_some|exact empty_builder_inv_none]. }
  split; [exact Hi|now apply wf_implies_fmt_ok_lemma].
Qed.

Theorem api_format_fmt_ok_lemma f : api_format f -> fmt_ok f = true.
Proof. intros H. now apply wf_implies_fmt_ok_lemma, api_format_inv. Qed.

Theorem format_of_elements_fmt_ok_lemma es base f :
  match base with Some bf => fmt_inv bf | None => True end -> forallb element_valid es = true ->
  format_of_elements es base = Ok f -> fmt_inv f /\ fmt_ok f = true.
Proof.
  intros Hb Hv H. rewrite (format_of_elements_built _ _ _ H).
  apply reachable_fmt_ok_lemma; [exact Hb|now apply elements_valid_ops].
Qed.

(* ====================================================================================== *)
(* 9. parse_spells for every format of the API                                             *)
(* ====================================================================================== *)
From Clikit Require Import Proofs.SpellLemmas.

Theorem parse_spells_inv_lemma f d : fmt_inv f -> wf_line f d = true ->
  forall lenient, parse f lenient (render d) = Ok (denote f d).
Proof. intros Hi. apply parse_spells_lemma. now apply wf_implies_fmt_ok_lemma. Qed.

Theorem parse_spells_reachable_lemma f d : api_format f -> wf_line f d = true ->
  forall lenient, parse f lenient (render d) = Ok (denote f d).
Proof. intros Hi. apply parse_spells_lemma. now apply api_format_fmt_ok_lemma. Qed.

(* ---- concrete reachable formats (by computation): the hypotheses are satisfiable and the conclusion is what
        vm_compute finds ---- *)
From Coq Require Import String Ascii.
Module FmtOkExamples.
  Import SpellExamples.
  Definition base_ops : list bop := [AddCommandName c_server; AddArgument a_host; AddOption o_verbose; AddOption o_quiet; AddOption o_color].
  Definition own_ops : list bop :=
    [AddCommandName c_add; SetArguments [a_port; a_files]; AddOption o_num; AddOption o_tag; AddOption o_level;
     AddArgument a_host (* rejected: multi-valued "files" is last *); AddOption o_verbose (* rejected: taken in the base *)].
  Definition G_base : fmt := build_format (brun (empty_builder None) base_ops).
  Definition G : fmt := build_format (brun (empty_builder (Some G_base)) own_ops).
  Lemma G_api : api_format G.
  Proof. apply api_over; [apply api_root|]; vm_compute; reflexivity. Qed.
  Example G_fmt_ok_computed : fmt_ok G = true. Proof. vm_compute. reflexivity. Qed.
  Example G_line_ok : wf_line G D1 = true. Proof. vm_compute. reflexivity. Qed.
  Example G_is_F2 : get_arguments_all G = get_arguments_all F2 /\ get_options_all G = get_options_all F2 /\
                    get_command_names_all G = get_command_names_all F2.
  Proof. repeat split; vm_compute; reflexivity. Qed.
  Lemma G_parses : forall lenient, parse G lenient (render D1) = Ok (denote G D1).
  Proof. exact (parse_spells_reachable_lemma G D1 G_api G_line_ok). Qed.
  (* twelve command names and arguments that occupy the first candidate names: the loop moves on to i = 3 *)
  Definition cn1 (c : N) : cname := {| cn_name := [c]; cn_aliases := [] |}.
  Definition many_ops : list bop :=
    map (fun c => AddCommandName (cn1 c)) [97;98;99;100;101;102;103;104;105;106;107;108]%N ++
    [AddArgument a_cmd11; AddArgument {| a_name := s "cmd12"; a_flags := 17; a_default := VNone |};
     AddArgument {| a_name := s "cmd111"; a_flags := 18; a_default := VNone |};
     AddArgument {| a_name := s "cmd1113"; a_flags := 22; a_default := VList [] |}].
  Definition G12 : fmt := build_format (brun (empty_builder None) many_ops).
  Lemma G12_api : api_format G12.
  Proof. apply api_root. vm_compute. reflexivity. Qed.
  Example G12_pseudo_names :
    match aug_format G12 with
    | Ok (_, _, cns) => map fst cns = [s "cmd13"; s "cmd23"; s "cmd33"; s "cmd43"; s "cmd53"; s "cmd63"; s "cmd73"; s "cmd83";
                                       s "cmd93"; s "cmd103"; s "cmd113"; s "cmd123"]
    | Err _ => False end.
  Proof. vm_compute. reflexivity. Qed.
  Example G12_fmt_ok_computed : fmt_ok G12 = true. Proof. vm_compute. reflexivity. Qed.
End FmtOkExamples.
