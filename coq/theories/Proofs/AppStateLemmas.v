(* Proofs about Model/AppState.v (C17). *)
From Coq Require Import Lia.
From Clikit Require Import Base.Prelude Base.Res Model.Conv Model.Format Model.Parser Model.Resolver Model.Run
     Model.Tokenizer Model.Switches Model.AppState Proofs.StrLemmas.

Lemma pos_eqb_spec a b : reflect (a = b) (pos_eqb a b).
Proof.
  revert b. induction a as [|x a IH]; intros [|y b]; cbn; try (constructor; congruence).
  destruct (Nat.eqb_spec x y) as [->|Hn]; cbn; [|constructor; congruence].
  destruct (IH b) as [->|Hn]; constructor; congruence.
Qed.

(* the nested fixpoint of apply_cmd is apply_forest *)
Lemma apply_cmd_eq st p n al d an len f subs :
  apply_cmd st p (BCmd n al d an len f subs) =
  BCmd n al d an (match lookup st p with Some b => b | None => len end) f (apply_forest st p 0 subs).
Proof.
  cbn [apply_cmd]. f_equal. generalize 0. induction subs as [|s r IH]; intros i; cbn [apply_forest]; [reflexivity|].
  now rewrite IH.
Qed.

(* two override tables that agree on the effective value of every position make the same application *)
Definition same_overrides (st st' : overrides) (a : application) : Prop := apply_state st a = apply_state st' a.

(* recording the current effective value of p again does not change the application: this is exactly what the
   help resolver's restore does *)
Lemma lookup_cons_same st p b q : lookup ((p, b) :: st) q = if pos_eqb q p then Some b else lookup st q.
Proof. reflexivity. Qed.

(* The precise statement: if the command at position p has the effective leniency b, then adding the override (p, b)
   leaves apply_state unchanged.  cmd_eff_ok st q p b c: c sits at position q; wherever p is met below, the value is b. *)
Fixpoint cmd_eff_ok (st : overrides) (q : pos) (p : pos) (b : bool) (c : bcmd) : Prop :=
  match c with
  | BCmd n al d an len f subs =>
    (q = p -> (match lookup st p with Some x => x | None => len end) = b) /\
    (fix go (i : nat) (l : list bcmd) : Prop :=
       match l with [] => True | s :: r => cmd_eff_ok st (q ++ [i]) p b s /\ go (S i) r end) 0 subs
  end.
Fixpoint forest_eff_ok (st : overrides) (q : pos) (p : pos) (b : bool) (i : nat) (l : list bcmd) : Prop :=
  match l with [] => True | s :: r => cmd_eff_ok st (q ++ [i]) p b s /\ forest_eff_ok st q p b (S i) r end.
Lemma cmd_eff_ok_eq st q p b n al d an len f subs :
  cmd_eff_ok st q p b (BCmd n al d an len f subs) <->
  (q = p -> (match lookup st p with Some x => x | None => len end) = b) /\ forest_eff_ok st q p b 0 subs.
Proof.
  cbn [cmd_eff_ok]. generalize 0. intros i.
  assert ((fix go (i : nat) (l : list bcmd) : Prop :=
             match l with [] => True | s :: r => cmd_eff_ok st (q ++ [i]) p b s /\ go (S i) r end) i subs
          <-> forest_eff_ok st q p b i subs) as E.
  { revert i. induction subs as [|s r IH]; intros i; cbn [forest_eff_ok]; [tauto|]. rewrite IH. tauto. }
  rewrite E. tauto.
Qed.

Lemma apply_cmd_add st p b : forall c q, cmd_eff_ok st q p b c -> apply_cmd ((p, b) :: st) q c = apply_cmd st q c.
Proof.
  fix IH 1. intros [n al d an len f subs] q H. apply cmd_eff_ok_eq in H as [Hhere Hsubs]. rewrite !apply_cmd_eq.
  f_equal.
  - rewrite lookup_cons_same. destruct (pos_eqb_spec q p) as [E|E]; [|reflexivity].
    specialize (Hhere E). rewrite E in *. destruct (lookup st p); congruence.
  - revert Hsubs. generalize 0. induction subs as [|s r IHr]; intros i Hsubs; cbn [apply_forest]; [reflexivity|].
    destruct Hsubs as [Hs Hr]. f_equal; [apply IH, Hs|apply IHr, Hr].
Qed.
Lemma apply_forest_add st p b q : forall l i, forest_eff_ok st q p b i l ->
  apply_forest ((p, b) :: st) q i l = apply_forest st q i l.
Proof.
  induction l as [|s r IH]; intros i H; cbn [apply_forest]; [reflexivity|]. destruct H as [Hs Hr].
  rewrite (apply_cmd_add st p b s _ Hs), (IH _ Hr). reflexivity.
Qed.

Definition app_eff_ok (st : overrides) (a : application) (p : pos) (b : bool) : Prop :=
  forest_eff_ok st [] p b 0 (ap_cmds a).

Lemma apply_state_add st a p b : app_eff_ok st a p b -> apply_state ((p, b) :: st) a = apply_state st a.
Proof. intros H. unfold apply_state. f_equal. now apply apply_forest_add. Qed.

(* a run never changes what later runs see, provided the restore records the effective value *)
Definition help_resolver_ran (x : action) : bool := match x with AHelpCmd _ | AHelpFail _ => true | _ => false end.
Definition restores_effective (st : overrides) (a : application) (toks : list str) : Prop :=
  if help_resolver_ran (sm_action (run_summary false (apply_state st a) toks)) then
    match help_target_pos (apply_state st a) toks with
    | Some p => match eff st a p with Some b => app_eff_ok st a p b | None => True end
    | None => True
    end
  else True.

Lemma run_on_state st a toks : restores_effective st a toks -> apply_state (fst (run_on st a toks)) a = apply_state st a.
Proof.
  unfold restores_effective, run_on. cbn [fst].
  destruct (sm_action (run_summary false (apply_state st a) toks)) as [|p|k|p|p|k]; cbn [help_resolver_ran]; try reflexivity.
  all: destruct (help_target_pos (apply_state st a) toks) as [q|]; [|reflexivity].
  all: destruct (eff st a q) as [b|]; [|reflexivity]; intros H; now apply apply_state_add.
Qed.
Lemma run_on_obs st st' a toks : apply_state st a = apply_state st' a -> snd (run_on st a toks) = snd (run_on st' a toks).
Proof. intros H. unfold run_on. cbn [snd]. now rewrite H. Qed.

(* every run of a history gives what a fresh application gives for that line *)
Lemma runs_independent_lemma a : forall lines st,
  apply_state st a = apply_state [] a ->
  (forall st' toks, apply_state st' a = apply_state [] a -> restores_effective st' a toks) ->
  runs_on st a lines = map (fun l => snd (run_on [] a l)) lines.
Proof.
  induction lines as [|l r IH]; intros st Hst Hres; cbn [runs_on map]; [reflexivity|].
  pose proof (run_on_obs st [] a l Hst) as Ho.
  pose proof (run_on_state st a l (Hres st l Hst)) as Hs.
  destruct (run_on st a l) as [st1 sm]. cbn [fst snd] in *. rewrite Ho. f_equal.
  apply IH; [congruence|exact Hres].
Qed.

(* the style clause: Proofs/AppStateStyleLemmas.v (the heap of style objects refines independent values) *)
