(* Proofs about the exception-trace model (C20): line numbering and the snippet window; the highlighter shows the
   rows of the source in their places and every row made of single-line tokens verbatim (up to trailing white
   space); compact keeps frames; the stack trace lists kept frames only; the lines of a report always exist
   (render_lines is total: a source that cannot be read or tokenized costs the snippet, not the report). *)
From Coq Require Import Lia.
From Clikit Require Import Base.Prelude Base.Res Model.Conv Model.Markup Model.OutputM Model.Trace Proofs.OutputLemmas.

(* ------------------------------------------------------------------ line numbers and the snippet window *)
Definition number_line (u : ui) (w mark i : Z) (l : str) : str :=
  (if (mark =? i)%Z then tagged th_marker (u_arrow u) ++ [32%N] else [32; 32]%N)
    ++ tagged (if (mark =? i)%Z then th_bold_default else th_lineno) (rjust (dec_text i) w)
    ++ tagged th_lineno (u_delim u) ++ [32%N] ++ l.
Lemma number_from_length u w mark : forall lines i, length (number_from u w mark i lines) = length lines.
Proof. induction lines as [|l r IH]; intros i; cbn [number_from length]; [reflexivity|]. now rewrite IH. Qed.
Lemma line_numbers_length_l u lines mark : length (line_numbers u lines mark) = length lines.
Proof. apply number_from_length. Qed.
Lemma number_from_nth u w mark : forall lines i k d,
  (k < length lines)%nat ->
  nth k (number_from u w mark i lines) d = number_line u w mark (i + Z.of_nat k)%Z (nth k lines []).
Proof.
  induction lines as [|l r IH]; intros i k d Hk; cbn [length] in Hk; [lia|].
  destruct k as [|k]; cbn [number_from nth].
  - unfold number_line. now rewrite Z.add_0_r.
  - rewrite IH by lia. f_equal. lia.
Qed.
(* the k-th line carries the number k+1, right-aligned, and the marker exactly when k+1 is the marked line *)
Lemma line_numbers_nth u lines mark k d :
  (k < length lines)%nat ->
  nth k (line_numbers u lines mark) d
  = number_line u (number_width (length lines)) mark (Z.of_nat k + 1)%Z (nth k lines []).
Proof. intros Hk. unfold line_numbers. rewrite number_from_nth by exact Hk. f_equal. lia. Qed.

Definition marked (u : ui) (s : str) : Prop := exists rest, s = tagged th_marker (u_arrow u) ++ rest.
Lemma tagged_not_blank st t rest : tagged st t ++ rest <> 32%N :: 32%N :: rest.
Proof. unfold tagged. cbn. intros H. inversion H. Qed.
Lemma number_line_marked u w mark i l : marked u (number_line u w mark i l) <-> mark = i.
Proof.
  unfold number_line, marked. destruct (Z.eqb_spec mark i) as [->|Hn]; split.
  - reflexivity.
  - intros _. eexists. rewrite <- app_assoc. reflexivity.
  - intros (rest & H). unfold tagged in H. cbn in H. inversion H.
  - intros H. contradiction.
Qed.
Lemma marks_exactly_l u lines mark k d :
  (k < length lines)%nat -> (marked u (nth k (line_numbers u lines mark) d) <-> mark = (Z.of_nat k + 1)%Z).
Proof. intros Hk. rewrite line_numbers_nth by exact Hk. apply number_line_marked. Qed.

(* the snippet is a window of consecutive numbered lines that contains the marked line *)
Lemma code_snippet_window u toks line before after :
  code_snippet u toks line before after
  = firstn (Z.to_nat (after + before + 1)) (skipn (Z.to_nat (Z.max (line - before - 1) 0)) (line_numbers u (split_to_lines toks) line)).
Proof. reflexivity. Qed.
Lemma nth_firstn_lt {X} : forall n (l : list X) k d, (k < n)%nat -> nth k (firstn n l) d = nth k l d.
Proof.
  induction n as [|n IH]; intros l k d Hk; [lia|]. destruct l as [|x l]; cbn [firstn]; [reflexivity|].
  destruct k; cbn [nth]; [reflexivity|]. apply IH. lia.
Qed.
Lemma nth_skipn_add {X} : forall a (l : list X) k d, nth k (skipn a l) d = nth (a + k) l d.
Proof.
  induction a as [|a IH]; intros l k d; [reflexivity|]. destruct l as [|x l]; cbn [skipn plus nth]; [destruct k; reflexivity|]. apply IH.
Qed.
Lemma nth_firstn_skipn {X} (l : list X) a n k d : (k < n)%nat -> nth k (firstn n (skipn a l)) d = nth (a + k) l d.
Proof. intros Hk. rewrite nth_firstn_lt by exact Hk. apply nth_skipn_add. Qed.
Lemma code_snippet_nth u toks line before after k d :
  (0 <= before)%Z -> (0 <= after)%Z -> (Z.of_nat k < after + before + 1)%Z ->
  let off := Z.to_nat (Z.max (line - before - 1) 0) in
  (off + k < length (split_to_lines toks))%nat ->
  nth k (code_snippet u toks line before after) d
  = number_line u (number_width (length (split_to_lines toks))) line (Z.of_nat (off + k) + 1)%Z (nth (off + k) (split_to_lines toks) []).
Proof.
  intros Hb Ha Hk off Hlen. rewrite code_snippet_window. fold off.
  rewrite nth_firstn_skipn by lia. apply line_numbers_nth. exact Hlen.
Qed.
(* the failing line is in the window *)
Lemma code_snippet_has_line toks line before after :
  (0 <= before)%Z -> (0 <= after)%Z -> (1 <= line)%Z -> (line <= Z.of_nat (length (split_to_lines toks)))%Z ->
  exists k, (Z.of_nat k < after + before + 1)%Z /\
    (Z.of_nat (Z.to_nat (Z.max (line - before - 1) 0) + k) + 1)%Z = line /\
    (Z.to_nat (Z.max (line - before - 1) 0) + k < length (split_to_lines toks))%nat.
Proof.
  intros Hb Ha H1 Hn. exists (Z.to_nat (line - 1 - Z.max (line - before - 1) 0)). lia.
Qed.

(* ------------------------------------------------------------------ strings *)
Lemma firstn_add {X} (l : list X) : forall n m, firstn (n + m) l = firstn n l ++ firstn m (skipn n l).
Proof.
  induction l as [|x l IH]; intros n m.
  - rewrite skipn_nil, !firstn_nil. reflexivity.
  - destruct n as [|n]; cbn [plus firstn skipn app]; [reflexivity|]. now rewrite IH.
Qed.
Lemma firstn_slice (l : str) a b : (0 <= a <= b)%Z -> firstn (Z.to_nat a) l ++ slice l a b = firstn (Z.to_nat b) l.
Proof. intros H. unfold slice. rewrite <- firstn_add. f_equal. lia. Qed.
Lemma slice_empty (l : str) a : slice l a a = [].
Proof. unfold slice. now rewrite Z.sub_diag. Qed.

Lemma lstrip_app_lstrip x y : lstrip (lstrip x ++ y) = lstrip (x ++ y).
Proof.
  induction x as [|c x IH]; cbn [lstrip app]; [reflexivity|].
  destruct (is_space c) eqn:E; [exact IH|]. cbn [app lstrip]. now rewrite E.
Qed.
Lemma lstrip_spaces s y : Forall (fun c => is_space c = true) s -> lstrip (s ++ y) = lstrip y.
Proof. induction 1 as [|c s Hc _ IH]; cbn [app lstrip]; [reflexivity|]. now rewrite Hc. Qed.
Lemma rstrip_app_rstrip a b : rstrip_ws (a ++ rstrip_ws b) = rstrip_ws (a ++ b).
Proof. unfold rstrip_ws. rewrite !rev_app_distr, rev_involutive. f_equal. apply lstrip_app_lstrip. Qed.
Lemma rstrip_app_spaces a s : Forall (fun c => is_space c = true) s -> rstrip_ws (a ++ s) = rstrip_ws a.
Proof.
  intros H. unfold rstrip_ws. rewrite rev_app_distr. f_equal. apply lstrip_spaces.
  apply Forall_forall. intros c Hc. apply in_rev in Hc. rewrite Forall_forall in H. auto.
Qed.
Lemma NL_space : is_space NL = true. Proof. reflexivity. Qed.
Lemma rstrip_nl_ws a b : rstrip_ws (a ++ rstrip_nl b) = rstrip_ws (a ++ b).
Proof.
  destruct (rstrip_nl_spec b) as (k & E & _). rewrite E at 2. rewrite app_assoc. symmetry. apply rstrip_app_spaces.
  apply Forall_forall. intros c Hc. apply repeat_spec in Hc. subst. exact NL_space.
Qed.
Lemma rstrip_nl_no_nl b : ~ In NL b -> rstrip_nl b = b.
Proof.
  intros H. apply rstrip_nl_id. destruct (rev b) as [|c r] eqn:E; [exact I|].
  intros ->. apply H. apply in_rev. rewrite E. now left.
Qed.

(* ------------------------------------------------------------------ the highlighter: rows in their places *)
Definition text_of (st : hst) : str := chunks_text (h_line st) ++ h_buf st.
Lemma chunks_text_app a b : chunks_text (a ++ b) = chunks_text a ++ chunks_text b.
Proof. unfold chunks_text. apply flat_map_app. Qed.

(* a token of row r that lies on the physical line ln *)
Definition tok_on (ln : str) (r : Z) (t : token) : Prop :=
  tk_srow t = r /\ tk_erow t = r /\ tk_line t = ln /\ (0 <= tk_scol t <= tk_ecol t)%Z /\ tk_kind t <> TkEnd /\ r <> 0%Z /\
  (new_type t <> None -> tk_str t = slice ln (tk_scol t) (tk_ecol t)).
(* the tokens of a row, from column c on: ordered, each covering its own slice of the line *)
Fixpoint row_wf (ln : str) (r c : Z) (ts : list token) : Prop :=
  match ts with
  | [] => True
  | t :: rest => tok_on ln r t /\
                 match new_type t with
                 | None => row_wf ln r c rest
                 | Some _ => (c <= tk_scol t)%Z /\ row_wf ln r (tk_ecol t) rest
                 end
  end.
Fixpoint row_end (c : Z) (ts : list token) : Z :=
  match ts with
  | [] => c
  | t :: rest => match new_type t with None => row_end c rest | Some _ => row_end (tk_ecol t) rest end
  end.
Definition run_tokens (ts : list token) (st : hst) : hst := fold_left hl_token ts st.

(* the state while a row is being read: the text so far is the line up to the current column *)
Definition on_row (ln : str) (r c : Z) (st : hst) : Prop :=
  h_curline st = r /\ h_curcol st = c /\ (0 <= c)%Z /\ text_of st = firstn (Z.to_nat c) ln /\
  (h_last st = Some ln \/ (h_last st = None /\ c = 0%Z)).

Lemma hl_newline_same st t : tk_srow t = h_curline st -> hl_newline st t = st.
Proof. intros H. unfold hl_newline. rewrite H, Z.ltb_irrefl. reflexivity. Qed.

Lemma hl_token_on_row ln r c st t :
  on_row ln r c st -> tok_on ln r t ->
  match new_type t with
  | None => hl_token st t = st
  | Some _ => (c <= tk_scol t)%Z -> on_row ln r (tk_ecol t) (hl_token st t) /\ h_lines (hl_token st t) = h_lines st
              /\ h_last (hl_token st t) = Some ln
  end.
Proof.
  intros (Hl & Hc & Hc0 & Ht & Hlast) (Hs & He & Hln & Hcols & _ & _ & Hstr).
  unfold hl_token. rewrite hl_newline_same by congruence.
  destruct (new_type t) as [nt|] eqn:Ent; [|reflexivity].
  intros Hle. specialize (Hstr ltac:(discriminate)).
  assert ((tk_srow t <? tk_erow t)%Z = false) as Esl by (apply Z.ltb_ge; lia). rewrite Esl.
  set (cur := match h_type st with Some c0 => c0 | None => nt end).
  set (buf := if (h_curcol st <? tk_scol t)%Z then h_buf st ++ slice (tk_line t) (h_curcol st) (tk_scol t) else h_buf st).
  assert (chunks_text (h_line st) ++ buf = firstn (Z.to_nat (tk_scol t)) ln) as Hbuf.
  { unfold buf. rewrite Hc, Hln. destruct (Z.ltb_spec c (tk_scol t)).
    - rewrite app_assoc. unfold text_of in Ht. rewrite Ht. apply firstn_slice. lia.
    - assert (tk_scol t = c) as -> by lia. exact Ht. }
  cbn [h_lines h_curline h_curcol h_buf h_type h_line h_last]. split; [|split; [reflexivity|now rewrite Hln]].
  unfold on_row, text_of. cbn [h_lines h_curline h_curcol h_buf h_type h_line h_last].
  repeat split; try lia; [|left; now rewrite Hln].
  rewrite Hstr. rewrite <- (firstn_slice ln (tk_scol t) (tk_ecol t)) by lia. rewrite <- Hbuf.
  destruct (negb (hl_eqb cur nt) && negb (ends_with_bsl buf)).
  - rewrite chunks_text_app. unfold chunks_text at 2. cbn [flat_map snd]. now rewrite !app_nil_r, app_nil_l.
  - now rewrite app_assoc.
Qed.

Lemma run_row ln r : forall ts c st,
  on_row ln r c st -> row_wf ln r c ts ->
  let st' := run_tokens ts st in
  on_row ln r (row_end c ts) st' /\ h_lines st' = h_lines st.
Proof.
  induction ts as [|t ts IH]; intros c st Hon Hwf; cbn [run_tokens fold_left row_end].
  - split; [exact Hon|reflexivity].
  - cbn [row_wf] in Hwf. destruct Hwf as (Ht & Hrest).
    pose proof (hl_token_on_row ln r c st t Hon Ht) as Hstep.
    destruct (new_type t) as [nt|].
    + destruct Hrest as (Hle & Hrest). destruct (Hstep Hle) as (Hon' & Hlines & _).
      destruct (IH _ _ Hon' Hrest) as (A & B). split; [exact A|]. unfold run_tokens in *. now rewrite B.
    + rewrite Hstep. apply IH; assumption.
Qed.

(* the state at the first token of a row: fresh after the switch to a later row, or the initial state for row 1 *)
Definition before_row (r : Z) (st : hst) : Prop := (h_curline st < r)%Z \/ (st = hst_init /\ r = 1%Z).
(* hl_newline at the first token of row r *)
Lemma newline_opens_row ln r st t :
  before_row r st -> tk_srow t = r ->
  on_row ln r 0 (hl_newline st t) /\
  (h_lines (hl_newline st t) = h_lines st \/
   exists closed, h_lines (hl_newline st t) = h_lines st ++ closed :: repeat [] (Z.to_nat (r - h_curline st - 1))).
Proof.
  intros [Hlt|(-> & ->)] Hr; unfold hl_newline.
  - rewrite Hr. destruct (Z.ltb_spec (h_curline st) r); [|lia].
    cbn [h_lines h_curline h_curcol h_buf h_type h_line h_last]. split.
    + unfold on_row, text_of. cbn. repeat split; try lia. right. split; reflexivity.
    + right. eexists. cbn [app]. reflexivity.
  - rewrite Hr. cbn. split; [|left; reflexivity]. unfold on_row, text_of. cbn. repeat split; try lia. right. split; reflexivity.
Qed.

(* what a row looks like once it is closed *)
Definition closes_as (ln : str) (closed : list chunk) : Prop := rstrip_ws (chunks_text closed) = rstrip_ws ln.
(* NL occurs in a physical line at most as its last character *)
Definition phys_line (ln : str) : Prop := ~ In NL (removelast ln).

Lemma in_removelast_app (a b : str) x : b <> [] -> In x a -> In x (removelast (a ++ b)).
Proof.
  intros Hb Hx. rewrite removelast_app by exact Hb. apply in_or_app. now left.
Qed.
(* closing a row: the pending line, the rest of the buffer without its line break, what no token covered *)
Lemma close_row ln r c st :
  on_row ln r c st -> h_last st = Some ln -> phys_line ln -> h_type st <> None ->
  closes_as ln (h_line st ++ flush_chunk (h_type st) (rstrip_nl (h_buf st) ++ line_rest st)).
Proof.
  intros (Hl & Hc & Hc0 & Ht & _) Hsome Hphys Hty.
  destruct (h_type st) as [ty|]; [|contradiction]. unfold closes_as, flush_chunk.
  rewrite chunks_text_app. unfold chunks_text at 2. cbn [flat_map snd]. rewrite app_nil_r.
  unfold text_of in Ht. unfold line_rest. rewrite Hc, Hsome. remember (skipn (Z.to_nat c) ln) as R eqn:ER0.
  assert (ln = chunks_text (h_line st) ++ h_buf st ++ R) as Eln.
  { rewrite app_assoc, Ht, ER0. symmetry. apply firstn_skipn. }
  clear ER0. destruct R as [|x R'].
  - assert (rstrip_ws [] = []) as -> by reflexivity. rewrite app_nil_r. rewrite rstrip_nl_ws.
    rewrite app_nil_r in Eln. now rewrite <- Eln.
  - assert (~ In NL (h_buf st)) as Hno.
    { intros Hin. apply Hphys. rewrite Eln, app_assoc. apply in_removelast_app; [discriminate|].
      apply in_or_app. right. exact Hin. }
    rewrite rstrip_nl_no_nl by exact Hno. rewrite app_assoc, rstrip_app_rstrip, <- app_assoc. now rewrite <- Eln.
Qed.

(* ---- a row is put at its place ---- *)
Definition hl_step (st : hst) (t : token) : hst := if (tk_srow t =? 0)%Z then st else hl_token st t.
Definition not_end (t : token) : Prop := tk_srow t = 0%Z \/ tk_kind t <> TkEnd.
Lemma hl_loop_app pre : forall rest st, Forall not_end pre -> hl_loop (pre ++ rest) st = hl_loop rest (fold_left hl_step pre st).
Proof.
  induction pre as [|t pre IH]; intros rest st H; cbn [app fold_left hl_loop]; [reflexivity|].
  inversion H as [|? ? Ht Hr]; subst. unfold hl_step at 2.
  destruct (Z.eqb_spec (tk_srow t) 0) as [E|E]; [now apply IH|].
  destruct Ht as [Ht|Ht]; [contradiction|]. destruct (tk_kind t); try congruence; now apply IH.
Qed.

Lemma hl_newline_idem st t : hl_newline (hl_newline st t) t = hl_newline st t.
Proof.
  unfold hl_newline. destruct (h_curline st <? tk_srow t)%Z eqn:E; cbn [h_curline].
  - now rewrite Z.ltb_irrefl.
  - now rewrite E.
Qed.
Lemma hl_token_newline st t : hl_token st t = hl_token (hl_newline st t) t.
Proof. unfold hl_token. now rewrite hl_newline_idem. Qed.

(* lines only grow *)
Lemma hl_newline_prefix st t : exists suf, h_lines (hl_newline st t) = h_lines st ++ suf.
Proof.
  unfold hl_newline. destruct (h_curline st <? tk_srow t)%Z; cbn [h_lines]; [eexists; reflexivity|exists []; now rewrite app_nil_r].
Qed.
Lemma hl_token_prefix st t : exists suf, h_lines (hl_token st t) = h_lines st ++ suf.
Proof.
  destruct (hl_newline_prefix st t) as (s1 & E1). unfold hl_token.
  destruct (new_type t); [|exists s1; exact E1].
  destruct (tk_srow t <? tk_erow t)%Z; cbn [h_lines]; rewrite E1.
  - eexists. rewrite <- app_assoc. reflexivity.
  - exists s1. reflexivity.
Qed.
Lemma hl_loop_prefix : forall toks st, exists suf, hl_loop toks st = h_lines st ++ suf.
Proof.
  induction toks as [|t toks IH]; intros st; cbn [hl_loop]; [exists []; now rewrite app_nil_r|].
  destruct (tk_srow t =? 0)%Z; [apply IH|].
  destruct (hl_token_prefix st t) as (s1 & E1). destruct (IH (hl_token st t)) as (s2 & E2).
  destruct (tk_kind t); try (exists (s1 ++ s2); rewrite E2, E1, app_assoc; reflexivity).
  eexists; reflexivity.
Qed.

Definition has_real (ts : list token) : Prop := exists t, In t ts /\ new_type t <> None.
Lemma run_row_some ln r : forall ts c st,
  on_row ln r c st -> row_wf ln r c ts -> has_real ts ->
  h_last (run_tokens ts st) = Some ln /\ h_type (run_tokens ts st) <> None.
Proof.
  induction ts as [|t ts IH]; intros c st Hon Hwf (t0 & Hin & Hreal); [contradiction|].
  cbn [run_tokens fold_left]. cbn [row_wf] in Hwf. destruct Hwf as (Ht & Hrest).
  pose proof (hl_token_on_row ln r c st t Hon Ht) as Hstep.
  destruct (new_type t) as [nt|] eqn:Ent.
  - destruct Hrest as (Hle & Hrest). destruct (Hstep Hle) as (Hon' & _ & Hlast).
    assert (h_type (hl_token st t) <> None) as Hty.
    { unfold hl_token. rewrite Ent. destruct (tk_srow t <? tk_erow t)%Z; cbn [h_type]; discriminate. }
    clear Hstep. revert Hon' Hrest Hlast Hty. generalize (hl_token st t) (tk_ecol t). clear.
    induction ts as [|t ts IH]; intros st c Hon Hwf Hlast Hty; cbn [fold_left]; [split; assumption|].
    cbn [row_wf] in Hwf. destruct Hwf as (Ht & Hrest).
    pose proof (hl_token_on_row ln r c st t Hon Ht) as Hstep.
    destruct (new_type t) as [nt|] eqn:Ent.
    + destruct Hrest as (Hle & Hrest). destruct (Hstep Hle) as (Hon' & _ & Hlast').
      apply (IH _ _ Hon' Hrest Hlast').
      unfold hl_token. rewrite Ent. destruct (tk_srow t <? tk_erow t)%Z; cbn [h_type]; discriminate.
    + rewrite Hstep. now apply (IH _ _ Hon Hrest).
  - rewrite Hstep. destruct Hin as [->|Hin]; [congruence|]. apply (IH _ _ Hon Hrest). exists t0. split; assumption.
Qed.

Definition lines_inv (st : hst) : Prop := Z.of_nat (length (h_lines st)) = (h_curline st - 1)%Z.

Lemma nth_error_app_here {X} (l : list X) x rest : nth_error (l ++ x :: rest) (length l) = Some x.
Proof. rewrite nth_error_app2 by lia. now rewrite Nat.sub_diag. Qed.

Lemma newline_keeps_inv st t : lines_inv st -> (h_curline st <= tk_srow t)%Z -> lines_inv (hl_newline st t).
Proof.
  unfold lines_inv, hl_newline. intros H Hle. destruct (Z.ltb_spec (h_curline st) (tk_srow t)); [|exact H].
  cbn [h_lines h_curline]. rewrite !app_length. cbn [length]. rewrite repeat_length. lia.
Qed.
(* The row theorem.  st: the state reached before the row (any earlier tokens); the row's tokens lie on the physical
   line ln, in order, each covering its own slice; then comes a token of a later row, or the end marker. *)
Lemma row_in_place ln r st row nxt post :
  lines_inv st -> before_row r st -> (1 <= r)%Z ->
  row <> [] -> row_wf ln r 0 row -> has_real row -> phys_line ln ->
  tk_srow nxt <> 0%Z ->
  (tk_kind nxt = TkEnd /\ Forall (fun c => is_space c = true) (skipn (Z.to_nat (row_end 0 row)) ln)
   \/ tk_kind nxt <> TkEnd /\ (r < tk_srow nxt)%Z) ->
  exists closed, nth_error (hl_loop (row ++ nxt :: post) st) (Z.to_nat (r - 1)) = Some closed /\ closes_as ln closed.
Proof.
  intros Hinv Hbefore Hr1 Hne Hwf Hreal Hphys Hnz Hnext.
  assert (Forall not_end row) as Hrow_ne.
  { clear -Hwf. revert Hwf. generalize 0%Z. induction row as [|t ts IH]; intros c Hwf; constructor.
    - cbn [row_wf] in Hwf. destruct Hwf as ((_ & _ & _ & _ & Hk & _) & _). right. exact Hk.
    - cbn [row_wf] in Hwf. destruct Hwf as (_ & Hrest). destruct (new_type t); [destruct Hrest as (_ & Hrest)|]; eapply IH; eassumption. }
  rewrite hl_loop_app by exact Hrow_ne.
  assert (fold_left hl_step row st = run_tokens row st) as ->.
  { clear -Hwf. revert st Hwf. generalize 0%Z. induction row as [|t ts IH]; intros c st Hwf; [reflexivity|].
    cbn [fold_left run_tokens]. cbn [row_wf] in Hwf. destruct Hwf as ((Hs & _ & _ & _ & _ & Hr0 & _) & Hrest).
    unfold hl_step at 2. destruct (Z.eqb_spec (tk_srow t) 0); [congruence|].
    destruct (new_type t); [destruct Hrest as (_ & Hrest)|]; eapply IH; eassumption. }
  destruct row as [|t1 rest]; [contradiction|].
  assert (tk_srow t1 = r) as Hs1 by (cbn [row_wf] in Hwf; destruct Hwf as ((H & _) & _); exact H).
  destruct (newline_opens_row ln r st t1 Hbefore Hs1) as (Hon0 & Hlines0).
  assert (run_tokens (t1 :: rest) st = run_tokens (t1 :: rest) (hl_newline st t1)) as Erun.
  { unfold run_tokens. cbn [fold_left]. now rewrite (hl_token_newline st t1), (hl_token_newline (hl_newline st t1) t1), hl_newline_idem. }
  rewrite Erun. set (st0 := hl_newline st t1) in *.
  destruct (run_row ln r (t1 :: rest) 0 st0 Hon0 Hwf) as (Hon1 & Hlines1).
  destruct (run_row_some ln r (t1 :: rest) 0 st0 Hon0 Hwf Hreal) as (Hlast1 & Hty1).
  set (st1 := run_tokens (t1 :: rest) st0) in *.
  assert (length (h_lines st1) = Z.to_nat (r - 1)) as Hlen.
  { rewrite Hlines1. pose proof (newline_keeps_inv st t1 Hinv) as Hinv0. fold st0 in Hinv0.
    unfold lines_inv in Hinv0. destruct Hon0 as (Hcl0 & _). rewrite Hcl0 in Hinv0.
    assert ((h_curline st <= tk_srow t1)%Z) as Hle by (rewrite Hs1; destruct Hbefore as [Hlt|(-> & ->)]; [lia|cbn; lia]).
    specialize (Hinv0 Hle). lia. }
  destruct Hnext as [(Hend & Hspace)|(Hnend & Hlater)].
  - cbn [hl_loop]. destruct (Z.eqb_spec (tk_srow nxt) 0); [contradiction|]. rewrite Hend.
    eexists. split; [rewrite <- Hlen; apply nth_error_app_here|].
    destruct Hon1 as (_ & Hc1 & Hc0 & Ht1 & _). destruct (h_type st1) as [ty|]; [|contradiction].
    unfold closes_as, flush_chunk. rewrite chunks_text_app. unfold chunks_text at 2. cbn [flat_map snd]. rewrite app_nil_r.
    unfold text_of in Ht1. rewrite Ht1. rewrite <- (firstn_skipn (Z.to_nat (row_end 0 (t1 :: rest))) ln) at 2.
    symmetry. apply rstrip_app_spaces. exact Hspace.
  - cbn [hl_loop]. destruct (Z.eqb_spec (tk_srow nxt) 0); [contradiction|].
    assert (exists more, h_lines (hl_token st1 nxt)
              = h_lines st1 ++ (h_line st1 ++ flush_chunk (h_type st1) (rstrip_nl (h_buf st1) ++ line_rest st1)) :: more) as (more & Emore).
    { rewrite hl_token_newline. destruct (hl_token_prefix (hl_newline st1 nxt) nxt) as (suf & E). rewrite E.
      unfold hl_newline. destruct Hon1 as (Hcl & _). rewrite Hcl. destruct (Z.ltb_spec r (tk_srow nxt)); [|lia].
      cbn [h_lines]. eexists. rewrite <- !app_assoc. cbn [app]. reflexivity. }
    assert (exists suf, hl_loop post (hl_token st1 nxt) = h_lines (hl_token st1 nxt) ++ suf) as (suf & Esuf) by apply hl_loop_prefix.
    assert (hl_loop post (hl_token st1 nxt) = match tk_kind nxt with TkEnd => h_lines st1 ++ [h_line st1 ++ flush_chunk (h_type st1) (h_buf st1)] | _ => hl_loop post (hl_token st1 nxt) end) as E0
      by (destruct (tk_kind nxt); try reflexivity; congruence).
    rewrite <- E0, Esuf, Emore, <- app_assoc. cbn [app].
    eexists. split; [rewrite <- Hlen; apply nth_error_app_here|].
    apply (close_row ln r _ st1 Hon1 Hlast1 Hphys Hty1).
Qed.

(* ---- the invariant "as many lines as rows passed" along a whole token stream ---- *)
(* rows_ok c ts c': from current row c, the tokens ts (rows never decreasing, a token that spans rows holding as many
   line breaks as rows it spans) lead to current row c' *)
Fixpoint rows_ok (c : Z) (ts : list token) (c' : Z) : Prop :=
  match ts with
  | [] => c' = c
  | t :: rest =>
    if (tk_srow t =? 0)%Z then rows_ok c rest c'
    else (c <= tk_srow t <= tk_erow t)%Z /\
         ((tk_srow t < tk_erow t)%Z -> new_type t <> None ->
          Z.of_nat (length (split_on NL (tk_str t))) = (tk_erow t - tk_srow t + 1)%Z) /\
         rows_ok (match new_type t with None => tk_srow t | Some _ => tk_erow t end) rest c'
  end.
Lemma removelast_length {X} (l : list X) : length (removelast l) = (length l - 1)%nat.
Proof.
  induction l as [|x l IH]; [reflexivity|]. destruct l as [|y l]; [reflexivity|].
  change (removelast (x :: y :: l)) with (x :: removelast (y :: l)). cbn [length] in *. lia.
Qed.
Lemma hl_token_inv st t :
  lines_inv st -> (h_curline st <= tk_srow t <= tk_erow t)%Z ->
  ((tk_srow t < tk_erow t)%Z -> new_type t <> None ->
   Z.of_nat (length (split_on NL (tk_str t))) = (tk_erow t - tk_srow t + 1)%Z) ->
  lines_inv (hl_token st t) /\ h_curline (hl_token st t) = match new_type t with None => tk_srow t | Some _ => tk_erow t end.
Proof.
  intros Hinv Hrows Hml. pose proof (newline_keeps_inv st t Hinv ltac:(lia)) as H0.
  assert (h_curline (hl_newline st t) = tk_srow t) as Hc0.
  { unfold hl_newline. destruct (Z.ltb_spec (h_curline st) (tk_srow t)); cbn [h_curline]; lia. }
  unfold hl_token. destruct (new_type t) as [nt|]; [|split; assumption].
  destruct (Z.ltb_spec (tk_srow t) (tk_erow t)) as [Hlt|Hge]; unfold lines_inv in *; cbn [h_lines h_curline].
  - split; [|reflexivity]. specialize (Hml Hlt ltac:(discriminate)).
    rewrite !app_length, map_length, removelast_length. cbn [length].
    destruct (split_on NL (tk_str t)) as [|a tls]; cbn [length tl] in *; lia.
  - split; [|lia]. rewrite H0, Hc0. reflexivity.
Qed.
Lemma rows_ok_inv : forall ts c c' st,
  lines_inv st -> h_curline st = c -> rows_ok c ts c' ->
  lines_inv (fold_left hl_step ts st) /\ h_curline (fold_left hl_step ts st) = c'.
Proof.
  induction ts as [|t ts IH]; intros c c' st Hinv Hc Hok; cbn [fold_left rows_ok] in *; [split; [assumption|congruence]|].
  unfold hl_step at 2 4. destruct (tk_srow t =? 0)%Z; [now apply (IH c)|].
  destruct Hok as (Hrows & Hml & Hrest). rewrite <- Hc in Hrows.
  destruct (hl_token_inv st t Hinv Hrows Hml) as (Hinv' & Hc'). apply (IH _ _ _ Hinv' Hc' Hrest).
Qed.
Lemma init_inv : lines_inv hst_init. Proof. reflexivity. Qed.

(* The highlighter shows a row made of single-line tokens at its place and verbatim (up to trailing white space):
   pre = the tokens before the row (any rows, multi-line tokens included), row = the tokens of row r on the physical
   line ln, nxt = the first token after them. *)
Theorem row_shown_l pre row nxt post ln r c0 :
  Forall not_end pre -> rows_ok 1 pre c0 -> (c0 < r \/ Forall (fun t => tk_srow t = 0) pre /\ r = 1)%Z -> (1 <= r)%Z ->
  row <> [] -> row_wf ln r 0 row -> has_real row -> phys_line ln ->
  tk_srow nxt <> 0%Z ->
  (tk_kind nxt = TkEnd /\ Forall (fun c => is_space c = true) (skipn (Z.to_nat (row_end 0 row)) ln)
   \/ tk_kind nxt <> TkEnd /\ (r < tk_srow nxt)%Z) ->
  exists closed, nth_error (split_chunks (pre ++ row ++ nxt :: post)) (Z.to_nat (r - 1)) = Some closed /\ closes_as ln closed.
Proof.
  intros Hne Hrows Hbefore Hr1 Hrow Hwf Hreal Hphys Hnz Hnext.
  unfold split_chunks. rewrite hl_loop_app by exact Hne.
  destruct (rows_ok_inv pre 1 c0 hst_init init_inv eq_refl Hrows) as (Hinv & Hc).
  apply row_in_place; try assumption.
  destruct Hbefore as [Hlt|(Henc & ->)]; [left; lia|right].
  split; [|reflexivity]. clear -Henc. induction pre as [|t pre IH]; [reflexivity|].
  inversion Henc as [|? ? Ht Hr]; subst. cbn [fold_left]. unfold hl_step at 2. rewrite Ht. cbn. apply IH, Hr.
Qed.

(* the number of lines: one per row up to the end marker *)
Lemma split_chunks_length pre e post c0 :
  Forall not_end pre -> rows_ok 1 pre c0 -> tk_kind e = TkEnd -> tk_srow e <> 0%Z ->
  Z.of_nat (length (split_chunks (pre ++ e :: post))) = c0.
Proof.
  intros Hne Hrows He Hz. unfold split_chunks. rewrite hl_loop_app by exact Hne.
  destruct (rows_ok_inv pre 1 c0 hst_init init_inv eq_refl Hrows) as (Hinv & Hc).
  cbn [hl_loop]. destruct (Z.eqb_spec (tk_srow e) 0); [contradiction|]. rewrite He.
  rewrite app_length. cbn [length]. unfold lines_inv in Hinv. lia.
Qed.

(* ------------------------------------------------------------------ compact keeps frames *)
Definition all_frames (P : frame -> Prop) (cs : list coll) : Prop := Forall (fun c => Forall P (c_frames c)) cs.
Lemma Forall_firstn {X} (P : X -> Prop) n (l : list X) : Forall P l -> Forall P (firstn n l).
Proof. intros H. apply Forall_forall. intros x Hx. rewrite Forall_forall in H. apply H. rewrite <- (firstn_skipn n l). apply in_or_app. now left. Qed.
Lemma Forall_skipn {X} (P : X -> Prop) n (l : list X) : Forall P l -> Forall P (skipn n l).
Proof. intros H. apply Forall_forall. intros x Hx. rewrite Forall_forall in H. apply H. rewrite <- (firstn_skipn n l). apply in_or_app. now right. Qed.
Lemma compact_loop_sub (P : frame -> Prop) : forall fuel rest cur acc,
  Forall P rest -> Forall P (c_frames cur) -> all_frames P acc -> all_frames P (compact_loop fuel rest cur acc).
Proof.
  unfold all_frames.
  induction fuel as [|fuel IH]; intros rest cur acc Hr Hc Ha; cbn [compact_loop].
  - apply Forall_app. split; [exact Ha|]. constructor; [exact Hc|constructor].
  - destruct rest as [|x after]; [apply Forall_app; split; [exact Ha|constructor; [exact Hc|constructor]]|].
    destruct after as [|y after']; [apply Forall_app; split; [exact Ha|constructor; [exact Hc|constructor]]|].
    set (after := y :: after') in *.
    assert (Forall P after) as Hafter by (inversion Hr; assumption).
    assert (P x) as Hx by (inversion Hr; assumption).
    destruct (dup_offsets x after 0) as [|d0 ds].
    + destruct (coll_repeated cur).
      * apply IH; cbn [c_frames]; [exact Hafter|constructor; [exact Hx|constructor]|].
        apply Forall_app. split; [exact Ha|constructor; [exact Hc|constructor]].
      * apply IH; cbn [c_frames]; [exact Hafter| |exact Ha]. apply Forall_app. split; [exact Hc|constructor; [exact Hx|constructor]].
    + destruct (find_same (x :: after) (c_frames cur) (d0 :: ds)) as [d|].
      * apply IH; cbn [c_frames]; [apply Forall_skipn; exact Hr|exact Hc|exact Ha].
      * apply IH; cbn [c_frames]; [apply Forall_skipn; exact Hr|apply Forall_firstn; exact Hr|].
        apply Forall_app. split; [exact Ha|constructor; [exact Hc|constructor]].
Qed.
(* every frame of every collection is a frame of the stack *)
Lemma compact_sub_l l f : In f (flat_map c_frames (compact l)) -> In f l.
Proof.
  intros Hin. apply in_flat_map in Hin. destruct Hin as (cl & Hcl & Hf).
  pose proof (compact_loop_sub (fun g => In g l) (length l) l {| c_frames := []; c_count := 0 |} []) as H.
  unfold all_frames in H.
  assert (Forall (fun g => In g l) l) as Hall by (apply Forall_forall; auto).
  specialize (H Hall (Forall_nil _) (Forall_nil _)). rewrite Forall_forall in H. specialize (H cl Hcl).
  rewrite Forall_forall in H. apply H, Hf.
Qed.

(* ------------------------------------------------------------------ the ignore filter *)
Definition trace_frames (c : tcfg) (fs : list frame) : list frame := flat_map c_frames (compact (kept_frames c fs)).
Lemma kept_frames_spec c fs f : In f (kept_frames c fs) <-> In f fs /\ (f_ignored f = false \/ t_debug c = true).
Proof.
  unfold kept_frames. rewrite filter_In. split; intros (Hin & H); (split; [exact Hin|]).
  - destruct (f_ignored f), (t_debug c); cbn in H; auto; discriminate.
  - destruct H as [-> | ->]; [reflexivity|]. now rewrite andb_false_r.
Qed.
(* a listed frame is a frame of the traceback that is not under an ignored path - unless the verbosity is debug *)
Lemma listed_frames_kept c fs f : In f (trace_frames c fs) -> In f fs /\ (f_ignored f = false \/ t_debug c = true).
Proof. intros H. apply kept_frames_spec. apply compact_sub_l. exact H. Qed.
Lemma filter_idem {X} (p : X -> bool) : forall l, filter p (filter p l) = filter p l.
Proof.
  induction l as [|x l IH]; [reflexivity|]. cbn [filter]. destruct (p x) eqn:E; [|exact IH].
  cbn [filter]. rewrite E. now rewrite IH.
Qed.
Lemma kept_idem c fs : kept_frames c (kept_frames c fs) = kept_frames c fs.
Proof. apply filter_idem. Qed.
Lemma kept_not_debug c fs : t_debug c = false -> kept_frames c fs = filter (fun f => negb (f_ignored f)) fs.
Proof. intros H. unfold kept_frames. apply filter_ext. intros f. now rewrite H, andb_true_r. Qed.
Lemma kept_debug c fs : t_debug c = true -> kept_frames c fs = fs.
Proof.
  intros H. unfold kept_frames. induction fs as [|f fs IH]; [reflexivity|]. cbn [filter].
  assert (negb (f_ignored f && negb (t_debug c)) = true) as -> by (rewrite H, andb_false_r; reflexivity).
  f_equal. exact IH.
Qed.
(* below debug verbosity the stack trace is what it would be if the frames under an ignored path did not exist *)
Lemma ignored_frames_invisible c ind fs :
  t_debug c = false -> render_trace c ind fs = render_trace c ind (filter (fun f => negb (f_ignored f)) fs).
Proof.
  intros H. unfold render_trace. rewrite <- (kept_not_debug c fs H), kept_idem. reflexivity.
Qed.
(* at debug verbosity the ignore pattern has no effect *)
Lemma debug_lists_all c fs : t_debug c = true -> kept_frames c fs = fs.
Proof. intros H. now apply kept_debug. Qed.

(* every frame handed to frames_lines gets its location line *)
Definition loc_line (c : tcfg) (ind w : Z) (f : frame) (i : Z) : wline :=
  (ind, s_yellow ++ rjust (dec_text i) w ++ s_frame_mid ++ location c th_builtin f).
Lemma frames_lines_lists c ind w : forall fs i ls i', frames_lines c ind w fs i = Ok (ls, i') ->
  i' = (i - zlen fs)%Z /\ forall f, In f fs -> exists k, In (loc_line c ind w f k) ls.
Proof.
  induction fs as [|f fs IH]; intros i ls i' H; cbn [frames_lines] in H.
  - injection H as <- <-. split; [unfold zlen; cbn; lia|intros f []].
  - destruct (frame_code c ind w f) as [code|e]; cbn [bind] in H; [|discriminate].
    destruct (frames_lines c ind w fs (i - 1)) as [[rest j]|e] eqn:E; cbn [bind fst snd] in H; [|discriminate].
    injection H as <- <-. destruct (IH _ _ _ E) as (Hj & Hall). split; [unfold zlen in *; cbn [length]; lia|].
    intros g [->|Hg].
    + exists i. right. left. reflexivity.
    + destruct (Hall g Hg) as (k & Hk). exists k. right. right. apply in_or_app. right. exact Hk.
Qed.
Lemma colls_lines_lists c ind w : forall cs i ls, colls_lines c ind w cs i = Ok ls ->
  forall f, In f (flat_map c_frames cs) -> exists k, In (loc_line c ind w f k) ls.
Proof.
  induction cs as [|cl cs IH]; intros i ls H f Hf; cbn [colls_lines flat_map] in *; [contradiction|].
  destruct (frames_lines c ind w (c_frames cl) _) as [[fl j]|e] eqn:E; cbn [bind fst snd] in H; [|discriminate].
  destruct (colls_lines c ind w cs j) as [rest|e] eqn:E2; cbn [bind] in H; [|discriminate].
  injection H as <-. apply in_app_or in Hf. destruct Hf as [Hf|Hf].
  - destruct (frames_lines_lists _ _ _ _ _ _ _ E) as (_ & Hall). destruct (Hall f Hf) as (k & Hk). exists k.
    apply in_or_app. right. apply in_or_app. left. exact Hk.
  - destruct (IH _ _ E2 f Hf) as (k & Hk). exists k. apply in_or_app. right. apply in_or_app. right. exact Hk.
Qed.
(* when the stack trace is printed, every frame compact kept has its location line in it *)
Lemma render_trace_lists c ind fs ls :
  t_verbose c = true -> (zlen (kept_frames c fs) - 1 <> 0)%Z -> render_trace c ind fs = Ok ls ->
  forall f, In f (trace_frames c fs) -> exists k w, In (loc_line c ind w f k) ls.
Proof.
  intros Hv Hrem H f Hf. unfold render_trace in H. rewrite Hv in H.
  destruct (Z.eqb_spec (zlen (kept_frames c fs) - 1) 0) as [E|E]; [contradiction|]. cbn [negb andb] in H.
  destruct (colls_lines c ind _ (compact (kept_frames c fs)) _) as [l|e] eqn:EC; cbn [bind] in H; [|discriminate].
  injection H as <-. destruct (colls_lines_lists _ _ _ _ _ _ EC f Hf) as (k & Hk). exists k. eexists. right. right. exact Hk.
Qed.

(* ------------------------------------------------------------------ the shape of a full report *)
Definition name_line (x : exn_case) : str := s_error_open ++ literal (x_name x) st_error ++ s_error_close.
Definition msg_line (x : exn_case) : str := s_b_open ++ replace [NL] nl_indent (literal (x_msg x) st_b) ++ s_b_close.
Lemma render_exception_shape c ind x ls :
  x_frames x <> [] -> render_exception c ind x = Ok ls ->
  exists tr sn, render_trace c ind (x_frames x) = Ok tr /\
    ls = tr ++ [(ind, []); (ind, name_line x); (ind, []); (ind, msg_line x)] ++ sn.
Proof.
  intros Hne H. unfold render_exception in H. destruct (x_frames x) as [|f0 fs] eqn:EF; [contradiction|].
  destruct (render_trace c ind (f0 :: fs)) as [tr|e]; cbn [bind] in H; [|discriminate].
  destruct (render_snippet c ind _) as [sn|e]; cbn [bind] in H; [|discriminate].
  injection H as <-. exists tr, sn. split; [reflexivity|]. unfold render_line, name_line, msg_line. cbn [app repeat Z.to_nat]. reflexivity.
Qed.
Lemma render_simple_shape c ind x : render_lines c true ind x = Ok [(ind, s_error_open ++ literal (x_msg x) st_error ++ s_error_close)].
Proof. reflexivity. Qed.

(* ------------------------------------------------------------------ the lines of a report always exist *)
(* Since fix caca46b the renderer catches whatever reading / tokenizing the source raises: no snippet lines for such a
   file, the frame's own line shown plain.  So none of the res-valued functions of the renderer is ever Err. *)
Definition tok_ok (t : tokres) : Prop := exists toks, t = TokOk toks.
Lemma snippet_of_total c t line before after : exists ls, snippet_of c t line before after = Ok ls.
Proof. unfold snippet_of. destruct t; eexists; reflexivity. Qed.
Lemma snippet_of_tokens c toks line before after :
  snippet_of c (TokOk toks) line before after = Ok (code_snippet (ui_of (t_utf8 c)) toks line before after).
Proof. reflexivity. Qed.
(* a source that cannot be read or tokenized: no snippet lines *)
Lemma snippet_of_unreadable c t line before after : ~ tok_ok t -> snippet_of c t line before after = Ok [].
Proof. intros H. unfold snippet_of. destruct t as [toks| |]; [|reflexivity|reflexivity]. exfalso. apply H. exists toks. reflexivity. Qed.

(* the text under a listed frame below debug verbosity: the first highlighted line of the frame's own line, or - when
   tokenize raised on it, or no line came out - the line as it is *)
Definition plain_code (f : frame) : str := styled HDefault (strip (f_line f)).
Definition frame_text (f : frame) : str :=
  match f_linetoks f with
  | TokOk toks => match split_to_lines toks with l :: _ => l | [] => plain_code f end
  | _ => plain_code f
  end.
Lemma frame_code_verbose c ind w f : t_debug c = false ->
  frame_code c ind w f = Ok (render_line ind (rjust [32%N] w ++ [32; 32]%N ++ frame_text f) false 0).
Proof. intros H. unfold frame_code, frame_text, plain_code. rewrite H. destruct (f_linetoks f); reflexivity. Qed.
Lemma frame_text_fallback f : ~ tok_ok (f_linetoks f) -> frame_text f = plain_code f.
Proof. intros H. unfold frame_text. destruct (f_linetoks f) as [toks| |]; [|reflexivity|reflexivity]. exfalso. apply H. exists toks. reflexivity. Qed.
(* at debug verbosity: the snippet lines (none for an unreadable source) *)
Lemma frame_code_debug c ind w f : t_debug c = true ->
  exists sn, snippet_of c (f_content f) (f_lineno f) 2 2 = Ok sn /\
    frame_code c ind w f = Ok (flat_map (fun l => render_line ind (rjust [32%N] w ++ l) false 1) sn).
Proof.
  intros H. unfold frame_code. rewrite H. destruct (snippet_of_total c (f_content f) (f_lineno f) 2 2) as (sn & E).
  exists sn. split; [exact E|]. rewrite E. reflexivity.
Qed.
Lemma frame_code_debug_unreadable c ind w f : t_debug c = true -> ~ tok_ok (f_content f) -> frame_code c ind w f = Ok [].
Proof. intros H Hn. unfold frame_code. rewrite H, (snippet_of_unreadable c _ _ 2 2 Hn). reflexivity. Qed.
Lemma frame_code_total c ind w f : exists ls, frame_code c ind w f = Ok ls.
Proof.
  destruct (t_debug c) eqn:E.
  - destruct (frame_code_debug c ind w f E) as (sn & _ & H). eexists. exact H.
  - eexists. apply frame_code_verbose, E.
Qed.
Lemma frames_lines_total c ind w : forall fs i, exists r, frames_lines c ind w fs i = Ok r.
Proof.
  induction fs as [|f fs IH]; intros i; cbn [frames_lines]; [eexists; reflexivity|].
  destruct (frame_code_total c ind w f) as (code & ->). destruct (IH (i - 1)%Z) as (rest & ->). cbn [bind]. eexists. reflexivity.
Qed.
Lemma colls_lines_total c ind w : forall cs i, exists r, colls_lines c ind w cs i = Ok r.
Proof.
  induction cs as [|cl cs IH]; intros i; cbn [colls_lines]; [eexists; reflexivity|].
  match goal with |- exists r, bind (frames_lines c ind w (c_frames cl) ?j) _ = _ => destruct (frames_lines_total c ind w (c_frames cl) j) as (fl & ->) end.
  cbn [bind]. destruct (IH (snd fl)) as (rest & ->). cbn [bind]. eexists. reflexivity.
Qed.
Lemma render_trace_total c ind fs : exists ls, render_trace c ind fs = Ok ls.
Proof.
  unfold render_trace. destruct (t_verbose c && negb (zlen (kept_frames c fs) - 1 =? 0)%Z); [|eexists; reflexivity].
  match goal with |- exists ls, bind (colls_lines c ind ?w ?cs ?i) _ = _ => destruct (colls_lines_total c ind w cs i) as (l & ->) end.
  cbn [bind]. eexists. reflexivity.
Qed.
Lemma render_snippet_total c ind f : exists ls, render_snippet c ind f = Ok ls.
Proof.
  unfold render_snippet. destruct (snippet_of_total c (f_content f) (f_lineno f) 4 4) as (sn & ->). cbn [bind]. eexists. reflexivity.
Qed.
(* an unreadable source: the location line alone *)
Lemma render_snippet_unreadable c ind f : ~ tok_ok (f_content f) ->
  render_snippet c ind f = Ok (render_line ind (s_at ++ location c st_green f) true 0).
Proof. intros H. unfold render_snippet. rewrite (snippet_of_unreadable c _ _ 4 4 H). cbn [bind flat_map]. now rewrite app_nil_r. Qed.
Lemma render_exception_total c ind x : exists ls, render_exception c ind x = Ok ls.
Proof.
  unfold render_exception. destruct (x_frames x) as [|f0 fs]; [eexists; reflexivity|].
  destruct (render_trace_total c ind (f0 :: fs)) as (tr & ->). cbn [bind].
  match goal with |- exists ls, bind (render_snippet c ind ?f) _ = _ => destruct (render_snippet_total c ind f) as (sn & ->) end.
  cbn [bind]. eexists. reflexivity.
Qed.
(* ExceptionTrace.render always has its write_line calls: for every configuration, report mode, indentation and
   exception case - whatever tokenize did on the sources *)
Theorem render_lines_total c simple ind x : exists ls, render_lines c simple ind x = Ok ls.
Proof. unfold render_lines. destruct simple; [eexists; reflexivity|apply render_exception_total]. Qed.

(* hence the conditional statements above hold of the lines that exist *)
Lemma render_trace_lists_total c ind fs :
  t_verbose c = true -> (zlen (kept_frames c fs) - 1 <> 0)%Z ->
  exists ls, render_trace c ind fs = Ok ls /\ forall f, In f (trace_frames c fs) -> exists k w, In (loc_line c ind w f k) ls.
Proof.
  intros Hv Hrem. destruct (render_trace_total c ind fs) as (ls & H). exists ls. split; [exact H|].
  apply (render_trace_lists c ind fs ls Hv Hrem H).
Qed.
Lemma render_exception_shape_total c ind x :
  x_frames x <> [] ->
  exists tr sn, render_trace c ind (x_frames x) = Ok tr /\
    render_exception c ind x = Ok (tr ++ [(ind, []); (ind, name_line x); (ind, []); (ind, msg_line x)] ++ sn).
Proof.
  intros Hne. destruct (render_exception_total c ind x) as (ls & H).
  destruct (render_exception_shape c ind x ls Hne H) as (tr & sn & HT & ->). exists tr, sn. split; [exact HT|exact H].
Qed.
