(* Proofs about the exception-trace model (C20). *)
From Coq Require Import Lia.
From Clikit Require Import Base.Prelude Base.Res Model.Conv Model.Markup Model.OutputM Model.Trace.

Lemma number_from_length u w mark : forall lines i, length (number_from u w mark i lines) = length lines.
Proof. induction lines as [|l r IH]; intros i; cbn [number_from length]; [reflexivity|]. now rewrite IH. Qed.
Lemma line_numbers_length_l u lines mark : length (line_numbers u lines mark) = length lines.
Proof. apply number_from_length. Qed.
