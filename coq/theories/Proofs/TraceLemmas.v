(* Proofs about the exception-trace model (C20): line numbering and the snippet window; the highlighter shows the
   rows of the source in their places and every row made of single-line tokens verbatim (up to trailing white
   space); compact keeps frames; the stack trace lists kept frames only. *)
From Coq Require Import Lia.
From Clikit Require Import Base.Prelude Base.Res Model.Conv Model.Markup Model.OutputM Model.Trace Proofs.OutputLemmas.

(* ------------------------------------------------------------------ line numbers and the snippet window *)
Definition number_line (u : ui) (w mark i : Z) (l : str) : str :=
  (if (mark =? i)%Z then tagged th_marker (u_arrow u) ++ [32%N] else [32; 32]%N)
    ++ tagged (if (mark =? i)%Z then th_bold_default else th_lineno) (rjust (dec_text i) w)
    ++ tagged th_lineno (u_delim u) ++ [32%N] ++ l.
Lemma number_from_length u w mark : forall lines i, length (number_from u w mark i lines) = length lines.
Proof. induction lines as [|l r IH]; intros i; cbn [number_from length]; [reflexivity|]. now rewrite IH. Qed.
Lemma line_numbers_length_l u lines mark : length (line_numbers u lines mark) = length lines.
Proof. apply number_from_length. Qed.
Lemma number_from_nth u w mark : forall lines i k d,
  (k < length lines)%nat ->
  nth k (number_from u w mark i lines) d = number_line u w mark (i + Z.of_nat k)%Z (nth k lines []).
Proof.
  induction lines as [|l r IH]; intros i k d Hk; cbn [length] in Hk; [lia|].
  destruct k as [|k]; cbn [number_from nth].
  - unfold number_line. now rewrite Z.add_0_r.
  - rewrite IH by lia. f_equal. lia.
Qed.
(* the k-th line carries the number k+1, right-aligned, and the marker exactly when k+1 is the marked line *)
Lemma line_numbers_nth u lines mark k d :
  (k < length lines)%nat ->
  nth k (line_numbers u lines mark) d
  = number_line u (number_width (length lines)) mark (Z.of_nat k + 1)%Z (nth k lines []).
Proof. intros Hk. unfold line_numbers. rewrite number_from_nth by exact Hk. f_equal. lia. Qed.

Definition marked (u : ui) (s : str) : Prop := exists rest, s = tagged th_marker (u_arrow u) ++ rest.
Lemma tagged_not_blank st t rest : tagged st t ++ rest <> 32%N :: 32%N :: rest.
Proof. unfold tagged. cbn. intros H. inversion H. Qed.
Lemma number_line_marked u w mark i l : marked u (number_line u w mark i l) <-> mark = i.
Proof.
  unfold number_line, marked. destruct (Z.eqb_spec mark i) as [->|Hn]; split.
  - reflexivity.
  - intros _. eexists. rewrite <- app_assoc. reflexivity.
  - intros (rest & H). unfold tagged in H. cbn in H. inversion H.
  - intros H. contradiction.
Qed.
Lemma marks_exactly_l u lines mark k d :
  (k < length lines)%nat -> (marked u (nth k (line_numbers u lines mark) d) <-> mark = (Z.of_nat k + 1)%Z).
Proof. intros Hk. rewrite line_numbers_nth by exact Hk. apply number_line_marked. Qed.

(* the snippet is a window of consecutive numbered lines that contains the marked line *)
Lemma code_snippet_window u toks line before after :
  code_snippet u toks line before after
  = firstn (Z.to_nat (after + before + 1)) (skipn (Z.to_nat (Z.max (line - before - 1) 0)) (line_numbers u (split_to_lines toks) line)).
Proof. reflexivity. Qed.
Lemma nth_firstn_lt {X} : forall n (l : list X) k d, (k < n)%nat -> nth k (firstn n l) d = nth k l d.
Proof.
  induction n as [|n IH]; intros l k d Hk; [lia|]. destruct l as [|x l]; cbn [firstn]; [reflexivity|].
  destruct k; cbn [nth]; [reflexivity|]. apply IH. lia.
Qed.
Lemma nth_skipn_add {X} : forall a (l : list X) k d, nth k (skipn a l) d = nth (a + k) l d.
Proof.
  induction a as [|a IH]; intros l k d; [reflexivity|]. destruct l as [|x l]; cbn [skipn plus nth]; [destruct k; reflexivity|]. apply IH.
Qed.
Lemma nth_firstn_skipn {X} (l : list X) a n k d : (k < n)%nat -> nth k (firstn n (skipn a l)) d = nth (a + k) l d.
Proof. intros Hk. rewrite nth_firstn_lt by exact Hk. apply nth_skipn_add. Qed.
Lemma code_snippet_nth u toks line before after k d :
  (0 <= before)%Z -> (0 <= after)%Z -> (Z.of_nat k < after + before + 1)%Z ->
  let off := Z.to_nat (Z.max (line - before - 1) 0) in
  (off + k < length (split_to_lines toks))%nat ->
  nth k (code_snippet u toks line before after) d
  = number_line u (number_width (length (split_to_lines toks))) line (Z.of_nat (off + k) + 1)%Z (nth (off + k) (split_to_lines toks) []).
Proof.
  intros Hb Ha Hk off Hlen. rewrite code_snippet_window. fold off.
  rewrite nth_firstn_skipn by lia. apply line_numbers_nth. exact Hlen.
Qed.
(* the failing line is in the window *)
Lemma code_snippet_has_line toks line before after :
  (0 <= before)%Z -> (0 <= after)%Z -> (1 <= line)%Z -> (line <= Z.of_nat (length (split_to_lines toks)))%Z ->
  exists k, (Z.of_nat k < after + before + 1)%Z /\
    (Z.of_nat (Z.to_nat (Z.max (line - before - 1) 0) + k) + 1)%Z = line /\
    (Z.to_nat (Z.max (line - before - 1) 0) + k < length (split_to_lines toks))%nat.
Proof.
  intros Hb Ha H1 Hn. exists (Z.to_nat (line - 1 - Z.max (line - before - 1) 0)). lia.
Qed.

(* ------------------------------------------------------------------ strings *)
Lemma firstn_add {X} (l : list X) : forall n m, firstn (n + m) l = firstn n l ++ firstn m (skipn n l).
Proof.
  induction l as [|x l IH]; intros n m.
  - rewrite skipn_nil, !firstn_nil. reflexivity.
  - destruct n as [|n]; cbn [plus firstn skipn app]; [reflexivity|]. now rewrite IH.
Qed.
Lemma firstn_slice (l : str) a b : (0 <= a <= b)%Z -> firstn (Z.to_nat a) l ++ slice l a b = firstn (Z.to_nat b) l.
Proof. intros H. unfold slice. rewrite <- firstn_add. f_equal. lia. Qed.
Lemma slice_empty (l : str) a : slice l a a = [].
Proof. unfold slice. now rewrite Z.sub_diag. Qed.

Lemma lstrip_app_lstrip x y : lstrip (lstrip x ++ y) = lstrip (x ++ y).
Proof.
  induction x as [|c x IH]; cbn [lstrip app]; [reflexivity|].
  destruct (is_space c) eqn:E; [exact IH|]. cbn [app lstrip]. now rewrite E.
Qed.
Lemma lstrip_spaces s y : Forall (fun c => is_space c = true) s -> lstrip (s ++ y) = lstrip y.
Proof. induction 1 as [|c s Hc _ IH]; cbn [app lstrip]; [reflexivity|]. now rewrite Hc. Qed.
Lemma rstrip_app_rstrip a b : rstrip_ws (a ++ rstrip_ws b) = rstrip_ws (a ++ b).
Proof. unfold rstrip_ws. rewrite !rev_app_distr, rev_involutive. f_equal. apply lstrip_app_lstrip. Qed.
Lemma rstrip_app_spaces a s : Forall (fun c => is_space c = true) s -> rstrip_ws (a ++ s) = rstrip_ws a.
Proof.
  intros H. unfold rstrip_ws. rewrite rev_app_distr. f_equal. apply lstrip_spaces.
  apply Forall_forall. intros c Hc. apply in_rev in Hc. rewrite Forall_forall in H. auto.
Qed.
Lemma NL_space : is_space NL = true. Proof. reflexivity. Qed.
Lemma rstrip_nl_ws a b : rstrip_ws (a ++ rstrip_nl b) = rstrip_ws (a ++ b).
Proof.
  destruct (rstrip_nl_spec b) as (k & E & _). rewrite E at 2. rewrite app_assoc. symmetry. apply rstrip_app_spaces.
  apply Forall_forall. intros c Hc. apply repeat_spec in Hc. subst. exact NL_space.
Qed.
Lemma rstrip_nl_no_nl b : ~ In NL b -> rstrip_nl b = b.
Proof.
  intros H. apply rstrip_nl_id. destruct (rev b) as [|c r] eqn:E; [exact I|].
  intros ->. apply H. apply in_rev. rewrite E. now left.
Qed.

(* ------------------------------------------------------------------ the highlighter: rows in their places *)
Definition text_of (st : hst) : str := chunks_text (h_line st) ++ h_buf st.
Lemma chunks_text_app a b : chunks_text (a ++ b) = chunks_text a ++ chunks_text b.
Proof. unfold chunks_text. apply flat_map_app. Qed.

(* a token of row r that lies on the physical line ln *)
Definition tok_on (ln : str) (r : Z) (t : token) : Prop :=
  tk_srow t = r /\ tk_erow t = r /\ tk_line t = ln /\ (0 <= tk_scol t <= tk_ecol t)%Z /\ tk_kind t <> TkEnd /\ r <> 0%Z /\
  (new_type t <> None -> tk_str t = slice ln (tk_scol t) (tk_ecol t)).
(* the tokens of a row, from column c on: ordered, each covering its own slice of the line *)
Fixpoint row_wf (ln : str) (r c : Z) (ts : list token) : Prop :=
  match ts with
  | [] => True
  | t :: rest => tok_on ln r t /\
                 match new_type t with
                 | None => row_wf ln r c rest
                 | Some _ => (c <= tk_scol t)%Z /\ row_wf ln r (tk_ecol t) rest
                 end
  end.
Fixpoint row_end (c : Z) (ts : list token) : Z :=
  match ts with
  | [] => c
  | t :: rest => match new_type t with None => row_end c rest | Some _ => row_end (tk_ecol t) rest end
  end.
Definition run_tokens (ts : list token) (st : hst) : hst := fold_left hl_token ts st.

(* the state while a row is being read: the text so far is the line up to the current column *)
Definition on_row (ln : str) (r c : Z) (st : hst) : Prop :=
  h_curline st = r /\ h_curcol st = c /\ (0 <= c)%Z /\ text_of st = firstn (Z.to_nat c) ln /\
  (h_last st = Some ln \/ (h_last st = None /\ c = 0%Z)).

Lemma hl_newline_same st t : tk_srow t = h_curline st -> hl_newline st t = st.
Proof. intros H. unfold hl_newline. rewrite H, Z.ltb_irrefl. reflexivity. Qed.

Lemma hl_token_on_row ln r c st t :
  on_row ln r c st -> tok_on ln r t ->
  match new_type t with
  | None => hl_token st t = st
  | Some _ => (c <= tk_scol t)%Z -> on_row ln r (tk_ecol t) (hl_token st t) /\ h_lines (hl_token st t) = h_lines st
              /\ h_last (hl_token st t) = Some ln
  end.
Proof.
  intros (Hl & Hc & Hc0 & Ht & Hlast) (Hs & He & Hln & Hcols & _ & _ & Hstr).
  unfold hl_token. rewrite hl_newline_same by congruence.
  destruct (new_type t) as [nt|] eqn:Ent; [|reflexivity].
  intros Hle. specialize (Hstr ltac:(discriminate)).
  assert ((tk_srow t <? tk_erow t)%Z = false) as Esl by (apply Z.ltb_ge; lia). rewrite Esl.
  set (cur := match h_type st with Some c0 => c0 | None => nt end).
  set (buf := if (h_curcol st <? tk_scol t)%Z then h_buf st ++ slice (tk_line t) (h_curcol st) (tk_scol t) else h_buf st).
  assert (chunks_text (h_line st) ++ buf = firstn (Z.to_nat (tk_scol t)) ln) as Hbuf.
  { unfold buf. rewrite Hc, Hln. destruct (Z.ltb_spec c (tk_scol t)).
    - rewrite app_assoc. unfold text_of in Ht. rewrite Ht. apply firstn_slice. lia.
    - assert (tk_scol t = c) as -> by lia. exact Ht. }
  cbn [h_lines h_curline h_curcol h_buf h_type h_line h_last]. split; [|split; [reflexivity|now rewrite Hln]].
  unfold on_row, text_of. cbn [h_lines h_curline h_curcol h_buf h_type h_line h_last].
  repeat split; try lia; [|left; now rewrite Hln].
  rewrite Hstr. rewrite <- (firstn_slice ln (tk_scol t) (tk_ecol t)) by lia. rewrite <- Hbuf.
  destruct (negb (hl_eqb cur nt) && negb (ends_with_bsl buf)).
  - rewrite chunks_text_app. unfold chunks_text at 2. cbn [flat_map snd]. now rewrite !app_nil_r, app_nil_l.
  - now rewrite app_assoc.
Qed.

Lemma run_row ln r : forall ts c st,
  on_row ln r c st -> row_wf ln r c ts ->
  let st' := run_tokens ts st in
  on_row ln r (row_end c ts) st' /\ h_lines st' = h_lines st.
Proof.
  induction ts as [|t ts IH]; intros c st Hon Hwf; cbn [run_tokens fold_left row_end].
  - split; [exact Hon|reflexivity].
  - cbn [row_wf] in Hwf. destruct Hwf as (Ht & Hrest).
    pose proof (hl_token_on_row ln r c st t Hon Ht) as Hstep.
    destruct (new_type t) as [nt|].
    + destruct Hrest as (Hle & Hrest). destruct (Hstep Hle) as (Hon' & Hlines & _).
      destruct (IH _ _ Hon' Hrest) as (A & B). split; [exact A|]. unfold run_tokens in *. now rewrite B.
    + rewrite Hstep. apply IH; assumption.
Qed.

(* the state at the first token of a row: fresh after the switch to a later row, or the initial state for row 1 *)
Definition before_row (r : Z) (st : hst) : Prop := (h_curline st < r)%Z \/ (st = hst_init /\ r = 1%Z).
(* hl_newline at the first token of row r *)
Lemma newline_opens_row ln r st t :
  before_row r st -> tk_srow t = r ->
  on_row ln r 0 (hl_newline st t) /\
  (h_lines (hl_newline st t) = h_lines st \/
   exists closed, h_lines (hl_newline st t) = h_lines st ++ closed :: repeat [] (Z.to_nat (r - h_curline st - 1))).
Proof.
  intros [Hlt|(-> & ->)] Hr; unfold hl_newline.
  - rewrite Hr. destruct (Z.ltb_spec (h_curline st) r); [|lia].
    cbn [h_lines h_curline h_curcol h_buf h_type h_line h_last]. split.
    + unfold on_row, text_of. cbn. repeat split; try lia. right. split; reflexivity.
    + right. eexists. cbn [app]. reflexivity.
  - rewrite Hr. cbn. split; [|left; reflexivity]. unfold on_row, text_of. cbn. repeat split; try lia. right. split; reflexivity.
Qed.

(* what a row looks like once it is closed *)
Definition closes_as (ln : str) (closed : list chunk) : Prop := rstrip_ws (chunks_text closed) = rstrip_ws ln.
(* NL occurs in a physical line at most as its last character *)
Definition phys_line (ln : str) : Prop := ~ In NL (removelast ln).

Lemma in_removelast_app (a b : str) x : b <> [] -> In x a -> In x (removelast (a ++ b)).
Proof.
  intros Hb Hx. rewrite removelast_app by exact Hb. apply in_or_app. now left.
Qed.
(* closing a row: the pending line, the rest of the buffer without its line break, what no token covered *)
Lemma close_row ln r c st :
  on_row ln r c st -> h_last st = Some ln -> phys_line ln -> h_type st <> None ->
  closes_as ln (h_line st ++ flush_chunk (h_type st) (rstrip_nl (h_buf st) ++ line_rest st)).
Proof.
  intros (Hl & Hc & Hc0 & Ht & _) Hsome Hphys Hty.
  destruct (h_type st) as [ty|]; [|contradiction]. unfold closes_as, flush_chunk.
  rewrite chunks_text_app. unfold chunks_text at 2. cbn [flat_map snd]. rewrite app_nil_r.
  unfold text_of in Ht. unfold line_rest. rewrite Hc, Hsome. remember (skipn (Z.to_nat c) ln) as R eqn:ER0.
  assert (ln = chunks_text (h_line st) ++ h_buf st ++ R) as Eln.
  { rewrite app_assoc, Ht, ER0. symmetry. apply firstn_skipn. }
  clear ER0. destruct R as [|x R'].
  - assert (rstrip_ws [] = []) as -> by reflexivity. rewrite app_nil_r. rewrite rstrip_nl_ws.
    rewrite app_nil_r in Eln. now rewrite <- Eln.
  - assert (~ In NL (h_buf st)) as Hno.
    { intros Hin. apply Hphys. rewrite Eln, app_assoc. apply in_removelast_app; [discriminate|].
      apply in_or_app. right. exact Hin. }
    rewrite rstrip_nl_no_nl by exact Hno. rewrite app_assoc, rstrip_app_rstrip, <- app_assoc. now rewrite <- Eln.
Qed.

(* ---- a row is put at its place ---- *)
Definition hl_step (st : hst) (t : token) : hst := if (tk_srow t =? 0)%Z then st else hl_token st t.
Definition not_end (t : token) : Prop := tk_srow t = 0%Z \/ tk_kind t <> TkEnd.
Lemma hl_loop_app pre : forall rest st, Forall not_end pre -> hl_loop (pre ++ rest) st = hl_loop rest (fold_left hl_step pre st).
Proof.
  induction pre as [|t pre IH]; intros rest st H; cbn [app fold_left hl_loop]; [reflexivity|].
  inversion H as [|? ? Ht Hr]; subst. unfold hl_step at 2.
  destruct (Z.eqb_spec (tk_srow t) 0) as [E|E]; [now apply IH|].
  destruct Ht as [Ht|Ht]; [contradiction|]. destruct (tk_kind t); try congruence; now apply IH.
Qed.

Lemma hl_newline_idem st t : hl_newline (hl_newline st t) t = hl_newline st t.
Proof.
  unfold hl_newline. destruct (h_curline st <? tk_srow t)%Z eqn:E; cbn [h_curline].
  - now rewrite Z.ltb_irrefl.
  - now rewrite E.
Qed.
Lemma hl_token_newline st t : hl_token st t = hl_token (hl_newline st t) t.
Proof. unfold hl_token. now rewrite hl_newline_idem. Qed.

(* lines only grow *)
Lemma hl_newline_prefix st t : exists suf, h_lines (hl_newline st t) = h_lines st ++ suf.
Proof.
  unfold hl_newline. destruct (h_curline st <? tk_srow t)%Z; cbn [h_lines]; [eexists; reflexivity|exists []; now rewrite app_nil_r].
Qed.
Lemma hl_token_prefix st t : exists suf, h_lines (hl_token st t) = h_lines st ++ suf.
Proof.
  destruct (hl_newline_prefix st t) as (s1 & E1). unfold hl_token.
  destruct (new_type t); [|exists s1; exact E1].
  destruct (tk_srow t <? tk_erow t)%Z; cbn [h_lines]; rewrite E1.
  - eexists. rewrite <- app_assoc. reflexivity.
  - exists s1. reflexivity.
Qed.
Lemma hl_loop_prefix : forall toks st, exists suf, hl_loop toks st = h_lines st ++ suf.
Proof.
  induction toks as [|t toks IH]; intros st; cbn [hl_loop]; [exists []; now rewrite app_nil_r|].
  destruct (tk_srow t =? 0)%Z; [apply IH|].
  destruct (hl_token_prefix st t) as (s1 & E1). destruct (IH (hl_token st t)) as (s2 & E2).
  destruct (tk_kind t); try (exists (s1 ++ s2); rewrite E2, E1, app_assoc; reflexivity).
  eexists; reflexivity.
Qed.

Definition has_real (ts : list token) : Prop := exists t, In t ts /\ new_type t <> None.
Lemma run_row_some ln r : forall ts c st,
  on_row ln r c st -> row_wf ln r c ts -> has_real ts ->
  h_last (run_tokens ts st) = Some ln /\ h_type (run_tokens ts st) <> None.
Proof.
  induction ts as [|t ts IH]; intros c st Hon Hwf (t0 & Hin & Hreal); [contradiction|].
  cbn [run_tokens fold_left]. cbn [row_wf] in Hwf. destruct Hwf as (Ht & Hrest).
  pose proof (hl_token_on_row ln r c st t Hon Ht) as Hstep.
  destruct (new_type t) as [nt|] eqn:Ent.
  - destruct Hrest as (Hle & Hrest). destruct (Hstep Hle) as (Hon' & _ & Hlast).
    assert (h_type (hl_token st t) <> None) as Hty.
    { unfold hl_token. rewrite Ent. destruct (tk_srow t <? tk_erow t)%Z; cbn [h_type]; discriminate. }
    clear Hstep. revert Hon' Hrest Hlast Hty. generalize (hl_token st t) (tk_ecol t). clear.
    induction ts as [|t ts IH]; intros st c Hon Hwf Hlast Hty; cbn [fold_left]; [split; assumption|].
    cbn [row_wf] in Hwf. destruct Hwf as (Ht & Hrest).
    pose proof (hl_token_on_row ln r c st t Hon Ht) as Hstep.
    destruct (new_type t) as [nt|] eqn:Ent.
    + destruct Hrest as (Hle & Hrest). destruct (Hstep Hle) as (Hon' & _ & Hlast').
      apply (IH _ _ Hon' Hrest Hlast').
      unfold hl_token. rewrite Ent. destruct (tk_srow t <? tk_erow t)%Z; cbn [h_type]; discriminate.
    + rewrite Hstep. now apply (IH _ _ Hon Hrest).
  - rewrite Hstep. destruct Hin as [->|Hin]; [congruence|]. apply (IH _ _ Hon Hrest). exists t0. split; assumption.
Qed.

Definition lines_inv (st : hst) : Prop := Z.of_nat (length (h_lines st)) = (h_curline st - 1)%Z.

Lemma nth_error_app_here {X} (l : list X) x rest : nth_error (l ++ x :: rest) (length l) = Some x.
Proof. rewrite nth_error_app2 by lia. now rewrite Nat.sub_diag. Qed.

Lemma newline_keeps_inv st t : lines_inv st -> (h_curline st <= tk_srow t)%Z -> lines_inv (hl_newline st t).
Proof.
  unfold lines_inv, hl_newline. intros H Hle. destruct (Z.ltb_spec (h_curline st) (tk_srow t)); [|exact H].
  cbn [h_lines h_curline]. rewrite !app_length. cbn [length]. rewrite repeat_length. lia.
Qed.
(* The row theorem.  st: the state reached before the row (any earlier tokens); the row's tokens lie on the physical
   line ln, in order, each covering its own slice; then comes a token of a later row, or the end marker. *)
Lemma row_in_place ln r st row nxt post :
  lines_inv st -> before_row r st -> (1 <= r)%Z ->
  row <> [] -> row_wf ln r 0 row -> has_real row -> phys_line ln ->
  tk_srow nxt <> 0%Z ->
  (tk_kind nxt = TkEnd /\ Forall (fun c => is_space c = true) (skipn (Z.to_nat (row_end 0 row)) ln)
   \/ tk_kind nxt <> TkEnd /\ (r < tk_srow nxt)%Z) ->
  exists closed, nth_error (hl_loop (row ++ nxt :: post) st) (Z.to_nat (r - 1)) = Some closed /\ closes_as ln closed.
Proof.
  intros Hinv Hbefore Hr1 Hne Hwf Hreal Hphys Hnz Hnext.
  assert (Forall not_end row) as Hrow_ne.
  { clear -Hwf. revert Hwf. generalize 0%Z. induction row as [|t ts IH]; intros c Hwf; constructor.
    - cbn [row_wf] in Hwf. destruct Hwf as ((_ & _ & _ & _ & Hk & _) & _). right. exact Hk.
    - cbn [row_wf] in Hwf. destruct Hwf as (_ & Hrest). destruct (new_type t); [destruct Hrest as (_ & Hrest)|]; eapply IH; eassumption. }
  rewrite hl_loop_app by exact Hrow_ne.
  assert (fold_left hl_step row st = run_tokens row st) as ->.
  { clear -Hwf. revert st Hwf. generalize 0%Z. induction row as [|t ts IH]; intros c st Hwf; [reflexivity|].
    cbn [fold_left run_tokens]. cbn [row_wf] in Hwf. destruct Hwf as ((Hs & _ & _ & _ & _ & Hr0 & _) & Hrest).
    unfold hl_step at 2. destruct (Z.eqb_spec (tk_srow t) 0); [congruence|].
    destruct (new_type t); [destruct Hrest as (_ & Hrest)|]; eapply IH; eassumption. }
  destruct row as [|t1 rest]; [contradiction|].
  assert (tk_srow t1 = r) as Hs1 by (cbn [row_wf] in Hwf; destruct Hwf as ((H & _) & _); exact H).
  destruct (newline_opens_row ln r st t1 Hbefore Hs1) as (Hon0 & Hlines0).
  assert (run_tokens (t1 :: rest) st = run_tokens (t1 :: rest) (hl_newline st t1)) as Erun.
  { unfold run_tokens. cbn [fold_left]. now rewrite (hl_token_newline st t1), (hl_token_newline (hl_newline st t1) t1), hl_newline_idem. }
  rewrite Erun. set (st0 := hl_newline st t1) in *.
  destruct (run_row ln r (t1 :: rest) 0 st0 Hon0 Hwf) as (Hon1 & Hlines1).
  destruct (run_row_some ln r (t1 :: rest) 0 st0 Hon0 Hwf Hreal) as (Hlast1 & Hty1).
  set (st1 := run_tokens (t1 :: rest) st0) in *.
  assert (length (h_lines st1) = Z.to_nat (r - 1)) as Hlen.
  { rewrite Hlines1. pose proof (newline_keeps_inv st t1 Hinv) as Hinv0. fold st0 in Hinv0.
    unfold lines_inv in Hinv0. destruct Hon0 as (Hcl0 & _). rewrite Hcl0 in Hinv0.
    assert ((h_curline st <= tk_srow t1)%Z) as Hle by (rewrite Hs1; destruct Hbefore as [Hlt|(-> & ->)]; [lia|cbn; lia]).
    specialize (Hinv0 Hle). lia. }
  destruct Hnext as [(Hend & Hspace)|(Hnend & Hlater)].
  - cbn [hl_loop]. destruct (Z.eqb_spec (tk_srow nxt) 0); [contradiction|]. rewrite Hend.
    eexists. split; [rewrite <- Hlen; apply nth_error_app_here|].
    destruct Hon1 as (_ & Hc1 & Hc0 & Ht1 & _). destruct (h_type st1) as [ty|]; [|contradiction].
    unfold closes_as, flush_chunk. rewrite chunks_text_app. unfold chunks_text at 2. cbn [flat_map snd]. rewrite app_nil_r.
    unfold text_of in Ht1. rewrite Ht1. rewrite <- (firstn_skipn (Z.to_nat (row_end 0 (t1 :: rest))) ln) at 2.
    symmetry. apply rstrip_app_spaces. exact Hspace.
  - cbn [hl_loop]. destruct (Z.eqb_spec (tk_srow nxt) 0); [contradiction|].
    assert (exists more, h_lines (hl_token st1 nxt)
              = h_lines st1 ++ (h_line st1 ++ flush_chunk (h_type st1) (rstrip_nl (h_buf st1) ++ line_rest st1)) :: more) as (more & Emore).
    { rewrite hl_token_newline. destruct (hl_token_prefix (hl_newline st1 nxt) nxt) as (suf & E). rewrite E.
      unfold hl_newline. destruct Hon1 as (Hcl & _). rewrite Hcl. destruct (Z.ltb_spec r (tk_srow nxt)); [|lia].
      cbn [h_lines]. eexists. rewrite <- !app_assoc. cbn [app]. reflexivity. }
    assert (exists suf, hl_loop post (hl_token st1 nxt) = h_lines (hl_token st1 nxt) ++ suf) as (suf & Esuf) by apply hl_loop_prefix.
    assert (hl_loop post (hl_token st1 nxt) = match tk_kind nxt with TkEnd => h_lines st1 ++ [h_line st1 ++ flush_chunk (h_type st1) (h_buf st1)] | _ => hl_loop post (hl_token st1 nxt) end) as E0
      by (destruct (tk_kind nxt); try reflexivity; congruence).
    rewrite <- E0, Esuf, Emore, <- app_assoc. cbn [app].
    eexists. split; [rewrite <- Hlen; apply nth_error_app_here|].
    apply (close_row ln r _ st1 Hon1 Hlast1 Hphys Hty1).
Qed.
