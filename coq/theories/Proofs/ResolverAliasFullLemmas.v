(* C03: "replacing a name on the path by any of its aliases never changes the selection" - the whole resolver answer
   (selected name path, format, parsed arguments and options, or the same error), with the parser side discharged.

   ResolverAliasLemmas.walk_respelled: two spellings of the path walk to the same command (under tree_distinct).
   ParserAliasLemmas.parse_respelled: a format whose first command names match both spellings parses them alike.
   Here the two are joined by what build_app guarantees about the formats in the tree: the format of a command lists
   the command names of its non-anonymous ancestors and itself, each with its aliases (CommandConfig.build_args_format:
   `cname` with aliases, on top of the parent's format), so every format at or below a command on the respelled path
   starts with the command names the two spellings match. *)
From Coq Require Import Lia.
From Clikit Require Import Base.Prelude Base.Res Model.Conv Model.Flags Model.Format Model.Parser Model.Spell Model.Resolver
     Proofs.StrLemmas Proofs.FormatLemmas Proofs.ParserLemmas Proofs.SpellOpts Proofs.SpellArgs Proofs.FmtOkLemmas
     Proofs.ResolverLemmas Proofs.ResolverAliasLemmas Proofs.HelpSamePageLemmas Proofs.HelpRunLemmas Proofs.ParserAliasLemmas.

(* ================= the command names of a format built from elements ================= *)
Definition cnames_of (es : list element) : list cname :=
  flat_map (fun e => match e with ECName c => [c] | _ => [] end) es.

Lemma add_elem_cnames f e f' : add_elem f e = Ok f' ->
  f_base f' = f_base f /\ f_cnames f' = f_cnames f ++ cnames_of [e].
Proof.
  destruct e as [o|c|a|c]; cbn [add_elem cnames_of flat_map app].
  - unfold add_option. destruct (opt_name_taken f (o_long o)); [discriminate|]. destruct (optname_taken f (o_short o)); [discriminate|].
    destruct f. intros H. inversion H; subst. cbn. now rewrite app_nil_r.
  - unfold add_command_option.
    repeat match goal with |- (if ?c then _ else _) = _ -> _ => destruct c; [discriminate|] end.
    destruct f. intros H. inversion H; subst. cbn. now rewrite app_nil_r.
  - unfold add_argument.
    repeat match goal with |- (if ?c then _ else _) = _ -> _ => destruct c; [discriminate|] end.
    destruct f. intros H. inversion H; subst. cbn. now rewrite app_nil_r.
  - destruct f. cbn. intros H. inversion H; subst. cbn. auto.
Qed.
Lemma add_elements_cnames es : forall f f', add_elements f es = Ok f' ->
  f_base f' = f_base f /\ f_cnames f' = f_cnames f ++ cnames_of es.
Proof.
  induction es as [|e r IH]; intros f f' H.
  - cbn in H. inversion H; subst. cbn. now rewrite app_nil_r.
  - rewrite add_elements_cons in H. destruct (add_elem f e) as [f1|k] eqn:E; cbn [bind] in H; [|discriminate].
    destruct (add_elem_cnames _ _ _ E) as [B1 C1]. destruct (IH _ _ H) as [B2 C2]. split; [congruence|].
    rewrite C2, C1, <- app_assoc. unfold cnames_of. cbn [flat_map]. now rewrite app_nil_r.
Qed.
Lemma names_all_unfold f : get_command_names_all f =
  match f_base f with Some bf => get_command_names_all bf ++ f_cnames f | None => f_cnames f end.
Proof. destruct f as [[bf|] cn co cs ar os oss hm ho]; reflexivity. Qed.
Lemma format_of_elements_cnames es base f : format_of_elements es base = Ok f ->
  get_command_names_all f = match base with Some bf => get_command_names_all bf | None => [] end ++ cnames_of es.
Proof.
  unfold format_of_elements. destruct (add_elements (empty_builder base) es) as [b|k] eqn:E; cbn [bind]; [|discriminate].
  intros H. inversion H; subst f. destruct (add_elements_cnames _ _ _ E) as [B C]. cbn in B, C.
  destruct (build_format_same b) as (Hb & Hc & _). rewrite names_all_unfold, Hb, Hc, B, C. destruct base; reflexivity.
Qed.
Lemma cmd_elements_cnames name al anon opts args :
  cnames_of (cmd_elements name al anon opts args) = if anon then [] else [{| cn_name := name; cn_aliases := al |}].
Proof.
  unfold cmd_elements, cnames_of. rewrite !flat_map_app.
  assert (forall l : list opt, flat_map (fun e => match e with ECName c => [c] | _ => [] end) (map EOpt l) = []) as H1
    by (induction l; [reflexivity|assumption]).
  assert (forall l : list arg, flat_map (fun e => match e with ECName c => [c] | _ => [] end) (map EArg l) = []) as H2
    by (induction l; [reflexivity|assumption]).
  rewrite H1, H2, !app_nil_r. destruct anon; reflexivity.
Qed.

(* ================= what build_app guarantees about every format of the tree ================= *)
Definition own_cname (b : bcmd) : list cname :=
  if b_anonymous b then [] else [{| cn_name := b_name b; cn_aliases := b_aliases b |}].
(* the format of b lists base ++ its own command name; the same below it, one level deeper; every format is well formed *)
Fixpoint cn_tree (base : list cname) (b : bcmd) : Prop :=
  match b with BCmd name al _ anon _ f subs =>
    let mine := base ++ (if anon then [] else [{| cn_name := name; cn_aliases := al |}]) in
    get_command_names_all f = mine /\ fmt_inv f /\
    (fix go (l : list bcmd) : Prop := match l with [] => True | x :: r => cn_tree mine x /\ go r end) subs end.
Lemma cn_tree_unfold base b : cn_tree base b <->
  get_command_names_all (b_fmt b) = base ++ own_cname b /\ fmt_inv (b_fmt b) /\ Forall (cn_tree (base ++ own_cname b)) (b_subs b).
Proof.
  destruct b as [n al d an len f subs]. cbn [cn_tree b_fmt b_subs]. unfold own_cname. cbn [b_anonymous b_name b_aliases].
  split; intros (H1 & H2 & H3); (split; [exact H1|split; [exact H2|]]).
  - induction subs as [|x r IH]; constructor; [apply H3|apply IH, H3].
  - induction subs as [|x r IH]; [exact I|]. inversion H3; subst. split; [assumption|apply IH; assumption].
Qed.

(* arguments as constructed objects (C07: exactly one of REQUIRED / OPTIONAL after normalisation) *)
Fixpoint cmd_args_valid (c : cmd) : bool :=
  match c with Cmd _ _ _ _ _ _ _ args subs =>
    forallb arg_valid args && (fix go (l : list cmd) : bool := match l with [] => true | x :: r => cmd_args_valid x && go r end) subs end.
Lemma cmd_args_valid_unfold name al d an en len opts args subs :
  cmd_args_valid (Cmd name al d an en len opts args subs) = forallb arg_valid args && forallb cmd_args_valid subs.
Proof. cbn [cmd_args_valid]. f_equal. Qed.
Definition cfg_args_valid (cfg : appcfg) : bool := forallb arg_valid (ac_args cfg) && forallb cmd_args_valid (ac_cmds cfg).

Lemma args_elements_valid (l : list arg) : forallb arg_valid l = true -> forallb element_valid (map EArg l) = true.
Proof.
  induction l as [|a r IH]; intros H; [reflexivity|]. cbn [forallb] in H. apply andb_prop in H as [Ha Hr]. cbn [map forallb element_valid].
  now rewrite Ha, IH.
Qed.
Lemma cmd_elements_valid name al anon opts args : forallb arg_valid args = true ->
  forallb element_valid (cmd_elements name al anon opts args) = true.
Proof.
  intros H. unfold cmd_elements. rewrite !forallb_app. rewrite opts_valid.
  rewrite (args_elements_valid args H).
  destruct anon; reflexivity.
Qed.

Lemma build_cmd_cn : forall c base bf b, cmd_args_valid c = true ->
  fmt_inv bf -> get_command_names_all bf = base -> build_cmd (Some bf) c = Ok b -> cn_tree base b.
Proof.
  induction c as [name al d an en len opts args subs IH] using cmd_ind'. intros base bf b Hv Hi Hc. rewrite build_cmd_eq.
  rewrite cmd_args_valid_unfold in Hv. apply andb_prop in Hv as [Hva Hvs].
  destruct (format_of_elements (cmd_elements name al an opts args) (Some bf)) as [f|k] eqn:Ef; cbn [bind]; [|discriminate].
  destruct (format_of_elements_fmt_ok_lemma _ (Some bf) f Hi (cmd_elements_valid name al an opts args Hva) Ef) as [Hfi _].
  pose proof (format_of_elements_cnames _ _ _ Ef) as Hcn. rewrite cmd_elements_cnames, Hc in Hcn.
  destruct (build_subs_of f subs) as [bs|k] eqn:Ebs; cbn [bind]; [|discriminate].
  intros H. inversion H; subst b. clear H. apply cn_tree_unfold. unfold own_cname. cbn [b_fmt b_subs b_anonymous b_name b_aliases].
  split; [exact Hcn|]. split; [exact Hfi|].
  revert bs Ebs. induction subs as [|s r IHr]; intros bs Ebs.
  - cbn in Ebs. inversion Ebs. constructor.
  - inversion IH as [|? ? Hs Hr]; subst. cbn [forallb] in Hvs. apply andb_prop in Hvs as [Hv1 Hv2].
    rewrite build_subs_cons in Ebs. destruct (cmd_enabled s); [|now apply IHr].
    destruct (build_cmd (Some f) s) as [b1|k] eqn:E1; cbn [bind] in Ebs; [|discriminate].
    destruct (build_subs_of f r) as [bs1|k] eqn:E2; cbn [bind] in Ebs; [|discriminate].
    inversion Ebs; subst. constructor; [eapply Hs; eauto|now apply IHr].
Qed.
Lemma build_cmds_cn g : fmt_inv g -> get_command_names_all g = [] -> forall l seen cs,
  forallb cmd_args_valid l = true -> build_cmds g seen l = Ok cs -> Forall (cn_tree []) cs.
Proof.
  intros Hg Hc. induction l as [|c r IH]; intros seen cs Hv; [cbn; intros H; inversion H; constructor|].
  cbn [forallb] in Hv. apply andb_prop in Hv as [Hv1 Hv2].
  destruct c as [name al d an en len opts args subs]. cbn [build_cmds].
  destruct (negb en); [now apply IH|]. destruct name as [|ch name]; [discriminate|].
  destruct (existsb _ seen); [discriminate|].
  destruct (build_cmd (Some g) _) as [b|k] eqn:E1; cbn [bind]; [|discriminate].
  destruct (build_cmds g _ r) as [bs|k] eqn:E2; cbn [bind]; [|discriminate].
  intros H. inversion H; subst. constructor; [eapply build_cmd_cn; eauto|eapply IH; eauto].
Qed.
Lemma args_opts_cnames ars os : cnames_of (map EArg ars ++ map EOpt os) = [].
Proof.
  unfold cnames_of. rewrite flat_map_app.
  assert (forall l : list opt, flat_map (fun e => match e with ECName c => [c] | _ => [] end) (map EOpt l) = []) as H1
    by (induction l; [reflexivity|assumption]).
  assert (forall l : list arg, flat_map (fun e => match e with ECName c => [c] | _ => [] end) (map EArg l) = []) as H2
    by (induction l; [reflexivity|assumption]).
  now rewrite H1, H2.
Qed.
Theorem build_app_cn cfg a : build_app cfg = Ok a -> cfg_args_valid cfg = true -> Forall (cn_tree []) (ap_cmds a).
Proof.
  unfold build_app, cfg_args_valid. intros H Hv. apply andb_prop in Hv as [Hva Hvc].
  destruct (format_of_elements (map EArg (ac_args cfg) ++ map EOpt (ac_opts cfg)) None) as [g|k] eqn:Eg; cbn [bind] in H; [|discriminate].
  destruct (build_cmds g [] (ac_cmds cfg)) as [cs|k] eqn:Ec; cbn [bind] in H; [|discriminate].
  inversion H; subst a. cbn [ap_cmds].
  assert (forallb element_valid (map EArg (ac_args cfg) ++ map EOpt (ac_opts cfg)) = true) as Hev.
  { rewrite forallb_app, opts_valid, andb_true_r. now apply args_elements_valid. }
  destruct (format_of_elements_fmt_ok_lemma _ None g I Hev Eg) as [Hgi _].
  pose proof (format_of_elements_cnames _ _ _ Eg) as Hgc. rewrite args_opts_cnames in Hgc. cbn [app] in Hgc.
  eapply build_cmds_cn; eauto.
Qed.

(* every format at or below b starts with the command names cs *)
Definition starts_with (cs : list cname) (f : fmt) : Prop := fmt_inv f /\ exists more, get_command_names_all f = cs ++ more.
Lemma cn_tree_starts cs : forall b base more, base = cs ++ more -> cn_tree base b -> tree_ok (starts_with cs) b.
Proof.
  fix F 1. intros [n al d an len f subs] base more Hb H. apply cn_tree_unfold in H as (H1 & H2 & H3).
  apply tree_ok_unfold. cbn [b_fmt b_subs] in *. split.
  - split; [exact H2|]. exists (more ++ own_cname (BCmd n al d an len f subs)). rewrite H1, Hb, app_assoc. reflexivity.
  - clear H1 H2. induction subs as [|x r IH]; constructor.
    + inversion H3; subst. eapply (F x _ (more ++ own_cname (BCmd n al d an len f (x :: r)))); [|eassumption]. now rewrite app_assoc.
    + inversion H3; subst. apply IH. assumption.
Qed.

Lemma cn_tree_below cs b : cn_tree cs b -> tree_ok (starts_with (cs ++ own_cname b)) b.
Proof.
  intros H. apply cn_tree_unfold in H as (H1 & H2 & H3). apply tree_ok_unfold. split.
  - split; [exact H2|]. exists []. now rewrite app_nil_r.
  - apply Forall_forall. intros x Hx. apply (cn_tree_starts (cs ++ own_cname b) x (cs ++ own_cname b) []); [now rewrite app_nil_r|].
    exact (proj1 (Forall_forall _ _) H3 x Hx).
Qed.

(* ================= the respelled prefix and the formats below it ================= *)
Definition matches (cs : list cname) (ks : list str) : Prop := Forall2 (fun c k => cname_match c k = true) cs ks.

Lemma key_matches b k : In k (keys b) -> b_anonymous b = false -> matches (own_cname b) [k].
Proof.
  intros Hk Ha. unfold own_cname. rewrite Ha. constructor; [|constructor]. unfold cname_match. cbn [cn_name cn_aliases].
  destruct Hk as [<-|Hk]; [now rewrite str_eqb_refl|]. apply orb_true_iff. right. apply existsb_exists. exists k. split; [exact Hk|apply str_eqb_refl].
Qed.

Lemma walk_from_some : forall names named c w, walk named (Some c) names = Ok w -> exists c', w = Some c'.
Proof.
  induction names as [|n r IH]; intros named c w; cbn [walk]; [intros H; inversion H; eauto|].
  destruct (coll_contains named n); cbn [negb]; [|intros H; inversion H; eauto].
  destruct (coll_get named n) as [b|k]; cbn [bind]; [|discriminate]. apply IH.
Qed.

Lemma respelled_formats : forall l names names', respells l names names' -> tree_distinct l ->
  forall cs, Forall (cn_tree cs) l -> forall extra cur b p, walk (named_of l) cur (names ++ extra) = Ok (Some (b, p)) ->
  names = names' \/
  exists ks ks' tail cs', names = ks ++ tail /\ names' = ks' ++ tail /\ length ks = length ks' /\ ks <> [] /\
                          matches cs' ks /\ matches cs' ks' /\ tree_ok (starts_with (cs ++ cs')) b.
Proof.
  induction 1 as [|l b0 k k' r r' Hb Hk Hk' Hr IH]; intros Ht cs Hcn extra cur b p Hw; [now left|]. right.
  inversion Ht as [? Hd Hsub]; subst.
  assert (In b0 l /\ b_anonymous b0 = false) as [Hbl Hanon].
  { apply filter_In in Hb as [H1 H2]. split; [exact H1|]. now apply negb_true_iff in H2. }
  pose proof (proj1 (Forall_forall _ _) Hcn b0 Hbl) as Hcn0. apply cn_tree_unfold in Hcn0 as (C1 & C2 & C3).
  cbn [app walk] in Hw. unfold named_of at 1 2 in Hw.
  rewrite (contains_key _ b0 k Hb Hk) in Hw. cbn [negb] in Hw. rewrite (get_by_key _ b0 k Hd Hb Hk) in Hw. cbn [bind] in Hw.
  pose proof (cn_tree_below cs b0 (proj1 (Forall_forall _ _) Hcn b0 Hbl)) as Hb0.
  pose proof (key_matches b0 k Hk Hanon) as M1. pose proof (key_matches b0 k' Hk' Hanon) as M2.
  destruct (IH (Hsub b0 Hbl) (cs ++ own_cname b0) C3 extra _ b p Hw) as [->|(ks & ks' & tail & cs' & -> & -> & Hl & Hne & N1 & N2 & Hb')].
  - exists [k], [k'], r', (own_cname b0). repeat split; try assumption; try discriminate.
    eapply (walk_tree_ok (starts_with (cs ++ own_cname b0)) (r' ++ extra) (b_subs b0)); [| |exact Hw]; [|intros b1 p1 E; inversion E; subst; exact Hb0].
    apply tree_ok_unfold in Hb0. apply Hb0.
  - exists (k :: ks), (k' :: ks'), tail, (own_cname b0 ++ cs'). repeat split; try discriminate.
    + cbn [length]. now rewrite Hl.
    + unfold own_cname in *. rewrite Hanon in *. inversion M1; subst. constructor; assumption.
    + unfold own_cname in *. rewrite Hanon in *. inversion M2; subst. constructor; assumption.
    + now rewrite app_assoc.
Qed.

(* ================= the parser on a format that starts with the matched command names ================= *)
Lemma pseudo_args_snd f : forall cns j i, map (fun p => snd p) (pseudo_args f cns j i) = cns.
Proof. induction cns as [|c r IH]; intros j i; cbn [pseudo_args map snd]; [reflexivity|]. now rewrite IH. Qed.
Lemma aug_cnames f g A cns : aug_format f = Ok (g, A, cns) -> map snd cns = get_command_names_all f.
Proof.
  unfold aug_format. cbv zeta.
  match goal with |- (do f' <- ?x; _) = _ -> _ => destruct x as [F'|k]; cbn [bind]; [|discriminate] end.
  intros H. inversion H; subst. rewrite map_map. cbn [snd]. apply pseudo_args_snd.
Qed.
Lemma lead_plain t : lead_ok t = true -> plain_tok t = true.
Proof. unfold lead_ok, plain_tok. destruct (nonempty t), (is_dd t), (starts_dash t); cbn; congruence. Qed.

Lemma matches_names_ok : forall (cns : list (str * cname)) cs more ks, map snd cns = cs ++ more -> matches cs ks ->
  forallb lead_ok ks = true -> names_ok cns ks = true.
Proof.
  intros cns cs more ks E M. revert cns E. induction M as [|c k cs' ks' Hm M IH]; intros cns E Hl; [destruct cns; reflexivity|].
  destruct cns as [|[n c0] cns']; [discriminate|]. cbn [map snd app] in E. inversion E; subst c0.
  cbn [forallb] in Hl. apply andb_prop in Hl as [Hk Hl]. cbn [names_ok snd]. rewrite (lead_plain k Hk), Hm. cbn [andb]. now apply IH.
Qed.
Lemma matches_length cs ks : matches cs ks -> length cs = length ks.
Proof. induction 1; cbn; congruence. Qed.

Lemma parse_starts_with cs f ks ks' len rest : starts_with cs f -> matches cs ks -> matches cs ks' ->
  forallb lead_ok ks = true -> forallb lead_ok ks' = true ->
  parse f len (ks ++ rest) = parse f len (ks' ++ rest).
Proof.
  intros [Hinv [more Hc]] M1 M2 L1 L2. pose proof (wf_implies_fmt_ok_lemma f Hinv) as Hok.
  apply fmt_ok_inv in Hok as (g & A & cns & FF). pose proof (aug_cnames _ _ _ _ (ff_aug _ _ _ _ FF)) as Hs. rewrite Hc in Hs.
  apply (parse_respelled f g A cns FF ks ks').
  - eapply matches_names_ok; eauto.
  - eapply matches_names_ok; eauto.
  - now rewrite <- (matches_length _ _ M1), <- (matches_length _ _ M2).
Qed.

(* ================= resolve ================= *)
Lemma leading_app names rest : forallb lead_ok names = true -> leading (names ++ rest) = names ++ leading rest.
Proof.
  induction names as [|t r IH]; intros H; [reflexivity|]. cbn [forallb] in H. apply andb_prop in H as [Ht Hr].
  cbn [app]. rewrite leading_step, Ht, IH by exact Hr. reflexivity.
Qed.
Lemma respells_app l names names' s : respells l names names' -> respells l (names ++ s) (names' ++ s).
Proof. induction 1 as [|l b k k' r r' Hb Hk Hk' Hr IH]; [apply rs_same|]. cbn [app]. eapply rs_step; eauto. Qed.
Lemma forallb_app_l {X} (p : X -> bool) l1 l2 : forallb p (l1 ++ l2) = true -> forallb p l1 = true.
Proof. rewrite forallb_app. intros H. now apply andb_prop in H as [H _]. Qed.

Lemma pick_default_same_parse ds toks toks' : Forall (fun d => forall len, parse (b_fmt d) len toks = parse (b_fmt d) len toks') ds ->
  forall first, pick_default ds toks first = pick_default ds toks' first.
Proof.
  induction 1 as [|d r Hd Hr IH]; intros first; cbn [pick_default]; [reflexivity|]. rewrite Hd.
  destruct (parse (b_fmt d) (b_lenient d) toks') as [?|[]]; auto.
Qed.

Theorem resolve_respelled cfg a names names' rest :
  build_app cfg = Ok a -> cfg_args_valid cfg = true -> tree_distinct (ap_cmds a) ->
  respells (ap_cmds a) names names' -> forallb lead_ok names = true -> forallb lead_ok names' = true ->
  resolve a (names ++ rest) = resolve a (names' ++ rest).
Proof.
  intros Hb Hv Ht Hr L1 L2. pose proof (build_app_cn cfg a Hb Hv) as Hcn.
  unfold resolve. cbv zeta. rewrite (leading_app names rest L1), (leading_app names' rest L2).
  rewrite <- (walk_respelled _ _ _ (respells_app _ _ _ (leading rest) Hr) Ht None).
  destruct (walk (named_of (ap_cmds a)) None (names ++ leading rest)) as [[[b p]|]|k] eqn:Hw; cbn [bind]; [| |reflexivity].
  - destruct (respelled_formats _ _ _ Hr Ht [] Hcn (leading rest) None b p Hw)
      as [->|(ks & ks' & tail & cs' & -> & -> & Hl & Hne & M1 & M2 & Hb')]; [reflexivity|].
    cbn [app] in Hb'. apply tree_ok_unfold in Hb' as [Hbf Hsubs].
    rewrite <- !app_assoc in *. pose proof (forallb_app_l _ _ _ L1) as K1. pose proof (forallb_app_l _ _ _ L2) as K2.
    assert (forall d, In d (defaults_of (b_subs b)) -> forall len,
              parse (b_fmt d) len (ks ++ tail ++ rest) = parse (b_fmt d) len (ks' ++ tail ++ rest)) as Hdef.
    { intros d Hd len. apply defaults_of_in in Hd. pose proof (proj1 (Forall_forall _ _) Hsubs d Hd) as Hd'.
      apply tree_ok_unfold in Hd' as [Hdf _]. now apply (parse_starts_with cs'). }
    rewrite (pick_default_same_parse _ _ _ (proj2 (Forall_forall _ _) Hdef) None).
    destruct (pick_default (defaults_of (b_subs b)) (ks' ++ tail ++ rest) None) as [[[dc r]|]|k]; cbn [bind]; try reflexivity.
    now rewrite (parse_starts_with cs' (b_fmt b) ks ks' (b_lenient b) (tail ++ rest) Hbf M1 M2 K1 K2).
  - (* nothing walked: the first token names no command - then nothing was respelled *)
    inversion Hr as [? ? E1 E2|? b0 k k' r r' Hb0 Hk Hk' Hr' E1 E2]; [reflexivity|]. subst. exfalso.
    inversion Ht as [? Hd Hsub]; subst. cbn [app walk] in Hw. unfold named_of at 1 2 in Hw.
    rewrite (contains_key _ b0 k Hb0 Hk) in Hw. cbn [negb] in Hw. rewrite (get_by_key _ b0 k Hd Hb0 Hk) in Hw. cbn [bind] in Hw.
    apply walk_from_some in Hw as [c' Hc']. discriminate.
Qed.
