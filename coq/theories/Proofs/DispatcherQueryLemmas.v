(* C12, the query half: get_listeners() (all events), get_listener_priority and
   has_listeners() of Model/Dispatcher.v against the registration log.
   Extends the simulation of Proofs/DispatcherLemmas.v (same invariant Inv) so that EVERY op
   of [dop] is answered by a specification for every op sequence. *)
From Coq Require Import Lia Permutation Sorted.
From Clikit Require Import Base.Prelude Model.Dispatcher Proofs.DispatcherLemmas.

(* ------------------------------------------------------------------ *)
(* The specification.  State: the registration log (exactly the state of [sstep]) plus the
   key order of the dict that get_listeners() hands out.  That order is not a function of
   the log: the class returns its sort cache, whose keys are in the order in which the
   events were last sorted (cache fill order), and add_listener removes the event's key.  *)

Definition mem (e : N) (l : list N) : bool := existsb (N.eqb e) l.
Definition add_key (e : N) (l : list N) : list N := if mem e l then l else l ++ [e].
Definition del_key (e : N) (l : list N) : list N := filter (fun k => negb (N.eqb e k)) l.

(* the events that have ever had a listener registered, in order of first registration
   (the key order of self._listeners) *)
Definition evs_of (regs : list reg) : list N := fold_left (fun acc r => add_key (r_ev r) acc) regs [].
Definition has_reg (regs : list reg) (ev : N) : bool := existsb (fun r => N.eqb (r_ev r) ev) regs.

(* get_listeners(ev) / dispatch(ev) : ev enters the cache (at the end) unless already there *)
Definition touch (regs : list reg) (ev : N) (keys : list N) : list N :=
  if has_reg regs ev then add_key ev keys else keys.
(* get_listeners() : every registered event not yet cached enters, in first-registration order *)
Definition touch_all (regs : list reg) (keys : list N) : list N :=
  fold_left (fun acc e => add_key e acc) (evs_of regs) keys.
(* the dict handed out: each key with the spec order of that event's listeners *)
Definition all_of (regs : list reg) (keys : list N) : list (N * list N) :=
  map (fun e => (e, spec_order regs e)) keys.

Definition qstate := (list reg * list N)%type.
Definition qinit : qstate := ([], []).

Definition qstep (q : qstate) (o : dop) : qstate * dout :=
  let '(regs, keys) := q in
  match o with
  | Add ev _ _ => ((fst (sstep regs o), del_key ev keys), ONone)
  | Dispatch ev => ((regs, touch regs ev keys), snd (sstep regs o))
  | Get ev => ((regs, touch regs ev keys), snd (sstep regs o))
  | GetAll => let ks := touch_all regs keys in ((regs, ks), OAll (all_of regs ks))
  | Has _ => ((regs, keys), snd (sstep regs o))
  | Prio _ _ => ((regs, keys), snd (sstep regs o))
  end.
Fixpoint qrun (q : qstate) (ops : list dop) : list dout :=
  match ops with
  | [] => []
  | o :: r => let '(q', out) := qstep q o in out :: qrun q' r
  end.

(* states after an op sequence *)
Definition dafter (st : dstate) (ops : list dop) : dstate := fold_left (fun st o => fst (dstep st o)) ops st.
Definition qafter (q : qstate) (ops : list dop) : qstate := fold_left (fun q o => fst (qstep q o)) ops q.
Definition log_of (ops : list dop) : list reg := fold_left (fun regs o => fst (sstep regs o)) ops [].

(* ---------- keys of association lists ---------- *)
Lemma mem_keys {V} k (d : list (N * V)) : mem k (map fst d) = ahas N.eqb k d.
Proof.
  unfold mem, ahas. induction d as [|[k' v] r IH]; cbn; auto.
  destruct (N.eqb k k'); cbn; auto.
Qed.
Lemma keys_aset {V} k (v : V) d : map fst (aset N.eqb k v d) = add_key k (map fst d).
Proof.
  unfold add_key, mem. induction d as [|[k' v'] r IH]; cbn; auto.
  destruct (N.eqb k k') eqn:E; cbn; auto.
  rewrite IH. destruct (existsb (N.eqb k) (map fst r)); reflexivity.
Qed.
Lemma keys_adel {V} k (d : list (N * V)) : map fst (adel N.eqb k d) = del_key k (map fst d).
Proof.
  unfold del_key. induction d as [|[k' v'] r IH]; cbn; auto.
  destruct (N.eqb k k'); cbn; [|f_equal]; auto.
Qed.

Lemma mem_In e l : mem e l = true <-> In e l.
Proof.
  unfold mem. rewrite existsb_exists. split.
  - intros [x [Hx E]]. apply N.eqb_eq in E. now subst.
  - intros H. exists e. split; [assumption | apply N.eqb_refl].
Qed.
Lemma mem_nIn e l : mem e l = false -> ~ In e l.
Proof. intros H Hi. apply mem_In in Hi. congruence. Qed.

Lemma add_key_NoDup e l : NoDup l -> NoDup (add_key e l).
Proof.
  intros H. unfold add_key. destruct (mem e l) eqn:E; [assumption|].
  apply NoDup_snoc; [assumption | apply mem_nIn, E].
Qed.
Lemma add_key_In e l x : In x (add_key e l) <-> x = e \/ In x l.
Proof.
  unfold add_key. destruct (mem e l) eqn:E.
  - apply mem_In in E. split; [auto|]. intros [->|H]; assumption.
  - rewrite in_app_iff. cbn. intuition.
Qed.
Lemma del_key_NoDup e l : NoDup l -> NoDup (del_key e l).
Proof. apply NoDup_filter. Qed.

Definition add_keys (l acc : list N) : list N := fold_left (fun acc e => add_key e acc) l acc.
Lemma add_keys_NoDup l : forall acc, NoDup acc -> NoDup (add_keys l acc).
Proof. induction l as [|a r IH]; intros acc H; cbn; [assumption|]. apply IH, add_key_NoDup, H. Qed.
Lemma add_keys_In l x : forall acc, In x (add_keys l acc) <-> In x acc \/ In x l.
Proof.
  induction l as [|a r IH]; intros acc; cbn; [tauto|].
  rewrite IH, add_key_In. intuition.
Qed.

Lemma evs_of_snoc regs r : evs_of (regs ++ [r]) = add_key (r_ev r) (evs_of regs).
Proof. unfold evs_of. rewrite fold_left_app. reflexivity. Qed.
Lemma evs_of_NoDup regs : NoDup (evs_of regs).
Proof.
  induction regs as [|r l IH] using rev_ind; [constructor|].
  rewrite evs_of_snoc. apply add_key_NoDup, IH.
Qed.
Lemma evs_of_In regs e : In e (evs_of regs) <-> has_reg regs e = true.
Proof.
  unfold has_reg. induction regs as [|r l IH] using rev_ind; [cbn; split; [tauto|discriminate]|].
  rewrite evs_of_snoc, add_key_In, existsb_app, orb_true_iff, IH. cbn. rewrite orb_false_r, N.eqb_eq.
  intuition.
Qed.

(* ---------- consequences of the invariant of DispatcherLemmas ---------- *)
Lemma Inv_has st regs ev : Inv st regs -> ahas N.eqb ev (d_listeners st) = has_reg regs ev.
Proof.
  intros (_ & _ & Hl & _). specialize (Hl ev). unfold ahas, has_reg.
  rewrite existsb_filter_nil. fold (regs_of regs ev).
  destruct (aget N.eqb ev (d_listeners st)) as [g|].
  - destruct Hl as (_ & Hr & _). destruct (regs_of regs ev); [contradiction|reflexivity].
  - rewrite Hl. reflexivity.
Qed.

Lemma Inv_sorted_spec st regs e g :
  Inv st regs -> aget N.eqb e (d_listeners st) = Some g -> sort_listeners g = spec_order regs e.
Proof.
  intros (_ & _ & Hl & _ & Hsr & _) Eg. specialize (Hl e). rewrite Eg in Hl.
  destruct Hl as (_ & _ & HGI). unfold spec_order.
  eapply sort_listeners_spec; [exact HGI|]. apply StronglySorted_filter, Hsr.
Qed.

Lemma In_NoDup_aget {V} e (v : V) d : NoDup (map fst d) -> In (e, v) d -> aget N.eqb e d = Some v.
Proof.
  induction d as [|[k w] r IH]; cbn; [tauto|]. intros Hnd Hin.
  inversion Hnd as [|? ? Hk Hr]; subst.
  destruct Hin as [Hin|Hin].
  - inversion Hin; subst. now rewrite N.eqb_refl.
  - destruct (N.eqb_spec e k) as [->|_]; [|auto].
    exfalso. apply Hk. apply in_map_iff. exists (k, v). auto.
Qed.

Lemma map_exact {V} (f : N -> V) d :
  (forall e v, In (e, v) d -> v = f e) -> d = map (fun e => (e, f e)) (map fst d).
Proof.
  induction d as [|[k w] r IH]; cbn; intros H; [reflexivity|].
  f_equal; [f_equal; apply H; now left | apply IH; intros; apply H; now right].
Qed.

(* the cache is, entry by entry, the spec order of its key *)
Lemma cache_exact st regs :
  Inv st regs -> NoDup (map fst (d_sorted st)) -> d_sorted st = all_of regs (map fst (d_sorted st)).
Proof.
  intros HI Hnd. unfold all_of. apply map_exact. intros e l Hin.
  pose proof (In_NoDup_aget _ _ _ Hnd Hin) as Ec.
  destruct HI as (Hn & Hs & Hl & Hc & Hsr & Hb).
  destruct (Hc _ _ Ec) as (g & Eg & ->).
  eapply Inv_sorted_spec; [|exact Eg]. repeat split; assumption.
Qed.

Lemma cache_keys_registered st regs e :
  Inv st regs -> In e (map fst (d_sorted st)) -> In e (map fst (d_listeners st)).
Proof.
  intros (_ & _ & _ & Hc & _) Hin. apply in_map_iff in Hin. destruct Hin as [[e' l] [<- Hin]]. cbn.
  destruct (In_aget_some _ _ _ Hin) as [l' El]. destruct (Hc _ _ El) as (g & Eg & _).
  apply aget_in_N in Eg. apply in_map_iff. exists (e', g). auto.
Qed.

(* get_listeners() : the keys after sorting everything *)
Lemma sort_all_keys lst ks : forall s,
  (forall e, In e ks -> ahas N.eqb e lst = true) ->
  map fst (sort_all lst ks s) = add_keys ks (map fst s).
Proof.
  induction ks as [|k r IH]; intros s H; cbn; [reflexivity|].
  assert (ahas N.eqb k lst = true) as Hk by (apply H; now left).
  unfold ahas in Hk. destruct (aget N.eqb k lst) as [g|]; [|discriminate].
  rewrite IH by (intros; apply H; now right). f_equal.
  unfold add_key. rewrite mem_keys. destruct (ahas N.eqb k s) eqn:E; [reflexivity|].
  rewrite keys_aset. unfold add_key. rewrite mem_keys, E. reflexivity.
Qed.

(* ---------- get_listener_priority ---------- *)
Lemma find_prio_some g lid p : find_prio g lid = Some p -> In (p, lid) (flatg g).
Proof.
  unfold flatg. induction g as [|[q ls] r IH]; cbn; [discriminate|].
  fold (mem lid ls). destruct (mem lid ls) eqn:E; intros H; apply in_app_iff.
  - inversion H; subst. left. apply in_map, mem_In, E.
  - right. auto.
Qed.
Lemma find_prio_none g lid p : find_prio g lid = None -> ~ In (p, lid) (flatg g).
Proof.
  unfold flatg. induction g as [|[q ls] r IH]; cbn; [tauto|].
  fold (mem lid ls). destruct (mem lid ls) eqn:E; [discriminate|]. intros H Hin.
  apply in_app_iff in Hin. destruct Hin as [Hin|Hin]; [|exact (IH H Hin)].
  apply in_map_iff in Hin. destruct Hin as [x [Hx Hi]]. inversion Hx; subst.
  exact (mem_nIn _ _ E Hi).
Qed.

Lemma lid_unique rs a b :
  StronglySorted lid_lt rs -> In a rs -> In b rs -> r_lid a = r_lid b -> a = b.
Proof.
  unfold lid_lt. induction 1 as [|x l Hl IH Hx]; cbn; [tauto|].
  rewrite Forall_forall in Hx.
  intros [<-|Ha] [<-|Hb] E; auto.
  - specialize (Hx _ Hb). lia.
  - specialize (Hx _ Ha). lia.
Qed.

Lemma find_filter {X} (f h : X -> bool) l : find (fun x => f x && h x) l = find h (filter f l).
Proof.
  induction l as [|a r IH]; cbn; [reflexivity|].
  destruct (f a); cbn; [destruct (h a)|]; auto.
Qed.

Lemma find_prio_spec n g rs lid :
  GI n g rs -> StronglySorted lid_lt rs ->
  find_prio g lid = option_map r_prio (find (fun r => N.eqb (r_lid r) lid) rs).
Proof.
  intros (Hperm & _ & _) Hrs.
  assert (forall p, In (p, lid) (flatg g) <-> exists r, In r rs /\ r_prio r = p /\ r_lid r = lid) as Hiff.
  { intros p. split.
    - intros H. eapply Permutation_in in H; [|exact Hperm].
      apply in_map_iff in H. destruct H as [r [Hr Hi]]. inversion Hr. eauto.
    - intros (r & Hi & <- & <-). eapply Permutation_in; [apply Permutation_sym, Hperm|].
      apply in_map_iff. exists r. auto. }
  destruct (find_prio g lid) as [p|] eqn:Ep; destruct (find _ rs) as [r|] eqn:Ef; cbn.
  - apply find_prio_some, Hiff in Ep. destruct Ep as (r' & Hi' & <- & Hl').
    apply find_some in Ef. destruct Ef as [Hi El]. apply N.eqb_eq in El.
    f_equal. f_equal. eapply lid_unique; eauto. congruence.
  - exfalso. apply find_prio_some, Hiff in Ep. destruct Ep as (r' & Hi' & _ & Hl').
    eapply find_none in Ef; [|exact Hi']. cbn in Ef. apply N.eqb_neq in Ef. contradiction.
  - exfalso. apply find_some in Ef. destruct Ef as [Hi El]. apply N.eqb_eq in El.
    eapply find_prio_none; [exact Ep|]. apply Hiff. eauto.
  - reflexivity.
Qed.

(* ---------- the extended simulation ---------- *)
Definition Inv2 (st : dstate) (q : qstate) : Prop :=
  Inv st (fst q) /\ map fst (d_listeners st) = evs_of (fst q) /\
  map fst (d_sorted st) = snd q /\ NoDup (snd q).

Lemma Inv2_init : Inv2 dinit qinit.
Proof. split; [apply Inv_init|]. cbn. repeat split. constructor. Qed.

Lemma get_listeners_keys st regs ev :
  Inv st regs -> NoDup (map fst (d_sorted st)) ->
  d_listeners (fst (get_listeners st ev)) = d_listeners st /\
  map fst (d_sorted (fst (get_listeners st ev))) = touch regs ev (map fst (d_sorted st)).
Proof.
  intros HI Hnd. unfold touch. rewrite <- (Inv_has _ _ ev HI). unfold get_listeners, ahas.
  destruct (aget N.eqb ev (d_listeners st)) as [g|]; [|cbn; auto].
  unfold add_key. rewrite mem_keys. unfold ahas.
  destruct (aget N.eqb ev (d_sorted st)) as [l|] eqn:Ec; cbn; [auto|].
  split; [reflexivity|]. rewrite keys_aset. unfold add_key. rewrite mem_keys. unfold ahas. now rewrite Ec.
Qed.

Lemma touch_NoDup regs ev keys : NoDup keys -> NoDup (touch regs ev keys).
Proof. intros H. unfold touch. destruct (has_reg regs ev); [apply add_key_NoDup|]; assumption. Qed.

Lemma qstep_sim st q o :
  Inv2 st q -> Inv2 (fst (dstep st o)) (fst (qstep q o)) /\ snd (dstep st o) = snd (qstep q o).
Proof.
  destruct q as [regs keys]. intros (HI & Hlk & Hck & Hnd). cbn [fst snd] in *.
  destruct (step_sim st regs o HI) as [HI' Hout].
  destruct o as [ev prio stops|ev|oev|ev| |ev lid]; cbn [covered] in Hout.
  - (* Add *)
    split; [|reflexivity]. cbn [qstep fst snd]. split; [exact HI'|]. cbn [fst snd].
    cbn [dstep fst add_listener d_listeners d_sorted sstep].
    unfold add_listener; cbn [d_listeners d_sorted].
    rewrite keys_aset, keys_adel, Hlk, Hck, evs_of_snoc. cbn [r_ev].
    repeat split. apply del_key_NoDup, Hnd.
  - (* Dispatch *)
    subst keys. destruct (get_listeners_keys st regs ev HI Hnd) as [Hl' Hk'].
    cbn [qstep fst snd]. cbn [dstep] in *.
    destruct (get_listeners st ev) as [st' l]. cbn [fst snd] in *.
    split; [|apply Hout; reflexivity].
    split; [exact HI'|]. cbn [fst snd]. rewrite Hl'. repeat split; auto. apply touch_NoDup, Hnd.
  - (* Has *)
    cbn [qstep fst snd]. split; [|apply Hout; reflexivity].
    destruct oev; (split; [exact HI'|]); cbn [dstep fst snd]; auto.
  - (* Get *)
    subst keys. destruct (get_listeners_keys st regs ev HI Hnd) as [Hl' Hk'].
    cbn [qstep fst snd]. cbn [dstep] in *.
    destruct (get_listeners st ev) as [st' l]. cbn [fst snd] in *.
    split; [|apply Hout; reflexivity].
    split; [exact HI'|]. cbn [fst snd]. rewrite Hl'. repeat split; auto. apply touch_NoDup, Hnd.
  - (* GetAll *)
    cbn [qstep fst snd]. cbn [dstep fst snd sstep] in *.
    set (s := sort_all (d_listeners st) (map fst (d_listeners st)) (d_sorted st)) in *.
    assert (map fst s = touch_all regs keys) as Hks.
    { unfold s, touch_all. rewrite sort_all_keys, Hlk, Hck; [reflexivity|].
      intros e He. rewrite <- mem_keys. apply mem_In, He. }
    assert (NoDup (touch_all regs keys)) as Hnd' by (apply add_keys_NoDup, Hnd).
    split.
    + split; [exact HI'|]. cbn [fst snd d_listeners d_sorted]. auto.
    + f_equal. rewrite <- Hks.
      apply (cache_exact _ regs HI'). cbn [d_sorted]. rewrite Hks. exact Hnd'.
  - (* Prio *)
    cbn [qstep fst snd]. cbn [dstep fst snd sstep] in *.
    split; [split; [exact HI'|]; cbn [fst snd]; auto|]. f_equal.
    rewrite find_filter. fold (regs_of regs ev).
    destruct HI as (_ & _ & Hl & _ & Hsr & _). specialize (Hl ev).
    destruct (aget N.eqb ev (d_listeners st)) as [g|].
    + destruct Hl as (_ & _ & HGI).
      rewrite (find_prio_spec _ _ _ lid HGI) by apply StronglySorted_filter, Hsr.
      destruct (find _ (regs_of regs ev)); reflexivity.
    + rewrite Hl. reflexivity.
Qed.

Lemma qrun_sim ops : forall st q, Inv2 st q -> drun st ops = qrun q ops.
Proof.
  induction ops as [|o r IH]; intros st q HI; cbn; [reflexivity|].
  destruct (qstep_sim st q o HI) as [HI' Ho].
  destruct (dstep st o) as [st' x]. destruct (qstep q o) as [q' y]. cbn in *.
  f_equal; [exact Ho | apply IH, HI'].
Qed.

(* Every answer of the model - Add, Dispatch, has_listeners(ev), has_listeners(),
   get_listeners(ev), get_listeners(), get_listener_priority - equals the spec's. *)
Lemma queries_refine_lemma ops : drun dinit ops = qrun qinit ops.
Proof. apply qrun_sim, Inv2_init. Qed.

(* ---------- the spec against the log-only spec of Model/Dispatcher.v ---------- *)
(* qstep keeps exactly the log of sstep, and answers every op but GetAll with sstep's answer *)
Lemma qstep_log q o : fst (fst (qstep q o)) = fst (sstep (fst q) o).
Proof. destruct q as [regs keys]. destruct o as [? ? ?|?|[?|]|?| |? ?]; reflexivity. Qed.
Lemma qstep_out q o : o <> GetAll -> snd (qstep q o) = snd (sstep (fst q) o).
Proof. destruct q as [regs keys]. destruct o as [? ? ?|?|[?|]|?| |? ?]; try reflexivity. congruence. Qed.

Lemma qafter_log ops : forall q,
  fst (qafter q ops) = fold_left (fun regs o => fst (sstep regs o)) ops (fst q).
Proof.
  unfold qafter. induction ops as [|o r IH]; intros q; cbn; [reflexivity|].
  rewrite IH, qstep_log. reflexivity.
Qed.
Lemma qafter_init_log ops : fst (qafter qinit ops) = log_of ops.
Proof. apply qafter_log. Qed.

Lemma reach_sim ops : forall st q, Inv2 st q -> Inv2 (dafter st ops) (qafter q ops).
Proof.
  unfold dafter, qafter. induction ops as [|o r IH]; intros st q HI; cbn; [exact HI|].
  apply IH. apply qstep_sim, HI.
Qed.
Lemma reach_init ops : Inv2 (dafter dinit ops) (qafter qinit ops).
Proof. apply reach_sim, Inv2_init. Qed.

(* the log: the Add ops in order, the i-th one carrying listener id i *)
Definition numbered (regs : list reg) : Prop :=
  forall i r, nth_error regs i = Some r -> r_lid r = N.of_nat i.
Fixpoint adds_of (ops : list dop) : list (N * Z * bool) :=
  match ops with
  | [] => []
  | Add ev p s :: r => (ev, p, s) :: adds_of r
  | _ :: r => adds_of r
  end.
Definition reg_data (r : reg) : N * Z * bool := (r_ev r, r_prio r, r_stops r).

Lemma numbered_snoc regs r : numbered regs -> r_lid r = N.of_nat (length regs) -> numbered (regs ++ [r]).
Proof.
  intros Hn Hr i x Hx.
  destruct (Nat.lt_ge_cases i (length regs)) as [Hlt|Hge].
  - rewrite nth_error_app1 in Hx by assumption. auto.
  - rewrite nth_error_app2 in Hx by assumption.
    destruct (i - length regs)%nat as [|k] eqn:E; cbn in Hx.
    + inversion Hx; subst. rewrite Hr. f_equal. lia.
    + destruct k; discriminate.
Qed.
Lemma sstep_numbered regs o : numbered regs -> numbered (fst (sstep regs o)).
Proof.
  intros H. destruct o as [? ? ?|?|[?|]|?| |? ?]; cbn; try assumption.
  apply numbered_snoc; [assumption|reflexivity].
Qed.
Lemma log_from_numbered ops : forall regs,
  numbered regs -> numbered (fold_left (fun regs o => fst (sstep regs o)) ops regs).
Proof. induction ops as [|o r IH]; intros regs H; cbn; [assumption|]. apply IH, sstep_numbered, H. Qed.
Lemma log_numbered ops : numbered (log_of ops).
Proof. apply log_from_numbered. intros [|i] r H; discriminate. Qed.

Lemma log_from_adds ops : forall regs,
  map reg_data (fold_left (fun regs o => fst (sstep regs o)) ops regs) = map reg_data regs ++ adds_of ops.
Proof.
  induction ops as [|o r IH]; intros regs; cbn; [now rewrite app_nil_r|].
  rewrite IH. destruct o as [? ? ?|?|[?|]|?| |? ?]; cbn; try reflexivity.
  rewrite map_app, <- app_assoc. reflexivity.
Qed.
Lemma log_adds ops : map reg_data (log_of ops) = adds_of ops.
Proof. apply (log_from_adds ops []). Qed.

Lemma numbered_unique regs a b : numbered regs -> In a regs -> In b regs -> r_lid a = r_lid b -> a = b.
Proof.
  intros Hn Ha Hb E.
  apply In_nth_error in Ha. destruct Ha as [i Hi]. apply In_nth_error in Hb. destruct Hb as [j Hj].
  pose proof (Hn _ _ Hi) as Ei. pose proof (Hn _ _ Hj) as Ej.
  assert (i = j) by lia. subst j. congruence.
Qed.

Lemma find_numbered regs ev lid :
  numbered regs ->
  find (fun r => N.eqb (r_ev r) ev && N.eqb (r_lid r) lid) regs =
  match nth_error regs (N.to_nat lid) with
  | Some r => if N.eqb (r_ev r) ev then Some r else None
  | None => None
  end.
Proof.
  intros Hn.
  destruct (nth_error regs (N.to_nat lid)) as [r|] eqn:En.
  - pose proof (Hn _ _ En) as Hl. rewrite N2Nat.id in Hl. pose proof (nth_error_In _ _ En) as Hi.
    destruct (find _ regs) as [r'|] eqn:Ef.
    + apply find_some in Ef. destruct Ef as [Hi' Hp]. apply andb_true_iff in Hp. destruct Hp as [He Hl'].
      apply N.eqb_eq in Hl'. assert (r' = r) as -> by (eapply numbered_unique; eauto; congruence).
      now rewrite He.
    + eapply find_none in Ef; [|exact Hi]. cbn in Ef. rewrite Hl, N.eqb_refl, andb_true_r in Ef. now rewrite Ef.
  - destruct (find _ regs) as [r'|] eqn:Ef; [|reflexivity]. exfalso.
    apply find_some in Ef. destruct Ef as [Hi' Hp]. apply andb_true_iff in Hp. destruct Hp as [_ Hl'].
    apply N.eqb_eq in Hl'. apply In_nth_error in Hi'. destruct Hi' as [i Hi'].
    pose proof (Hn _ _ Hi') as E. assert (i = N.to_nat lid) by lia. subst i. congruence.
Qed.

(* ---------- the three queries, pointwise after any op sequence ---------- *)
Lemma query_after ops o :
  snd (dstep (dafter dinit ops) o) = snd (qstep (qafter qinit ops) o).
Proof. apply qstep_sim, reach_init. Qed.

(* get_listener_priority(ev, lid) = the priority of the lid-th registration if that
   registration was for ev, None otherwise (other event, or no such listener) *)
Lemma prio_answer_lemma ops ev lid :
  snd (dstep (dafter dinit ops) (Prio ev lid)) =
  OPrio (match nth_error (log_of ops) (N.to_nat lid) with
         | Some r => if N.eqb (r_ev r) ev then Some (r_prio r) else None
         | None => None
         end).
Proof.
  rewrite query_after, qstep_out by discriminate. rewrite qafter_init_log. cbn [sstep snd].
  rewrite (find_numbered _ _ _ (log_numbered ops)).
  destruct (nth_error (log_of ops) (N.to_nat lid)) as [r|]; [|reflexivity].
  destruct (N.eqb (r_ev r) ev); reflexivity.
Qed.

(* has_listeners() = something has been registered *)
Lemma has_any_answer_lemma ops :
  snd (dstep (dafter dinit ops) (Has None)) = OBool (negb (match log_of ops with [] => true | _ => false end)).
Proof. rewrite query_after, qstep_out by discriminate. rewrite qafter_init_log. reflexivity. Qed.

Lemma aget_all_of regs ks e :
  aget N.eqb e (all_of regs ks) = if mem e ks then Some (spec_order regs e) else None.
Proof.
  unfold all_of, mem. induction ks as [|k r IH]; cbn; [reflexivity|].
  destruct (N.eqb_spec e k) as [->|_]; cbn; auto.
Qed.

(* get_listeners() as a finite map: exactly the events that have a registration, each once,
   each with its spec order (the key order is given by queries_refine / touch_all) *)
Lemma get_all_answer_lemma ops d :
  snd (dstep (dafter dinit ops) GetAll) = OAll d ->
  let regs := log_of ops in
  d = all_of regs (map fst d) /\
  NoDup (map fst d) /\
  (forall e, In e (map fst d) <-> has_reg regs e = true) /\
  (forall e, aget N.eqb e d = if has_reg regs e then Some (spec_order regs e) else None).
Proof.
  rewrite query_after. pose proof (reach_init ops) as (HI & Hlk & Hck & Hnd).
  rewrite <- (qafter_init_log ops).
  destruct (qafter qinit ops) as [regs keys]. cbn [fst snd qstep] in *.
  intros H. inversion H; subst d. clear H. cbn zeta.
  assert (map fst (all_of regs (touch_all regs keys)) = touch_all regs keys) as Hk.
  { unfold all_of. rewrite map_map. cbn. apply map_id. }
  assert (forall e, In e (touch_all regs keys) <-> has_reg regs e = true) as Hin.
  { intros e. unfold touch_all. fold (add_keys (evs_of regs) keys). rewrite add_keys_In, evs_of_In.
    split; [|auto]. intros [He|He]; [|assumption].
    apply evs_of_In. rewrite <- Hlk. eapply cache_keys_registered; [exact HI|]. now rewrite Hck. }
  rewrite Hk. split; [reflexivity|]. split; [apply add_keys_NoDup, Hnd|]. split; [exact Hin|].
  intros e. rewrite aget_all_of.
  replace (mem e (touch_all regs keys)) with (has_reg regs e); [reflexivity|].
  apply eq_true_iff_eq. rewrite mem_In. symmetry. apply Hin.
Qed.

(* ------------------------------------------------------------------ *)
(* get_listener_priority on ARBITRARY priority groups: the model function [find_prio]
   answers with the first bucket, in dict (bucket creation) order, that contains the id.
   In every state reachable through [dstep] an id sits in exactly one bucket (ids are fresh
   per registration), so this is "the priority it was registered with" (prio_answer_lemma).
   The lemmas below say what the same code does when an id occurs in several buckets, i.e.
   when one callable is registered twice for an event with different priorities. *)
Lemma find_prio_none_iff g lid :
  find_prio g lid = None <-> Forall (fun pl => ~ In lid (snd pl)) g.
Proof.
  induction g as [|[q ls] r IH]; cbn; [split; [constructor|reflexivity]|].
  fold (mem lid ls). destruct (mem lid ls) eqn:E.
  - split; [discriminate|]. intros H. inversion H; subst. cbn in *. apply mem_In in E. contradiction.
  - rewrite IH. split.
    + intros H. constructor; [apply mem_nIn, E | exact H].
    + intros H. now inversion H.
Qed.
Lemma find_prio_first g lid p :
  find_prio g lid = Some p <->
  exists g1 ls g2, g = g1 ++ (p, ls) :: g2 /\ In lid ls /\ Forall (fun pl => ~ In lid (snd pl)) g1.
Proof.
  split.
  - induction g as [|[q ls] r IH]; cbn; [discriminate|].
    fold (mem lid ls). destruct (mem lid ls) eqn:E; intros H.
    + inversion H; subst. exists [], ls, r. repeat split; [apply mem_In, E | constructor].
    + destruct (IH H) as (g1 & ms & g2 & -> & Hin & Hg1).
      exists ((q, ls) :: g1), ms, g2. repeat split; [assumption|].
      constructor; [apply mem_nIn, E | exact Hg1].
  - intros (g1 & ls & g2 & -> & Hin & Hg1).
    induction g1 as [|[q ms] r IH]; cbn.
    + fold (mem lid ls). apply mem_In in Hin. now rewrite Hin.
    + inversion Hg1 as [|? ? Hq Hr]; subst. cbn in Hq.
      fold (mem lid ms). destruct (mem lid ms) eqn:E; [apply mem_In in E; contradiction | auto].
Qed.

(* The bucket update of add_listener with an arbitrary listener id (add_listener uses
   the fresh id d_next), and the groups built from a list of (priority, id) registrations
   of one event. *)
Definition gadd (g : groups) (prio : Z) (lid : N) : groups :=
  aset Z.eqb prio ((match aget Z.eqb prio g with Some ls => ls | None => [] end) ++ [lid]) g.
Lemma add_listener_gadd st ev prio stops :
  d_listeners (add_listener st ev prio stops) =
  aset N.eqb ev (gadd (match aget N.eqb ev (d_listeners st) with Some g => g | None => [] end) prio (d_next st))
       (d_listeners st).
Proof. reflexivity. Qed.
Definition gbuild (l : list (Z * N)) : groups := fold_left (fun g pl => gadd g (fst pl) (snd pl)) l [].

(* log-level description: buckets are in order of FIRST USE of their priority *)
Definition memZ (p : Z) (l : list Z) : bool := existsb (Z.eqb p) l.
Definition add_keyZ (p : Z) (l : list Z) : list Z := if memZ p l then l else l ++ [p].
Definition prios_of (l : list (Z * N)) : list Z := fold_left (fun acc pl => add_keyZ (fst pl) acc) l [].
Definition bucket (l : list (Z * N)) (p : Z) : list N := map snd (filter (fun pl => Z.eqb (fst pl) p) l).
Definition registered_at (l : list (Z * N)) (lid : N) (p : Z) : bool :=
  existsb (fun pl => Z.eqb (fst pl) p && N.eqb (snd pl) lid) l.
Definition prio_spec (l : list (Z * N)) (lid : N) : option Z := find (registered_at l lid) (prios_of l).

Lemma memZ_In p l : memZ p l = true <-> In p l.
Proof.
  unfold memZ. rewrite existsb_exists. split.
  - intros [x [Hx E]]. apply Z.eqb_eq in E. now subst.
  - intros H. exists p. split; [assumption | apply Z.eqb_refl].
Qed.
Lemma keysZ_aset {V} p (v : V) g : map fst (aset Z.eqb p v g) = add_keyZ p (map fst g).
Proof.
  unfold add_keyZ, memZ. induction g as [|[q w] r IH]; cbn; auto.
  destruct (Z.eqb p q) eqn:E; cbn; auto.
  rewrite IH. destruct (existsb (Z.eqb p) (map fst r)); reflexivity.
Qed.
Lemma agetZ_aset {V} q p (v : V) g :
  aget Z.eqb q (aset Z.eqb p v g) = if Z.eqb q p then Some v else aget Z.eqb q g.
Proof.
  induction g as [|[k w] r IH]; cbn.
  - reflexivity.
  - destruct (Z.eqb_spec p k) as [->|Hpk]; cbn.
    + destruct (Z.eqb q k); reflexivity.
    + destruct (Z.eqb_spec q k) as [->|Hqk].
      * destruct (Z.eqb_spec k p); [congruence|reflexivity].
      * exact IH.
Qed.
Lemma add_keyZ_NoDup p l : NoDup l -> NoDup (add_keyZ p l).
Proof.
  intros H. unfold add_keyZ. destruct (memZ p l) eqn:E; [assumption|].
  apply NoDup_snoc; [assumption|]. intros Hi. apply memZ_In in Hi. congruence.
Qed.
Lemma memZ_add_key q p l : memZ q (add_keyZ p l) = Z.eqb q p || memZ q l.
Proof.
  unfold add_keyZ. destruct (memZ p l) eqn:E.
  - destruct (Z.eqb_spec q p) as [->|_]; [now rewrite E | reflexivity].
  - unfold memZ. rewrite existsb_app. cbn. rewrite orb_false_r. apply orb_comm.
Qed.

Lemma prios_of_snoc l x : prios_of (l ++ [x]) = add_keyZ (fst x) (prios_of l).
Proof. unfold prios_of. rewrite fold_left_app. reflexivity. Qed.
Lemma prios_of_NoDup l : NoDup (prios_of l).
Proof.
  induction l as [|x l IH] using rev_ind; [constructor|].
  rewrite prios_of_snoc. apply add_keyZ_NoDup, IH.
Qed.
Lemma prios_of_mem l p : memZ p (prios_of l) = existsb (fun pl => Z.eqb (fst pl) p) l.
Proof.
  induction l as [|x l IH] using rev_ind; [reflexivity|].
  rewrite prios_of_snoc, memZ_add_key, existsb_app, IH. cbn. rewrite orb_false_r, Z.eqb_sym. apply orb_comm.
Qed.
Lemma bucket_snoc l x p : bucket (l ++ [x]) p = bucket l p ++ (if Z.eqb (fst x) p then [snd x] else []).
Proof. unfold bucket. rewrite filter_app, map_app. cbn. destruct (Z.eqb (fst x) p); reflexivity. Qed.
Lemma bucket_unused l p : existsb (fun pl => Z.eqb (fst pl) p) l = false -> bucket l p = [].
Proof.
  unfold bucket. induction l as [|x l IH]; cbn; [reflexivity|].
  destruct (Z.eqb (fst x) p); cbn; [discriminate|exact IH].
Qed.
Lemma gbuild_snoc l x : gbuild (l ++ [x]) = gadd (gbuild l) (fst x) (snd x).
Proof. unfold gbuild. rewrite fold_left_app. reflexivity. Qed.

(* the groups are, bucket by bucket, the registrations with that priority in order *)
Lemma gbuild_inv l :
  map fst (gbuild l) = prios_of l /\
  forall p, aget Z.eqb p (gbuild l) = if memZ p (prios_of l) then Some (bucket l p) else None.
Proof.
  induction l as [|[p n] l [IHk IHb]] using rev_ind; [split; [reflexivity|intros; reflexivity]|].
  rewrite gbuild_snoc, prios_of_snoc. cbn [fst snd]. unfold gadd. split.
  - rewrite keysZ_aset, IHk. reflexivity.
  - intros q. rewrite agetZ_aset, memZ_add_key, bucket_snoc. cbn [fst snd].
    destruct (Z.eqb_spec q p) as [->|Hqp]; cbn [orb].
    + rewrite Z.eqb_refl, IHb. destruct (memZ p (prios_of l)) eqn:E; [reflexivity|].
      rewrite prios_of_mem in E. now rewrite (bucket_unused _ _ E).
    + destruct (Z.eqb_spec p q) as [->|_]; [congruence|]. rewrite app_nil_r. apply IHb.
Qed.

Lemma find_ext_in {X} (f h : X -> bool) l : (forall x, In x l -> f x = h x) -> find f l = find h l.
Proof.
  induction l as [|a r IH]; cbn; intros H; [reflexivity|].
  rewrite (H a) by now left. destruct (h a); [reflexivity|]. apply IH. intros; apply H; now right.
Qed.

Lemma find_prio_keys g lid :
  NoDup (map fst g) ->
  find_prio g lid =
  find (fun p => match aget Z.eqb p g with Some ls => mem lid ls | None => false end) (map fst g).
Proof.
  induction g as [|[p ls] r IH]; cbn; intros Hnd; [reflexivity|].
  inversion Hnd as [|? ? Hp Hr]; subst.
  rewrite Z.eqb_refl. fold (mem lid ls). destruct (mem lid ls); [reflexivity|].
  rewrite (IH Hr). apply find_ext_in. intros q Hq.
  destruct (Z.eqb_spec q p) as [->|_]; [contradiction|reflexivity].
Qed.

Lemma mem_bucket l lid p : mem lid (bucket l p) = registered_at l lid p.
Proof.
  unfold bucket, registered_at, mem. induction l as [|[q n] l IH]; cbn; [reflexivity|].
  destruct (Z.eqb q p); cbn; [rewrite IH, N.eqb_sym; reflexivity | exact IH].
Qed.

(* what get_listener_priority answers when ids may repeat: the first priority, in order of
   first use for this event, under which the id has been registered *)
Lemma find_prio_gbuild l lid : find_prio (gbuild l) lid = prio_spec l lid.
Proof.
  destruct (gbuild_inv l) as [Hk Hb].
  rewrite find_prio_keys by (rewrite Hk; apply prios_of_NoDup).
  rewrite Hk. unfold prio_spec. apply find_ext_in. intros p Hp.
  rewrite Hb. apply memZ_In in Hp. rewrite Hp. apply mem_bucket.
Qed.
