(* C09, the help switch anywhere: a SYNTACTIC criterion for "the help command's lenient parse of the line does not set the
   version option" (the semantic hypothesis of the help_switch_anywhere_* theorems).

   The version option of DefaultApplicationConfig is add_option("version", "V", NO_VALUE).  The parse stores an option
   under the long name it is FOUND by: a token "--NAME" / "--NAME=..." stores under NAME (which may be a short name:
   "--V" finds the option too), a token "-abc" stores, letter by letter, under the long name of the option with that
   short name.  Args.set_option then files the value under the long name of the option the stored key finds.  So the
   version option can be set only by a token before "--" whose long-name part is "version" or "V", or by a single-dash
   token holding the letter V (spells_version).  Without such a token it is not set - whatever else is on the line and
   wherever the lenient parse stops. *)
From Coq Require Import Lia.
From Clikit Require Import Base.Prelude Base.Res Model.Conv Model.Flags Model.Format Model.Parser Model.Spell
     Model.Resolver Model.Tokenizer Model.Switches
     Proofs.StrLemmas Proofs.FormatLemmas Proofs.ParserLemmas Proofs.SpellArgs Proofs.FmtOkLemmas
     Proofs.ResolverLemmas Proofs.SwitchesLemmas Proofs.HelpSamePageLemmas Proofs.HelpRunLemmas Proofs.HelpAnywhereLemmas.
From Clikit Require Proofs.ClassifyLemmas.

Definition S_V : str := [86%N].
Definition bad_key (k : str) : bool := str_eqb k S_version || str_eqb k S_V.
(* the name a "--..." token is looked up by *)
Definition long_name (tok : str) : str :=
  match split_eq (skipn 2 tok) [] with Some (n, _) => n | None => skipn 2 tok end.
Definition spells_version (tok : str) : bool :=
  if starts_dd tok then bad_key (long_name tok)
  else if starts_dash tok then existsb (N.eqb 86) (skipn 1 tok) else false.

Definition keys_ok (po : list (str * rawopt)) : Prop := forall k, In k (map fst po) -> bad_key k = false.

Lemma in_keys_sset {V} k (v : V) d k' : In k' (map fst (sset k v d)) -> k' = k \/ In k' (map fst d).
Proof.
  intros H. apply in_map_iff in H as [[k2 v2] [E H]]. cbn [fst] in E. subst k2.
  apply in_sset in H as [[-> _]|H]; [now left|right]. change k' with (fst (k', v2)). now apply in_map.
Qed.
Lemma keys_ok_sset k v po : keys_ok po -> bad_key k = false -> keys_ok (sset k v po).
Proof. intros Hp Hk k' H. apply in_keys_sset in H as [->|H]; [exact Hk|now apply Hp]. Qed.

(* what an option branch does to the remaining tokens: nothing, or it takes the next one as a value - never "--" *)
Definition tail_rel (t t' : list str) : Prop := t' = t \/ exists x, t = x :: t' /\ is_ddash x = false.
Lemma tail_rel_refl t : tail_rel t t.
Proof. now left. Qed.
Lemma tail_rel_trans t1 t2 t3 (P : list str -> Prop) :
  (forall t t', tail_rel t t' -> P t -> P t') -> tail_rel t1 t2 -> tail_rel t2 t3 -> P t1 -> P t3.
Proof. intros H H1 H2 Hp. eapply H; [exact H2|]. eapply H; [exact H1|exact Hp]. Qed.

Definition toks_ok (t : list str) : Prop := Forall (fun tok => spells_version tok = false) (option_tokens t).
Lemma toks_ok_tail t t' : tail_rel t t' -> toks_ok t -> toks_ok t'.
Proof.
  intros [->|(x & -> & Hx)] H; [exact H|]. unfold toks_ok in *. cbn [option_tokens] in H. rewrite Hx in H. now inversion H.
Qed.

Lemma not_dash_not_ddash x : nonempty x && starts_dash x = false -> is_ddash x = false.
Proof.
  unfold is_ddash. destruct (str_eqb_spec x [DASH; DASH]) as [->|]; [|reflexivity]. cbn. discriminate.
Qed.

Section Keys.
  Variable g : fmt.
  (* a short name that finds an option whose long name is "version" or "V" is the letter V *)
  Hypothesis Hshort : forall c o, get_option g [c] true = Ok o -> bad_key (o_long o) = true -> c = 86%N.

  Lemma add_long_keys st n v t st' t' : add_long_option g st n v t = Ok (st', t') ->
    (forall k, In k (map fst (ps_opts st')) -> k = n \/ In k (map fst (ps_opts st))) /\ tail_rel t t'.
  Proof.
    unfold add_long_option. destruct (negb (has_option g n true)); [discriminate|].
    destruct (get_option g n true) as [o|k]; cbn [bind]; [|discriminate].
    destruct (match v with Some _ => negb (o_accepts o) | None => false end); [discriminate|].
    assert (tail_rel t (snd (match v, o_accepts o, t with
                             | None, true, nxt :: rest =>
                                 if nonempty nxt && negb (starts_dash nxt) then (Some nxt, rest)
                                 else if negb (nonempty nxt) then (Some [], rest) else (None, t)
                             | _, _, _ => (v, t) end))) as Htail.
    { destruct v; [apply tail_rel_refl|]. destruct (o_accepts o); [|apply tail_rel_refl]. destruct t as [|nxt rest]; [apply tail_rel_refl|].
      destruct (nonempty nxt) eqn:En; cbn [andb negb snd].
      - destruct (starts_dash nxt) eqn:Ed; cbn [negb snd]; [apply tail_rel_refl|]. right. exists nxt. split; [reflexivity|].
        apply not_dash_not_ddash. now rewrite Ed, andb_false_r.
      - right. exists nxt. split; [reflexivity|]. apply not_dash_not_ddash. now rewrite En. }
    match goal with |- (let '(value, tokens) := ?X in _) = _ -> _ => destruct X as [v1 t1] end. cbn [snd] in Htail.
    destruct (match v1 with Some [] => None | x => x end) as [s|].
    - destruct (o_multi o); intros H; inversion H; subst; cbn [ps_opts]; (split; [intros k Hk; now apply in_keys_sset in Hk|exact Htail]).
    - destruct (o_required o); [discriminate|]. destruct (o_multi o); [discriminate|].
      intros H; inversion H; subst; cbn [ps_opts]. split; [intros k Hk; now apply in_keys_sset in Hk|exact Htail].
  Qed.

  Lemma take_value_tail t : tail_rel t (snd (take_value t)).
  Proof.
    destruct t as [|v rest]; cbn [take_value snd]; [apply tail_rel_refl|].
    destruct (nonempty v && starts_dash v) eqn:E; cbn [snd]; [apply tail_rel_refl|]. right. exists v. split; [reflexivity|].
    now apply not_dash_not_ddash.
  Qed.

  Lemma parse_long_keys st tok t st' t' : parse_long_option g st tok t = Ok (st', t') ->
    (forall k, In k (map fst (ps_opts st')) -> k = long_name tok \/ In k (map fst (ps_opts st))) /\
    forall P : list str -> Prop, (forall a b, tail_rel a b -> P a -> P b) -> P t -> P t'.
  Proof.
    unfold parse_long_option, long_name. destruct (split_eq (skipn 2 tok) []) as [[n v]|].
    - intros H. apply add_long_keys in H as [H1 H2]. split; [exact H1|]. intros P HP Hp. eapply HP; eauto.
    - destruct (accepts g (skipn 2 tok)).
      + pose proof (take_value_tail t) as Ht. destruct (take_value t) as [v t1]. cbn [snd] in Ht.
        intros H. apply add_long_keys in H as [H1 H2]. split; [exact H1|]. intros P HP Hp. eapply HP; [exact H2|]. eapply HP; eauto.
      + intros H. apply add_long_keys in H as [H1 H2]. split; [exact H1|]. intros P HP Hp. eapply HP; eauto.
  Qed.

  Lemma add_short_keys st c v t st' t' : add_short_option g st [c] v t = Ok (st', t') ->
    exists o, get_option g [c] true = Ok o /\
      (forall k, In k (map fst (ps_opts st')) -> k = o_long o \/ In k (map fst (ps_opts st))) /\ tail_rel t t'.
  Proof.
    unfold add_short_option. destruct (negb (has_option g [c] true)); [discriminate|].
    destruct (get_option g [c] true) as [o|k]; cbn [bind]; [|discriminate]. intros H. exists o. split; [reflexivity|].
    now apply add_long_keys in H.
  Qed.

  (* a group of letters without V keeps the keys clean - in the state reached as well when the group fails midway *)
  Lemma short_set_keys : forall name st t, existsb (N.eqb 86) name = false -> keys_ok (ps_opts st) ->
    keys_ok (ps_opts (snd (short_set g st name t))) /\
    forall st' t', fst (short_set g st name t) = Ok (st', t') ->
      keys_ok (ps_opts st') /\ forall P : list str -> Prop, (forall a b, tail_rel a b -> P a -> P b) -> P t -> P t'.
  Proof.
    induction name as [|c rest IH]; intros st t Hn Hk; cbn [short_set fst snd].
    - split; [exact Hk|]. intros st' t' H. inversion H; subst. split; [exact Hk|auto].
    - cbn [existsb] in Hn. apply orb_false_elim in Hn as [Hc Hrest].
      destruct (negb (has_option g [c] true)); cbn [fst snd]; [split; [exact Hk|discriminate]|].
      destruct (get_option g [c] true) as [o|k] eqn:Eo; cbn [fst snd]; [|split; [exact Hk|discriminate]].
      assert (bad_key (o_long o) = false) as Hbad.
      { destruct (bad_key (o_long o)) eqn:E; [|reflexivity]. rewrite (Hshort c o Eo E) in Hc. discriminate. }
      destruct (o_accepts o).
      + destruct (add_long_option g st (o_long o) _ t) as [[st1 t1]|k] eqn:E; cbn [fst snd]; [|split; [exact Hk|discriminate]].
        apply add_long_keys in E as [E1 E2].
        assert (keys_ok (ps_opts st1)) as Hk1 by (intros k Hin; apply E1 in Hin as [->|Hin]; [exact Hbad|now apply Hk]).
        split; [exact Hk1|]. intros st' t' H. inversion H; subst. split; [exact Hk1|]. intros P HP Hp. eapply HP; eauto.
      + destruct (add_long_option g st (o_long o) None t) as [[st1 t1]|k] eqn:E; cbn [fst snd]; [|split; [exact Hk|discriminate]].
        apply add_long_keys in E as [E1 E2].
        assert (keys_ok (ps_opts st1)) as Hk1 by (intros k Hin; apply E1 in Hin as [->|Hin]; [exact Hbad|now apply Hk]).
        destruct (IH st1 t1 Hrest Hk1) as [I1 I2]. split; [exact I1|].
        intros st' t' H. destruct (I2 _ _ H) as [J1 J2]. split; [exact J1|]. intros P HP Hp. apply (J2 P HP). eapply HP; eauto.
  Qed.

  Lemma parse_short_keys st tok t : existsb (N.eqb 86) (skipn 1 tok) = false -> keys_ok (ps_opts st) ->
    keys_ok (ps_opts (snd (parse_short_option g st tok t))) /\
    forall st' t', fst (parse_short_option g st tok t) = Ok (st', t') ->
      keys_ok (ps_opts st') /\ forall P : list str -> Prop, (forall a b, tail_rel a b -> P a -> P b) -> P t -> P t'.
  Proof.
    intros Hn Hk. unfold parse_short_option. destruct (skipn 1 tok) as [|c [|c2 rest]] eqn:Es.
    - cbn [fst snd]. split; [exact Hk|discriminate].
    - cbn [existsb] in Hn. apply orb_false_elim in Hn as [Hc _].
      assert (forall v t0 st' t', add_short_option g st [c] v t0 = Ok (st', t') -> keys_ok (ps_opts st') /\ tail_rel t0 t') as Hadd.
      { intros v t0 st' t' H. apply add_short_keys in H as (o & Eo & E1 & E2). split; [|exact E2].
        intros k Hin. apply E1 in Hin as [->|Hin]; [|now apply Hk].
        destruct (bad_key (o_long o)) eqn:E; [|reflexivity]. rewrite (Hshort c o Eo E) in Hc. discriminate. }
      destruct (accepts g [c]).
      + pose proof (take_value_tail t) as Ht. destruct (take_value t) as [v t1]. cbn [snd] in Ht.
        destruct (add_short_option g st [c] v t1) as [[st1 t2]|k] eqn:E; cbn [fst snd]; [|split; [exact Hk|discriminate]].
        destruct (Hadd _ _ _ _ E) as [A1 A2]. split; [exact A1|]. intros st' t' H. inversion H; subst. split; [exact A1|].
        intros P HP Hp. eapply HP; [exact A2|]. eapply HP; eauto.
      + destruct (add_short_option g st [c] None t) as [[st1 t2]|k] eqn:E; cbn [fst snd]; [|split; [exact Hk|discriminate]].
        destruct (Hadd _ _ _ _ E) as [A1 A2]. split; [exact A1|]. intros st' t' H. inversion H; subst. split; [exact A1|].
        intros P HP Hp. eapply HP; eauto.
    - destruct (accepts g [c]).
      + cbn [existsb] in Hn. apply orb_false_elim in Hn as [Hc _].
        destruct (add_short_option g st [c] (Some (c2 :: rest)) t) as [[st1 t2]|k] eqn:E; cbn [fst snd]; [|split; [exact Hk|discriminate]].
        apply add_short_keys in E as (o & Eo & E1 & E2).
        assert (keys_ok (ps_opts st1)) as A1.
        { intros k Hin. apply E1 in Hin as [->|Hin]; [|now apply Hk].
          destruct (bad_key (o_long o)) eqn:E; [|reflexivity]. rewrite (Hshort c o Eo E) in Hc. discriminate. }
        split; [exact A1|]. intros st' t' H. inversion H; subst. split; [exact A1|]. intros P HP Hp. eapply HP; eauto.
      + apply short_set_keys; assumption.
  Qed.

  Lemma toks_ok_rel : forall a b, tail_rel a b -> toks_ok a -> toks_ok b.
  Proof. exact toks_ok_tail. Qed.

  (* the token loop: no token before "--" spells the version option - the stored keys stay clean *)
  Lemma loop_keys len : forall fuel toks p st, (p = true -> toks_ok toks) -> keys_ok (ps_opts st) ->
    keys_ok (ps_opts (fst (loop fuel g len p st toks))).
  Proof.
    induction fuel as [|fuel IH]; intros toks p st Ht Hk; cbn [loop]; [exact Hk|].
    destruct toks as [|tok rest]; [exact Hk|].
    assert ((p = true -> is_ddash tok = false) ->
            keys_ok (ps_opts (fst (match parse_argument g len st tok with
                                    | Ok st' => loop fuel g len p st' rest | Err k => (st, Some k) end)))) as Harg.
    { intros Hnd. destruct (parse_argument g len st tok) as [st'|k] eqn:E; [|exact Hk].
      apply IH; [|rewrite (parse_argument_opts _ _ _ _ _ E); exact Hk].
      intros Hp. specialize (Ht Hp). unfold toks_ok in *. cbn [option_tokens] in Ht. rewrite (Hnd Hp) in Ht. now inversion Ht. }
    destruct p; cbn [andb]; [|apply Harg; discriminate]. specialize (Ht eq_refl).
    destruct (nonempty tok) eqn:Ene; cbn [negb]; [|apply Harg; intros _; destruct tok; [reflexivity|discriminate]].
    destruct (is_dd tok) eqn:Edd; [apply IH; [discriminate|exact Hk]|].
    assert (spells_version tok = false /\ toks_ok rest) as [Hs Hr].
    { unfold toks_ok in Ht. cbn [option_tokens] in Ht. change (is_ddash tok) with (is_dd tok) in Ht. rewrite Edd in Ht. now inversion Ht. }
    destruct (starts_dd tok) eqn:Esd.
    { destruct (parse_long_option g st tok rest) as [[st' rest']|k] eqn:E; [|exact Hk].
      apply parse_long_keys in E as [E1 E2]. apply IH.
      - intros _. apply (E2 toks_ok toks_ok_rel Hr).
      - intros k Hin. apply E1 in Hin as [->|Hin]; [|now apply Hk]. unfold spells_version in Hs. now rewrite Esd in Hs. }
    destruct (starts_dash tok && negb (str_eqb tok [DASH])) eqn:Esh; [|apply Harg; intros _; exact Edd].
    apply andb_prop in Esh as [Esh _]. unfold spells_version in Hs. rewrite Esd, Esh in Hs.
    destruct (parse_short_keys st tok rest Hs Hk) as [S1 S2].
    destruct (parse_short_option g st tok rest) as [[[st' rest']|k] st2]; cbn [fst snd] in *; [|exact S1].
    destruct (S2 _ _ eq_refl) as [K1 K2]. apply IH; [intros _; apply (K2 toks_ok toks_ok_rel Hr)|exact K1].
  Qed.
End Keys.

(* ================= from the stored keys to Args.is_option_set("version") ================= *)
Lemma set_argument_opts f a n v a' : set_argument f a n v = Ok a' -> ar_opts a' = ar_opts a.
Proof.
  unfold set_argument. destruct (get_argument f (AName n) true) as [ar|k]; cbn [bind]; [|discriminate].
  match goal with |- (do pv <- ?X; _) = _ -> _ => destruct X as [pv|k]; cbn [bind]; [|discriminate] end.
  intros H. inversion H. reflexivity.
Qed.
Lemma set_arguments_opts f : forall l a a', set_arguments f a l = Ok a' -> ar_opts a' = ar_opts a.
Proof.
  induction l as [|[n v] r IH]; intros a a'; cbn [set_arguments]; [intros H; inversion H; reflexivity|].
  destruct (has_argument f (AName n) true); [|apply IH].
  destruct (set_argument f a n v) as [a1|k] eqn:E; cbn [bind]; [|discriminate].
  intros H. rewrite (IH _ _ H). eapply set_argument_opts; eauto.
Qed.
Lemma set_options_keys f : forall l a a', set_options f a l = Ok a' -> forall k, In k (map fst (ar_opts a')) ->
  In k (map fst (ar_opts a)) \/ exists n o, In n (map fst l) /\ get_option f n true = Ok o /\ k = o_long o.
Proof.
  induction l as [|[n v] r IH]; intros a a'; cbn [set_options]; [intros H; inversion H; auto|].
  destruct (has_option f n true).
  - unfold set_option at 1. destruct (get_option f n true) as [o|k0] eqn:Eo; cbn [bind]; [|discriminate].
    match goal with |- (do a1 <- (do pv <- ?X; _); _) = _ -> _ => destruct X as [pv|k0]; cbn [bind]; [|discriminate] end.
    intros H k Hk. apply (IH _ _ H) in Hk as [Hk|(n' & o' & Hn & Ho & E)].
    + cbn [ar_opts] in Hk. apply in_keys_sset in Hk as [->|Hk]; [|now left]. right. exists n, o. repeat split; auto. now left.
    + right. exists n', o'. repeat split; auto. now right.
  - intros H k Hk. apply (IH _ _ H) in Hk as [Hk|(n' & o' & Hn & Ho & E)]; [now left|]. right. exists n', o'. repeat split; auto. now right.
Qed.

Definition is_version_option (o : opt) : bool :=
  str_eqb (o_long o) S_version && match o_short o with Some s => str_eqb s S_V | None => false end.
Definition defines_version (cfg : appcfg) : bool := existsb is_version_option (ac_opts cfg).
Definition no_version_spelling (ots : list str) : bool := negb (existsb spells_version ots).

Section NotSet.
  Variables (f : fmt) (ov : opt).
  Hypothesis Hinv : fmt_inv f.
  Hypothesis Hsound : short_sound f.
  Hypothesis Hcar : carries ov f.
  Hypothesis Hov : is_version_option ov = true.

  Lemma ov_names : o_long ov = S_version /\ o_short ov = Some S_V.
  Proof.
    unfold is_version_option in Hov. apply andb_prop in Hov as [H1 H2].
    destruct (str_eqb_spec (o_long ov) S_version); [|discriminate]. destruct (o_short ov) as [s|]; [|discriminate].
    destruct (str_eqb_spec s S_V); [subst; auto|discriminate].
  Qed.

  Lemma short_names_version g A cns : aug_format f = Ok (g, A, cns) ->
    forall c o, get_option g [c] true = Ok o -> bad_key (o_long o) = true -> c = 86%N.
  Proof.
    intros Ha c o Hg Hb. destruct ov_names as [Hl Hs]. pose proof (ClassifyLemmas.aug_format_opts f g A cns Ha) as AO.
    assert (In ov (map snd (get_options_all f))) as Hlist.
    { destruct Hcar as (_ & _ & Hin & _). change ov with (snd (o_long ov, ov)). now apply in_map. }
    destruct (ClassifyLemmas.ao_get _ _ AO _ _ Hg) as [Ho Hn].
    pose proof (proj2 (ClassifyLemmas.ao_long _ _ AO o Ho)) as G1.
    pose proof (proj2 (ClassifyLemmas.ao_long _ _ AO ov Hlist)) as G2. rewrite Hl in G2.
    pose proof (proj2 (ClassifyLemmas.ao_short _ _ AO ov S_V Hlist Hs)) as G3.
    unfold bad_key in Hb. apply orb_prop in Hb as [Hb|Hb].
    - destruct (str_eqb_spec (o_long o) S_version) as [E|]; [|discriminate]. rewrite E in G1.
      assert (o = ov) as -> by congruence. unfold ClassifyLemmas.opt_named in Hn. rewrite Hl, Hs in Hn.
      apply orb_prop in Hn as [Hn|Hn].
      + exfalso. unfold S_version in Hn. cbn [str_eqb] in Hn. now rewrite andb_false_r in Hn.
      + unfold S_V in Hn. cbn [str_eqb] in Hn. rewrite andb_true_r in Hn. now apply N.eqb_eq in Hn.
    - destruct (str_eqb_spec (o_long o) S_V) as [E|]; [|discriminate]. rewrite E in G1.
      assert (o = ov) as -> by congruence. rewrite Hl in E. discriminate.
  Qed.

  Theorem version_not_set toks x : parse f true toks = Ok x -> no_version_spelling (option_tokens toks) = true ->
    args_is_option_set f x S_version = false.
  Proof.
    intros Hp Hno. destruct ov_names as [Hl Hs]. destruct Hcar as (C1 & C2 & _). rewrite Hl in C1, C2.
    pose proof (wf_implies_fmt_ok_lemma f Hinv) as Hok. apply fmt_ok_inv in Hok as (g & A & cns & FF).
    assert (toks_ok toks) as Ht.
    { unfold toks_ok, no_version_spelling in *. apply negb_true_iff in Hno. apply Forall_forall. intros t Hin.
      destruct (spells_version t) eqn:E; [|reflexivity]. rewrite <- Hno. symmetry. apply existsb_exists. eauto. }
    unfold parse, parse_on in Hp. rewrite (ff_aug _ _ _ _ FF) in Hp.
    pose proof (loop_keys g (short_names_version g A cns (ff_aug _ _ _ _ FF)) true (S (length toks)) toks true ps_empty (fun _ => Ht)) as Hk.
    destruct (loop (S (length toks)) g true true ps_empty toks) as [st1 e]. cbn [fst] in Hk.
    specialize (Hk ltac:(intros k [])).
    destruct (match e with Some CannotParse | Some NoSuchOption => None | _ => e end) as [k0|]; [cbn [snd] in Hp; discriminate|].
    pose proof (insert_missing_spec A cns true st1) as Hi.
    destruct (insert_missing A cns true st1) as [st2|k2]; [|cbn [snd] in Hp; discriminate].
    rewrite andb_false_r in Hp. cbn [snd] in Hp.
    destruct (set_arguments f {| ar_opts := []; ar_args := [] |} (ps_args st2)) as [a1|k1] eqn:Ea; cbn [bind] in Hp; [|discriminate].
    pose proof (set_arguments_opts f _ _ _ Ea) as Ho1. cbn [ar_opts] in Ho1.
    unfold args_is_option_set. cbn [has_option get_option]. rewrite C1, C2, Hl.
    apply notin_shas_false. intros Hin. apply (set_options_keys f _ _ _ Hp) in Hin as [Hin|(n & o' & Hn & Hg & E)].
    - rewrite Ho1 in Hin. destruct Hin.
    - rewrite Hi in Hn. specialize (Hk n Hn). destruct Hinv as (_ & _ & Hoi). cbn [get_option] in Hg.
      destruct (get_option_named f Hoi Hsound n o' Hg) as (I1 & _ & I3). rewrite <- E in I3.
      assert (o' = ov) as -> by congruence. apply in_onames in I1 as [I1|I1].
      + rewrite Hl in I1. subst n. discriminate.
      + rewrite Hs in I1. inversion I1; subst n. discriminate.
  Qed.
End NotSet.

(* ================= the configuration-level statement ================= *)
Theorem help_line_version_not_set cfg a toks fx x : build_app cfg = Ok a -> default_help_config cfg = true ->
  defines_version cfg = true -> help_line_parse a toks = Ok (fx, x) ->
  no_version_spelling (option_tokens toks) = true -> args_is_option_set fx x S_version = false.
Proof.
  intros Hb Hc Hv Hp Hno. destruct (default_help_setup cfg a Hb Hc) as (hc & f & arg & o & HS).
  unfold defines_version in Hv. apply existsb_exists in Hv as [ov [Hoin Hov]].
  pose proof (build_app_carries cfg a ov Hb Hoin) as Htree.
  pose proof (coll_get_in _ _ _ (hs_all _ _ _ _ _ HS)) as Hin.
  pose proof (proj1 (Forall_forall _ _) Htree hc Hin) as Hhc. apply tree_ok_unfold in Hhc as [Hcar _].
  unfold help_line_parse in Hp. rewrite (setup_find a hc f arg o HS), (setup_fmt a hc f arg o HS) in Hp.
  rewrite (setup_fmt a hc f arg o HS) in Hcar.
  destruct (parse f true toks) as [x0|k] eqn:E; cbn [bind] in Hp; [|discriminate]. inversion Hp; subst fx x0.
  exact (version_not_set f ov (hs_inv _ _ _ _ _ HS) (hs_sound _ _ _ _ _ HS) Hcar Hov toks x E Hno).
Qed.

(* ================= the closed form of the help-switch theorems ================= *)
Lemma plain_spells_nothing t : lead_ok t = true -> spells_version t = false.
Proof.
  unfold lead_ok, spells_version. intros H. apply andb_prop in H as [_ H]. apply negb_true_iff in H.
  rewrite (starts_dd_dash t H), H. reflexivity.
Qed.
Lemma no_spelling_line path rest : forallb lead_ok path = true ->
  no_version_spelling (option_tokens (path ++ rest)) = no_version_spelling (option_tokens rest).
Proof.
  intros Hp. rewrite (option_tokens_plain _ _ Hp). unfold no_version_spelling. rewrite existsb_app.
  replace (existsb spells_version path) with false; [reflexivity|]. symmetry.
  induction path as [|t r IH]; [reflexivity|]. cbn [forallb] in Hp. apply andb_prop in Hp as [Ht Hr].
  cbn [existsb]. now rewrite (plain_spells_nothing t Ht), IH.
Qed.
Lemma no_spelling_no_token ots : no_version_spelling ots = true -> wants_version ots = false.
Proof.
  unfold no_version_spelling, wants_version, has_token. intros H. apply negb_true_iff in H.
  assert (forall t, spells_version t = true -> existsb (str_eqb t) ots = false) as Hn.
  { intros t Ht. destruct (existsb (str_eqb t) ots) eqn:E; [|reflexivity]. apply existsb_exists in E as (y & Hy & Ey).
    destruct (str_eqb_spec t y); [subst y|discriminate]. rewrite <- H. symmetry. apply existsb_exists. eauto. }
  now rewrite (Hn T_V eq_refl), (Hn T_version eq_refl).
Qed.

Section Closed.
  Variables (cfg : appcfg) (a : application) (debug : bool) (path rest : list str).
  Hypothesis Hb : build_app cfg = Ok a.
  Hypothesis Hcfg : default_help_config cfg = true.
  Hypothesis Hver : defines_version cfg = true.
  Hypothesis Hplain : forallb lead_ok path = true.
  Hypothesis Hne : path <> [].
  Hypothesis Hh : match path with t :: _ => str_eqb t S_help = false | [] => True end.
  Hypothesis Hsw : wants_help (option_tokens rest) = true.
  Hypothesis Hno : no_version_spelling (option_tokens rest) = true.

  (* no token before "--" spells the version option: the page of the help target of the line, unless the help
     command's own parse raised a value error *)
  Lemma help_anywhere_closed :
    sm_action (run_summary debug a (path ++ rest)) =
      match help_line_parse a (path ++ rest) with Err k => AError k | Ok _ => help_page a (path ++ rest) end.
  Proof.
    rewrite (help_anywhere_run cfg a debug path rest Hb Hcfg Hplain Hne Hh Hsw).
    destruct (help_line_parse a (path ++ rest)) as [[fx x]|k] eqn:E; [|reflexivity].
    rewrite (help_line_version_not_set cfg a _ fx x Hb Hcfg Hver E) by (now rewrite (no_spelling_line _ _ Hplain)).
    now rewrite (no_spelling_no_token _ Hno).
  Qed.

  Lemma help_anywhere_closed_that_command b p : starts_stopped rest = true ->
    walk (named_of (ap_cmds a)) None path = Ok (Some (b, p)) -> defaults_of (b_subs b) = [] ->
    sm_action (run_summary debug a (path ++ rest)) =
      match help_line_parse a (path ++ rest) with
      | Err k => AError k
      | Ok _ => match help_lenient (b_fmt b) (path ++ rest) with Ok _ => AHelpCmd p | Err k => AHelpFail k end
      end.
  Proof.
    intros Hst Hw Hd. rewrite help_anywhere_closed.
    destruct (help_line_parse a (path ++ rest)) as [[fx x]|k] eqn:E; [|reflexivity].
    unfold help_page. rewrite (help_target_walks a (path ++ rest) b p).
    - rewrite Hd. cbn [help_pick_default bind]. destruct (help_lenient (b_fmt b) (path ++ rest)); reflexivity.
    - destruct path as [|t r]; [congruence|exact Hh].
    - now rewrite (leading_app_stopped _ _ Hplain Hst).
  Qed.
End Closed.
