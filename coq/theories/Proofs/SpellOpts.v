(* C01 (parse_spells), part 1: how the token loop of the parser model reads the option items of a
   line description (Model/Spell.v). *)
From Coq Require Import Lia.
From Clikit Require Import Base.Prelude Base.Res Model.Conv Model.Flags Model.Format Model.Parser Model.Spell
     Proofs.StrLemmas Proofs.FormatLemmas Proofs.ParserLemmas.

(* ---------- boolean equalities decide equality ---------- *)
Lemma pyval_eqb_eq : forall a b, pyval_eqb a b = true -> a = b.
Proof.
  fix IH 1. intros [| x | x | x | x | l] [| y | y | y | y | m]; cbn; try discriminate; intros H.
  - reflexivity.
  - apply eqb_prop in H. congruence.
  - apply Z.eqb_eq in H. congruence.
  - destruct (str_eqb_spec x y); [congruence|discriminate].
  - destruct (str_eqb_spec x y); [congruence|discriminate].
  - f_equal. revert m H. induction l as [|x l IHl]; intros [|y m] H; try discriminate; [reflexivity|].
    apply andb_prop in H as [H1 H2]. f_equal; [apply IH; exact H1|apply IHl; exact H2].
Qed.
Lemma ostr_eqb_eq a b : ostr_eqb a b = true -> a = b.
Proof. destruct a as [x|], b as [y|]; cbn; try discriminate; [|reflexivity]. destruct (str_eqb_spec x y); [congruence|discriminate]. Qed.
Lemma opt_eqb_eq a b : opt_eqb a b = true -> a = b.
Proof.
  unfold opt_eqb. intros H. apply andb_prop in H as [H H4]. apply andb_prop in H as [H H3]. apply andb_prop in H as [H1 H2].
  destruct a, b; cbn in *. destruct (str_eqb_spec o_long o_long0); [|discriminate].
  apply ostr_eqb_eq in H2. apply Z.eqb_eq in H3. apply pyval_eqb_eq in H4. congruence.
Qed.
Lemma arg_eqb_eq a b : arg_eqb a b = true -> a = b.
Proof.
  unfold arg_eqb. intros H. apply andb_prop in H as [H H3]. apply andb_prop in H as [H1 H2].
  destruct a, b; cbn in *. destruct (str_eqb_spec a_name a_name0); [|discriminate].
  apply Z.eqb_eq in H2. apply pyval_eqb_eq in H3. congruence.
Qed.
Lemma list_eqb_eq {X} (eqb : X -> X -> bool) : (forall x y, eqb x y = true -> x = y) ->
  forall l m, list_eqb eqb l m = true -> l = m.
Proof.
  intros He. induction l as [|x l IH]; intros [|y m]; cbn; try discriminate; [reflexivity|].
  intros H. apply andb_prop in H as [H1 H2]. f_equal; [apply He; exact H1|apply IH; exact H2].
Qed.
Lemma str_eqb_eq a b : str_eqb a b = true -> a = b.
Proof. destruct (str_eqb_spec a b); [auto|discriminate]. Qed.
Lemma narg_eqb_eq p q : narg_eqb p q = true -> p = q.
Proof.
  unfold narg_eqb. intros H. apply andb_prop in H as [H1 H2]. destruct p, q; cbn in *.
  apply str_eqb_eq in H1. apply arg_eqb_eq in H2. congruence.
Qed.
Lemma existsb_str_in x l : existsb (str_eqb x) l = false -> ~ In x l.
Proof.
  induction l as [|y l IH]; cbn; [tauto|]. intros H. apply orb_false_elim in H as [H1 H2].
  intros [->|Hi]; [rewrite str_eqb_refl in H1; discriminate|now apply IH].
Qed.
Lemma nodupb_NoDup l : nodupb l = true -> NoDup l.
Proof.
  induction l as [|x l IH]; cbn; [constructor|]. intros H. apply andb_prop in H as [H1 H2].
  constructor; [apply existsb_str_in; now destruct (existsb (str_eqb x) l)|auto].
Qed.

(* ---------- looking options up ---------- *)
Lemma get_option_has f n o : get_option_all f n = Ok o -> has_option_all f n = true.
Proof.
  induction f as [cn co cs ar os oss hm ho|bf cn co cs ar os oss hm ho IH] using fmt_ind';
    cbn [has_option_all get_option_all]; rewrite !shas_sget;
    destruct (sget n os); [reflexivity| |reflexivity|]; (destruct (sget n oss); [reflexivity|]); cbn.
  - discriminate.
  - exact IH.
Qed.
Lemma names_opt_get g n o : names_opt g n o = true -> get_option g n true = Ok o /\ has_option g n true = true.
Proof.
  unfold names_opt. destruct (get_option g n true) as [o'|] eqn:E; [|discriminate].
  intros H. apply opt_eqb_eq in H. subst o'. split; [reflexivity|]. eapply get_option_has. exact E.
Qed.

(* ---------- the raw option scratch map after an event ---------- *)
Definition raw_event (po : list (str * rawopt)) (e : opt * given) : list (str * rawopt) :=
  let o := fst e in
  match snd e with
  | GTrue => sset (o_long o) OTrue po
  | GDefault => sset (o_long o) (ODefault (o_default o)) po
  | GText s =>
      if o_multi o then
        sset (o_long o) (OList (match sget (o_long o) po with Some (OList l) => l | _ => [] end ++ [s])) po
      else sset (o_long o) (OStr s) po
  end.
Definition st_ev (st : pstate) (e : opt * given) : pstate :=
  {| ps_args := ps_args st; ps_opts := raw_event (ps_opts st) e |}.
Definition st_evs (st : pstate) (es : list (opt * given)) : pstate := fold_left st_ev es st.
Lemma st_evs_app st a b : st_evs st (a ++ b) = st_evs (st_evs st a) b.
Proof. apply fold_left_app. Qed.
Lemma st_evs_args st es : ps_args (st_evs st es) = ps_args st.
Proof. revert st. induction es as [|e r IH]; intros st; cbn; [reflexivity|]. unfold st_evs in IH. rewrite IH. reflexivity. Qed.
Lemma st_evs_opts st es : ps_opts (st_evs st es) = fold_left raw_event es (ps_opts st).
Proof. revert st. induction es as [|e r IH]; intros st; cbn; [reflexivity|]. unfold st_evs in IH. rewrite IH. reflexivity. Qed.

(* the next token cannot be taken for a value *)
Definition next_dash (toks : list str) : bool :=
  match toks with [] => true | t :: _ => nonempty t && starts_dash t end.

(* o is found under its long name in g *)
Definition known (g : fmt) (o : opt) : Prop :=
  get_option g (o_long o) true = Ok o /\ has_option g (o_long o) true = true.

Section AddLong.
  Variable g : fmt.
  Variable o : opt.
  Hypothesis Hk : known g o.

  Lemma alo_flag st toks : is_flag o = true ->
    add_long_option g st (o_long o) None toks = Ok (st_ev st (o, GTrue), toks).
  Proof.
    destruct Hk as [Hg Hh]. unfold is_flag. intros H.
    apply andb_prop in H as [H Hm]. apply andb_prop in H as [H Hop]. apply andb_prop in H as [Ha Hr].
    apply negb_true_iff in Ha, Hr, Hop, Hm.
    unfold add_long_option. rewrite Hh, Hg. cbn [negb bind]. rewrite Ha, Hr, Hm, Hop. reflexivity.
  Qed.

  Lemma alo_text st s toks : o_accepts o = true -> nonempty s = true ->
    add_long_option g st (o_long o) (Some s) toks = Ok (st_ev st (o, GText s), toks).
  Proof.
    destruct Hk as [Hg Hh]. intros Ha Hs.
    unfold add_long_option. rewrite Hh, Hg. cbn [negb bind]. rewrite Ha. cbn [negb].
    destruct s as [|c s]; [discriminate|]. unfold st_ev, raw_event. cbn [fst snd ps_args ps_opts].
    destruct (o_multi o); reflexivity.
  Qed.

  Lemma alo_sep st s toks : o_accepts o = true -> plain_tok s = true ->
    add_long_option g st (o_long o) None (s :: toks) = Ok (st_ev st (o, GText s), toks).
  Proof.
    destruct Hk as [Hg Hh]. intros Ha Hs. unfold plain_tok in Hs.
    unfold add_long_option. rewrite Hh, Hg. cbn [negb bind]. rewrite Ha, Hs.
    destruct s as [|c s]; [discriminate|]. unfold st_ev, raw_event. cbn [fst snd ps_args ps_opts].
    destruct (o_multi o); reflexivity.
  Qed.

  Lemma alo_bare st toks : is_bare o = true -> next_dash toks = true ->
    add_long_option g st (o_long o) None toks = Ok (st_ev st (o, GDefault), toks).
  Proof.
    destruct Hk as [Hg Hh]. unfold is_bare. intros H Hn.
    apply andb_prop in H as [H _]. apply andb_prop in H as [H Hm]. apply andb_prop in H as [H Hop].
    apply andb_prop in H as [Ha Hr]. apply negb_true_iff in Hr, Hm.
    unfold add_long_option. rewrite Hh, Hg. cbn [negb bind]. rewrite Ha.
    destruct toks as [|nxt rest].
    - rewrite Hr, Hm, Hop. reflexivity.
    - cbn [next_dash] in Hn. apply andb_prop in Hn as [H1 H2]. rewrite H1, H2. cbn [negb andb].
      rewrite Hr, Hm, Hop. reflexivity.
  Qed.
End AddLong.

(* ---------- classification of the rendered tokens ---------- *)
Lemma loop_long g len fuel st tok rest :
  nonempty tok = true -> is_dd tok = false -> starts_dd tok = true ->
  loop (S fuel) g len true st (tok :: rest) =
  match parse_long_option g st tok rest with
  | Ok (st', rest') => loop fuel g len true st' rest'
  | Err k => (st, Some k)
  end.
Proof. intros H1 H2 H3. cbn [loop]. rewrite H1, H2, H3. reflexivity. Qed.
Lemma loop_short g len fuel st tok rest :
  nonempty tok = true -> starts_dd tok = false -> starts_dash tok = true -> str_eqb tok [DASH] = false ->
  loop (S fuel) g len true st (tok :: rest) =
  match parse_short_option g st tok rest with
  | (Ok (st', rest'), _) => loop fuel g len true st' rest'
  | (Err k, st') => (st', Some k)
  end.
Proof.
  intros H1 H2 H3 H4.
  assert (is_dd tok = false) as H5.
  { unfold is_dd. destruct (str_eqb_spec tok [DASH; DASH]) as [->|]; [discriminate H2|reflexivity]. }
  cbn [loop]. rewrite H1. cbn [andb negb]. rewrite H5, H2, H3, H4. reflexivity.
Qed.
Lemma loop_arg g len fuel p st tok rest :
  (p = true -> pos_tok tok = true) ->
  loop (S fuel) g len p st (tok :: rest) =
  match parse_argument g len st tok with
  | Ok st' => loop fuel g len p st' rest
  | Err k => (st, Some k)
  end.
Proof.
  intros H. cbn [loop]. destruct p; [|reflexivity]. specialize (H eq_refl). cbn [andb].
  destruct (nonempty tok) eqn:H1; [|reflexivity]. cbn [negb].
  unfold pos_tok in H. destruct (str_eqb_spec tok [DASH]) as [->|Hne]; [reflexivity|].
  rewrite orb_false_r in H. apply negb_true_iff in H.
  assert (is_dd tok = false) as H3.
  { unfold is_dd. destruct (str_eqb_spec tok [DASH; DASH]) as [->|]; [discriminate H|reflexivity]. }
  assert (starts_dd tok = false) as H4.
  { destruct tok as [|a [|b r]]; try reflexivity. cbn in H |- *. rewrite H. reflexivity. }
  rewrite H3, H4, H. reflexivity.
Qed.
Lemma loop_dd g len fuel st rest :
  loop (S fuel) g len true st ([DASH; DASH] :: rest) = loop fuel g len false st rest.
Proof. reflexivity. Qed.

Lemma long_tok_class o x : nonempty (o_long o) = true ->
  nonempty (long_tok o ++ x) = true /\ is_dd (long_tok o ++ x) = false /\ starts_dd (long_tok o ++ x) = true.
Proof.
  intros H. unfold long_tok. destruct (o_long o) as [|c r]; [discriminate|]. cbn. repeat split; reflexivity.
Qed.
Lemma short_tok_class c x : N.eqb c DASH = false ->
  let tok := DASH :: c :: x in
  nonempty tok = true /\ starts_dd tok = false /\ starts_dash tok = true /\ str_eqb tok [DASH] = false.
Proof. intros H. cbn. rewrite H. repeat split; reflexivity. Qed.

Lemma split_eq_none n : no_eq n = true -> forall acc, split_eq n acc = None.
Proof.
  induction n as [|c r IH]; cbn; [reflexivity|]. intros H acc. apply andb_prop in H as [H1 H2].
  apply negb_true_iff in H1. rewrite H1. apply IH. exact H2.
Qed.
Lemma split_eq_some n v : no_eq n = true -> forall acc, split_eq (n ++ EQ :: v) acc = Some (rev acc ++ n, v).
Proof.
  induction n as [|c r IH]; cbn; intros H acc.
  - now rewrite app_nil_r.
  - apply andb_prop in H as [H1 H2]. apply negb_true_iff in H1. rewrite H1, IH by exact H2. cbn.
    now rewrite <- app_assoc.
Qed.

Lemma take_value_plain s rest : plain_tok s = true -> take_value (s :: rest) = (Some s, rest).
Proof.
  unfold plain_tok. intros H. apply andb_prop in H as [H1 H2]. apply negb_true_iff in H2.
  cbn [take_value]. rewrite H1, H2. reflexivity.
Qed.
Lemma take_value_dash toks : next_dash toks = true -> take_value toks = (None, toks).
Proof. destruct toks as [|t r]; cbn; [reflexivity|]. intros H. rewrite H. reflexivity. Qed.

Lemma accepts_known g o n : get_option g n true = Ok o -> has_option g n true = true -> accepts g n = o_accepts o.
Proof. intros H1 H2. unfold accepts. rewrite H2, H1. reflexivity. Qed.

(* ---------- the long forms ---------- *)
Section LongForms.
  Variable g : fmt.
  Variable o : opt.
  Hypothesis Hk : known g o.
  Hypothesis Hne : no_eq (o_long o) = true.

  Lemma skip2_long x : skipn 2 (long_tok o ++ x) = o_long o ++ x.
  Proof. reflexivity. Qed.

  Lemma pl_flag st rest : is_flag o = true ->
    parse_long_option g st (long_tok o) rest = Ok (st_ev st (o, GTrue), rest).
  Proof.
    intros Hf. unfold parse_long_option. change (skipn 2 (long_tok o)) with (o_long o).
    rewrite split_eq_none by exact Hne. destruct Hk as [Hg Hh]. rewrite (accepts_known g o _ Hg Hh).
    assert (o_accepts o = false) as Ha.
    { unfold is_flag in Hf. destruct (o_accepts o); [discriminate|reflexivity]. }
    rewrite Ha. apply alo_flag; [split; assumption|exact Hf].
  Qed.
  Lemma pl_eq st s rest : o_accepts o = true -> nonempty s = true ->
    parse_long_option g st (long_tok o ++ EQ :: s) rest = Ok (st_ev st (o, GText s), rest).
  Proof.
    intros Ha Hs. unfold parse_long_option. rewrite skip2_long, split_eq_some by exact Hne. cbn [rev app].
    apply alo_text; assumption.
  Qed.
  Lemma pl_sep st s rest : o_accepts o = true -> plain_tok s = true ->
    parse_long_option g st (long_tok o) (s :: rest) = Ok (st_ev st (o, GText s), rest).
  Proof.
    intros Ha Hs. unfold parse_long_option. change (skipn 2 (long_tok o)) with (o_long o).
    rewrite split_eq_none by exact Hne. destruct Hk as [Hg Hh]. rewrite (accepts_known g o _ Hg Hh), Ha.
    rewrite take_value_plain by exact Hs. apply alo_text; [split; assumption|exact Ha|].
    unfold plain_tok in Hs. now apply andb_prop in Hs as [Hs _].
  Qed.
  Lemma pl_bare st rest : is_bare o = true -> next_dash rest = true ->
    parse_long_option g st (long_tok o) rest = Ok (st_ev st (o, GDefault), rest).
  Proof.
    intros Hb Hn. unfold parse_long_option. change (skipn 2 (long_tok o)) with (o_long o).
    rewrite split_eq_none by exact Hne. destruct Hk as [Hg Hh]. rewrite (accepts_known g o _ Hg Hh).
    assert (o_accepts o = true) as Ha.
    { unfold is_bare in Hb. destruct (o_accepts o); [reflexivity|discriminate]. }
    rewrite Ha, take_value_dash by exact Hn. apply alo_bare; [split; assumption|exact Hb|exact Hn].
  Qed.
End LongForms.

(* ---------- the short forms ---------- *)
Definition short_known (g : fmt) (o : opt) (c : N) : Prop :=
  o_short o = Some [c] /\ N.eqb c DASH = false /\ get_option g [c] true = Ok o /\ has_option g [c] true = true.
Lemma short_ok_inv g o : short_ok g o = true -> exists c, short_known g o c.
Proof.
  unfold short_ok. destruct (o_short o) as [[|c [|c2 r]]|] eqn:E; try discriminate.
  intros H. apply andb_prop in H as [H1 H2]. apply negb_true_iff in H1. apply names_opt_get in H2 as [H2 H3].
  exists c. repeat split; assumption.
Qed.
Lemma short_char_known g o c : short_known g o c -> short_char o = [c].
Proof. intros [H _]. unfold short_char. rewrite H. reflexivity. Qed.

Lemma loop_short_ok g len fuel st tok rest st' rest' :
  nonempty tok = true -> starts_dd tok = false -> starts_dash tok = true -> str_eqb tok [DASH] = false ->
  fst (parse_short_option g st tok rest) = Ok (st', rest') ->
  loop (S fuel) g len true st (tok :: rest) = loop fuel g len true st' rest'.
Proof.
  intros H1 H2 H3 H4 H. rewrite loop_short by assumption.
  destruct (parse_short_option g st tok rest) as [r s2]. cbn [fst] in H. rewrite H. reflexivity.
Qed.

Section ShortForms.
  Variable g : fmt.
  Variable o : opt.
  Variable c : N.
  Hypothesis Hk : known g o.
  Hypothesis Hs : short_known g o c.

  Lemma aso st v toks : add_short_option g st [c] v toks = add_long_option g st (o_long o) v toks.
  Proof. destruct Hs as (_ & _ & Hg & Hh). unfold add_short_option. rewrite Hh, Hg. reflexivity. Qed.
  Lemma acc_short : accepts g [c] = o_accepts o.
  Proof. destruct Hs as (_ & _ & Hg & Hh). apply accepts_known; assumption. Qed.

  Lemma ps_flag st rest : is_flag o = true ->
    fst (parse_short_option g st [DASH; c] rest) = Ok (st_ev st (o, GTrue), rest).
  Proof.
    intros Hf. unfold parse_short_option. cbn [skipn]. rewrite acc_short.
    assert (o_accepts o = false) as Ha by (unfold is_flag in Hf; destruct (o_accepts o); [discriminate|reflexivity]).
    rewrite Ha, aso, (alo_flag g o Hk) by exact Hf. reflexivity.
  Qed.
  Lemma ps_sep st s rest : o_accepts o = true -> plain_tok s = true ->
    fst (parse_short_option g st [DASH; c] (s :: rest)) = Ok (st_ev st (o, GText s), rest).
  Proof.
    intros Ha Hp. unfold parse_short_option. cbn [skipn]. rewrite acc_short, Ha, take_value_plain by exact Hp.
    rewrite aso, (alo_text g o Hk); [reflexivity|exact Ha|]. unfold plain_tok in Hp. now apply andb_prop in Hp as [Hp _].
  Qed.
  Lemma ps_bare st rest : is_bare o = true -> next_dash rest = true ->
    fst (parse_short_option g st [DASH; c] rest) = Ok (st_ev st (o, GDefault), rest).
  Proof.
    intros Hb Hn. unfold parse_short_option. cbn [skipn].
    assert (o_accepts o = true) as Ha by (unfold is_bare in Hb; destruct (o_accepts o); [reflexivity|discriminate]).
    rewrite acc_short, Ha, take_value_dash by exact Hn. rewrite aso, (alo_bare g o Hk) by assumption. reflexivity.
  Qed.
  Lemma ps_glued st s rest : o_accepts o = true -> nonempty s = true ->
    fst (parse_short_option g st (DASH :: c :: s) rest) = Ok (st_ev st (o, GText s), rest).
  Proof.
    intros Ha Hn. unfold parse_short_option. cbn [skipn]. destruct s as [|c2 s]; [discriminate|].
    rewrite acc_short, Ha, aso, (alo_text g o Hk) by assumption. reflexivity.
  Qed.
End ShortForms.

(* ---------- grouped short options ---------- *)
Definition gflag_ok (g : fmt) (o : opt) : Prop := known g o /\ is_flag o = true /\ exists c, short_known g o c.
Definition flag_events (fl : list opt) : list (opt * given) := map (fun o => (o, GTrue)) fl.

Lemma short_set_flags g : forall fl st chars toks, Forall (gflag_ok g) fl ->
  short_set g st (flat_map short_char fl ++ chars) toks = short_set g (st_evs st (flag_events fl)) chars toks.
Proof.
  induction fl as [|o fl IH]; intros st chars toks Hf; [reflexivity|].
  inversion Hf as [|? ? (Hk & Hfl & c & Hs) Hr]; subst.
  cbn [flat_map]. rewrite (short_char_known g o c Hs). cbn [app short_set].
  destruct Hs as (_ & _ & Hg & Hh). rewrite Hh, Hg. cbn [negb].
  assert (o_accepts o = false) as Ha by (unfold is_flag in Hfl; destruct (o_accepts o); [discriminate|reflexivity]).
  rewrite Ha, (alo_flag g o Hk) by exact Hfl. rewrite IH by exact Hr. reflexivity.
Qed.

Lemma short_set_last g o c st x toks v toks' :
  short_known g o c -> o_accepts o = true ->
  add_long_option g st (o_long o) (match x with [] => None | _ => Some x end) toks = Ok (st_ev st (o, v), toks') ->
  fst (short_set g st (c :: x) toks) = Ok (st_ev st (o, v), toks').
Proof.
  intros (_ & _ & Hg & Hh) Ha H. cbn [short_set]. rewrite Hh, Hg, Ha. cbn [negb]. rewrite H. reflexivity.
Qed.

(* a group token goes to short_set: at least two members and the first one is a flag *)
Lemma ps_group g o c st x rest : gflag_ok g o -> short_known g o c -> x <> [] ->
  parse_short_option g st (DASH :: c :: x) rest = short_set g st (c :: x) rest.
Proof.
  intros (Hk & Hfl & _) Hs Hx. unfold parse_short_option. cbn [skipn]. destruct x as [|c2 x]; [contradiction|].
  rewrite (acc_short g o c Hs).
  assert (o_accepts o = false) as Ha by (unfold is_flag in Hfl; destruct (o_accepts o); [discriminate|reflexivity]).
  rewrite Ha. reflexivity.
Qed.

(* ---------- one option item = one turn of the token loop ---------- *)
Lemma opt_ok_inv f g o : opt_ok f g o = true ->
  known f o /\ known g o /\ nonempty (o_long o) = true /\ no_eq (o_long o) = true.
Proof.
  unfold opt_ok. intros H. apply andb_prop in H as [H H4]. apply andb_prop in H as [H H3]. apply andb_prop in H as [H1 H2].
  apply names_opt_get in H1, H2. repeat split; try assumption; tauto.
Qed.
Lemma text_ok_acc o s : text_ok o s = true -> o_accepts o = true.
Proof. unfold text_ok. intros H. now apply andb_prop in H as [H _]. Qed.
Lemma plain_nonempty s : plain_tok s = true -> nonempty s = true.
Proof. unfold plain_tok. intros H. now apply andb_prop in H as [H _]. Qed.

Definition is_pos (it : item) : bool := match it with IPos _ => true | _ => false end.

Lemma gflags_ok f g fl :
  forallb (fun o => opt_ok f g o && is_flag o && short_ok g o) fl = true -> Forall (gflag_ok g) fl.
Proof.
  induction fl as [|o fl IH]; cbn; [constructor|]. intros H. apply andb_prop in H as [H Hr].
  apply andb_prop in H as [H H3]. apply andb_prop in H as [H1 H2].
  constructor; [|exact (IH Hr)]. apply opt_ok_inv in H1 as (_ & Hk & _). split; [exact Hk|]. split; [exact H2|].
  now apply short_ok_inv.
Qed.

Lemma group_step f g len fl last : item_ok f g (IGroup fl last) = true ->
  forall fuel st rest, (looks_ahead (IGroup fl last) = true -> next_dash rest = true) ->
  loop (S fuel) g len true st (render_item (IGroup fl last) ++ rest) =
  loop fuel g len true (st_evs st (item_events (IGroup fl last))) rest.
Proof.
  cbn [item_ok]. intros H fuel st rest Hla. apply andb_prop in H as [Hfl Hlast].
  pose proof (gflags_ok f g fl Hfl) as Hall.
  destruct fl as [|o1 fl']; [destruct last; discriminate|].
  inversion Hall as [|? ? Ho1 Hall']; subst. destruct Ho1 as (Hk1 & Hf1 & c1 & Hs1).
  pose proof Hs1 as (_ & Hd1 & _ & _).
  (* the token is "-" c1 x with x the remaining characters *)
  assert (forall tailchars rest0 st' rest',
            flat_map short_char fl' ++ tailchars <> [] ->
            fst (short_set g (st_evs st (flag_events (o1 :: fl'))) tailchars rest0) = Ok (st', rest') ->
            loop (S fuel) g len true st ((group_tok (o1 :: fl') ++ tailchars) :: rest0) = loop fuel g len true st' rest') as Hgo.
  { intros tailchars rest0 st' rest' Hx Hss. unfold group_tok. cbn [flat_map]. rewrite (short_char_known g o1 c1 Hs1).
    cbn [app].
    destruct (short_tok_class c1 (flat_map short_char fl' ++ tailchars) Hd1) as (T1 & T2 & T3 & T4).
    apply loop_short_ok; try assumption.
    rewrite (ps_group g o1 c1 st _ rest0 (conj Hk1 (conj Hf1 (ex_intro _ c1 Hs1))) Hs1 Hx).
    change (c1 :: flat_map short_char fl' ++ tailchars) with ([c1] ++ flat_map short_char fl' ++ tailchars).
    rewrite <- (short_char_known g o1 c1 Hs1). rewrite app_assoc.
    change (short_char o1 ++ flat_map short_char fl') with (flat_map short_char (o1 :: fl')).
    rewrite short_set_flags by exact Hall. exact Hss. }
  destruct last as [[o gl]|].
  - apply andb_prop in Hlast as [_ Hlast]. unfold last_ok in Hlast. cbn [fst snd] in Hlast.
    apply andb_prop in Hlast as [Hlast Hgl]. apply andb_prop in Hlast as [Hok Hsok].
    apply opt_ok_inv in Hok as (_ & Hk & _ & _). apply short_ok_inv in Hsok as [c Hs].
    cbn [item_events]. fold (flag_events (o1 :: fl')). rewrite st_evs_app. cbn [last_event fst snd].
    assert (forall s, flat_map short_char fl' ++ short_char o ++ s <> []) as Hne.
    { intros s. rewrite (short_char_known g o c Hs). destruct (flat_map short_char fl'); discriminate. }
    destruct gl as [s|s|]; cbn [render_item app st_evs fold_left].
    + apply andb_prop in Hgl as [Hn Ht]. apply Hgo; [apply Hne|].
      rewrite (short_char_known g o c Hs). cbn [app]. apply short_set_last; [exact Hs|eapply text_ok_acc; eauto|].
      destruct s as [|c2 s]; [discriminate|]. apply alo_text; [exact Hk|eapply text_ok_acc; eauto|reflexivity].
    + apply andb_prop in Hgl as [Hn Ht]. rewrite <- (app_nil_r (short_char o)). apply Hgo; [apply Hne|].
      rewrite (short_char_known g o c Hs). cbn [app]. apply short_set_last; [exact Hs|eapply text_ok_acc; eauto|].
      apply alo_sep; [exact Hk|eapply text_ok_acc; eauto|exact Hn].
    + assert (o_accepts o = true) as Ha by (unfold is_bare in Hgl; destruct (o_accepts o); [reflexivity|discriminate]).
      rewrite <- (app_nil_r (short_char o)). apply Hgo; [apply Hne|].
      rewrite (short_char_known g o c Hs). cbn [app]. apply short_set_last; [exact Hs|exact Ha|].
      apply alo_bare; [exact Hk|exact Hgl|]. apply Hla. reflexivity.
  - destruct fl' as [|o2 fl'']; [discriminate|].
    cbn [item_events render_item app]. rewrite app_nil_r. fold (flag_events (o1 :: o2 :: fl'')).
    rewrite <- (app_nil_r (group_tok (o1 :: o2 :: fl''))). apply Hgo; [|reflexivity].
    inversion Hall' as [|? ? (_ & _ & c2 & Hs2) _]; subst. cbn [flat_map]. rewrite (short_char_known g o2 c2 Hs2). discriminate.
Qed.

Lemma loop_long_ok g len fuel st tok rest st' rest' :
  nonempty tok = true -> is_dd tok = false -> starts_dd tok = true ->
  parse_long_option g st tok rest = Ok (st', rest') ->
  loop (S fuel) g len true st (tok :: rest) = loop fuel g len true st' rest'.
Proof. intros H1 H2 H3 H. rewrite loop_long by assumption. rewrite H. reflexivity. Qed.

Lemma item_step f g len it : item_ok f g it = true -> is_pos it = false ->
  forall fuel st rest, (looks_ahead it = true -> next_dash rest = true) ->
  loop (S fuel) g len true st (render_item it ++ rest) = loop fuel g len true (st_evs st (item_events it)) rest.
Proof.
  intros Hok Hnp fuel st rest Hla. destruct it as [o long|o form s|o long|fl last|s]; [| | | |discriminate].
  - (* IFlag *)
    cbn [item_ok] in Hok. apply andb_prop in Hok as [Hok Hform]. apply andb_prop in Hok as [Hok Hfl].
    apply opt_ok_inv in Hok as (_ & Hk & Hne & Hneq). cbn [item_events st_evs fold_left].
    destruct long; cbn [render_item app].
    + destruct (long_tok_class o [] Hne) as (T1 & T2 & T3). rewrite app_nil_r in T1, T2, T3.
      apply loop_long_ok; try assumption. apply pl_flag; assumption.
    + cbn [orb] in Hform. apply short_ok_inv in Hform as [c Hs]. unfold short_tok. rewrite (short_char_known g o c Hs).
      pose proof Hs as (_ & Hd & _ & _). destruct (short_tok_class c [] Hd) as (T1 & T2 & T3 & T4).
      apply loop_short_ok; try assumption. apply ps_flag; assumption.
  - (* IVal *)
    cbn [item_ok] in Hok. apply andb_prop in Hok as [Hok Hform]. apply andb_prop in Hok as [Hok Ht].
    apply opt_ok_inv in Hok as (_ & Hk & Hne & Hneq). pose proof (text_ok_acc o s Ht) as Ha.
    cbn [item_events st_evs fold_left].
    destruct form; cbn [render_item app].
    + destruct (long_tok_class o (EQ :: s) Hne) as (T1 & T2 & T3).
      apply loop_long_ok; try assumption. apply pl_eq; assumption.
    + destruct (long_tok_class o [] Hne) as (T1 & T2 & T3). rewrite app_nil_r in T1, T2, T3.
      apply loop_long_ok; try assumption. apply pl_sep; assumption.
    + apply andb_prop in Hform as [Hso Hn]. apply short_ok_inv in Hso as [c Hs]. unfold short_tok.
      rewrite (short_char_known g o c Hs). cbn [app].
      pose proof Hs as (_ & Hd & _ & _). destruct (short_tok_class c s Hd) as (T1 & T2 & T3 & T4).
      apply loop_short_ok; try assumption. apply ps_glued; assumption.
    + apply andb_prop in Hform as [Hso Hn]. apply short_ok_inv in Hso as [c Hs]. unfold short_tok.
      rewrite (short_char_known g o c Hs).
      pose proof Hs as (_ & Hd & _ & _). destruct (short_tok_class c [] Hd) as (T1 & T2 & T3 & T4).
      apply loop_short_ok; try assumption. apply ps_sep; assumption.
  - (* IBare *)
    cbn [item_ok] in Hok. apply andb_prop in Hok as [Hok Hform]. apply andb_prop in Hok as [Hok Hb].
    apply opt_ok_inv in Hok as (_ & Hk & Hne & Hneq). cbn [item_events st_evs fold_left].
    specialize (Hla eq_refl).
    destruct long; cbn [render_item app].
    + destruct (long_tok_class o [] Hne) as (T1 & T2 & T3). rewrite app_nil_r in T1, T2, T3.
      apply loop_long_ok; try assumption. apply pl_bare; assumption.
    + cbn [orb] in Hform. apply short_ok_inv in Hform as [c Hs]. unfold short_tok. rewrite (short_char_known g o c Hs).
      pose proof Hs as (_ & Hd & _ & _). destruct (short_tok_class c [] Hd) as (T1 & T2 & T3 & T4).
      apply loop_short_ok; try assumption. apply ps_bare; assumption.
  - eapply group_step; eassumption.
Qed.

(* every rendered option item starts with a dash *)
Lemma item_first_dash f g it rest : item_ok f g it = true -> is_pos it = false -> next_dash (render_item it ++ rest) = true.
Proof.
  intros Hok Hnp. destruct it as [o long|o form s|o long|fl last|s]; [| | | |discriminate].
  - destruct long; reflexivity.
  - destruct form; reflexivity.
  - destruct long; reflexivity.
  - destruct last as [[o [s|s|]]|]; reflexivity.
Qed.

(* ---------- Args.set_option over the scratch map gives the typed assignment ---------- *)
(* the value Args.set_option stores for the raw value v of option o *)
Definition conv_raw (o : opt) (v : rawopt) : res pyval :=
  if o_multi o then
    match v with
    | OList l => do vs <- parse_each (o_type o) (o_nullable o) l; Ok (VList vs)
    | _ => do x <- parse_raw_opt (o_type o) (o_nullable o) v; Ok (VList [x])
    end
  else if o_accepts o then parse_raw_opt (o_type o) (o_nullable o) v
  else Ok (VBool true).
Lemma set_option_conv f a n v o : get_option f n true = Ok o ->
  set_option f a n v = do pv <- conv_raw o v; Ok {| ar_opts := sset (o_long o) pv (ar_opts a); ar_args := ar_args a |}.
Proof. intros H. unfold set_option, conv_raw. rewrite H. reflexivity. Qed.

Definition rel1 (f : fmt) (r : str * rawopt) (t : str * pyval) : Prop :=
  fst r = fst t /\ exists o, known f o /\ o_long o = fst r /\ conv_raw o (snd r) = Ok (snd t) /\
                             (o_multi o = true -> exists l, snd r = OList l).
Definition rel (f : fmt) := Forall2 (rel1 f).

Lemma set_options_rel f R T : rel f R T -> NoDup (map fst R) ->
  forall a, (forall k, In k (map fst R) -> ~ In k (map fst (ar_opts a))) ->
  set_options f a R = Ok {| ar_opts := ar_opts a ++ T; ar_args := ar_args a |}.
Proof.
  induction 1 as [|[k r] [k' t] R' T' H1 HF IH]; intros Hnd a Hfresh; cbn [set_options].
  - rewrite app_nil_r. destruct a; reflexivity.
  - destruct H1 as (Hkk & o & [Hg Hh] & Hl & Hc & _). cbn [fst snd] in *. subst k'. subst k.
    rewrite Hh, (set_option_conv f a _ r o Hg), Hc. cbn [bind].
    inversion Hnd as [|? ? Hk Hnd']; subst.
    unfold sset. rewrite sset_absent by (apply notin_sget_none; apply Hfresh; now left).
    rewrite IH; [cbn [ar_opts ar_args]; now rewrite <- app_assoc|exact Hnd'|].
    cbn [ar_opts]. intros k Hin. rewrite map_app, in_app_iff. cbn. intros [Hi|[<-|[]]].
    + eapply Hfresh; [right; exact Hin|exact Hi].
    + contradiction.
Qed.

Lemma Forall2_sset {A B} (P : str * A -> str * B -> Prop) k rv tv :
  (forall r t, P r t -> fst r = fst t) -> P (k, rv) (k, tv) ->
  forall R T, Forall2 P R T -> Forall2 P (sset k rv R) (sset k tv T).
Proof.
  intros Hkey Hp. induction 1 as [|[k1 r1] [k2 t1] R' T' H1 HF IH]; cbn.
  - constructor; [exact Hp|constructor].
  - pose proof (Hkey _ _ H1) as E. cbn in E. subst k2.
    destruct (str_eqb_spec k k1) as [->|Hn]; constructor; assumption.
Qed.
Lemma Forall2_sget {A B} (P : str * A -> str * B -> Prop) k :
  (forall r t, P r t -> fst r = fst t) ->
  forall R T, Forall2 P R T ->
  match sget k R with
  | Some rv => exists tv, sget k T = Some tv /\ P (k, rv) (k, tv)
  | None => sget k T = None
  end.
Proof.
  intros Hkey. induction 1 as [|[k1 r1] [k2 t1] R' T' H1 HF IH]; cbn; [reflexivity|].
  pose proof (Hkey _ _ H1) as E. cbn in E. subst k2.
  destruct (str_eqb_spec k k1) as [->|Hn]; [eauto|exact IH].
Qed.
Lemma sset_keys_nodup {A} k (v : A) d : NoDup (map fst d) -> NoDup (map fst (sset k v d)).
Proof.
  intros H. destruct (sget k d) as [w|] eqn:E.
  - assert (map fst (sset k v d) = map fst d) as ->; [|exact H]. clear H.
    induction d as [|[k1 v1] r IH]; cbn in *; [discriminate|].
    destruct (str_eqb_spec k k1) as [->|Hn]; cbn; [reflexivity|]. f_equal. apply IH. exact E.
  - unfold sset. rewrite sset_absent by exact E. rewrite map_app. cbn.
    apply NoDup_app_snoc; [exact H|now apply sget_none_notin].
Qed.

Lemma parse_each_app t nl l1 l2 v1 v2 :
  parse_each t nl l1 = Ok v1 -> parse_each t nl l2 = Ok v2 -> parse_each t nl (l1 ++ l2) = Ok (v1 ++ v2).
Proof.
  revert v1. induction l1 as [|s r IH]; intros v1; cbn [parse_each app].
  - intros H. inversion H; subst. auto.
  - destruct (parse_typed t nl (VStr s)) as [x|]; cbn [bind]; [|discriminate].
    destruct (parse_each t nl r) as [vs|]; cbn [bind]; [|discriminate].
    intros H H2. inversion H; subst. rewrite (IH vs eq_refl H2). reflexivity.
Qed.

(* what an event must satisfy for the conversion *)
Definition ev_ok (f : fmt) (e : opt * given) : Prop :=
  known f (fst e) /\
  match snd e with
  | GTrue => is_flag (fst e) = true
  | GDefault => is_bare (fst e) = true
  | GText s => text_ok (fst e) s = true
  end.

Lemma res_ok_inv {X} (r : res X) : res_ok r = true -> exists x, r = Ok x.
Proof. destruct r; [eauto|discriminate]. Qed.

Lemma rel_event f R T e : rel f R T -> ev_ok f e -> rel f (raw_event R e) (denote_event T e).
Proof.
  intros HR [Hk He]. destruct e as [o gv]. cbn [fst snd] in *.
  assert (forall r t, rel1 f r t -> fst r = fst t) as Hkey by (intros r t [E _]; exact E).
  unfold raw_event, denote_event. cbn [fst snd].
  destruct gv as [| |s].
  - apply Forall2_sset; [exact Hkey| |exact HR]. split; [reflexivity|]. exists o. cbn [fst snd].
    unfold is_flag in He. apply andb_prop in He as [He Hm]. apply andb_prop in He as [He _]. apply andb_prop in He as [Ha _].
    apply negb_true_iff in Ha, Hm. split; [exact Hk|]. split; [reflexivity|]. split.
    + unfold conv_raw. rewrite Hm, Ha. reflexivity.
    + rewrite Hm. discriminate.
  - apply Forall2_sset; [exact Hkey| |exact HR]. split; [reflexivity|]. exists o. cbn [fst snd].
    unfold is_bare in He. apply andb_prop in He as [He Hc]. apply andb_prop in He as [He Hm]. apply andb_prop in He as [He _].
    apply andb_prop in He as [Ha _]. apply negb_true_iff in Hm. apply res_ok_inv in Hc as [v Hv].
    split; [exact Hk|]. split; [reflexivity|]. split.
    + unfold conv_raw, conv_opt. rewrite Hm, Ha. cbn [parse_raw_opt]. rewrite Hv. reflexivity.
    + rewrite Hm. discriminate.
  - unfold text_ok in He. apply andb_prop in He as [Ha Hc]. apply res_ok_inv in Hc as [v Hv].
    destruct (o_multi o) eqn:Hm.
    + apply Forall2_sset; [exact Hkey| |exact HR]. split; [reflexivity|]. exists o. cbn [fst snd].
      split; [exact Hk|]. split; [reflexivity|]. split; [|eauto].
      pose proof (Forall2_sget (rel1 f) (o_long o) Hkey R T HR) as Hget.
      unfold conv_raw, conv_opt. rewrite Hm, Hv. cbn [or_none].
      destruct (sget (o_long o) R) as [rv|].
      * destruct Hget as (tv & -> & _ & o' & [Hg' _] & Hl' & Hc' & Hml). cbn [fst snd] in *.
        assert (o' = o) as -> by (destruct Hk as [Hg _]; rewrite Hl' in Hg'; congruence).
        destruct (Hml Hm) as [l ->]. unfold conv_raw in Hc'. rewrite Hm in Hc'.
        destruct (parse_each (o_type o) (o_nullable o) l) as [vs|] eqn:El; cbn [bind] in Hc'; [|discriminate].
        inversion Hc'; subst.
        rewrite (parse_each_app _ _ l [s] vs [v] El); [reflexivity|]. cbn [parse_each]. rewrite Hv. reflexivity.
      * rewrite Hget. cbn [app parse_each]. rewrite Hv. reflexivity.
    + apply Forall2_sset; [exact Hkey| |exact HR]. split; [reflexivity|]. exists o. cbn [fst snd].
      split; [exact Hk|]. split; [reflexivity|]. split.
      * unfold conv_raw, conv_opt. rewrite Hm, Ha. cbn [parse_raw_opt]. rewrite Hv. reflexivity.
      * intros E. congruence.
Qed.

Lemma raw_event_nodup R e : NoDup (map fst R) -> NoDup (map fst (raw_event R e)).
Proof.
  intros H. unfold raw_event. destruct (snd e); [| |destruct (o_multi (fst e))]; apply sset_keys_nodup; exact H.
Qed.

Lemma rel_events f es : Forall (ev_ok f) es -> forall R T, rel f R T -> NoDup (map fst R) ->
  rel f (fold_left raw_event es R) (fold_left denote_event es T) /\ NoDup (map fst (fold_left raw_event es R)).
Proof.
  induction 1 as [|e es He Hes IH]; intros R T HR Hnd; cbn [fold_left]; [split; assumption|].
  apply IH; [apply rel_event; assumption|apply raw_event_nodup; exact Hnd].
Qed.

(* the conversion of the whole scratch map built from the events of a line *)
Lemma set_options_events f es a : Forall (ev_ok f) es -> ar_opts a = [] ->
  set_options f a (fold_left raw_event es []) = Ok {| ar_opts := fold_left denote_event es []; ar_args := ar_args a |}.
Proof.
  intros Hes Ha. destruct (rel_events f es Hes [] [] (Forall2_nil _) (NoDup_nil _)) as [HR Hnd].
  rewrite (set_options_rel f _ _ HR Hnd a); [rewrite Ha; reflexivity|]. rewrite Ha. intros k _ [].
Qed.

(* the events of a well-formed item satisfy ev_ok *)
Lemma item_events_ok f g it : item_ok f g it = true -> Forall (ev_ok f) (item_events it).
Proof.
  destruct it as [o long|o form s|o long|fl last|s]; cbn [item_ok item_events]; intros H.
  - apply andb_prop in H as [H _]. apply andb_prop in H as [H1 H2]. apply opt_ok_inv in H1 as (Hk & _).
    constructor; [split; assumption|constructor].
  - apply andb_prop in H as [H _]. apply andb_prop in H as [H1 H2]. apply opt_ok_inv in H1 as (Hk & _).
    constructor; [split; assumption|constructor].
  - apply andb_prop in H as [H _]. apply andb_prop in H as [H1 H2]. apply opt_ok_inv in H1 as (Hk & _).
    constructor; [split; assumption|constructor].
  - apply andb_prop in H as [Hfl Hlast]. apply Forall_app. split.
    + clear Hlast. induction fl as [|o fl IH]; cbn in *; [constructor|].
      apply andb_prop in Hfl as [H Hr]. apply andb_prop in H as [H _]. apply andb_prop in H as [H1 H2].
      apply opt_ok_inv in H1 as (Hk & _). constructor; [split; assumption|exact (IH Hr)].
    + destruct last as [[o gl]|]; [|constructor]. apply andb_prop in Hlast as [_ Hlast]. unfold last_ok in Hlast.
      cbn [fst snd] in Hlast. apply andb_prop in Hlast as [Hlast Hgl]. apply andb_prop in Hlast as [Hok _].
      apply opt_ok_inv in Hok as (Hk & _). constructor; [|constructor]. unfold last_event. cbn [fst snd].
      destruct gl as [s|s|]; (split; [exact Hk|]); cbn [fst snd]; [| |exact Hgl]; now apply andb_prop in Hgl as [_ Hgl].
  - constructor.
Qed.
Lemma items_ok_each f g l : items_ok f g l = true -> Forall (fun it => item_ok f g it = true) l.
Proof.
  induction l as [|it r IH]; cbn [items_ok]; intros H; [constructor|].
  apply andb_prop in H as [H Hr]. apply andb_prop in H as [H _]. constructor; [exact H|exact (IH Hr)].
Qed.
Lemma items_events_ok f g l : items_ok f g l = true -> Forall (ev_ok f) (flat_map item_events l).
Proof.
  intros H. apply items_ok_each in H. induction H as [|it r Hi Hr IH]; cbn [flat_map]; [constructor|].
  apply Forall_app. split; [eapply item_events_ok; eauto|exact IH].
Qed.
