(* Proofs about Model/Resolver.v (C03). *)
From Coq Require Import Lia.
From Clikit Require Import Base.Prelude Base.Res Model.Conv Model.Format Model.Parser Model.Resolver Proofs.StrLemmas.

(* a token that can be a command name: not empty, not "--", not option-like *)
Definition lead_ok (t : str) : bool := nonempty t && negb (is_dd t) && negb (starts_dash t).
Definition stopper (t : str) : bool := negb (lead_ok t).

Lemma leading_step t r : leading (t :: r) = if lead_ok t then t :: leading r else [].
Proof.
  cbn [leading]. unfold lead_ok. destruct (nonempty t), (is_dd t), (starts_dash t); reflexivity.
Qed.

(* the leading tokens end at the first stopper; nothing behind it matters *)
Lemma leading_cut l s r : forallb lead_ok l = true -> stopper s = true -> leading (l ++ s :: r) = l.
Proof.
  induction l as [|t l IH]; intros Hl Hs; cbn [app].
  - rewrite leading_step. unfold stopper in Hs. destruct (lead_ok s); [discriminate|reflexivity].
  - cbn in Hl. apply andb_prop in Hl as [Ht Hl]. rewrite leading_step, Ht, IH; auto.
Qed.
Lemma leading_all l : forallb lead_ok l = true -> leading l = l.
Proof.
  induction l as [|t l IH]; intros Hl; [reflexivity|]. cbn in Hl. apply andb_prop in Hl as [Ht Hl].
  rewrite leading_step, Ht, IH; auto.
Qed.
Lemma leading_behind_stopper : forall l s r r', stopper s = true -> leading (l ++ s :: r) = leading (l ++ s :: r').
Proof.
  induction l as [|t l IH]; intros s r r' Hs; cbn [app]; rewrite !leading_step.
  - unfold stopper in Hs. destruct (lead_ok s); [discriminate|reflexivity].
  - destruct (lead_ok t); [|reflexivity]. f_equal. apply IH, Hs.
Qed.

Lemma dd_is_stopper : stopper [DASH; DASH] = true.
Proof. reflexivity. Qed.
Lemma option_is_stopper o : starts_dash o = true -> stopper o = true.
Proof. intros H. unfold stopper, lead_ok. rewrite H. now rewrite andb_false_r. Qed.

(* ---------- walking down the tree ---------- *)
Inductive descends : coll -> list str -> bcmd -> Prop :=
| d_one named n b : coll_contains named n = true -> coll_get named n = Ok b -> descends named [n] b
| d_step named n b l b' : coll_contains named n = true -> coll_get named n = Ok b ->
    descends (named_of (b_subs b)) l b' -> descends named (n :: l) b'.

Lemma walk_some named cur names b p :
  walk named cur names = Ok (Some (b, p)) ->
  (cur = Some (b, p) /\ match names with [] => True | n :: _ => coll_contains named n = false end) \/
  exists l1 l2, names = l1 ++ l2 /\ descends named l1 b /\
                match l2 with [] => True | n :: _ => coll_contains (named_of (b_subs b)) n = false end.
Proof.
  revert named cur. induction names as [|n r IH]; intros named cur; cbn [walk].
  - intros H. inversion H. left. auto.
  - destruct (coll_contains named n) eqn:Hc; cbn [negb].
    + destruct (coll_get named n) as [b0|k] eqn:Hg; cbn [bind]; [|discriminate].
      intros H. right. apply IH in H as [[Hcur Hnext]|(l1 & l2 & -> & Hd & Hn)].
      * inversion Hcur; subst. exists [n], r. split; [reflexivity|]. split; [now constructor|exact Hnext].
      * exists (n :: l1), l2. split; [reflexivity|]. split; [eapply d_step; eauto|exact Hn].
    + intros H. inversion H. left. auto.
Qed.

Lemma descends_functional named l b : descends named l b -> forall b', descends named l b' -> b = b'.
Proof.
  induction 1 as [named n b Hc Hg|named n b l b' Hc Hg Hd IH]; intros b2 H2; inversion H2; subst.
  - congruence.
  - match goal with H : descends _ [] _ |- _ => inversion H end.
  - match goal with H : descends _ [] _ |- _ => inversion H end.
  - match goal with H : coll_get named n = Ok ?y |- _ =>
      tryif constr_eq y b then fail else (rewrite Hg in H; inversion H; subst) end. eauto.
Qed.

(* the prefix found is the longest one that names a path *)
Lemma no_longer_path named l1 b : descends named l1 b ->
  forall n l3 b', coll_contains (named_of (b_subs b)) n = false -> ~ descends named (l1 ++ n :: l3) b'.
Proof.
  induction 1 as [named m b Hc Hg|named m b l b' Hc Hg Hd IH]; intros n l3 b2 Hn H2; cbn [app] in H2; inversion H2; subst;
    try match goal with H : [] = _ ++ _ :: _ |- _ => destruct (app_cons_not_nil _ _ _ H) end.
  - match goal with H : coll_get named m = Ok ?y |- _ =>
      tryif constr_eq y b then fail else (rewrite Hg in H; inversion H; subst) end.
    match goal with H : descends _ (n :: l3) _ |- _ => inversion H; subst; congruence end.
  - match goal with H : coll_get named m = Ok ?y |- _ =>
      tryif constr_eq y b then fail else (rewrite Hg in H; inversion H; subst) end.
    eapply IH; eauto.
Qed.

Lemma walk_unknown named n r : coll_contains named n = false -> walk named None (n :: r) = Ok None.
Proof. intros H. cbn [walk]. rewrite H. reflexivity. Qed.

Lemma walk_alias named cur n n' r :
  coll_contains named n = true -> coll_contains named n' = true -> coll_get named n = coll_get named n' ->
  walk named cur (n :: r) = walk named cur (n' :: r).
Proof. intros H1 H2 H3. cbn [walk]. rewrite H1, H2, H3. reflexivity. Qed.

(* a first leading token that names nothing is reported as an undefined command *)
Lemma resolve_unknown_lemma a toks n r :
  leading toks = n :: r -> coll_contains (named_of (ap_cmds a)) n = false -> resolve a toks = Err CannotResolve.
Proof. intros Hl Hc. unfold resolve. rewrite Hl, (walk_unknown _ _ _ Hc). reflexivity. Qed.

(* with no leading token the application's default command is selected (first parsable, else the first) *)
Lemma resolve_empty_lemma a toks :
  leading toks = [] ->
  resolve a toks =
    (do d <- pick_default (defaults_of (ap_cmds a)) toks None;
     match d with
     | Some (dc, r) => do x <- r; Ok ([b_name dc], b_fmt dc, x)
     | None => Err CannotResolve end).
Proof. intros Hl. unfold resolve. rewrite Hl. reflexivity. Qed.

(* the selection is a function of the leading tokens and of what the parser says about the whole line:
   two lines with the same leading tokens walk to the same command *)
Lemma resolve_walk a toks :
  forall b p, walk (named_of (ap_cmds a)) None (leading toks) = Ok (Some (b, p)) ->
  resolve a toks =
    (do d <- pick_default (defaults_of (b_subs b)) toks None;
     match d with
     | Some (dc, r) => do x <- r; Ok (p ++ [b_name dc], b_fmt dc, x)
     | None => do x <- parse (b_fmt b) (b_lenient b) toks; Ok (p, b_fmt b, x) end).
Proof. intros b p H. unfold resolve. rewrite H. reflexivity. Qed.

(* pick_default: the first parsable default, else the first one's parse error *)
Lemma pick_default_first_parsable ds1 d a ds2 toks :
  Forall (fun x => parse (b_fmt x) (b_lenient x) toks = Err CannotParse) ds1 ->
  parse (b_fmt d) (b_lenient d) toks = Ok a ->
  forall first, pick_default (ds1 ++ d :: ds2) toks first = Ok (Some (d, Ok a)).
Proof.
  induction ds1 as [|x r IH]; intros Hf Hd first; cbn [app pick_default].
  - rewrite Hd. reflexivity.
  - inversion Hf; subst. match goal with H : parse _ _ _ = Err CannotParse |- _ => rewrite H end. apply IH; assumption.
Qed.
