(* C13, the ANSI formatter: clean_layout (no ESC in a label or text, no backslash in a label - the hypothesis of
   page_fits_ansi_clean_lemma) of the help pages, from the configuration: names without ESC and backslash, descriptions,
   value names, aliases and defaults without ESC. *)
From Coq Require Import Lia.
From Clikit Require Import Base.Prelude Base.Res Model.Conv Model.Flags Model.Format Model.Markup Model.Wrap Model.Help.
From Clikit Require Import Proofs.MarkupLemmas Proofs.MarkupShrinkLemmas Proofs.HelpLemmas Proofs.HelpPlainLemmas.

Ltac ch1 := first [ split; discriminate | discriminate ].
Ltac ch_solve :=
  unfold no_esc in *;
  repeat first [ assumption | apply Forall_nil | apply Forall_app; split | apply Forall_cons; [ch1|]
               | apply good_no_esc; assumption ].

(* ---- json.dumps writes no ESC ---- *)
Definition scalar_clean (v : pyval) : Prop := match v with VFloat t => no_esc t | _ => True end.
Definition pyval_clean (v : pyval) : Prop := match v with VList l => Forall scalar_clean l | _ => scalar_clean v end.
Lemma hex_digit_no_esc n : hex_digit n <> ESC.
Proof. unfold hex_digit, ESC. destruct (N.ltb_spec n 10); lia. Qed.
Lemma u_escape_no_esc c : no_esc (u_escape c).
Proof. unfold u_escape. repeat (constructor; [first [apply hex_digit_no_esc|discriminate]|]). constructor. Qed.
Lemma json_char_no_esc c : no_esc (json_char c).
Proof.
  unfold json_char.
  do 7 (match goal with |- no_esc (if N.eqb ?a ?b then _ else _) => destruct (N.eqb a b); [repeat constructor; discriminate|] end).
  destruct (N.ltb_spec c 32); [apply u_escape_no_esc|]. destruct (c <? 127)%N; [constructor; [unfold ESC; lia|constructor]|].
  destruct (c <? 65536)%N; [apply u_escape_no_esc|]. apply Forall_app. split; apply u_escape_no_esc.
Qed.
Lemma param_no_esc q : Forall param_char q -> no_esc q.
Proof. intros H. eapply Forall_impl; [|exact H]. intros c Hc ->. vm_compute in Hc. discriminate. Qed.
Lemma dec_text_no_esc z : no_esc (dec_text z).
Proof.
  unfold dec_text. destruct (Z.to_int z); [|constructor; [discriminate|]]; apply param_no_esc, chars_of_uint_digits.
Qed.
Lemma json_scalar_no_esc v : scalar_clean v -> no_esc (json_scalar v).
Proof.
  destruct v as [|[|]|z|s|t|l]; cbn [json_scalar scalar_clean]; intros H.
  - ch_solve.
  - ch_solve.
  - ch_solve.
  - apply dec_text_no_esc.
  - unfold json_str. constructor; [discriminate|]. apply Forall_app. split; [|constructor; [discriminate|constructor]].
    induction s as [|c s IH]; cbn [flat_map]; [constructor|]. apply Forall_app. split; [apply json_char_no_esc|exact IH].
  - unfold float_json. repeat (match goal with |- no_esc (if ?b then _ else _) => destruct b; [ch_solve|] end). exact H.
  - constructor.
Qed.
Lemma json_no_esc v : pyval_clean v -> no_esc (json v).
Proof.
  destruct v as [| | | | |l]; try apply json_scalar_no_esc. cbn [pyval_clean json]. intros H.
  constructor; [discriminate|]. apply Forall_app. split; [|ch_solve].
  induction H as [|x r Hx Hr IH]; [constructor|]. destruct r as [|y r]; [now apply json_scalar_no_esc|].
  change (json_list (x :: y :: r)) with (json_scalar x ++ [44; 32]%N ++ json_list (y :: r)).
  apply Forall_app. split; [now apply json_scalar_no_esc|]. constructor; [discriminate|]. constructor; [discriminate|exact IH].
Qed.

(* ---- the configuration ---- *)
Definition opt_clean (h : hopt) : Prop :=
  Forall good (o_long (h_o h)) /\ (match o_short (h_o h) with Some s => Forall good s | None => True end)
  /\ no_esc (odesc (h_odesc h)) /\ no_esc (h_vname h) /\ no_esc (json (o_default (h_o h))).
Definition arg_clean (a : harg) : Prop :=
  Forall good (a_name (h_a a)) /\ no_esc (odesc (h_adesc a)) /\ no_esc (json (a_default (h_a a))).
Definition sub_clean (s : sub) : Prop :=
  Forall good (sb_name s) /\ no_esc (odesc (sb_desc s)) /\ no_esc (odesc (sb_help s))
  /\ Forall arg_clean (sb_args s) /\ Forall opt_clean (sb_opts s).

(* ---- elements ---- *)
Lemma cl_para i t : no_esc t -> clean_elem (i, EPara t).
Proof. intros H. repeat split; try constructor. exact H. Qed.
Lemma cl_empty i : clean_elem (i, EEmpty).
Proof. repeat split; constructor. Qed.
Lemma cl_lab i label text p a : Forall good label -> no_esc text -> clean_elem (i, ELab label text p a).
Proof. intros H1 H2. split; [apply good_no_esc, H1|]. split; [apply good_no_bsl, H1|exact H2]. Qed.
Lemma cl_elem i e : Forall good (elem_label e) -> no_esc (elem_text e) -> clean_elem (i, e).
Proof. destruct e; cbn [elem_label elem_text]; intros H1 H2; [now apply cl_para|now apply cl_lab|apply cl_empty]. Qed.
Lemma cl_app a b : clean_layout a -> clean_layout b -> clean_layout (a ++ b).
Proof. intros. apply Forall_app. auto. Qed.
Lemma cl_cons x l : clean_elem x -> clean_layout l -> clean_layout (x :: l).
Proof. intros. constructor; assumption. Qed.
Lemma cl_nil : clean_layout []. Proof. constructor. Qed.
Lemma cl_block l : clean_layout l -> clean_layout (block l).
Proof. unfold clean_layout, block. induction 1 as [|[i e] l H Hl IH]; cbn [map]; constructor; auto. Qed.
Lemma cl_at0 es : Forall (fun e => clean_elem (0%nat, e)) es -> clean_layout (at0 es).
Proof. unfold clean_layout, at0. induction 1; cbn [map]; constructor; auto. Qed.

Lemma render_option_clean i h : opt_clean h -> clean_elem (i, render_option h).
Proof.
  intros (H1 & H2 & H3 & H4 & H5). apply cl_elem.
  - rewrite render_option_names_lemma. unfold C1, C1E.
    destruct (bit (o_flags (h_o h)) 0); destruct (o_short (h_o h)); ch_solve.
  - unfold render_option. destruct (opt_preferred (h_o h)) as [pref alt]. cbn [elem_text].
    destruct (o_accepts (h_o h) && has_default (o_default (h_o h))); destruct (o_multi (h_o h)); ch_solve.
Qed.
Lemma render_argument_clean i a : arg_clean a -> clean_elem (i, render_argument a).
Proof.
  intros (H1 & H2 & H3). apply cl_elem.
  - rewrite render_argument_name_lemma. unfold C1, C1E. ch_solve.
  - unfold render_argument. cbn [elem_text]. destruct (has_default (a_default (h_a a))); ch_solve.
Qed.
Lemma cl_args l : Forall arg_clean l -> clean_layout (at0 (map render_argument l)).
Proof. intros H. apply cl_at0. induction H; cbn [map]; constructor; auto using render_argument_clean. Qed.
Lemma cl_opts l : Forall opt_clean l -> clean_layout (at0 (map render_option l)).
Proof. intros H. apply cl_at0. induction H; cbn [map]; constructor; auto using render_option_clean. Qed.

(* ---- the synopsis ---- *)
Lemma join_with_P (P : N -> Prop) sep l : P sep -> Forall (Forall P) l -> Forall P (join_with sep l).
Proof.
  intros Hs. induction 1 as [|x r Hx Hr IH]; [constructor|]. destruct r as [|y r]; [exact Hx|].
  change (join_with sep (x :: y :: r)) with (x ++ sep :: join_with sep (y :: r)). apply Forall_app. split; [exact Hx|]. constructor; assumption.
Qed.
Lemma placeholder_no_esc sty n : no_esc n -> no_esc (placeholder sty n).
Proof. intros H. unfold placeholder. destruct (is_tag sty n); ch_solve. Qed.
Lemma preferred_no_esc h : opt_clean h -> no_esc (fst (opt_preferred (h_o h))).
Proof.
  intros (H1 & H2 & _). unfold opt_preferred. destruct (bit (o_flags (h_o h)) 0); cbn [fst]; [ch_solve|].
  destruct (o_short (h_o h)); ch_solve.
Qed.
Lemma syn_opt_part_no_esc sty h : opt_clean h -> no_esc (syn_opt_part sty h).
Proof.
  intros H. pose proof (preferred_no_esc h H) as Hn. destruct H as (_ & _ & _ & Hv & _).
  pose proof (placeholder_no_esc sty _ Hv) as Hp. unfold syn_opt_part. cbv zeta.
  destruct (o_required (h_o h)); [|destruct (o_optional (h_o h))]; ch_solve.
Qed.
Lemma syn_arg_parts_no_esc sty a : arg_clean a -> Forall no_esc (syn_arg_parts sty a).
Proof.
  intros (H & _). apply good_no_esc in H. unfold syn_arg_parts. cbv zeta.
  assert (H1 : no_esc (a_name (h_a a) ++ (if a_multi (h_a a) then [49%N] else []))) by (destruct (a_multi (h_a a)); ch_solve).
  assert (H2 : no_esc (a_name (h_a a) ++ [78%N])) by ch_solve.
  pose proof (placeholder_no_esc sty _ H1) as P1. pose proof (placeholder_no_esc sty _ H2) as P2.
  constructor; [destruct (a_required (h_a a)); ch_solve|]. destruct (a_multi (h_a a)); constructor; [ch_solve|constructor].
Qed.
Lemma synopsis_clean i sty app_name names opts args prefix lo :
  (match app_name with Some n => Forall good n | None => True end) -> Forall (Forall good) names -> Forall good prefix ->
  Forall opt_clean opts -> Forall arg_clean args ->
  clean_elem (i, synopsis sty app_name names opts args prefix lo).
Proof.
  intros Ha Hn Hp Ho Hg. apply cl_elem.
  - unfold synopsis. cbv zeta. cbn [elem_label]. set (parts := u_tag _ :: map u_tag names).
    assert (Hparts : Forall (Forall good) parts).
    { subst parts. constructor.
      - unfold u_tag. destruct app_name as [[|c r]|]; ch_solve.
      - clear - Hn. induction Hn; cbn [map]; constructor; auto. unfold u_tag. ch_solve. }
    apply Forall_app. split; [exact Hp|]. apply join_with_P; [split; discriminate|].
    destruct lo; [|exact Hparts]. destruct (removelast_last_P (Forall good) parts [] Hparts) as [H1 H2]; [constructor|].
    apply Forall_app. split; [exact H1|]. constructor; [|constructor]. ch_solve.
  - rewrite synopsis_text. apply join_with_P; [discriminate|]. unfold syn_parts. apply Forall_app. split.
    + induction Ho; cbn [map]; constructor; [now apply syn_opt_part_no_esc|assumption].
    + induction Hg; cbn [flat_map]; [constructor|]. apply Forall_app. split; [now apply syn_arg_parts_no_esc|assumption].
Qed.

Lemma usage_prefixes_good n : Forall (Forall good) (usage_prefixes n).
Proof.
  unfold usage_prefixes. constructor; [destruct n as [|[|n]]; ch_solve|].
  apply Forall_forall. intros q Hq. apply repeat_spec in Hq. subst. ch_solve.
Qed.
Lemma usage_section_clean sty app_name ch subs :
  (match app_name with Some n => Forall good n | None => True end) -> Forall (Forall good) (chain_names ch) ->
  Forall arg_clean (chain_args ch) -> Forall opt_clean (own_opts ch) -> Forall sub_clean subs ->
  clean_layout (usage_section sty app_name ch subs).
Proof.
  intros Ha Hc Hargs Hown Hs. unfold usage_section, clean_layout. apply Forall_forall. intros x Hx.
  apply in_map_iff in Hx. destruct Hx as ([e q] & <- & Hin).
  pose proof (in_combine_l _ _ _ _ Hin) as He. pose proof (in_combine_r _ _ _ _ Hin) as Hq.
  pose proof (usage_prefixes_good (length (usage_entries ch subs))) as Hpre. rewrite Forall_forall in Hpre. specialize (Hpre q Hq).
  unfold usage_line. cbn [fst snd]. destruct e as [[[names opts] args] lo]. cbn [snd].
  apply usage_entry_origin in He. destruct He as [[E _]|(s & Hsin & _ & _ & E)].
  - injection E as -> -> -> _. apply synopsis_clean; assumption.
  - cbn [fst] in E. unfold sub_fmt in E. injection E as -> -> ->. rewrite Forall_forall in Hs.
    destruct (Hs s Hsin) as (S1 & _ & _ & S4 & S5). apply synopsis_clean; [exact Ha| |exact Hpre|exact S5|].
    + apply Forall_app. split; [exact Hc|]. destruct (sb_anonymous s); [constructor|]. constructor; [exact S1|constructor].
    + apply Forall_app. split; assumption.
Qed.

(* ---- the sections ---- *)
Lemma nonempty_odesc o d : nonempty_opt o = Some d -> odesc o = d.
Proof. destruct o as [[|c r]|]; cbn; intros H; [discriminate|now injection H|discriminate]. Qed.
Lemma sub_block_clean s : sub_clean s -> clean_layout (sub_block s).
Proof.
  intros (H1 & H2 & H3 & Ha & Ho). unfold sub_block. apply cl_cons; [apply cl_para; unfold u_tag; ch_solve|]. do 2 apply cl_block.
  repeat apply cl_app.
  - destruct (nonempty_opt (sb_desc s)) as [d|] eqn:E; [|apply cl_nil]. apply nonempty_odesc in E. subst d.
    apply cl_cons; [now apply cl_para|]. apply cl_cons; [apply cl_empty|apply cl_nil].
  - destruct (nonempty_opt (sb_help s)) as [d|] eqn:E; [|apply cl_nil]. apply nonempty_odesc in E. subst d.
    apply cl_cons; [now apply cl_para|]. apply cl_cons; [apply cl_empty|apply cl_nil].
  - destruct (sb_args s) as [|x l] eqn:E; [apply cl_nil|]. apply cl_app; [now apply cl_args|apply cl_cons; [apply cl_empty|apply cl_nil]].
  - destruct (sb_opts s) as [|x l] eqn:E; [apply cl_nil|]. apply cl_app; [now apply cl_opts|apply cl_cons; [apply cl_empty|apply cl_nil]].
  - destruct (nonempty_opt (sb_desc s)), (nonempty_opt (sb_help s)), (sb_args s), (sb_opts s); try apply cl_nil;
      (apply cl_cons; [apply cl_empty|apply cl_nil]).
Qed.
Lemma split_on_P (P : N -> Prop) sep : forall s, Forall P s -> Forall (Forall P) (split_on sep s).
Proof.
  induction 1 as [|c r Hc Hr IH]; [repeat constructor|]. cbn [split_on]. destruct (N.eqb c sep); [constructor; [constructor|exact IH]|].
  destruct (split_on sep r) as [|l ls]; [repeat constructor; exact Hc|]. inversion IH; subst. constructor; [constructor; assumption|assumption].
Qed.
Lemma description_block_clean help : no_esc (odesc help) -> clean_layout (description_block help).
Proof.
  intros H. unfold description_block. destruct (nonempty_opt help) as [h|] eqn:E; [|apply cl_nil]. apply nonempty_odesc in E. subst h.
  apply cl_cons; [apply cl_para; ch_solve|]. apply cl_app; [|apply cl_cons; [apply cl_empty|apply cl_nil]].
  unfold paragraphs. pose proof (split_on_P _ 10%N _ H) as Hs. induction Hs; cbn [map]; [apply cl_nil|]. apply cl_cons; [now apply cl_para|assumption].
Qed.
Lemma global_options_clean l : Forall opt_clean l -> clean_layout (global_options_section l).
Proof.
  intros H. unfold global_options_section. destruct l as [|x r]; [apply cl_nil|].
  apply cl_cons; [apply cl_para; unfold H_GLOBAL; ch_solve|]. apply cl_app; [apply cl_block; now apply cl_opts|apply cl_cons; [apply cl_empty|apply cl_nil]].
Qed.
Lemma join_comma_P (P : N -> Prop) l : P 44%N -> P 32%N -> Forall (Forall P) l -> Forall P (join_comma l).
Proof.
  intros H1 H2. induction 1 as [|x r Hx Hr IH]; [constructor|]. destruct r as [|y r]; [exact Hx|].
  change (join_comma (x :: y :: r)) with (x ++ [44; 32]%N ++ join_comma (y :: r)).
  apply Forall_app. split; [exact Hx|]. constructor; [exact H1|]. constructor; [exact H2|exact IH].
Qed.

(* The command page of EVERY configuration whose names (application, commands, sub-commands, options, arguments) hold no
   ESC and no backslash and whose descriptions, value names, aliases, help texts and defaults (as json.dumps writes
   them) hold no ESC is a clean layout. *)
Theorem command_page_clean sty app_name ch aliases help subs :
  (match app_name with Some n => Forall good n | None => True end) -> Forall (Forall good) (chain_names ch) ->
  Forall arg_clean (chain_args ch) -> Forall opt_clean (own_opts ch) -> Forall opt_clean (base_opts ch) ->
  Forall sub_clean subs -> Forall no_esc aliases -> no_esc (odesc help) ->
  clean_layout (command_page sty app_name ch aliases help subs).
Proof.
  intros Ha Hc Hargs Hown Hbase Hsubs Hal Hh. rewrite command_page_sections.
  repeat apply cl_app.
  - apply cl_cons; [apply cl_para; unfold H_USAGE; ch_solve|apply cl_nil].
  - now apply usage_section_clean.
  - unfold aliases_section. destruct aliases as [|a0 al]; [apply cl_nil|]. apply cl_cons; [apply cl_empty|]. apply cl_cons; [|apply cl_nil].
    apply cl_para. apply Forall_app. split; [ch_solve|]. apply join_comma_P; [discriminate|discriminate|exact Hal].
  - apply cl_cons; [apply cl_empty|apply cl_nil].
  - unfold arguments_section. destruct (chain_args ch) as [|x l]; [apply cl_nil|].
    apply cl_cons; [apply cl_para; unfold H_ARGUMENTS; ch_solve|]. apply cl_app; [apply cl_block; now apply cl_args|apply cl_cons; [apply cl_empty|apply cl_nil]].
  - unfold commands_section. destruct (named_subs subs); [apply cl_nil|]. apply cl_cons; [apply cl_para; unfold H_COMMANDS; ch_solve|].
    unfold clean_layout. apply Forall_forall. intros x Hx. apply in_flat_map in Hx. destruct Hx as (s0 & Hs & Hx).
    apply listed_subs_in in Hs. destruct Hs as [Hs _]. rewrite Forall_forall in Hsubs.
    pose proof (sub_block_clean s0 (Hsubs s0 Hs)) as Hb. unfold clean_layout in Hb. rewrite Forall_forall in Hb. now apply Hb.
  - unfold options_section. destruct (own_opts ch) as [|x l]; [apply cl_nil|].
    apply cl_cons; [apply cl_para; unfold H_OPTIONS; ch_solve|]. apply cl_app; [apply cl_block; now apply cl_opts|apply cl_cons; [apply cl_empty|apply cl_nil]].
  - now apply global_options_clean.
  - now apply description_block_clean.
Qed.

Theorem application_page_clean sty app_name display version gopts cmds help :
  (match app_name with Some n => Forall good n | None => True end) ->
  no_esc (odesc display) -> no_esc (odesc version) -> Forall opt_clean gopts ->
  Forall (fun c => Forall good (ac_name c) /\ no_esc (ac_desc c)) cmds -> no_esc (odesc help) ->
  clean_layout (application_page sty app_name display version gopts cmds help).
Proof.
  intros Ha Hd Hv Hg Hc Hh. rewrite application_page_decomposes. unfold application_page_before.
  assert (Hargs : Forall arg_clean [the_command_arg; the_arg_arg]).
  { repeat constructor; cbn; discriminate. }
  repeat apply cl_app.
  - apply cl_cons.
    { unfold name_version. destruct (nonempty_opt display) as [d|] eqn:E1; [|apply cl_para; ch_solve].
      apply nonempty_odesc in E1. subst d. destruct (nonempty_opt version) as [v|] eqn:E2; [|now apply cl_para].
      apply nonempty_odesc in E2. subst v. apply cl_para. ch_solve. }
    apply cl_cons; [apply cl_empty|]. apply cl_cons; [apply cl_para; ch_solve|]. apply cl_cons; [|apply cl_cons; [apply cl_empty|apply cl_nil]].
    apply synopsis_clean; [exact Ha|constructor|constructor|exact Hg|exact Hargs].
  - apply cl_cons; [apply cl_para; ch_solve|]. apply cl_app; [|apply cl_cons; [apply cl_empty|apply cl_nil]]. apply cl_block, cl_args, Hargs.
  - now apply global_options_clean.
  - unfold available_section. destruct (named_cmds cmds); [apply cl_nil|]. apply cl_cons; [apply cl_para; unfold H_AVAILABLE; ch_solve|].
    apply cl_app; [|apply cl_cons; [apply cl_empty|apply cl_nil]].
    unfold clean_layout. apply Forall_forall. intros x Hx. apply in_map_iff in Hx. destruct Hx as (c0 & <- & Hin).
    apply listed_cmds_in in Hin. destruct Hin as [Hin _]. rewrite Forall_forall in Hc. destruct (Hc c0 Hin) as [C1' C2'].
    unfold cmd_line. apply cl_lab; [unfold C1, C1E; ch_solve|exact C2'].
  - now apply description_block_clean.
Qed.
