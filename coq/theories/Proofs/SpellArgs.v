(* C01 (parse_spells), part 2: positional arguments in the token loop, the re-alignment against
   omitted command names, and Args.set_argument. *)
From Coq Require Import Lia.
From Clikit Require Import Base.Prelude Base.Res Model.Conv Model.Flags Model.Format Model.Parser Model.Spell
     Proofs.StrLemmas Proofs.FormatLemmas Proofs.ParserLemmas Proofs.SpellOpts.

(* ---------- dict.update onto a dict whose keys are a prefix of the new keys ---------- *)
Definition supd {V} (d : list (str * V)) (x : list (str * V)) : list (str * V) :=
  fold_left (fun d kv => sset (fst kv) (snd kv) d) x d.

Lemma sset_mid {V} k (v w : V) done d : ~ In k (map fst done) ->
  sset k v (done ++ (k, w) :: d) = done ++ (k, v) :: d.
Proof.
  unfold sset. induction done as [|[k1 v1] r IH]; cbn [app map fst aset]; intros H.
  - rewrite str_eqb_refl. reflexivity.
  - destruct (str_eqb_spec k k1) as [->|Hn]; [exfalso; apply H; now left|]. rewrite IH by (intros Hi; apply H; now right). reflexivity.
Qed.

Lemma supd_prefix {V} : forall (X D done : list (str * V)),
  NoDup (map fst (done ++ X)) -> map fst D = firstn (length D) (map fst X) ->
  supd (done ++ D) X = done ++ X.
Proof.
  unfold supd. induction X as [|[k v] X IH]; intros D done Hnd Hpre; cbn [fold_left fst snd].
  - destruct D; [reflexivity|discriminate].
  - assert (~ In k (map fst done)) as Hk.
    { rewrite map_app in Hnd. cbn in Hnd. apply NoDup_remove_2 in Hnd. rewrite in_app_iff in Hnd. tauto. }
    assert (NoDup (map fst ((done ++ [(k, v)]) ++ X))) as Hnd' by (rewrite <- app_assoc; exact Hnd).
    destruct D as [|[k1 w] D'].
    + rewrite app_nil_r. unfold sset. rewrite sset_absent by (now apply notin_sget_none).
      rewrite <- (app_nil_r (done ++ [(k, v)])). rewrite IH; [now rewrite <- app_assoc|exact Hnd'|reflexivity].
    + cbn in Hpre. inversion Hpre; subst. rewrite sset_mid by exact Hk.
      change (done ++ (k, v) :: D') with (done ++ [(k, v)] ++ D'). rewrite app_assoc.
      rewrite IH; [now rewrite <- app_assoc|exact Hnd'|assumption].
Qed.
Lemma supd_nil {V} (X : list (str * V)) : NoDup (map fst X) -> supd [] X = X.
Proof. intros H. apply (supd_prefix X [] []); [exact H|reflexivity]. Qed.

(* ---------- what fmt_ok says ---------- *)
Record fmt_facts (f g : fmt) (A : list (str * arg)) (cns : list (str * cname)) : Prop := {
  ff_aug : aug_format f = Ok (g, A, cns);
  ff_args : get_arguments_all g = A;
  ff_real : skipn (length cns) A = get_arguments_all f;
  ff_pseudo : map fst (firstn (length cns) A) = map fst cns;
  ff_single : Forall (fun na => a_multi (snd na) = false) (firstn (length cns) A);
  ff_fresh : forall n, In n (map fst cns) -> sget n (get_arguments_all f) = None;
  ff_nodup : NoDup (map fst A);
  ff_names : Forall (fun na => fst na = a_name (snd na)) A }.

Lemma forallb_Forall {X} (p : X -> bool) l : forallb p l = true -> Forall (fun x => p x = true) l.
Proof. intros H. apply Forall_forall. now apply forallb_forall. Qed.

Lemma fmt_ok_inv f : fmt_ok f = true -> exists g A cns, fmt_facts f g A cns.
Proof.
  unfold fmt_ok. destruct (aug_format f) as [[[g A] cns]|] eqn:E; [|discriminate]. intros H.
  apply andb_prop in H as [H H7]. apply andb_prop in H as [H H6]. apply andb_prop in H as [H H5].
  apply andb_prop in H as [H H4]. apply andb_prop in H as [H H3]. apply andb_prop in H as [H1 H2].
  exists g, A, cns. constructor.
  - exact E.
  - apply (list_eqb_eq narg_eqb narg_eqb_eq). exact H1.
  - apply (list_eqb_eq narg_eqb narg_eqb_eq). exact H2.
  - apply (list_eqb_eq str_eqb str_eqb_eq). exact H3.
  - apply forallb_Forall in H4. eapply Forall_impl; [|exact H4]. cbn. intros na Hn. now apply negb_true_iff.
  - intros n Hn. rewrite forallb_forall in H5. specialize (H5 n Hn). apply negb_true_iff in H5.
    rewrite shas_sget in H5. destruct (sget n (get_arguments_all f)); [discriminate|reflexivity].
  - apply nodupb_NoDup. exact H6.
  - apply forallb_Forall in H7. eapply Forall_impl; [|exact H7]. cbn. intros na Hn. now apply str_eqb_eq.
Qed.

(* ---------- Args.set_argument skips what is not an argument of the format ---------- *)
Lemma set_arguments_skip f l : forall a,
  (forall n v, In (n, v) l -> sget n (get_arguments_all f) = None) -> set_arguments f a l = Ok a.
Proof.
  induction l as [|[n v] r IH]; intros a H; cbn [set_arguments]; [reflexivity|].
  unfold has_argument. cbn [get_arguments]. rewrite shas_sget, (H n v) by (now left). apply IH.
  intros n' v' Hi. eapply H. right. exact Hi.
Qed.

(* ---------- _parse_argument by position ---------- *)
Lemma parse_argument_at g len st tok n a :
  nth_error (get_arguments_all g) (length (ps_args st)) = Some (n, a) ->
  parse_argument g len st tok =
  Ok (if a_multi a then append_arg st (a_name a) tok
      else {| ps_args := sset (a_name a) (RStr tok) (ps_args st); ps_opts := ps_opts st |}).
Proof.
  intros H. unfold parse_argument, has_argument, get_argument. cbn [get_arguments].
  assert (length (ps_args st) < length (get_arguments_all g)) as Hlt by (apply nth_error_Some; congruence).
  destruct (Z.leb_spec 0 (Z.of_nat (length (ps_args st)))); [|lia].
  destruct (Z.ltb_spec (Z.of_nat (length (ps_args st))) (Z.of_nat (length (get_arguments_all g)))); [|lia].
  cbn [andb]. destruct (Z.leb_spec (Z.of_nat (length (get_arguments_all g))) (Z.of_nat (length (ps_args st)))); [lia|].
  destruct (Z.ltb_spec (Z.of_nat (length (ps_args st))) 0); [lia|].
  rewrite Nat2Z.id, H. cbn [bind]. destruct (a_multi a); reflexivity.
Qed.
Lemma parse_argument_last g len st tok c n a :
  length (ps_args st) = S c -> length (get_arguments_all g) = S c ->
  nth_error (get_arguments_all g) c = Some (n, a) -> a_multi a = true ->
  parse_argument g len st tok = Ok (append_arg st (a_name a) tok).
Proof.
  intros Hc Hl H Hm. unfold parse_argument, has_argument, get_argument. cbn [get_arguments]. rewrite Hc, Hl.
  destruct (Z.ltb_spec (Z.of_nat (S c)) (Z.of_nat (S c))); [lia|]. rewrite andb_false_r.
  destruct (Z.leb_spec 0 (Z.of_nat (S c) - 1)); [|lia].
  destruct (Z.ltb_spec (Z.of_nat (S c) - 1) (Z.of_nat (S c))); [|lia]. cbn [andb].
  destruct (Z.leb_spec (Z.of_nat (S c)) (Z.of_nat (S c) - 1)); [lia|].
  destruct (Z.ltb_spec (Z.of_nat (S c) - 1) 0); [lia|].
  replace (Z.to_nat (Z.of_nat (S c) - 1)) with c by lia. rewrite H. cbn [bind]. rewrite Hm. reflexivity.
Qed.

(* ---------- the argument scratch map after the positional values P ---------- *)
Fixpoint place (ars : list (str * arg)) (vals : list str) : list (str * rawarg) :=
  match vals, ars with
  | [], _ => []
  | _, [] => []
  | v :: vals', (n, a) :: ars' =>
      if a_multi a then [(n, RList vals)] else (n, RStr v) :: place ars' vals'
  end.
(* the values fit the arguments (as fits, without the conversions) *)
Fixpoint shape (ars : list (str * arg)) (vals : list str) : bool :=
  match vals, ars with
  | [], _ => true
  | _, [] => false
  | v :: vals', (n, a) :: ars' =>
      if a_multi a then match ars' with [] => true | _ => false end else shape ars' vals'
  end.

Lemma place_nil ars : place ars [] = [].
Proof. destruct ars; reflexivity. Qed.

Lemma parg_place g len po tok : forall A A0 pre Pdone,
  get_arguments_all g = A0 ++ A ->
  Forall (fun na => fst na = a_name (snd na)) (A0 ++ A) -> NoDup (map fst (A0 ++ A)) ->
  map fst pre = map fst A0 ->
  shape A (Pdone ++ [tok]) = true ->
  parse_argument g len {| ps_args := pre ++ place A Pdone; ps_opts := po |} tok =
  Ok {| ps_args := pre ++ place A (Pdone ++ [tok]); ps_opts := po |}.
Proof.
  induction A as [|[n a] A' IH]; intros A0 pre Pdone HA Hnm Hnd Hpre Hsh.
  - destruct Pdone; discriminate.
  - assert (length pre = length A0) as Hlen by (rewrite <- (map_length fst pre), Hpre, map_length; reflexivity).
    assert (n = a_name a) as Hna.
    { rewrite Forall_forall in Hnm. apply (Hnm (n, a)). apply in_or_app. right. now left. }
    assert (~ In n (map fst pre)) as Hfresh.
    { rewrite Hpre. rewrite map_app in Hnd. cbn in Hnd. apply NoDup_remove_2 in Hnd. rewrite in_app_iff in Hnd. tauto. }
    assert (nth_error (A0 ++ (n, a) :: A') (length A0) = Some (n, a)) as Hnth.
    { rewrite nth_error_app2 by lia. rewrite Nat.sub_diag. reflexivity. }
    destruct Pdone as [|p Pd].
    + rewrite place_nil, app_nil_r. cbn [app place].
      rewrite (parse_argument_at g len _ tok n a) by (cbn [ps_args]; rewrite HA, Hlen; exact Hnth).
      rewrite <- Hna. unfold append_arg. cbn [ps_args ps_opts].
      unfold sget, sset. rewrite (notin_sget_none n pre Hfresh). rewrite !sset_absent by (now apply notin_sget_none).
      rewrite place_nil. destruct (a_multi a); reflexivity.
    + cbn [app place shape] in *. destruct (a_multi a) eqn:Hm.
      * destruct A' as [|x A'']; [|discriminate].
        rewrite (parse_argument_last g len _ tok (length A0) n a).
        -- rewrite <- Hna. unfold append_arg. cbn [ps_args ps_opts]. unfold sget. rewrite sget_app.
           rewrite (notin_sget_none n pre Hfresh). cbn [aget]. rewrite str_eqb_refl.
           rewrite sset_mid by exact Hfresh. reflexivity.
        -- cbn [ps_args]. rewrite app_length. cbn. lia.
        -- rewrite HA, app_length. cbn. lia.
        -- rewrite HA. exact Hnth.
        -- exact Hm.
      * change (pre ++ (n, RStr p) :: place A' Pd) with (pre ++ [(n, RStr p)] ++ place A' Pd).
        change (pre ++ (n, RStr p) :: place A' (Pd ++ [tok])) with (pre ++ [(n, RStr p)] ++ place A' (Pd ++ [tok])).
        rewrite !app_assoc. apply (IH (A0 ++ [(n, a)])).
        -- rewrite <- app_assoc. exact HA.
        -- rewrite <- app_assoc. exact Hnm.
        -- rewrite <- app_assoc. exact Hnd.
        -- rewrite !map_app, Hpre. reflexivity.
        -- exact Hsh.
Qed.

Lemma shape_app_l : forall A P Q, shape A (P ++ Q) = true -> shape A P = true.
Proof.
  induction A as [|[n a] A' IH]; intros P Q; destruct P as [|p P']; cbn [app shape]; try reflexivity.
  - discriminate.
  - destruct (a_multi a); [auto|apply IH].
Qed.

(* ---------- the token loop over a whole line ---------- *)
Section Loop.
  Variables (f g : fmt) (A : list (str * arg)) (len : bool).
  Hypothesis HA : get_arguments_all g = A.
  Hypothesis Hnm : Forall (fun na => fst na = a_name (snd na)) A.
  Hypothesis Hnd : NoDup (map fst A).

  Lemma pos_step fuel p st tok rest Pdone :
    ps_args st = place A Pdone -> shape A (Pdone ++ [tok]) = true -> (p = true -> plain_tok tok = true) ->
    loop (S fuel) g len p st (tok :: rest) =
    loop fuel g len p {| ps_args := place A (Pdone ++ [tok]); ps_opts := ps_opts st |} rest.
  Proof.
    intros Hst Hsh Hp. rewrite loop_arg.
    - destruct st as [pa po]. cbn [ps_args ps_opts] in *. subst pa.
      pose proof (parg_place g len po tok A [] [] Pdone HA Hnm Hnd eq_refl Hsh) as H. cbn [app] in H. rewrite H. reflexivity.
    - intros ->. specialize (Hp eq_refl). unfold plain_tok in Hp. apply andb_prop in Hp as [H1 H2].
      apply negb_true_iff in H2. split; assumption.
  Qed.

  Lemma loop_tail : forall tl Pdone st fuel,
    ps_args st = place A Pdone -> shape A (Pdone ++ tl) = true -> length tl < fuel ->
    loop fuel g len false st tl = ({| ps_args := place A (Pdone ++ tl); ps_opts := ps_opts st |}, None).
  Proof.
    induction tl as [|t tl IH]; intros Pdone st fuel Hst Hsh Hf.
    - destruct fuel; [lia|]. rewrite app_nil_r. cbn [loop]. destruct st; cbn in *. subst. reflexivity.
    - destruct fuel as [|fuel]; [cbn in Hf; lia|]. cbn [length] in Hf.
      change (t :: tl) with ([t] ++ tl) in Hsh. rewrite app_assoc in Hsh.
      rewrite (pos_step fuel false st t tl Pdone Hst); [|eapply shape_app_l; exact Hsh|discriminate].
      rewrite (IH (Pdone ++ [t])); [|reflexivity|exact Hsh|lia]. cbn [ps_opts]. rewrite <- app_assoc. reflexivity.
  Qed.

  Lemma render_item_length it : 1 <= length (render_item it).
  Proof. destruct it as [o []|o [] s|o []|fl [[o [s|s|]]|]|s]; cbn; lia. Qed.
  Lemma render_items_length items : length items <= length (flat_map render_item items).
  Proof.
    induction items as [|it r IH]; cbn [flat_map length]; [lia|]. rewrite app_length.
    pose proof (render_item_length it). lia.
  Qed.

  Lemma loop_items : forall items Pdone st fuel tl,
    ps_args st = place A Pdone -> shape A (Pdone ++ flat_map item_pos items) = true ->
    items_ok f g items = true -> next_dash tl = true ->
    length (flat_map render_item items ++ tl) < fuel ->
    loop fuel g len true st (flat_map render_item items ++ tl) =
    loop (fuel - length items) g len true
         {| ps_args := place A (Pdone ++ flat_map item_pos items);
            ps_opts := fold_left raw_event (flat_map item_events items) (ps_opts st) |} tl.
  Proof.
    induction items as [|it r IH]; intros Pdone st fuel tl Hst Hsh Hok Htl Hf.
    - cbn [flat_map app length fold_left]. rewrite app_nil_r, Nat.sub_0_r, <- Hst. destruct st; reflexivity.
    - cbn [items_ok] in Hok. apply andb_prop in Hok as [Hok Hr]. apply andb_prop in Hok as [Hit Hla].
      cbn [flat_map] in *. rewrite <- app_assoc in *. rewrite app_length in Hf.
      pose proof (render_item_length it) as Hl1.
      destruct fuel as [|fuel]; [lia|]. cbn [length Nat.sub].
      destruct (is_pos it) eqn:Hp.
      + destruct it as [| | | |s]; try discriminate. cbn [render_item item_pos item_events app] in *.
        change (s :: flat_map item_pos r) with ([s] ++ flat_map item_pos r) in Hsh. rewrite app_assoc in Hsh.
        rewrite (pos_step fuel true st s _ Pdone Hst); [|eapply shape_app_l; exact Hsh|intros _; exact Hit].
        rewrite (IH (Pdone ++ [s])); [|reflexivity|exact Hsh|exact Hr|exact Htl|cbn in Hf; lia].
        cbn [ps_opts]. rewrite <- app_assoc. reflexivity.
      + rewrite (item_step f g len it Hit Hp).
        * assert (item_pos it = []) as Hnil by (destruct it; try reflexivity; discriminate).
          rewrite Hnil in *. cbn [app] in *.
          rewrite (IH Pdone); [|rewrite st_evs_args; exact Hst|exact Hsh|exact Hr|exact Htl|lia].
          rewrite st_evs_opts, fold_left_app. reflexivity.
        * intros Hlk. rewrite Hlk in Hla. destruct r as [|it2 r']; [exact Htl|].
          cbn [flat_map]. rewrite <- app_assoc. cbn [items_ok] in Hr. apply andb_prop in Hr as [Hr _].
          apply andb_prop in Hr as [Hit2 _]. apply (item_first_dash f g it2 _ Hit2).
          destruct it2; try reflexivity. discriminate.
  Qed.
End Loop.
