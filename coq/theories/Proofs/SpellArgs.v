(* C01 (parse_spells), part 2: positional arguments in the token loop, the re-alignment against
   omitted command names, and Args.set_argument. *)
From Coq Require Import Lia.
From Clikit Require Import Base.Prelude Base.Res Model.Conv Model.Flags Model.Format Model.Parser Model.Spell
     Proofs.StrLemmas Proofs.FormatLemmas Proofs.ParserLemmas Proofs.SpellOpts.

(* ---------- dict.update onto a dict whose keys are a prefix of the new keys ---------- *)
Definition supd {V} (d : list (str * V)) (x : list (str * V)) : list (str * V) :=
  fold_left (fun d kv => sset (fst kv) (snd kv) d) x d.

Lemma sset_mid {V} k (v w : V) done d : ~ In k (map fst done) ->
  sset k v (done ++ (k, w) :: d) = done ++ (k, v) :: d.
Proof.
  unfold sset. induction done as [|[k1 v1] r IH]; cbn [app map fst aset]; intros H.
  - rewrite str_eqb_refl. reflexivity.
  - destruct (str_eqb_spec k k1) as [->|Hn]; [exfalso; apply H; now left|]. rewrite IH by (intros Hi; apply H; now right). reflexivity.
Qed.

Lemma supd_prefix {V} : forall (X D done : list (str * V)),
  NoDup (map fst (done ++ X)) -> map fst D = firstn (length D) (map fst X) ->
  supd (done ++ D) X = done ++ X.
Proof.
  unfold supd. induction X as [|[k v] X IH]; intros D done Hnd Hpre; cbn [fold_left fst snd].
  - destruct D; [reflexivity|discriminate].
  - assert (~ In k (map fst done)) as Hk.
    { rewrite map_app in Hnd. cbn in Hnd. apply NoDup_remove_2 in Hnd. rewrite in_app_iff in Hnd. tauto. }
    assert (NoDup (map fst ((done ++ [(k, v)]) ++ X))) as Hnd' by (rewrite <- app_assoc; exact Hnd).
    destruct D as [|[k1 w] D'].
    + rewrite app_nil_r. unfold sset. rewrite sset_absent by (now apply notin_sget_none).
      rewrite <- (app_nil_r (done ++ [(k, v)])). rewrite IH; [now rewrite <- app_assoc|exact Hnd'|reflexivity].
    + cbn in Hpre. inversion Hpre; subst. rewrite sset_mid by exact Hk.
      change (done ++ (k, v) :: D') with (done ++ [(k, v)] ++ D'). rewrite app_assoc.
      rewrite IH; [now rewrite <- app_assoc|exact Hnd'|assumption].
Qed.
Lemma supd_nil {V} (X : list (str * V)) : NoDup (map fst X) -> supd [] X = X.
Proof. intros H. apply (supd_prefix X [] []); [exact H|reflexivity]. Qed.

(* ---------- what fmt_ok says ---------- *)
Record fmt_facts (f g : fmt) (A : list (str * arg)) (cns : list (str * cname)) : Prop := {
  ff_aug : aug_format f = Ok (g, A, cns);
  ff_args : get_arguments_all g = A;
  ff_real : skipn (length cns) A = get_arguments_all f;
  ff_pseudo : map fst (firstn (length cns) A) = map fst cns;
  ff_single : Forall (fun na => a_multi (snd na) = false) (firstn (length cns) A);
  ff_fresh : forall n, In n (map fst cns) -> sget n (get_arguments_all f) = None;
  ff_nodup : NoDup (map fst A);
  ff_names : Forall (fun na => fst na = a_name (snd na)) A }.

Lemma forallb_Forall {X} (p : X -> bool) l : forallb p l = true -> Forall (fun x => p x = true) l.
Proof. intros H. apply Forall_forall. now apply forallb_forall. Qed.

Lemma fmt_ok_inv f : fmt_ok f = true -> exists g A cns, fmt_facts f g A cns.
Proof.
  unfold fmt_ok. destruct (aug_format f) as [[[g A] cns]|] eqn:E; [|discriminate]. intros H.
  apply andb_prop in H as [H H7]. apply andb_prop in H as [H H6]. apply andb_prop in H as [H H5].
  apply andb_prop in H as [H H4]. apply andb_prop in H as [H H3]. apply andb_prop in H as [H1 H2].
  exists g, A, cns. constructor.
  - exact E.
  - apply (list_eqb_eq narg_eqb narg_eqb_eq). exact H1.
  - apply (list_eqb_eq narg_eqb narg_eqb_eq). exact H2.
  - apply (list_eqb_eq str_eqb str_eqb_eq). exact H3.
  - apply forallb_Forall in H4. eapply Forall_impl; [|exact H4]. cbn. intros na Hn. now apply negb_true_iff.
  - intros n Hn. rewrite forallb_forall in H5. specialize (H5 n Hn). apply negb_true_iff in H5.
    rewrite shas_sget in H5. destruct (sget n (get_arguments_all f)); [discriminate|reflexivity].
  - apply nodupb_NoDup. exact H6.
  - apply forallb_Forall in H7. eapply Forall_impl; [|exact H7]. cbn. intros na Hn. now apply str_eqb_eq.
Qed.

(* ---------- Args.set_argument skips what is not an argument of the format ---------- *)
Lemma set_arguments_skip f l : forall a,
  (forall n v, In (n, v) l -> sget n (get_arguments_all f) = None) -> set_arguments f a l = Ok a.
Proof.
  induction l as [|[n v] r IH]; intros a H; cbn [set_arguments]; [reflexivity|].
  unfold has_argument. cbn [get_arguments]. rewrite shas_sget, (H n v) by (now left). apply IH.
  intros n' v' Hi. eapply H. right. exact Hi.
Qed.

(* ---------- _parse_argument by position ---------- *)
Lemma parse_argument_at g len st tok n a :
  nth_error (get_arguments_all g) (length (ps_args st)) = Some (n, a) ->
  parse_argument g len st tok =
  Ok (if a_multi a then append_arg st (a_name a) tok
      else {| ps_args := sset (a_name a) (RStr tok) (ps_args st); ps_opts := ps_opts st |}).
Proof.
  intros H. unfold parse_argument, has_argument, get_argument. cbn [get_arguments].
  assert (length (ps_args st) < length (get_arguments_all g)) as Hlt by (apply nth_error_Some; congruence).
  destruct (Z.leb_spec 0 (Z.of_nat (length (ps_args st)))); [|lia].
  destruct (Z.ltb_spec (Z.of_nat (length (ps_args st))) (Z.of_nat (length (get_arguments_all g)))); [|lia].
  cbn [andb]. destruct (Z.leb_spec (Z.of_nat (length (get_arguments_all g))) (Z.of_nat (length (ps_args st)))); [lia|].
  destruct (Z.ltb_spec (Z.of_nat (length (ps_args st))) 0); [lia|].
  rewrite Nat2Z.id, H. cbn [bind]. destruct (a_multi a); reflexivity.
Qed.
Lemma parse_argument_last g len st tok c n a :
  length (ps_args st) = S c -> length (get_arguments_all g) = S c ->
  nth_error (get_arguments_all g) c = Some (n, a) -> a_multi a = true ->
  parse_argument g len st tok = Ok (append_arg st (a_name a) tok).
Proof.
  intros Hc Hl H Hm. unfold parse_argument, has_argument, get_argument. cbn [get_arguments]. rewrite Hc, Hl.
  destruct (Z.ltb_spec (Z.of_nat (S c)) (Z.of_nat (S c))); [lia|]. rewrite andb_false_r.
  destruct (Z.leb_spec 0 (Z.of_nat (S c) - 1)); [|lia].
  destruct (Z.ltb_spec (Z.of_nat (S c) - 1) (Z.of_nat (S c))); [|lia]. cbn [andb].
  destruct (Z.leb_spec (Z.of_nat (S c)) (Z.of_nat (S c) - 1)); [lia|].
  destruct (Z.ltb_spec (Z.of_nat (S c) - 1) 0); [lia|].
  replace (Z.to_nat (Z.of_nat (S c) - 1)) with c by lia. rewrite H. cbn [bind]. rewrite Hm. reflexivity.
Qed.

(* ---------- the argument scratch map after the positional values P ---------- *)
Fixpoint place (ars : list (str * arg)) (vals : list str) : list (str * rawarg) :=
  match vals, ars with
  | [], _ => []
  | _, [] => []
  | v :: vals', (n, a) :: ars' =>
      if a_multi a then [(n, RList vals)] else (n, RStr v) :: place ars' vals'
  end.
(* the values fit the arguments (as fits, without the conversions) *)
Fixpoint shape (ars : list (str * arg)) (vals : list str) : bool :=
  match vals, ars with
  | [], _ => true
  | _, [] => false
  | v :: vals', (n, a) :: ars' =>
      if a_multi a then match ars' with [] => true | _ => false end else shape ars' vals'
  end.

Lemma place_nil ars : place ars [] = [].
Proof. destruct ars; reflexivity. Qed.

Lemma parg_place g len po tok : forall A A0 pre Pdone,
  get_arguments_all g = A0 ++ A ->
  Forall (fun na => fst na = a_name (snd na)) (A0 ++ A) -> NoDup (map fst (A0 ++ A)) ->
  map fst pre = map fst A0 ->
  shape A (Pdone ++ [tok]) = true ->
  parse_argument g len {| ps_args := pre ++ place A Pdone; ps_opts := po |} tok =
  Ok {| ps_args := pre ++ place A (Pdone ++ [tok]); ps_opts := po |}.
Proof.
  induction A as [|[n a] A' IH]; intros A0 pre Pdone HA Hnm Hnd Hpre Hsh.
  - destruct Pdone; discriminate.
  - assert (length pre = length A0) as Hlen by (rewrite <- (map_length fst pre), Hpre, map_length; reflexivity).
    assert (n = a_name a) as Hna.
    { rewrite Forall_forall in Hnm. apply (Hnm (n, a)). apply in_or_app. right. now left. }
    assert (~ In n (map fst pre)) as Hfresh.
    { rewrite Hpre. rewrite map_app in Hnd. cbn in Hnd. apply NoDup_remove_2 in Hnd. rewrite in_app_iff in Hnd. tauto. }
    assert (nth_error (A0 ++ (n, a) :: A') (length A0) = Some (n, a)) as Hnth.
    { rewrite nth_error_app2 by lia. rewrite Nat.sub_diag. reflexivity. }
    destruct Pdone as [|p Pd].
    + rewrite place_nil, app_nil_r. cbn [app place].
      rewrite (parse_argument_at g len _ tok n a) by (cbn [ps_args]; rewrite HA, Hlen; exact Hnth).
      rewrite <- Hna. unfold append_arg. cbn [ps_args ps_opts].
      unfold sget, sset. rewrite (notin_sget_none n pre Hfresh). rewrite !sset_absent by (now apply notin_sget_none).
      rewrite place_nil. destruct (a_multi a); reflexivity.
    + cbn [app place shape] in *. destruct (a_multi a) eqn:Hm.
      * destruct A' as [|x A'']; [|discriminate].
        rewrite (parse_argument_last g len _ tok (length A0) n a).
        -- rewrite <- Hna. unfold append_arg. cbn [ps_args ps_opts]. unfold sget. rewrite sget_app.
           rewrite (notin_sget_none n pre Hfresh). cbn [aget]. rewrite str_eqb_refl.
           rewrite sset_mid by exact Hfresh. reflexivity.
        -- cbn [ps_args]. rewrite app_length. cbn. lia.
        -- rewrite HA, app_length. cbn. lia.
        -- rewrite HA. exact Hnth.
        -- exact Hm.
      * change (pre ++ (n, RStr p) :: place A' Pd) with (pre ++ [(n, RStr p)] ++ place A' Pd).
        change (pre ++ (n, RStr p) :: place A' (Pd ++ [tok])) with (pre ++ [(n, RStr p)] ++ place A' (Pd ++ [tok])).
        rewrite !app_assoc. apply (IH (A0 ++ [(n, a)])).
        -- rewrite <- app_assoc. exact HA.
        -- rewrite <- app_assoc. exact Hnm.
        -- rewrite <- app_assoc. exact Hnd.
        -- rewrite !map_app, Hpre. reflexivity.
        -- exact Hsh.
Qed.

Lemma shape_app_l : forall A P Q, shape A (P ++ Q) = true -> shape A P = true.
Proof.
  induction A as [|[n a] A' IH]; intros P Q; destruct P as [|p P']; cbn [app shape]; try reflexivity.
  - discriminate.
  - destruct (a_multi a); [auto|apply IH].
Qed.

(* ---------- the token loop over a whole line ---------- *)
Section Loop.
  Variables (f g : fmt) (A : list (str * arg)) (len : bool).
  Hypothesis HA : get_arguments_all g = A.
  Hypothesis Hnm : Forall (fun na => fst na = a_name (snd na)) A.
  Hypothesis Hnd : NoDup (map fst A).

  Lemma pos_step fuel p st tok rest Pdone :
    ps_args st = place A Pdone -> shape A (Pdone ++ [tok]) = true -> (p = true -> pos_tok tok = true) ->
    loop (S fuel) g len p st (tok :: rest) =
    loop fuel g len p {| ps_args := place A (Pdone ++ [tok]); ps_opts := ps_opts st |} rest.
  Proof.
    intros Hst Hsh Hp. rewrite loop_arg.
    - destruct st as [pa po]. cbn [ps_args ps_opts] in *. subst pa.
      pose proof (parg_place g len po tok A [] [] Pdone HA Hnm Hnd eq_refl Hsh) as H. cbn [app] in H. rewrite H. reflexivity.
    - exact Hp.
  Qed.

  Lemma loop_tail : forall tl Pdone st fuel,
    ps_args st = place A Pdone -> shape A (Pdone ++ tl) = true -> length tl < fuel ->
    loop fuel g len false st tl = ({| ps_args := place A (Pdone ++ tl); ps_opts := ps_opts st |}, None).
  Proof.
    induction tl as [|t tl IH]; intros Pdone st fuel Hst Hsh Hf.
    - destruct fuel; [lia|]. rewrite app_nil_r. cbn [loop]. destruct st; cbn in *. subst. reflexivity.
    - destruct fuel as [|fuel]; [cbn in Hf; lia|]. cbn [length] in Hf.
      change (t :: tl) with ([t] ++ tl) in Hsh. rewrite app_assoc in Hsh.
      rewrite (pos_step fuel false st t tl Pdone Hst); [|eapply shape_app_l; exact Hsh|discriminate].
      rewrite (IH (Pdone ++ [t])); [|reflexivity|exact Hsh|lia]. cbn [ps_opts]. rewrite <- app_assoc. reflexivity.
  Qed.

  Lemma render_item_length it : 1 <= length (render_item it).
  Proof. destruct it as [o []|o [] s|o []|fl [[o [s|s|]]|]|s]; cbn; lia. Qed.
  Lemma render_items_length items : length items <= length (flat_map render_item items).
  Proof.
    induction items as [|it r IH]; cbn [flat_map length]; [lia|]. rewrite app_length.
    pose proof (render_item_length it). lia.
  Qed.

  Lemma loop_items : forall items Pdone st fuel tl,
    ps_args st = place A Pdone -> shape A (Pdone ++ flat_map item_pos items) = true ->
    items_ok f g items = true -> next_dash tl = true ->
    length (flat_map render_item items ++ tl) < fuel ->
    loop fuel g len true st (flat_map render_item items ++ tl) =
    loop (fuel - length items) g len true
         {| ps_args := place A (Pdone ++ flat_map item_pos items);
            ps_opts := fold_left raw_event (flat_map item_events items) (ps_opts st) |} tl.
  Proof.
    induction items as [|it r IH]; intros Pdone st fuel tl Hst Hsh Hok Htl Hf.
    - cbn [flat_map app length fold_left]. rewrite app_nil_r, Nat.sub_0_r, <- Hst. destruct st; reflexivity.
    - cbn [items_ok] in Hok. apply andb_prop in Hok as [Hok Hr]. apply andb_prop in Hok as [Hit Hla].
      cbn [flat_map] in *. rewrite <- app_assoc in *. rewrite app_length in Hf.
      pose proof (render_item_length it) as Hl1.
      destruct fuel as [|fuel]; [lia|]. cbn [length Nat.sub].
      destruct (is_pos it) eqn:Hp.
      + destruct it as [| | | |s]; try discriminate. cbn [render_item item_pos item_events app] in *.
        change (s :: flat_map item_pos r) with ([s] ++ flat_map item_pos r) in Hsh. rewrite app_assoc in Hsh.
        rewrite (pos_step fuel true st s _ Pdone Hst); [|eapply shape_app_l; exact Hsh|intros _; exact Hit].
        rewrite (IH (Pdone ++ [s])); [|reflexivity|exact Hsh|exact Hr|exact Htl|cbn in Hf; lia].
        cbn [ps_opts]. rewrite <- app_assoc. reflexivity.
      + rewrite (item_step f g len it Hit Hp).
        * assert (item_pos it = []) as Hnil by (destruct it; try reflexivity; discriminate).
          rewrite Hnil in *. cbn [app] in *.
          rewrite (IH Pdone); [|rewrite st_evs_args; exact Hst|exact Hsh|exact Hr|exact Htl|lia].
          rewrite st_evs_opts, fold_left_app. reflexivity.
        * intros Hlk. rewrite Hlk in Hla. destruct r as [|it2 r']; [exact Htl|].
          cbn [flat_map]. rewrite <- app_assoc. cbn [items_ok] in Hr. apply andb_prop in Hr as [Hr _].
          apply andb_prop in Hr as [Hit2 _].
          destruct (is_pos it2) eqn:Hp2; [|apply (item_first_dash f g it2 _ Hit2 Hp2)].
          destruct it2 as [| | | |s2]; try discriminate. apply str_eqb_eq in Hla. subst s2. reflexivity.
  Qed.
End Loop.

(* ---------- _insert_missing_command_names ---------- *)
Lemma flatten_place : forall A P, shape A P = true -> flatten (place A P) = P.
Proof.
  induction A as [|[n a] A' IH]; intros [|p P'] H; cbn [place shape] in *; try reflexivity; try discriminate.
  destruct (a_multi a).
  - cbn. now rewrite app_nil_r.
  - cbn [flatten flat_map snd app]. f_equal. apply IH. exact H.
Qed.

Lemma names_ok_length cns names : names_ok cns names = true -> length names <= length cns.
Proof.
  revert cns. induction names as [|s r IH]; intros cns H; [cbn; lia|].
  destruct cns as [|c cns]; [discriminate|]. cbn [names_ok] in H.
  apply andb_prop in H as [_ H]. specialize (IH cns H). cbn [length]. lia.
Qed.

Lemma skip_names_spec V : forall names cns j,
  names_ok cns names = true -> no_clash cns names V = true ->
  skip_names (names ++ V) cns j = (V, skipn (length names) cns, j + length names).
Proof.
  induction names as [|s r IH]; intros cns j Hn Hc; cbn [app length skipn].
  - rewrite Nat.add_0_r. unfold no_clash in Hc. cbn [length skipn] in Hc.
    destruct V as [|v V']; [destruct cns; reflexivity|]. destruct cns as [|c cns']; [reflexivity|].
    cbn [skip_names]. apply negb_true_iff in Hc. rewrite Hc. reflexivity.
  - destruct cns as [|c cns']; [discriminate|]. cbn [names_ok] in Hn.
    apply andb_prop in Hn as [Hn Hr]. apply andb_prop in Hn as [Hp Hm].
    cbn [skip_names]. rewrite (plain_nonempty s Hp), Hm. cbn [andb].
    rewrite IH; [f_equal; lia|exact Hr|exact Hc].
Qed.

Lemma copy_values_multi len n a : a_multi a = true -> forall V fixed l, ~ In n (map fst fixed) ->
  copy_values V [(n, a)] len (fixed ++ [(n, RList l)]) = Ok (fixed ++ [(n, RList (l ++ V))]).
Proof.
  intros Hm. induction V as [|v V' IH]; intros fixed l Hf; cbn [copy_values].
  - now rewrite app_nil_r.
  - rewrite Hm. unfold sget. rewrite sget_app, (notin_sget_none n fixed Hf). cbn [aget]. rewrite str_eqb_refl.
    rewrite sset_mid by exact Hf. rewrite IH by exact Hf. rewrite <- app_assoc. reflexivity.
Qed.

Lemma copy_values_place len : forall real V fixed,
  shape real V = true -> NoDup (map fst real) -> (forall n, In n (map fst real) -> ~ In n (map fst fixed)) ->
  copy_values V real len fixed = Ok (fixed ++ place real V).
Proof.
  induction real as [|[n a] real' IH]; intros [|v V'] fixed Hsh Hnd Hdis; cbn [copy_values place shape] in *;
    try (now rewrite app_nil_r); try discriminate.
  assert (~ In n (map fst fixed)) as Hn by (apply Hdis; now left).
  inversion Hnd as [|? ? Hn' Hnd']; subst.
  destruct (a_multi a) eqn:Hm.
  - destruct real' as [|x r]; [|discriminate]. unfold sget. rewrite (notin_sget_none n fixed Hn).
    unfold sset. rewrite sset_absent by (now apply notin_sget_none). cbn [app].
    rewrite (copy_values_multi len n a Hm V' fixed [v] Hn). reflexivity.
  - unfold sset. rewrite sset_absent by (now apply notin_sget_none).
    rewrite IH; [now rewrite <- app_assoc|exact Hsh|exact Hnd'|].
    intros k Hk. rewrite map_app, in_app_iff. cbn. intros [Hi|[<-|[]]]; [|contradiction].
    eapply Hdis; [right; exact Hk|exact Hi].
Qed.

(* ---------- restricting the scratch map to the declared arguments ---------- *)
Definition keyin {V W} (real : list (str * W)) (kv : str * V) : bool := shas (fst kv) real.

Lemma set_arguments_filter f l : forall a,
  set_arguments f a l = set_arguments f a (filter (keyin (get_arguments_all f)) l).
Proof.
  induction l as [|[n v] r IH]; intros a; cbn [set_arguments filter]; [reflexivity|].
  change (keyin (get_arguments_all f) (n, v)) with (shas n (get_arguments_all f)). unfold has_argument. cbn [get_arguments].
  destruct (shas n (get_arguments_all f)) eqn:E.
  - cbn [set_arguments]. unfold has_argument. cbn [get_arguments]. rewrite E.
    destruct (set_argument f a n v); cbn [bind]; [apply IH|reflexivity].
  - apply IH.
Qed.

Lemma filter_sset {V W} (real : list (str * W)) k (v : V) d :
  filter (keyin real) (sset k v d) = if shas k real then sset k v (filter (keyin real) d) else filter (keyin real) d.
Proof.
  unfold sset. induction d as [|[k1 v1] r IH]; cbn [aset filter].
  - change (keyin real (k, v)) with (shas k real). destruct (shas k real); reflexivity.
  - destruct (str_eqb_spec k k1) as [->|Hn]; cbn [filter].
    + change (keyin real (k1, v)) with (shas k1 real). change (keyin real (k1, v1)) with (shas k1 real).
      destruct (shas k1 real); [cbn [aset]; now rewrite str_eqb_refl|reflexivity].
    + change (keyin real (k1, v1)) with (shas k1 real). rewrite IH.
      destruct (shas k1 real) eqn:E1; destruct (shas k real) eqn:E; try reflexivity.
      cbn [aset]. destruct (str_eqb_spec k k1); [contradiction|reflexivity].
Qed.
Lemma filter_supd {V W} (real : list (str * W)) (X : list (str * V)) : forall D,
  filter (keyin real) (supd D X) = supd (filter (keyin real) D) (filter (keyin real) X).
Proof.
  unfold supd. induction X as [|[k v] X IH]; intros D; cbn [fold_left filter fst snd]; [reflexivity|].
  rewrite IH, filter_sset. change (keyin real (k, v)) with (shas k real). destruct (shas k real); reflexivity.
Qed.
Lemma filter_none {V W} (real : list (str * W)) (l : list (str * V)) :
  (forall k, In k (map fst l) -> shas k real = false) -> filter (keyin real) l = [].
Proof.
  induction l as [|[k v] r IH]; intros H; cbn [filter]; [reflexivity|].
  change (keyin real (k, v)) with (shas k real). rewrite (H k) by (now left). apply IH. intros k' Hk. apply H. now right.
Qed.
Lemma filter_all {V W} (real : list (str * W)) (l : list (str * V)) :
  (forall k, In k (map fst l) -> shas k real = true) -> filter (keyin real) l = l.
Proof.
  induction l as [|[k v] r IH]; intros H; cbn [filter]; [reflexivity|].
  change (keyin real (k, v)) with (shas k real). rewrite (H k) by (now left). f_equal. apply IH. intros k' Hk. apply H. now right.
Qed.

(* ---------- keys of a placement ---------- *)
Lemma place_keys_in : forall A P k, In k (map fst (place A P)) -> In k (map fst A).
Proof.
  induction A as [|[n a] A' IH]; intros [|p P'] k; cbn [place]; try (intros []).
  destruct (a_multi a); cbn [map fst In].
  - intros [<-|[]]. now left.
  - intros [<-|H]; [now left|right; eapply IH; exact H].
Qed.
Lemma place_keys_nodup : forall A P, NoDup (map fst A) -> NoDup (map fst (place A P)).
Proof.
  induction A as [|[n a] A' IH]; intros [|p P'] H; cbn [place]; try constructor.
  inversion H as [|? ? Hn Hr]; subst. destruct (a_multi a); cbn [map fst].
  - constructor; [intros []|constructor].
  - constructor; [|apply IH; exact Hr]. intros Hi. apply Hn. eapply place_keys_in. exact Hi.
Qed.
Lemma place_keys_prefix : forall A V W, length W <= length V ->
  map fst (place A W) = firstn (length (place A W)) (map fst (place A V)).
Proof.
  induction A as [|[n a] A' IH]; intros V [|w W'] H; cbn [place]; try reflexivity.
  destruct V as [|v V']; [cbn in H; lia|]. cbn [place]. destruct (a_multi a); cbn [map fst length firstn]; [reflexivity|].
  f_equal. apply IH. cbn in H. lia.
Qed.
Lemma place_app : forall A0 A1 P, Forall (fun na => a_multi (snd na) = false) A0 ->
  place (A0 ++ A1) P = place A0 (firstn (length A0) P) ++ place A1 (skipn (length A0) P).
Proof.
  induction A0 as [|[n a] A0' IH]; intros A1 P H; cbn [app length firstn skipn].
  - rewrite place_nil. reflexivity.
  - inversion H as [|? ? Ha Hr]; subst. cbn [snd] in Ha. destruct P as [|p P']; cbn [place firstn skipn].
    + rewrite place_nil. reflexivity.
    + rewrite Ha. cbn [app]. f_equal. apply IH. exact Hr.
Qed.
Lemma place_single_keys : forall A0 Q, Forall (fun na => a_multi (snd na) = false) A0 ->
  map fst (place A0 Q) = firstn (length Q) (map fst A0).
Proof.
  induction A0 as [|[n a] A0' IH]; intros [|q Q'] H; cbn [place length firstn map]; try reflexivity.
  inversion H as [|? ? Ha Hr]; subst. cbn [snd] in Ha. rewrite Ha. cbn [map fst]. f_equal. apply IH. exact Hr.
Qed.

Lemma shape_shorter : forall A V W, shape A V = true -> length W <= length V -> shape A W = true.
Proof.
  induction A as [|[n a] A' IH]; intros [|v V'] [|w W'] H Hl; cbn [shape] in *; try reflexivity; try discriminate;
    try (cbn in Hl; lia).
  destruct (a_multi a); [exact H|]. eapply IH; [exact H|cbn in Hl; lia].
Qed.
Lemma fits_shape : forall A V, fits A V = true -> shape A V = true.
Proof.
  induction A as [|[n a] A' IH]; intros [|v V'] H; cbn [fits shape] in *; try reflexivity; try discriminate.
  destruct (a_multi a).
  - now apply andb_prop in H as [H _].
  - apply andb_prop in H as [_ H]. apply IH. exact H.
Qed.
Lemma shape_nil A : shape A [] = true.
Proof. destruct A; reflexivity. Qed.
Lemma req_ok_in : forall A V n a, shape A V = true -> req_ok A V = true ->
  In (n, a) A -> a_required a = true -> In n (map fst (place A V)).
Proof.
  induction A as [|[n1 a1] A' IH]; intros V n a Hsh Hrq Hin Hr; [destruct Hin|].
  destruct V as [|v V']; cbn [req_ok shape place] in *.
  - exfalso. apply andb_prop in Hrq as [H1 H2]. destruct Hin as [E|Hin].
    + inversion E; subst. rewrite Hr in H1. discriminate.
    + specialize (IH [] n a (shape_nil A') H2 Hin Hr). rewrite place_nil in IH. destruct IH.
  - destruct (a_multi a1).
    + destruct A' as [|x r]; [|discriminate]. destruct Hin as [E|[]]. inversion E; subst. now left.
    + cbn [map fst]. destruct Hin as [E|Hin]; [inversion E; subst; now left|]. right. eapply IH; eauto.
Qed.

(* ---------- Args.set_argument over the placed values ---------- *)
Lemma parse_each_map a V :
  forallb (fun s => res_ok (parse_typed (a_type a) (a_nullable a) (VStr s))) V = true ->
  parse_each (a_type a) (a_nullable a) V = Ok (map (conv_arg a) V).
Proof.
  induction V as [|s r IH]; cbn [forallb parse_each map]; [reflexivity|]. intros H. apply andb_prop in H as [H1 H2].
  apply res_ok_inv in H1 as [x Hx]. unfold conv_arg at 1. rewrite Hx, (IH H2). reflexivity.
Qed.
Lemma sget_nodup_in {V} (l : list (str * V)) n v : NoDup (map fst l) -> In (n, v) l -> sget n l = Some v.
Proof.
  induction l as [|[k w] r IH]; cbn; intros Hnd Hin; [destruct Hin|]. inversion Hnd as [|? ? Hk Hr]; subst.
  destruct Hin as [E|Hin].
  - inversion E; subst. now rewrite str_eqb_refl.
  - destruct (str_eqb_spec n k) as [->|Hne]; [|apply IH; assumption].
    exfalso. apply Hk. change k with (fst (k, v)). apply in_map. exact Hin.
Qed.
Lemma in_keys_shas {V} (l : list (str * V)) n : In n (map fst l) -> shas n l = true.
Proof.
  intros H. rewrite shas_sget. destruct (sget n l) eqn:E; [reflexivity|]. exfalso. eapply sget_none_notin; eauto.
Qed.
Lemma place_typed_nil A : place_typed A [] = [].
Proof. destruct A; reflexivity. Qed.

Lemma set_arguments_place f :
  NoDup (map fst (get_arguments_all f)) -> Forall (fun na => fst na = a_name (snd na)) (get_arguments_all f) ->
  forall R1 V acc, incl R1 (get_arguments_all f) -> NoDup (map fst R1) ->
  (forall n, In n (map fst R1) -> ~ In n (map fst (ar_args acc))) -> fits R1 V = true ->
  set_arguments f acc (place R1 V) = Ok {| ar_opts := ar_opts acc; ar_args := ar_args acc ++ place_typed R1 V |}.
Proof.
  intros Hnd Hnm. induction R1 as [|[n a] R1' IH]; intros V acc Hincl Hnd1 Hfr Hfit.
  - destruct V; cbn; rewrite app_nil_r; destruct acc; reflexivity.
  - destruct V as [|v V']; [cbn; rewrite app_nil_r; destruct acc; reflexivity|].
    assert (In (n, a) (get_arguments_all f)) as Hin by (apply Hincl; now left).
    assert (sget n (get_arguments_all f) = Some a) as Hget by (apply sget_nodup_in; assumption).
    assert (n = a_name a) as Hna by (rewrite Forall_forall in Hnm; apply (Hnm (n, a) Hin)).
    assert (~ In n (map fst (ar_args acc))) as Hn by (apply Hfr; now left).
    cbn [map fst] in Hnd1. apply NoDup_cons_iff in Hnd1 as [Hn1 Hnd1'].
    cbn [place place_typed fits] in *. destruct (a_multi a) eqn:Hm.
    + apply andb_prop in Hfit as [_ Hfit]. cbn [set_arguments]. unfold has_argument. cbn [get_arguments].
      rewrite shas_sget, Hget. unfold set_argument, get_argument. cbn [get_arguments]. rewrite Hget. cbn [bind].
      rewrite Hm, (parse_each_map a _ Hfit). cbn [bind]. rewrite <- Hna.
      unfold sset. rewrite sset_absent by (now apply notin_sget_none). reflexivity.
    + apply andb_prop in Hfit as [Hc Hfit]. cbn [set_arguments]. unfold has_argument. cbn [get_arguments].
      rewrite shas_sget, Hget. unfold set_argument, get_argument. cbn [get_arguments]. rewrite Hget. cbn [bind].
      rewrite Hm. cbn [parse_raw_arg]. apply res_ok_inv in Hc as [x Hx]. unfold conv_arg. rewrite Hx. cbn [bind or_none].
      rewrite <- Hna. unfold sset. rewrite sset_absent by (now apply notin_sget_none).
      rewrite IH; [cbn [ar_opts ar_args]; now rewrite <- app_assoc| | | |exact Hfit].
      * intros x' Hx'. apply Hincl. now right.
      * exact Hnd1'.
      * cbn [ar_args]. intros k Hk. rewrite map_app, in_app_iff. cbn. intros [Hi|[<-|[]]]; [|contradiction].
        eapply Hfr; [right; exact Hk|exact Hi].
Qed.

(* ---------- presence of keys after dict.update ---------- *)
Lemma supd_keeps {V} n (X D : list (str * V)) : shas n D = true -> shas n (supd D X) = true.
Proof.
  rewrite !shas_sget. intros H. destruct (sget n D) as [w|] eqn:E; [|discriminate].
  destruct (fold_sset_keeps n X D (ex_intro _ w E)) as [w' Hw]. unfold supd. now rewrite Hw.
Qed.
Lemma supd_has {V} n (X : list (str * V)) : forall D, In n (map fst X) -> shas n (supd D X) = true.
Proof.
  induction X as [|[k v] X IH]; intros D; cbn [map fst In]; [intros []|]. intros [->|Hi].
  - unfold supd. cbn [fold_left fst snd]. apply (supd_keeps n X). rewrite shas_sget. unfold sget, sset.
    rewrite sget_sset, str_eqb_refl. reflexivity.
  - unfold supd. cbn [fold_left]. apply IH. exact Hi.
Qed.
Lemma firstn_in_le {X} (x : X) : forall l k j, k <= j -> In x (firstn k l) -> In x (firstn j l).
Proof.
  induction l as [|y l IH]; intros k j Hle; [rewrite !firstn_nil; auto|].
  destruct k; [intros []|]. destruct j; [lia|]. cbn [firstn In]. intros [->|H]; [now left|right].
  eapply IH; [|exact H]. lia.
Qed.
Lemma shape_app_single : forall A0 A1 P, Forall (fun na => a_multi (snd na) = false) A0 ->
  shape (A0 ++ A1) P = shape A1 (skipn (length A0) P).
Proof.
  induction A0 as [|[n a] A0' IH]; intros A1 P H; cbn [app length skipn]; [reflexivity|].
  inversion H as [|? ? Ha Hr]; subst. cbn [snd] in Ha. destruct P as [|p P']; cbn [shape skipn].
  - now rewrite shape_nil.
  - rewrite Ha. apply IH. exact Hr.
Qed.

Lemma NoDup_app_r {X} (l1 l2 : list X) : NoDup (l1 ++ l2) -> NoDup l2.
Proof. induction l1 as [|x l IH]; cbn; [auto|]. intros H. inversion H; subst. auto. Qed.

(* ---------- after the token loop: re-alignment, required arguments, Args.set_argument ---------- *)
Section Finish.
  Variables (f g : fmt) (A : list (str * arg)) (cns : list (str * cname)).
  Hypothesis FF : fmt_facts f g A cns.
  Variables (names V : list str).
  Hypothesis Hnames : names_ok cns names = true.
  Hypothesis Hfit : fits (get_arguments_all f) V = true.

  Let real := get_arguments_all f.
  Let m := length cns.
  Let pseudo := firstn m A.

  Lemma A_split : A = pseudo ++ real.
  Proof. unfold pseudo, real, m. rewrite <- (ff_real _ _ _ _ FF). symmetry. apply firstn_skipn. Qed.
  Lemma pseudo_len : length pseudo = m.
  Proof.
    unfold pseudo, m. rewrite <- (map_length fst (firstn _ _)), (ff_pseudo _ _ _ _ FF), map_length. reflexivity.
  Qed.
  Lemma pseudo_keys : map fst pseudo = map fst cns.
  Proof. exact (ff_pseudo _ _ _ _ FF). Qed.
  Lemma pseudo_single : Forall (fun na => a_multi (snd na) = false) pseudo.
  Proof. exact (ff_single _ _ _ _ FF). Qed.
  Lemma real_nodup : NoDup (map fst real).
  Proof.
    pose proof (ff_nodup _ _ _ _ FF) as H. rewrite A_split, map_app in H. eapply NoDup_app_r. exact H.
  Qed.
  Lemma real_names : Forall (fun na => fst na = a_name (snd na)) real.
  Proof.
    pose proof (ff_names _ _ _ _ FF) as H. rewrite A_split in H. apply Forall_app in H. tauto.
  Qed.
  Lemma cns_not_real n : In n (map fst cns) -> shas n real = false.
  Proof. intros H. rewrite shas_sget. unfold real. now rewrite (ff_fresh _ _ _ _ FF n H). Qed.

  Lemma names_le : length names <= m.
  Proof. apply names_ok_length. exact Hnames. Qed.

  Lemma shape_line : shape A (names ++ V) = true.
  Proof.
    rewrite A_split, (shape_app_single _ _ _ pseudo_single), pseudo_len.
    eapply shape_shorter; [apply fits_shape; exact Hfit|].
    pose proof names_le. rewrite skipn_length, app_length. lia.
  Qed.

  Hypothesis Hclash : no_clash cns names V = true.
  Hypothesis Hreq : req_ok (get_arguments_all f) V = true.

  Lemma finish len po :
    exists st2,
      insert_missing A cns len {| ps_args := place A (names ++ V); ps_opts := po |} = Ok st2 /\
      ps_opts st2 = po /\ missing_required A st2 = false /\
      set_arguments f {| ar_opts := []; ar_args := [] |} (ps_args st2) =
      Ok {| ar_opts := []; ar_args := place_typed (get_arguments_all f) V |}.
  Proof.
    pose proof names_le as Hk. pose proof (fits_shape _ _ Hfit) as Hsh. fold real in Hsh.
    set (fixed0 := map (fun c : str * cname => (fst c, RCmd (snd c))) (skipn (length names) cns)).
    assert (forall n, In n (map fst fixed0) -> In n (map fst cns)) as Hfx.
    { intros n Hn. unfold fixed0 in Hn. rewrite map_map in Hn. cbn [fst] in Hn.
      rewrite <- (firstn_skipn (length names) cns), map_app, in_app_iff. now right. }
    assert (copy_values V real len fixed0 = Ok (fixed0 ++ place real V)) as Hcopy.
    { apply copy_values_place; [exact Hsh|exact real_nodup|].
      intros n Hn Hn2. apply Hfx in Hn2. apply cns_not_real in Hn2. rewrite (in_keys_shas real n Hn) in Hn2. discriminate. }
    exists {| ps_args := supd (place A (names ++ V)) (fixed0 ++ place real V); ps_opts := po |}.
    split; [|split; [reflexivity|split]].
    - unfold insert_missing. cbn [ps_args ps_opts]. rewrite (flatten_place _ _ shape_line).
      rewrite (skip_names_spec V names cns 0 Hnames Hclash). cbn [Nat.add].
      replace (length names + length (skipn (length names) cns)) with m by (rewrite skipn_length; fold m; lia).
      unfold m. rewrite (ff_real _ _ _ _ FF). fold real. fold fixed0. rewrite Hcopy. reflexivity.
    - (* every required argument is present *)
      cbn [ps_args]. unfold missing_required.
      destruct (existsb _ A) eqn:E; [exfalso|reflexivity].
      apply existsb_exists in E as [[n a] [Hin H]]. cbn [fst snd ps_args] in H.
      apply andb_prop in H as [Hr Hs]. apply negb_true_iff in Hs.
      rewrite A_split in Hin. apply in_app_or in Hin as [Hin|Hin].
      + (* a pseudo-argument: filled by the loop or by the omitted command name *)
        assert (In n (map fst cns)) as Hn.
        { rewrite <- pseudo_keys. change n with (fst (n, a)). now apply in_map. }
        rewrite <- (firstn_skipn (length names) cns), map_app, in_app_iff in Hn. destruct Hn as [Hn|Hn].
        * rewrite supd_keeps in Hs; [discriminate|]. apply in_keys_shas.
          rewrite A_split, (place_app _ _ _ pseudo_single), map_app, in_app_iff. left.
          rewrite (place_single_keys _ _ pseudo_single), pseudo_keys, firstn_length, pseudo_len, app_length.
          rewrite <- firstn_map in Hn. eapply firstn_in_le; [|exact Hn]. lia.
        * rewrite supd_has in Hs; [discriminate|]. rewrite map_app, in_app_iff. left.
          unfold fixed0. rewrite map_map. cbn [fst]. exact Hn.
      + rewrite supd_has in Hs; [discriminate|]. rewrite map_app, in_app_iff. right.
        eapply req_ok_in; eauto.
    - cbn [ps_args]. rewrite set_arguments_filter. fold real. rewrite filter_supd, filter_app.
      rewrite (filter_none real fixed0) by (intros k0 Hk0; apply cns_not_real, Hfx, Hk0).
      rewrite (filter_all real (place real V)) by (intros k0 Hk0; apply in_keys_shas; eapply place_keys_in; exact Hk0).
      cbn [app].
      rewrite A_split at 1. rewrite (place_app _ _ _ pseudo_single), filter_app, pseudo_len.
      rewrite (filter_none real (place pseudo _)).
      2:{ intros k0 Hk0. apply cns_not_real. rewrite <- pseudo_keys. eapply place_keys_in. exact Hk0. }
      rewrite (filter_all real (place real _)) by (intros k0 Hk0; apply in_keys_shas; eapply place_keys_in; exact Hk0).
      cbn [app].
      pose proof (supd_prefix (place real V) (place real (skipn m (names ++ V))) []) as Hsup. cbn [app] in Hsup.
      rewrite Hsup.
      + pose proof (set_arguments_place f real_nodup real_names real V {| ar_opts := []; ar_args := [] |}) as Hset.
        cbn [ar_opts ar_args app] in Hset. apply Hset; [apply incl_refl|exact real_nodup|intros n _ []|exact Hfit].
      + apply place_keys_nodup. exact real_nodup.
      + apply place_keys_prefix. rewrite skipn_length, app_length. lia.
  Qed.
End Finish.
