(* C13: the flags the check asks the model for (Model/HelpRegion.v) are the hypotheses of the rendering theorems. *)
From Coq Require Import Lia.
From Clikit Require Import Base.Prelude Base.Res Model.Markup Model.Help Model.HelpRegion.
From Clikit Require Import Proofs.MarkupLemmas Proofs.HelpLemmas Proofs.HelpPlainLemmas Proofs.HelpCleanLemmas Proofs.HelpRenderLemmas.
Local Open Scope Z_scope.

(* the re-statements with the text column computed once are the definitions of HelpRenderLemmas *)
Lemma needed_width_for1_eq sty l : needed_width_for1 sty l = needed_width_for sty l.
Proof. reflexivity. Qed.
Lemma layout_okb1_eq sty W l : layout_okb1 sty W l = layout_okb sty W l.
Proof. reflexivity. Qed.
Lemma page_words_fitb1_eq sty W l : page_words_fitb1 sty W l = page_words_fitb sty W l.
Proof. reflexivity. Qed.

Lemma in_region_spec sty W l : in_region sty W l = true -> needed_width_for sty l <= W /\ layout_ok sty W l.
Proof.
  unfold in_region. rewrite needed_width_for1_eq, layout_okb1_eq. intros H. apply andb_prop in H as [H1 H2].
  split; [now apply Z.leb_le|now apply layout_okb_ok].
Qed.
Lemma words_fit_page_spec sty W l : words_fit_page sty W l = true -> needed_width_for sty l <= W /\ page_words_fit sty W l.
Proof.
  unfold words_fit_page. rewrite needed_width_for1_eq, page_words_fitb1_eq. intros H. apply andb_prop in H as [H1 H2].
  split; [now apply Z.leb_le|now apply page_words_fitb_ok].
Qed.

(* a page the model reports "in the region" renders, on the plain and on the ANSI formatter ... *)
Theorem in_region_renders_lemma W f l : f_kind f <> FNull -> in_region (f_styles f) W l = true -> exists s, render_page W f l = Ok s.
Proof. intros Hk H. destruct (in_region_spec _ _ _ H) as [H1 H2]. now apply page_renders. Qed.
(* ... and every line fits the terminal *)
Theorem in_region_fits_plain_lemma W f l : f_kind f = FPlain -> one_line_labels l -> in_region (f_styles f) W l = true ->
  exists s, render_page W f l = Ok s /\ Forall (fun ln => zlen ln <= W - 1) (split_on 10%N s).
Proof. intros Hk Ho H. destruct (in_region_spec _ _ _ H) as [H1 H2]. now apply page_renders_and_fits_plain_lemma. Qed.
Theorem in_region_fits_ansi_lemma W f l : is_ansi f -> one_line_labels l -> clean_layout l -> in_region (f_styles f) W l = true ->
  exists s, render_page W f l = Ok s /\ Forall (fun ln => zlen (strip_sgr ln) <= W - 1) (split_on 10%N s).
Proof. intros Hk Ho Hc H. destruct (in_region_spec _ _ _ H) as [H1 H2]. now apply page_renders_and_fits_ansi_lemma. Qed.
(* the part the harness computes too is implied by it *)
Theorem in_region_words_fit_lemma sty W l : in_region sty W l = true -> words_fit_page sty W l = true.
Proof.
  unfold in_region, words_fit_page, layout_okb1, page_words_fitb1. intros H. apply andb_prop in H as [H1 H2]. rewrite H1. cbn [andb].
  rewrite forallb_forall in *. intros x Hx. specialize (H2 x Hx).
  destruct (snd x) as [t|label text padding aligned|]; cbn [elem_okb elem_text elem_label] in *.
  - unfold text_okb in H2. apply orb_prop in H2 as [H2|H2]; [now rewrite H2|].
    apply andb_prop in H2 as [H2 _]. apply andb_prop in H2 as [H2 _]. cbn [wrap_width] in *. rewrite H2. now rewrite orb_true_r.
  - apply andb_prop in H2 as [_ H2]. unfold text_okb in H2. apply orb_prop in H2 as [H2|H2]; [now rewrite H2|].
    apply andb_prop in H2 as [H2 _]. apply andb_prop in H2 as [H2 _]. rewrite H2. now rewrite orb_true_r.
  - reflexivity.
Qed.
