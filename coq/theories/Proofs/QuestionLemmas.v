(* Proofs about Model/Question.v (C18). *)
From Coq Require Import Lia.
From Clikit Require Import Base.Prelude Base.Res Model.Conv Model.Question Proofs.StrLemmas Proofs.FlagsLemmas.

(* ---------- only members of the choices are ever returned ---------- *)
Lemma positions_in cs v : forall i k, In k (positions cs v i) -> In v cs.
Proof.
  induction cs as [|c r IH]; intros i k; cbn; [tauto|].
  destruct (str_eqb_spec c v) as [->|]; [intros _; now left|]. intros H. right. eapply IH, H.
Qed.
Lemma validate_value_member cs v x : validate_value cs v = inr x -> In x cs.
Proof.
  unfold validate_value. destruct (positions cs v 0) as [|i [|j r]] eqn:E.
  - destruct (int_of_str v) as [z|]; [|discriminate].
    destruct ((0 <=? z)%Z && (z <? Z.of_nat (length cs))%Z); [|discriminate].
    destruct (nth_error cs (Z.to_nat z)) as [c|] eqn:En; [|discriminate].
    intros H. inversion H; subst. eapply nth_error_In, En.
  - intros H. inversion H; subst. eapply (positions_in cs x 0 i). rewrite E. now left.
  - discriminate.
Qed.
Lemma validate_values_member cs : forall vs xs, validate_values cs vs = inr xs -> Forall (fun x => In x cs) xs.
Proof.
  induction vs as [|v r IH]; intros xs; cbn.
  - intros H. inversion H. constructor.
  - destruct (validate_value cs v) as [e|x] eqn:Ev; [discriminate|].
    destruct (validate_values cs r) as [e|ys] eqn:Er; [discriminate|].
    intros H. inversion H; subst. constructor; [eapply validate_value_member, Ev|apply IH; reflexivity].
Qed.
Lemma validate_member q s a : validate q s = inr a ->
  match a with AOne v => In v (q_choices q) | AMany l => Forall (fun x => In x (q_choices q)) l | ANone => False end.
Proof.
  unfold validate. destruct s as [s|]; [|discriminate]. destruct (q_multi q).
  - destruct (forallb _ _); [|discriminate].
    destruct (validate_values (q_choices q) _) as [e|l] eqn:E; [discriminate|].
    intros H. inversion H; subst. eapply validate_values_member, E.
  - destruct (validate_value (q_choices q) s) as [e|x] eqn:E; [discriminate|].
    intros H. inversion H; subst. eapply validate_value_member, E.
Qed.

(* the loop only ever answers with what the validator accepted *)
Lemma ask_loop_answer q : forall script att last n e p a,
  o_end (ask_loop q script att last n e p) = Answered a -> exists s, validate q s = inr a.
Proof.
  induction script as [|l r IH]; intros att last n e p a.
  - destruct att as [[|k]|]; cbn; try destruct last; intros H; discriminate H.
  - destruct att as [[|k]|]; cbn [ask_loop]; try (cbn; destruct last; intros H; discriminate H).
    + destruct (validate q _) as [er|x] eqn:Ev; [apply IH|]. cbn. intros H. inversion H; subst. eauto.
    + destruct (validate q _) as [er|x] eqn:Ev; [apply IH|]. cbn. intros H. inversion H; subst. eauto.
Qed.

Lemma answer_is_member_lemma q script a :
  o_end (ask_choice true q script) = Answered a ->
  match a with AOne v => In v (q_choices q) | AMany l => Forall (fun x => In x (q_choices q)) l | ANone => False end.
Proof.
  unfold ask_choice. cbn [negb]. intros H. destruct (ask_loop_answer _ _ _ _ _ _ _ _ H) as [s Hs].
  eapply validate_member, Hs.
Qed.

(* ---------- an index and the value it denotes are interchangeable ---------- *)
Lemma index_value_lemma q i c :
  q_multi q = false -> nth_error (q_choices q) i = Some c ->
  positions (q_choices q) c 0 = [i] ->                                  (* the value occurs once *)
  positions (q_choices q) (dec_text (Z.of_nat i)) 0 = [] ->             (* the index text is not itself a choice *)
  validate q (Some (dec_text (Z.of_nat i))) = inr (AOne c) /\ validate q (Some c) = inr (AOne c).
Proof.
  intros Hm Hn Hp Hi. unfold validate. rewrite Hm. unfold validate_value. rewrite Hi, Hp.
  rewrite int_of_str_dec_text.
  assert (i < length (q_choices q)) as Hl by (apply nth_error_Some; congruence).
  assert ((0 <=? Z.of_nat i)%Z && (Z.of_nat i <? Z.of_nat (length (q_choices q)))%Z = true) as ->.
  { apply andb_true_intro. split; [apply Z.leb_le|apply Z.ltb_lt]; lia. }
  rewrite Nat2Z.id, Hn. auto.
Qed.

(* ---------- attempts ---------- *)
(* a script whose first n entries are all invalid exhausts a limit of n attempts after reading exactly n lines,
   having printed n - 1 errors (the last one is raised instead) *)
Definition entry_invalid (q : choiceq) (line : str) : Prop :=
  exists e, validate q (effective_answer q line) = inl e.

Lemma ask_loop_zero q s last n e p :
  ask_loop q s (Some 0) last n e p =
    {| o_end := match last with Some er => Failed er | None => Failed VOther end;
       o_lines_read := n; o_errors_printed := e; o_prompts := p |}.
Proof. destruct s; reflexivity. Qed.

Lemma ask_loop_exhaust q : forall bad rest last n e p,
  Forall (entry_invalid q) bad -> bad <> [] ->
  let o := ask_loop q (bad ++ rest) (Some (length bad)) last n e p in
  (exists er, o_end o = Failed er) /\ o_lines_read o = n + length bad /\
  o_errors_printed o = e + length bad - (match last with Some _ => 0 | None => 1 end) /\ o_prompts o = p + length bad.
Proof.
  induction bad as [|l r IH]; intros rest last n e p Hb Hne; [contradiction|].
  inversion Hb as [|? ? [er Her] Hr]; subst. cbn [length app ask_loop].
  rewrite Her. cbn [option_map pred].
  destruct r as [|l2 r2].
  - cbn [app length ask_loop option_map pred]. rewrite ask_loop_zero. cbn. split; [eauto|]. destruct last; cbn; repeat split; lia.
  - specialize (IH rest (Some er) (S n) (match last with Some _ => S e | None => e end) (S p) Hr ltac:(discriminate)).
    cbn zeta in IH. destruct IH as (H1 & H2 & H3 & H4). split; [exact H1|]. rewrite H2, H3, H4. cbn [length].
    destruct last; repeat split; lia.
Qed.

Lemma attempts_exact_lemma q bad rest :
  Forall (entry_invalid q) bad -> bad <> [] -> q_attempts q = Some (length bad) ->
  let o := ask_choice true q (bad ++ rest) in
  (exists er, o_end o = Failed er) /\ o_lines_read o = length bad /\ o_errors_printed o = length bad - 1.
Proof.
  intros Hb Hne Ha. unfold ask_choice. cbn [negb]. rewrite Ha.
  destruct (ask_loop_exhaust q bad rest None 0 0 0 Hb Hne) as (H1 & H2 & H3 & _). cbn zeta in *.
  split; [exact H1|]. split; [lia|lia].
Qed.

(* every invalid entry before a valid one costs one line and prints one error; the valid one answers *)
Lemma ask_loop_until_valid q : forall bad good rest att last n e p a,
  Forall (entry_invalid q) bad -> validate q (effective_answer q good) = inr a ->
  (match att with Some k => length bad < k | None => True end) ->
  let o := ask_loop q (bad ++ good :: rest) att last n e p in
  o_end o = Answered a /\ o_lines_read o = n + length bad + 1 /\
  o_errors_printed o = e + length bad + (match last with Some _ => 1 | None => 0 end).
Proof.
  induction bad as [|l r IH]; intros good rest att last n e p a Hb Hg Hk.
  - cbn [app length]. destruct att as [[|k]|]; [cbn in Hk; lia| |]; cbn [ask_loop];
      rewrite Hg; cbn; destruct last; repeat split; lia.
  - inversion Hb as [|? ? [er Her] Hr]; subst. cbn [app length].
    destruct att as [[|k]|]; [cbn in Hk; lia| |]; cbn [ask_loop]; rewrite Her; cbn [option_map pred].
    + destruct (IH good rest (Some k) (Some er) (S n) (match last with Some _ => S e | None => e end) (S p) a Hr Hg ltac:(cbn in *; lia))
        as (H1 & H2 & H3). cbn zeta in *. rewrite H1, H2, H3. destruct last; repeat split; lia.
    + destruct (IH good rest None (Some er) (S n) (match last with Some _ => S e | None => e end) (S p) a Hr Hg I)
        as (H1 & H2 & H3). cbn zeta in *. rewrite H1, H2, H3. destruct last; repeat split; lia.
Qed.

(* at end of input the question gives up - whatever the attempt limit - having read every line *)
Lemma ask_loop_eof q : forall bad att last n e p,
  Forall (entry_invalid q) bad -> (match att with Some k => length bad < k | None => True end) ->
  let o := ask_loop q bad att last n e p in o_end o = Aborted /\ o_lines_read o = n + length bad.
Proof.
  induction bad as [|l r IH]; intros att last n e p Hb Hk.
  - destruct att as [[|k]|]; [cbn in Hk; lia| |]; cbn; split; auto; lia.
  - inversion Hb as [|? ? [er Her] Hr]; subst. cbn [length].
    destruct att as [[|k]|]; [cbn in Hk; lia| |]; cbn [ask_loop]; rewrite Her; cbn [option_map pred].
    + destruct (IH (Some k) (Some er) (S n) (match last with Some _ => S e | None => e end) (S p) Hr ltac:(cbn in *; lia)) as [H1 H2].
      cbn zeta in *. rewrite H1, H2. split; [reflexivity|lia].
    + destruct (IH None (Some er) (S n) (match last with Some _ => S e | None => e end) (S p) Hr I) as [H1 H2].
      cbn zeta in *. rewrite H1, H2. split; [reflexivity|lia].
Qed.

Lemma non_interactive_lemma q script :
  ask_choice false q script = {| o_end := Answered (default_answer q); o_lines_read := 0; o_errors_printed := 0; o_prompts := 0 |}.
Proof. reflexivity. Qed.

Lemma confirm_table dflt prefix line rest :
  ask_confirm true dflt prefix (line :: rest) =
    (CBool (match strip_ws line with [] => dflt | t => starts_with_ci prefix t end), 1).
Proof. unfold ask_confirm. cbn [negb]. destruct (strip_ws line); reflexivity. Qed.
Lemma confirm_non_interactive dflt prefix script : ask_confirm false dflt prefix script = (CBool dflt, 0).
Proof. reflexivity. Qed.
Lemma confirm_eof dflt prefix : ask_confirm true dflt prefix [] = (CAborted, 0).
Proof. reflexivity. Qed.
