(* Proofs about the table model with the formatter threaded through (C14, style-tagged cells):
   on tag-free tables render_table_f is render_table; on tables whose cells are good markup and in which no cell
   holding '<' has to be wrapped, the visible text of what render_table_f writes is, line by line, the tag-free
   table of the cells' visible texts - hence a rectangle within the terminal that keeps every cell's visible text. *)
From Coq Require Import Lia ZifyBool.
From Clikit Require Import Base.Prelude Base.Res Model.Conv Model.Markup Model.OutputM Model.Wrap Model.Table
  Proofs.MarkupLemmas Proofs.WrapLemmas Proofs.TableLemmas.
Local Open Scope Z_scope.

(* ================================================================ A. the markup layer *)
Lemma unescape_no_lt s : no_lt s -> unescape s = s.
Proof.
  induction 1 as [|c s Hc Hs IH]; [reflexivity|]. cbn [unescape]. destruct s as [|d s']; [reflexivity|].
  inversion Hs as [|? ? Hd _]; subst. destruct (N.eqb_spec d LT); [contradiction|]. rewrite Bool.andb_false_r. now rewrite IH.
Qed.

Lemma fmt_eta f : {| f_kind := f_kind f; f_styles := f_styles f; f_stack := f_stack f |} = f.
Proof. destruct f; reflexivity. Qed.

Lemma colorize_no_lt sty colored sk m : no_lt m -> colorize sty colored sk m = Ok (sk, m).
Proof. intros H. unfold colorize. rewrite (lex_no_tag m H), (unescape_no_lt m H). reflexivity. Qed.
Lemma remove_format_no_lt f m : no_lt m -> remove_format f m = Ok (f, m).
Proof.
  intros H. destruct f as [k sty sk]. unfold remove_format. cbn [f_kind f_styles f_stack].
  destruct k; try reflexivity; rewrite (colorize_no_lt _ _ _ _ H); reflexivity.
Qed.
Lemma format_no_lt f m : no_lt m -> format f m None = Ok (f, m).
Proof.
  intros H. destruct f as [k sty sk]. unfold format. cbn [f_kind f_styles f_stack].
  destruct k; try reflexivity; rewrite (colorize_no_lt _ _ _ _ H); reflexivity.
Qed.
Lemma out_write_no_lt on f m : no_lt m -> out_write on f m = Ok (f, m).
Proof. intros H. unfold out_write. destruct on; [apply format_no_lt|apply remove_format_no_lt]; exact H. Qed.

(* ---- the scanner on a concatenation ---- *)
Definition mkst (d : list (str * tag)) (c : str) (k : cand) : lexst := {| l_done := d; l_cur := c; l_cand := k |}.
(* the state reached from (done0, cur0) in terms of the state reached from ([], []) *)
Definition shift (done0 : list (str * tag)) (cur0 : str) (st : lexst) : lexst :=
  match l_done st with
  | [] => mkst done0 (cur0 ++ l_cur st) (l_cand st)
  | (pre, t) :: r => mkst (done0 ++ (cur0 ++ pre, t) :: r) (l_cur st) (l_cand st)
  end.
Lemma lex_step_shift done0 cur0 st c : lex_step (shift done0 cur0 st) c = shift done0 cur0 (lex_step st c).
Proof.
  destruct st as [d cu k]. unfold shift, lex_step, mkst. cbn [l_done l_cur l_cand].
  destruct d as [|[pre t] r]; cbn [l_done l_cur l_cand app].
  - destruct (N.eqb c LT); cbn [l_done l_cur l_cand]; [now rewrite <- !app_assoc|].
    destruct k as [| | |cl nm]; cbn [l_done l_cur l_cand raw_of app].
    + now rewrite <- !app_assoc.
    + destruct (N.eqb c SLASH); [reflexivity|]. destruct (tag_start c); cbn [l_done l_cur l_cand]; [reflexivity|now rewrite <- !app_assoc].
    + destruct (N.eqb c GT); cbn [l_done l_cur l_cand app]; [reflexivity|]. destruct (tag_start c); cbn [l_done l_cur l_cand]; [reflexivity|now rewrite <- !app_assoc].
    + destruct (N.eqb c GT); cbn [l_done l_cur l_cand app]; [reflexivity|]. destruct (tag_char c); cbn [l_done l_cur l_cand]; [reflexivity|now rewrite <- !app_assoc].
  - destruct (N.eqb c LT); cbn [l_done l_cur l_cand app]; [reflexivity|].
    destruct k as [| | |cl nm]; cbn [l_done l_cur l_cand raw_of app].
    + reflexivity.
    + destruct (N.eqb c SLASH); [reflexivity|]. destruct (tag_start c); reflexivity.
    + destruct (N.eqb c GT); cbn [l_done l_cur l_cand app]; [now rewrite <- app_assoc|]. destruct (tag_start c); reflexivity.
    + destruct (N.eqb c GT); cbn [l_done l_cur l_cand app]; [now rewrite <- app_assoc|]. destruct (tag_char c); reflexivity.
Qed.
Lemma fold_shift done0 cur0 m : forall st, fold_left lex_step m (shift done0 cur0 st) = shift done0 cur0 (fold_left lex_step m st).
Proof. induction m as [|c m IH]; intros st; cbn [fold_left]; [reflexivity|]. rewrite lex_step_shift. apply IH. Qed.

Definition prefix_first (a : str) (segs : list (str * tag)) : list (str * tag) :=
  match segs with [] => [] | (pre, t) :: r => (a ++ pre, t) :: r end.
(* x ends outside a tag candidate (its tail holds no '<'): the scanner goes on with y as if from the start *)
Lemma lex_app x y : no_lt (snd (lex x)) ->
  lex (x ++ y) = (fst (lex x) ++ prefix_first (snd (lex x)) (fst (lex y)),
                  (match fst (lex y) with [] => snd (lex x) | _ => [] end) ++ snd (lex y)).
Proof.
  unfold lex at 1 2 3. unfold lex_end. cbn [fst snd]. intros H. rewrite fold_left_app.
  destruct (fold_left lex_step x lex_init) as [d c k] eqn:E. cbn [l_done l_cur l_cand] in *.
  assert (k = CText) as ->.
  { apply Forall_app in H as [_ H]. destruct k; cbn in H; try reflexivity; inversion H; congruence. }
  cbn [raw_of] in *. rewrite app_nil_r in *.
  replace {| l_done := d; l_cur := c; l_cand := CText |} with (shift d c lex_init)
    by (unfold shift, lex_init, mkst; cbn; now rewrite app_nil_r).
  rewrite fold_shift. unfold lex, lex_end. rewrite E. destruct (fold_left lex_step y lex_init) as [d2 c2 k2]. unfold shift, mkst. cbn [l_done l_cur l_cand fst snd raw_of].
  destruct d2 as [|[pre t] r]; cbn [l_done l_cur l_cand prefix_first].
  - now rewrite !app_nil_r, <- app_assoc.
  - now rewrite !app_nil_r.
Qed.

(* white space (and the line break) never continues a tag candidate *)
Definition ws_char (c : N) : Prop := c <> LT /\ c <> SLASH /\ c <> GT /\ tag_char c = false /\ tag_start c = false.
Lemma space_ws c : is_space c = true -> ws_char c.
Proof.
  unfold is_space. cbn [existsb]. rewrite !Bool.orb_true_iff. intros H.
  repeat (destruct H as [H|H]; [apply N.eqb_eq in H; subst c; repeat split; try discriminate; reflexivity|]). discriminate.
Qed.
Lemma lex_step_ws d c k ch : ws_char ch -> lex_step (mkst d c k) ch = mkst d (c ++ raw_of k ++ [ch]) CText.
Proof.
  intros (H1 & H2 & H3 & H4 & H5). unfold lex_step, mkst. cbn [l_done l_cur l_cand].
  destruct (N.eqb_spec ch LT); [contradiction|]. destruct k as [| | |cl nm]; cbn [raw_of].
  - reflexivity.
  - destruct (N.eqb_spec ch SLASH); [contradiction|]. rewrite H5. reflexivity.
  - destruct (N.eqb_spec ch GT); [contradiction|]. rewrite H5. reflexivity.
  - destruct (N.eqb_spec ch GT); [contradiction|]. rewrite H4. reflexivity.
Qed.
Lemma lex_app_ws x ws : Forall ws_char ws -> lex (x ++ ws) = (fst (lex x), snd (lex x) ++ ws).
Proof.
  intros H. unfold lex, lex_end. rewrite fold_left_app. destruct (fold_left lex_step x lex_init) as [d c k]. cbn [fst snd l_done l_cur l_cand].
  destruct H as [|ch ws Hc Hw]; cbn [fold_left]; [now rewrite app_nil_r|].
  change {| l_done := d; l_cur := c; l_cand := k |} with (mkst d c k). rewrite (lex_step_ws d c k ch Hc). unfold mkst.
  rewrite lex_text. 2:{ eapply Forall_impl; [|exact Hw]. intros a Ha. apply Ha. }
  cbn [l_done l_cur l_cand raw_of]. now rewrite app_nil_r, <- !app_assoc.
Qed.

(* ---- the undecorated rendering of a message without backslash ---- *)
Local Opaque lex.
Fixpoint segs_run (sty : styles) (segs : list (str * tag)) (sk : stack) : res (stack * str) :=
  match segs with
  | [] => Ok (sk, [])
  | (pre, t) :: r => do x <- do_tag sty false false t sk; do y <- segs_run sty r (fst x); Ok (fst y, pre ++ snd x ++ snd y)
  end.
Lemma run_segs_plain_run sty : forall segs sk out first le, Forall (segP (fun c => c <> BSL)) segs ->
  run_segs sty false false first segs sk out le
  = do y <- segs_run sty segs sk; Ok (fst y, out ++ snd y, match segs with [] => le | _ => false end).
Proof.
  induction segs as [|[pre t] r IH]; intros sk out first le Hs; cbn [run_segs segs_run bind fst snd]; [now rewrite app_nil_r|].
  inversion Hs as [|? ? [Hpre _] Hr]; subst. cbn [fst] in Hpre.
  assert ((match pre with [] => first && false | _ :: _ => ends_with_bsl pre end) = false) as ->.
  { destruct pre; [apply Bool.andb_false_r|]. apply no_bsl_ends, Hpre. }
  destruct (do_tag sty false false t sk) as [[s1 p1]|e]; cbn [bind fst snd]; [|reflexivity].
  rewrite (IH s1 _ false false Hr). destruct (segs_run sty r s1) as [[s2 o2]|e]; cbn [bind fst snd]; [|reflexivity].
  rewrite apply_cur_false, <- !app_assoc. destruct r; reflexivity.
Qed.
Lemma do_tag_plain_out P sty raw cl nm sk s p : Forall P raw -> do_tag sty false false (Tag raw cl nm) sk = Ok (s, p) -> Forall P p.
Proof.
  intros Hr. unfold do_tag. destruct (cl && match nm with [] => true | _ => false end); [intros H; injection H as _ <-; constructor|].
  destruct (resolve sty (py_lower nm)) as [[st|]|e]; cbn [bind]; try discriminate.
  - destruct cl; [destruct (pop_style st sk); cbn [bind]; try discriminate|]; intros H; injection H as _ <-; constructor.
  - intros H; injection H as _ <-. rewrite apply_cur_false. exact Hr.
Qed.
Lemma segs_run_P (P : N -> Prop) sty : forall segs sk s o, Forall (segP P) segs -> segs_run sty segs sk = Ok (s, o) -> Forall P o.
Proof.
  induction segs as [|[pre [raw cl nm]] r IH]; intros sk s o Hs H; cbn [segs_run] in H; [injection H as _ <-; constructor|].
  inversion Hs as [|? ? [Hpre Hraw] Hr]; subst. cbn [fst snd tagP] in *.
  destruct (do_tag sty false false (Tag raw cl nm) sk) as [[s1 p1]|e] eqn:D; cbn [bind fst snd] in H; [|discriminate].
  destruct (segs_run sty r s1) as [[s2 o2]|e] eqn:R; cbn [bind fst snd] in H; [|discriminate]. injection H as _ <-.
  apply Forall_app; split; [exact Hpre|]. apply Forall_app; split; [eapply do_tag_plain_out; eauto|eapply IH; eauto].
Qed.
Lemma colorize_plain sty sk m : no_bsl m ->
  colorize sty false sk m = do y <- segs_run sty (fst (lex m)) sk; Ok (fst y, snd y ++ snd (lex m)).
Proof.
  intros Hm. unfold colorize. destruct (lex_P (fun c => c <> BSL) m Hm) as [Hsegs Htail].
  pose proof (lex_lossless m) as HL. destruct (lex m) as [segs tail] eqn:EL. cbn [fst snd] in *.
  destruct segs as [|sg segs'] eqn:ES.
  - cbn [segs_run bind fst snd app]. cbn in HL. subst tail. now rewrite (unescape_id m Hm).
  - rewrite <- ES in *. rewrite (no_bsl_ends m Hm), (run_segs_plain_run sty segs sk [] true false Hsegs).
    destruct (segs_run sty segs sk) as [[s o]|e] eqn:R; cbn [bind fst snd app]; [|reflexivity].
    rewrite ES at 1. rewrite !apply_cur_false, removelast_lastchar, unescape_id; [reflexivity|].
    apply Forall_app; split; [eapply (segs_run_P (fun c => c <> BSL)); eauto|exact Htail].
Qed.
Lemma segs_run_app sty a : forall sk b,
  segs_run sty (a ++ b) sk = do x <- segs_run sty a sk; do y <- segs_run sty b (fst x); Ok (fst y, snd x ++ snd y).
Proof.
  induction a as [|[pre t] a IH]; intros sk b; cbn [app segs_run bind fst snd].
  - destruct (segs_run sty b sk) as [[s o]|e]; reflexivity.
  - destruct (do_tag sty false false t sk) as [[s1 p1]|e]; cbn [bind fst snd]; [|reflexivity]. rewrite IH.
    destruct (segs_run sty a s1) as [[s2 o2]|e]; cbn [bind fst snd]; [|reflexivity].
    destruct (segs_run sty b s2) as [[s3 o3]|e]; cbn [bind fst snd]; [|reflexivity]. now rewrite <- !app_assoc.
Qed.
Lemma segs_run_prefix sty a segs sk : segs <> [] ->
  segs_run sty (prefix_first a segs) sk = do y <- segs_run sty segs sk; Ok (fst y, a ++ snd y).
Proof.
  destruct segs as [|[pre t] r]; [congruence|]. intros _. cbn [prefix_first segs_run].
  destruct (do_tag sty false false t sk) as [[s1 p1]|e]; cbn [bind fst snd]; [|reflexivity].
  destruct (segs_run sty r s1) as [[s2 o2]|e]; cbn [bind fst snd]; [|reflexivity]. now rewrite <- !app_assoc.
Qed.

(* the undecorated rendering of  x ++ y  when that of x leaves no '<' behind *)
Lemma colorize_plain_app sty sk x y sk1 vx sk2 vy : no_bsl x -> no_bsl y ->
  colorize sty false sk x = Ok (sk1, vx) -> no_lt vx -> colorize sty false sk1 y = Ok (sk2, vy) ->
  colorize sty false sk (x ++ y) = Ok (sk2, vx ++ vy).
Proof.
  intros Hx Hy Cx Hv Cy. rewrite colorize_plain in Cx, Cy by assumption. rewrite colorize_plain by (apply Forall_app; split; assumption).
  destruct (segs_run sty (fst (lex x)) sk) as [[s1 o1]|e] eqn:R1; cbn [bind fst snd] in Cx; [|discriminate]. injection Cx as -> <-.
  destruct (segs_run sty (fst (lex y)) sk1) as [[s2 o2]|e] eqn:R2; cbn [bind fst snd] in Cy; [|discriminate]. injection Cy as -> <-.
  rewrite lex_app by (apply Forall_app in Hv as [_ H]; exact H). cbn [fst snd].
  rewrite segs_run_app, R1. cbn [bind fst snd].
  destruct (fst (lex y)) as [|sg r] eqn:E.
  - cbn [prefix_first segs_run bind fst snd]. cbn [segs_run] in R2. injection R2 as -> <-. now rewrite !app_nil_r, <- !app_assoc.
  - rewrite <- E in *. rewrite segs_run_prefix by (rewrite E; congruence). rewrite R2. cbn [bind fst snd]. cbn [app]. now rewrite <- !app_assoc.
Qed.
(* white space after x: the same tags, the white space appended *)
Lemma colorize_plain_ws sty sk x ws : no_bsl x -> Forall ws_char ws -> no_bsl ws ->
  colorize sty false sk (x ++ ws) = do r <- colorize sty false sk x; Ok (fst r, snd r ++ ws).
Proof.
  intros Hx Hw Hb. rewrite !colorize_plain by (try apply Forall_app; try split; assumption). rewrite lex_app_ws by exact Hw. cbn [fst snd].
  destruct (segs_run sty (fst (lex x)) sk) as [[s o]|e]; cbn [bind fst snd]; [|reflexivity]. now rewrite <- app_assoc.
Qed.
(* every character of the undecorated rendering is a character of the message *)
Lemma colorize_plain_P (P : N -> Prop) sty sk m s v : Forall P m -> no_bsl m -> colorize sty false sk m = Ok (s, v) -> Forall P v.
Proof.
  intros Hm Hb C. rewrite colorize_plain in C by exact Hb. destruct (lex_P P m Hm) as [Hs Ht].
  destruct (segs_run sty (fst (lex m)) sk) as [[s1 o1]|e] eqn:R; cbn [bind fst snd] in C; [|discriminate]. injection C as _ <-.
  apply Forall_app; split; [eapply segs_run_P; eauto|exact Ht].
Qed.

(* decorated and undecorated rendering in lockstep, with the composable form of "the SGR sequences removed" *)
Lemma colorize_strips sty sk m : Forall good m ->
  match colorize sty true sk m, colorize sty false sk m with
  | Ok (s1, o1), Ok (s2, o2) => s1 = s2 /\ strips o1 o2
  | Err e1, Err e2 => e1 = e2
  | _, _ => False
  end.
Proof.
  intros Hm. unfold colorize. destruct (lex_P good m Hm) as [Hsegs Htail].
  destruct (lex m) as [segs tail] eqn:EL. cbn [fst snd] in *.
  destruct segs as [|sg segs'] eqn:ES.
  - rewrite (unescape_id m (good_no_bsl m Hm)). split; [reflexivity|]. apply strips_text, good_no_esc, Hm.
  - rewrite <- ES in *. rewrite (no_bsl_ends m (good_no_bsl m Hm)).
    pose proof (run_segs_lockstep sty segs sk [] [] true false Hsegs strips_nil (Forall_nil _) (Forall_nil _)) as HL.
    destruct (run_segs sty true false true segs sk [] false) as [[[s1 r1] l1]|e1] eqn:R1,
             (run_segs sty false false true segs sk [] false) as [[[s2 r2] l2]|e2] eqn:R2; try contradiction; cbn [bind]; [|exact HL].
    destruct HL as (-> & -> & HS & B1 & B2 & El).
    assert (l2 = false) as -> by (rewrite El; destruct segs; reflexivity).
    set (t1 := removelast tail). set (t2 := match rev tail with c :: _ => [c] | [] => [] end).
    assert (Forall good t1) as G1 by (apply removelast_P, Htail).
    assert (Forall good t2) as G2 by (apply lastchar_P, Htail).
    rewrite !unescape_id.
    + split; [reflexivity|]. apply strips_app; [exact HS|]. apply strips_app; apply strips_apply_cur, good_no_esc; assumption.
    + apply Forall_app; split; [exact B2|]. apply Forall_app; split; apply apply_cur_no_bsl, good_no_bsl; assumption.
    + apply Forall_app; split; [exact B1|]. apply Forall_app; split; apply apply_cur_no_bsl, good_no_bsl; assumption.
Qed.

(* ================================================================ B. the formatter on pieces of a line *)
Definition inert (a : str) : Prop := Forall (fun c => c <> LT /\ c <> ESC /\ c <> BSL) a.
Lemma inert_no_lt a : inert a -> no_lt a. Proof. apply Forall_impl. intros c (H & _); exact H. Qed.
Lemma inert_good a : inert a -> Forall good a. Proof. apply Forall_impl. intros c (_ & H1 & H2); split; assumption. Qed.
Lemma inert_app a b : inert a -> inert b -> inert (a ++ b). Proof. intros; apply Forall_app; split; assumption. Qed.

(* the visible text of a piece *)
Definition vis (f : formatter) (p : str) : str := match remove_format f p with Ok (_, v) => v | Err _ => p end.
(* the formatter reads x as the text y, is left as it was, and y holds no '<' *)
Definition vrel (f : formatter) (x y : str) : Prop :=
  Forall good x /\ colorize (f_styles f) false (f_stack f) x = Ok (f_stack f, y) /\ no_lt y.

Lemma remove_format_colorize f p : f_kind f <> FNull ->
  remove_format f p = do x <- colorize (f_styles f) false (f_stack f) p;
                      Ok ({| f_kind := f_kind f; f_styles := f_styles f; f_stack := fst x |}, snd x).
Proof. intros Hk. unfold remove_format. destruct (f_kind f); try reflexivity. congruence. Qed.
Lemma vrel_remove f x y : f_kind f <> FNull -> vrel f x y -> remove_format f x = Ok (f, y).
Proof. intros Hk (_ & C & _). rewrite remove_format_colorize, C by exact Hk. cbn [bind fst snd]. now rewrite fmt_eta. Qed.
Lemma vrel_vis f x y : f_kind f <> FNull -> vrel f x y -> vis f x = y.
Proof. intros Hk H. unfold vis. now rewrite (vrel_remove f x y Hk H). Qed.
Lemma remove_vrel f x y : f_kind f <> FNull -> Forall good x -> remove_format f x = Ok (f, y) -> no_lt y -> vrel f x y.
Proof.
  intros Hk Hg R Hy. split; [exact Hg|]. split; [|exact Hy]. rewrite remove_format_colorize in R by exact Hk.
  destruct (colorize (f_styles f) false (f_stack f) x) as [[s v]|e]; cbn [bind fst snd] in R; [|discriminate].
  injection R as R <-. apply (f_equal f_stack) in R. cbn [f_stack] in R. now subst s.
Qed.
Lemma vrel_inert f a : inert a -> vrel f a a.
Proof. intros H. split; [apply inert_good, H|]. split; [apply colorize_no_lt, inert_no_lt, H|apply inert_no_lt, H]. Qed.
Lemma vrel_nil f : vrel f [] []. Proof. apply vrel_inert. constructor. Qed.
Lemma vrel_app f x y x' y' : vrel f x y -> vrel f x' y' -> vrel f (x ++ x') (y ++ y').
Proof.
  intros (G1 & C1 & L1) (G2 & C2 & L2). split; [apply Forall_app; split; assumption|]. split; [|apply Forall_app; split; assumption].
  eapply colorize_plain_app; eauto; apply good_no_bsl; assumption.
Qed.
Lemma vis_no_lt f p : no_lt p -> vis f p = p.
Proof. intros H. unfold vis. now rewrite (remove_format_no_lt f p H). Qed.
Lemma vrel_P (P : N -> Prop) f x y : vrel f x y -> Forall P x -> Forall P y.
Proof. intros (G & C & _) HP. eapply colorize_plain_P; eauto. apply good_no_bsl, G. Qed.

(* the output decorates: only an ANSI formatter on an output whose _format_output is set *)
Definition decorated (on : bool) (f : formatter) : bool := on && match f_kind f with FAnsi _ => true | _ => false end.
Lemma out_write_vrel on f x y : f_kind f <> FNull -> vrel f x y ->
  exists X, out_write on f x = Ok (f, X) /\ strips X y /\ (decorated on f = false -> X = y).
Proof.
  intros Hk (G & C & L).
  assert (Hy : strips y y).
  { apply strips_text. apply (colorize_plain_P (fun c => c <> ESC) _ _ _ _ _ (good_no_esc x G) (good_no_bsl x G) C). }
  assert (Hplain : remove_format f x = Ok (f, y)) by (apply vrel_remove; [exact Hk|repeat split; assumption]).
  unfold out_write, decorated. destruct on; cbn [andb]; [|exists y; auto].
  unfold format. destruct (f_kind f) eqn:Ek; [| |congruence].
  - pose proof (colorize_strips (f_styles f) (f_stack f) x G) as HS. rewrite C in HS.
    destruct (colorize (f_styles f) true (f_stack f) x) as [[s1 o1]|e]; [|contradiction]. destruct HS as [-> HS].
    cbn [bind fst snd]. exists o1. rewrite <- Ek, fmt_eta. split; [reflexivity|]. split; [exact HS|discriminate].
  - rewrite C. cbn [bind fst snd]. rewrite <- Ek, fmt_eta. exists y. auto.
Qed.

(* right-stripping splits a text into the stripped text and white space *)
Lemma rstrip_rev_split r : exists sp, r = sp ++ t_rstrip_rev r /\ Forall (fun c => is_space c = true) sp.
Proof.
  induction r as [|c r (sp & E & F)]; [exists []; split; [reflexivity|constructor]|]. cbn [t_rstrip_rev].
  destruct (is_space c) eqn:Ec; [|exists []; split; [reflexivity|constructor]].
  exists (c :: sp). split; [cbn; congruence|constructor; assumption].
Qed.
Lemma rstrip_split s : exists sp, s = t_rstrip s ++ sp /\ Forall (fun c => is_space c = true) sp.
Proof.
  unfold t_rstrip. destruct (rstrip_rev_split (rev s)) as (sp & E & F). exists (rev sp). split.
  - rewrite <- rev_app_distr, <- E, rev_involutive. reflexivity.
  - apply Forall_rev, F.
Qed.
Lemma spaces_ws sp : Forall (fun c => is_space c = true) sp -> Forall ws_char sp.
Proof. apply Forall_impl. intros c; apply space_ws. Qed.
Lemma spaces_good sp : Forall (fun c => is_space c = true) sp -> Forall good sp.
Proof. apply Forall_impl. intros c H. split; intros ->; vm_compute in H; discriminate. Qed.

(* the line as io.write gets it: right-stripped, with the line break.  Its visible text is the visible text of
   the whole line less the white space the raw line ended with *)
Lemma vrel_rstrip_nl f x y : vrel f x y ->
  exists v sp, vrel f (t_rstrip x ++ [10%N]) (v ++ [10%N]) /\ y = v ++ sp /\ Forall (fun c => is_space c = true) sp.
Proof.
  intros (G & C & L). destruct (rstrip_split x) as (sp & E & F). set (r := t_rstrip x) in *.
  assert (Gr : Forall good r /\ Forall good sp) by (rewrite E in G; apply Forall_app in G; exact G). destruct Gr as [Gr Gs].
  rewrite E in C. rewrite colorize_plain_ws in C; [|apply good_no_bsl, Gr|apply spaces_ws, F|apply good_no_bsl, Gs].
  destruct (colorize (f_styles f) false (f_stack f) r) as [[s v]|e] eqn:Cr; cbn [bind fst snd] in C; [|discriminate].
  injection C as -> <-. exists v, sp. split; [|split; [reflexivity|exact F]].
  assert (NLw : Forall ws_char [10%N]) by (constructor; [apply space_ws; reflexivity|constructor]).
  split; [apply Forall_app; split; [exact Gr|repeat constructor; discriminate]|]. split.
  - rewrite colorize_plain_ws; [|apply good_no_bsl, Gr|exact NLw|repeat constructor; discriminate]. rewrite Cr. reflexivity.
  - apply Forall_app in L as [L _]. apply Forall_app; split; [exact L|repeat constructor; discriminate].
Qed.

(* ================================================================ C. good cells; fitting commutes with taking the visible text *)
Lemma has_lt_false c : has_lt c = false <-> no_lt c.
Proof.
  unfold has_lt, no_lt. induction c as [|x c IH]; cbn [existsb]; [split; [constructor|reflexivity]|].
  rewrite Bool.orb_false_iff, IH. split.
  - intros [H1 H2]. constructor; [|exact H2]. intros ->. unfold LT in H1. rewrite N.eqb_refl in H1. discriminate.
  - intros H. inversion H as [|? ? Hx Hc]; subst. split; [|exact Hc]. apply N.eqb_neq. congruence.
Qed.
(* good markup: no ESC, no backslash; the formatter reads the cell, is left as it was, and the visible text holds
   no '<'; a cell with markup holds no line break *)
Definition good_cell (f : formatter) (c : str) : Prop :=
  Forall good c /\ (has_lt c = true -> ~ In 10%N c) /\ exists v, remove_format f c = Ok (f, v) /\ no_lt v.
Lemma good_cell_plain f c : Forall good c -> no_lt c -> good_cell f c.
Proof.
  intros G L. split; [exact G|]. split.
  - apply has_lt_false in L. congruence.
  - exists c. split; [apply remove_format_no_lt, L|exact L].
Qed.
Lemma good_cell_nil f : good_cell f []. Proof. apply good_cell_plain; constructor. Qed.
Lemma good_cell_vrel f c : f_kind f <> FNull -> good_cell f c -> vrel f c (vis f c).
Proof. intros Hk (G & _ & v & R & L). unfold vis. rewrite R. apply remove_vrel; assumption. Qed.

Lemma measure_good f cs : Forall (good_cell f) cs -> measure f cs = Ok (f, map (fun c => zlen (vis f c)) cs).
Proof.
  induction 1 as [|c cs (_ & _ & v & R & _) _ IH]; [reflexivity|]. cbn [measure map]. unfold vis at 1. rewrite R. cbn [bind fst snd].
  rewrite IH. reflexivity.
Qed.

(* what textwrap returns consists of characters of the text and white space *)
Lemma in_join sep c : forall ls, In c (join_with sep ls) -> c = sep \/ In c (concat ls).
Proof.
  induction ls as [|l ls IH]; [intros []|]. cbn [join_with concat]. destruct ls as [|l2 ls].
  - cbn [concat]. rewrite app_nil_r. auto.
  - intros H. apply in_app_or in H as [H|[H|H]]; [right; apply in_or_app; auto|auto|].
    destruct (IH H) as [E|E]; [auto|right; apply in_or_app; auto].
Qed.
Lemma in_munge c t : In c (munge t) -> c = SP \/ In c t.
Proof. unfold munge. intros H. apply in_map_iff in H as (x & E & Hx). destruct (tw_space x); [auto|subst; auto]. Qed.
Lemma wrap_chars (P : N -> Prop) t w ls : (forall c, is_space c = true -> P c) -> Forall P t -> wrap t w = Ok ls ->
  Forall P (join_with 10%N ls).
Proof.
  intros Hsp Ht W. apply Forall_forall. intros c Hc. destruct (in_join _ _ _ Hc) as [->|Hin]; [apply Hsp; reflexivity|].
  destruct (is_space c) eqn:Ec; [apply Hsp, Ec|].
  assert (Hf : In c (filter (fun c => negb (is_space c)) (concat ls))) by (apply filter_In; split; [exact Hin|now rewrite Ec]).
  rewrite (wrap_keeps_text_lemma _ _ _ W) in Hf. apply filter_In in Hf as [Hf _].
  destruct (in_munge _ _ Hf) as [->|Hin']; [apply Hsp; reflexivity|]. rewrite Forall_forall in Ht. apply Ht, Hin'.
Qed.
Lemma space_not_lt c : is_space c = true -> c <> LT. Proof. intros H ->. vm_compute in H. discriminate. Qed.
Lemma space_good c : is_space c = true -> good c. Proof. intros H. split; intros ->; vm_compute in H; discriminate. Qed.

Section Sim.
  Variable f : formatter.
  Let v := vis f.
  Definition vst (st : fitst) : fitst :=
    {| f_rows := map (map (vis f)) (f_rows st); f_lens := f_lens st; f_cols := f_cols st; f_wraps := f_wraps st; f_cuts := f_cuts st |}.
  Lemma vis_nil : vis f [] = []. Proof. apply vis_no_lt. constructor. Qed.
  Lemma set_nth_map {X Y} (g : X -> Y) k x l : set_nth k (g x) (map g l) = map g (set_nth k x l).
  Proof. revert k; induction l as [|y l IH]; intros [|k]; cbn; congruence. Qed.

  Lemma wrap_cell_sim w cu cell len c' l' wr cu' : wrap_cell has_lt w cu cell len = Ok (c', l', wr, cu') ->
    wrap_cell (fun _ => false) w cu (v cell) len = Ok (v c', l', wr, cu').
  Proof.
    unfold wrap_cell, v. destruct (w <? len); [|intros H; injection H as <- <- <- <-; reflexivity].
    destruct (has_lt cell) eqn:Hl; [discriminate|]. apply has_lt_false in Hl. rewrite (vis_no_lt f cell Hl).
    destruct (wrap cell w) as [ls|e] eqn:W; cbn [bind]; [|discriminate]. intros H; injection H as <- <- <- <-.
    rewrite vis_no_lt; [reflexivity|]. apply (wrap_chars _ cell w ls space_not_lt Hl W).
  Qed.
  Lemma wrap_col_sim col w : forall rows lens wr cu rs ls wr' cu',
    wrap_col has_lt col w rows lens wr cu = Ok (rs, ls, wr', cu') ->
    wrap_col (fun _ => false) col w (map (map v) rows) lens wr cu = Ok (map (map v) rs, ls, wr', cu').
  Proof.
    induction rows as [|row rows IH]; intros lens wr cu rs ls wr' cu' H; cbn [wrap_col map] in *.
    - injection H as <- <- <- <-. reflexivity.
    - destruct lens as [|ln lens]; [injection H as <- <- <- <-; reflexivity|].
      destruct (wrap_cell has_lt w cu (nth col row []) (nth col ln 0)) as [[[[c' l'] wrapped] cu1]|k] eqn:WC; cbn [bind] in H; [|discriminate].
      destruct (wrap_col has_lt col w rows lens (wr || wrapped) cu1) as [[[[rs1 ls1] wr1] cu2]|k] eqn:WR; cbn [bind] in H; [|discriminate].
      injection H as <- <- <- <-.
      replace (nth col (map v row) []) with (v (nth col row [])) by (unfold v; rewrite <- vis_nil at 2; symmetry; apply map_nth).
      rewrite (wrap_cell_sim _ _ _ _ _ _ _ _ WC). cbn [bind]. rewrite (IH _ _ _ _ _ _ _ WR). cbn [bind map].
      now rewrite set_nth_map.
  Qed.
  Lemma fit_column_sim col w st st' : fit_column has_lt col w st = Ok st' -> fit_column (fun _ => false) col w (vst st) = Ok (vst st').
  Proof.
    unfold fit_column. cbn [vst f_rows f_lens f_cols f_wraps f_cuts]. intros H.
    destruct (wrap_col has_lt col w (f_rows st) (f_lens st) (f_wraps st) (f_cuts st)) as [[[[rs ls] wr] cu]|k] eqn:WR; cbn [bind] in H; [|discriminate].
    injection H as <-. fold v. rewrite (wrap_col_sim _ _ _ _ _ _ _ _ _ _ WR). reflexivity.
  Qed.
  Lemma distribute_sim share av : forall long col actual rem st st',
    distribute has_lt share av long col actual rem st = Ok st' ->
    distribute (fun _ => false) share av long col actual rem (vst st) = Ok (vst st').
  Proof.
    induction long as [|[len|] r IH]; intros col actual rem st st' H; cbn [distribute] in *.
    - injection H as <-. reflexivity.
    - destruct (if count_some r =? 0 then Ok rem else if actual =? 0 then Err (Other 9)
                else Ok (Z.max 1 (Z.min (share len actual av) (rem - count_some r)))) as [w|k]; cbn [bind] in *; [|discriminate].
      destruct (fit_column has_lt col w st) as [st1|k] eqn:F1; cbn [bind] in H; [|discriminate].
      rewrite (fit_column_sim _ _ _ _ F1). cbn [bind]. exact (IH _ _ _ _ _ H).
    - exact (IH _ _ _ _ _ H).
  Qed.
  Lemma pad_row_map n r : pad_row n (map v r) = map v (pad_row n r).
  Proof.
    unfold pad_row. rewrite map_app, map_length. f_equal. unfold v. generalize (n - length r)%nat as k.
    induction k as [|k IH]; cbn [repeat map]; [reflexivity|]. rewrite vis_nil. f_equal. exact IH.
  Qed.
  Lemma init_state_l_sim n cells lens st : init_state_l n cells lens = Ok st -> init_state_l n (map v cells) lens = Ok (vst st).
  Proof.
    unfold init_state_l. intros H.
    assert (E : Ok {| f_rows := map (pad_row n) (chunk (length cells) n cells);
                      f_lens := map (pad_lens n) (chunk (length lens) n lens);
                      f_cols := col_lengths n (map (pad_lens n) (chunk (length lens) n lens)); f_wraps := false; f_cuts := false |} = Ok st).
    { destruct n; [destruct cells; [exact H|discriminate]|exact H]. }
    injection E as <-. unfold vst. cbn [f_rows f_lens f_cols f_wraps f_cuts].
    assert (R : map (pad_row n) (chunk (length (map v cells)) n (map v cells)) = map (map (vis f)) (map (pad_row n) (chunk (length cells) n cells))).
    { rewrite map_length, chunk_map, !map_map. apply map_ext. intros r. apply pad_row_map. }
    destruct n; [destruct cells; [reflexivity|discriminate]|]. rewrite R. reflexivity.
  Qed.
  Theorem fit_g_sim share max_total n cells lens st : fit_g has_lt share max_total n cells lens = Ok st ->
    fit_g (fun _ => false) share max_total n (map v cells) lens = Ok (vst st).
  Proof.
    unfold fit_g. intros H. destruct (init_state_l n cells lens) as [st0|k] eqn:E0; cbn [bind] in H; [|discriminate].
    rewrite (init_state_l_sim _ _ _ _ E0). cbn [bind]. change (f_cols (vst st0)) with (f_cols st0).
    destruct (zsum (f_cols st0) <=? max_total); [injection H as <-; reflexivity|].
    destruct n; [discriminate|]. destruct (short_loop (S (S n)) (Z.of_nat (S n)) (map Some (f_cols st0)) max_total) as [[av long]|]; [|discriminate].
    exact (distribute_sim _ _ _ _ _ _ _ _ H).
  Qed.

  (* the cells of the fitted state are good cells again *)
  Definition rows_good (rows : list (list str)) : Prop := Forall (Forall (good_cell f)) rows.
  Lemma wrap_cell_good w cu cell len c' l' wr cu' : good_cell f cell -> wrap_cell has_lt w cu cell len = Ok (c', l', wr, cu') -> good_cell f c'.
  Proof.
    intros Hc. unfold wrap_cell. destruct (w <? len); [|intros H; injection H as <- _ _ _; exact Hc].
    destruct (has_lt cell) eqn:Hl; [discriminate|]. apply has_lt_false in Hl.
    destruct (wrap cell w) as [ls|e] eqn:W; cbn [bind]; [|discriminate]. intros H; injection H as <- _ _ _.
    apply good_cell_plain; [apply (wrap_chars _ cell w ls space_good (proj1 Hc) W)|apply (wrap_chars _ cell w ls space_not_lt Hl W)].
  Qed.
  Lemma nth_good col row : Forall (good_cell f) row -> good_cell f (nth col row []).
  Proof. intros H. revert col. induction H as [|c r Hc _ IH]; intros [|col]; cbn [nth]; auto; apply good_cell_nil. Qed.
  Lemma wrap_col_good col w : forall rows lens wr cu rs ls wr' cu', rows_good rows ->
    wrap_col has_lt col w rows lens wr cu = Ok (rs, ls, wr', cu') -> rows_good rs.
  Proof.
    induction rows as [|row rows IH]; intros lens wr cu rs ls wr' cu' HG H; cbn [wrap_col] in H.
    - injection H as <- _ _ _. constructor.
    - destruct lens as [|ln lens]; [injection H as <- _ _ _; constructor|]. apply Forall_cons_iff in HG as [Hrow Hrows].
      destruct (wrap_cell has_lt w cu (nth col row []) (nth col ln 0)) as [[[[c' l'] wrapped] cu1]|k] eqn:WC; cbn [bind] in H; [|discriminate].
      destruct (wrap_col has_lt col w rows lens (wr || wrapped) cu1) as [[[[rs1 ls1] wr1] cu2]|k] eqn:WR; cbn [bind] in H; [|discriminate].
      injection H as <- _ _ _. constructor; [|eapply IH; eauto].
      apply Forall_set_nth; [exact Hrow|]. eapply wrap_cell_good; [|exact WC]. apply nth_good, Hrow.
  Qed.
  Lemma distribute_good share av : forall long col actual rem st st', rows_good (f_rows st) ->
    distribute has_lt share av long col actual rem st = Ok st' -> rows_good (f_rows st').
  Proof.
    induction long as [|[len|] r IH]; intros col actual rem st st' HG H; cbn [distribute] in H.
    - injection H as <-. exact HG.
    - destruct (if count_some r =? 0 then Ok rem else if actual =? 0 then Err (Other 9)
                else Ok (Z.max 1 (Z.min (share len actual av) (rem - count_some r)))) as [w|k]; cbn [bind] in H; [|discriminate].
      destruct (fit_column has_lt col w st) as [st1|k] eqn:F1; cbn [bind] in H; [|discriminate].
      apply (IH _ _ _ _ _ ) in H; [exact H|]. unfold fit_column in F1.
      destruct (wrap_col has_lt col w (f_rows st) (f_lens st) (f_wraps st) (f_cuts st)) as [[[[rs ls] wr] cu]|k] eqn:WR; cbn [bind] in F1; [|discriminate].
      injection F1 as <-. cbn [f_rows]. eapply wrap_col_good; eauto.
    - eapply IH; eauto.
  Qed.
  Lemma Forall_firstn' {X} (P : X -> Prop) k : forall l, Forall P l -> Forall P (firstn k l).
  Proof. induction k as [|k IH]; intros l H; [constructor|]. destruct H; cbn [firstn]; constructor; auto. Qed.
  Lemma Forall_skipn' {X} (P : X -> Prop) k : forall l, Forall P l -> Forall P (skipn k l).
  Proof. induction k as [|k IH]; intros l H; [exact H|]. destruct H; cbn [skipn]; [constructor|auto]. Qed.
  Lemma chunk_Forall {X} (P : X -> Prop) n : forall fuel l, Forall P l -> Forall (Forall P) (chunk fuel n l).
  Proof.
    induction fuel as [|fu IH]; intros l H; cbn [chunk]; [constructor|]. destruct l as [|x l]; [constructor|].
    constructor; [apply Forall_firstn', H|apply IH, Forall_skipn', H].
  Qed.
  Theorem fit_g_good share max_total n cells lens st : Forall (good_cell f) cells ->
    fit_g has_lt share max_total n cells lens = Ok st -> rows_good (f_rows st).
  Proof.
    intros HG. unfold fit_g. intros H. destruct (init_state_l n cells lens) as [st0|k] eqn:E0; cbn [bind] in H; [|discriminate].
    assert (G0 : rows_good (f_rows st0)).
    { unfold init_state_l in E0.
      assert (R : f_rows st0 = map (pad_row n) (chunk (length cells) n cells)).
      { destruct n; [destruct cells; [|discriminate]|]; injection E0 as <-; reflexivity. }
      rewrite R. unfold rows_good. apply Forall_map. eapply Forall_impl; [|apply (chunk_Forall (good_cell f) n _ _ HG)].
      intros r Hr. unfold pad_row. apply Forall_app; split; [exact Hr|]. clear. induction (n - length r)%nat; cbn; constructor; auto. apply good_cell_nil. }
    destruct (zsum (f_cols st0) <=? max_total); [injection H as <-; exact G0|].
    destruct n; [discriminate|]. destruct (short_loop (S (S n)) (Z.of_nat (S n)) (map Some (f_cols st0)) max_total) as [[av long]|]; [|discriminate].
    eapply distribute_good; eauto.
  Qed.
End Sim.

(* ================================================================ D. drawing: the lines written and the lines of the tag-free table *)
(* the lines of the tag-free table before right-stripping *)
Definition border_lines (ind : Z) (lens : list Z) (lc l c r : str) : list str :=
  let full := blanks ind ++ l ++ border_body lc c r lens in
  match t_rstrip full with [] => [] | _ => [full] end.
Definition row_lines (b : bstyle) (pre suf pad : str) (ind : Z) (row : list str) (cols al : list Z) : list str :=
  let cells := map (split_on 10%N) row in
  map (fun i => blanks ind ++ b_vl b ++ row_line pre suf pad (b_vc b) (b_vr b) i cells cols al)
      (seq 0 (fold_right Nat.max O (map (@length str) cells))).
Definition table_lines (s : tstyle) (header : list str) (ind : Z) (st : fitst) (al : list Z) : list str :=
  let b := t_border s in
  let bl := map (fun l => (l + excess s)%Z) (f_cols st) in
  let body := match header with [] => f_rows st | _ => tl (f_rows st) end in
  border_lines ind bl (b_ht b) (b_tl b) (b_ct b) (b_tr b) ++
  (match header with
   | [] => []
   | _ => row_lines b (t_hpre s) (t_hsuf s) (t_pad s) ind (hd [] (f_rows st)) (f_cols st) al ++
          border_lines ind bl (b_hc b) (b_cl b) (b_cc b) (b_cr b)
   end) ++
  flat_map (fun row => row_lines b (t_cpre s) (t_csuf s) (t_pad s) ind row (f_cols st) al) body ++
  border_lines ind bl (b_hb b) (b_bl b) (b_cb b) (b_br b).
Definition strip_lines (ls : list str) : str := flat_map (fun l => t_rstrip l ++ [10%N]) ls.
Lemma strip_lines_app a b : strip_lines (a ++ b) = strip_lines a ++ strip_lines b.
Proof. apply flat_map_app. Qed.
Lemma draw_border_lines ind lens lc l c r : draw_border ind lens lc l c r = strip_lines (border_lines ind lens lc l c r).
Proof.
  unfold draw_border, border_lines. destruct (t_rstrip (blanks ind ++ l ++ border_body lc c r lens)) eqn:E; [reflexivity|].
  unfold strip_lines. cbn [flat_map]. rewrite E, app_nil_r. reflexivity.
Qed.
Lemma draw_row_lines b pre suf pad ind row cols al : draw_row b pre suf pad ind row cols al = strip_lines (row_lines b pre suf pad ind row cols al).
Proof.
  unfold draw_row, row_lines, strip_lines. generalize (seq 0 (fold_right Nat.max O (map (@length str) (map (split_on 10%N) row)))). intros l.
  induction l as [|i l IH]; [reflexivity|]. cbn [flat_map map]. rewrite IH. reflexivity.
Qed.
Lemma draw_table_lines s header ind st al : draw_table s header ind st al = strip_lines (table_lines s header ind st al).
Proof.
  unfold draw_table, table_lines. rewrite !strip_lines_app. rewrite 3?draw_border_lines. f_equal. f_equal.
  - destruct header; [reflexivity|]. now rewrite strip_lines_app, draw_row_lines, ?draw_border_lines.
  - rewrite ?draw_border_lines. f_equal. generalize (match header with [] => f_rows st | _ :: _ => tl (f_rows st) end). intros body.
    induction body as [|r body IH]; [reflexivity|]. cbn [flat_map]. rewrite strip_lines_app, draw_row_lines, IH. reflexivity.
Qed.

(* every line of the tag-free table has the table's width *)
Lemma border_lines_width s cols ind lc l c r : 0 <= ind -> cols <> [] -> Forall (fun x => 0 <= x) cols ->
  wf_border (b_vl (t_border s)) (b_vc (t_border s)) (b_vr (t_border s)) lc l c r ->
  Forall (fun x => zlen x = full_width s cols ind) (border_lines ind (map (fun x => x + excess s) cols) lc l c r).
Proof.
  intros Hind Hne Hnn [[(H1 & H2 & H3 & H4)|(-> & -> & -> & ->)]]; unfold border_lines.
  - destruct (t_rstrip _); [constructor|]. constructor; [|constructor].
    unfold full_width. rewrite !zlen_app, zlen_blanks, border_body_len.
    + rewrite map_length, H1, H2, H3, H4. lia.
    + destruct cols; cbn; congruence.
    + assert (0 <= excess s) by (unfold excess; pose proof (zlen_nonneg (t_hpre s ++ t_hsuf s)); lia).
      clear -Hnn H. induction Hnn; cbn [map]; constructor; auto; lia.
  - assert (E : border_body [] [] [] (map (fun x => x + excess s) cols) = []).
    { clear. induction cols as [|x cols IH]; [reflexivity|]. cbn [map border_body]. destruct (map (fun x0 => x0 + excess s) cols) eqn:M.
      - unfold rep. clear. induction (Z.to_nat (x + excess s)); cbn; auto.
      - rewrite IH. unfold rep. clear. induction (Z.to_nat (x + excess s)); cbn; auto. }
    rewrite E, !app_nil_r, rstrip_blanks. constructor.
Qed.
Lemma row_lines_width s pre suf ind row cols al : wf_style s -> 0 <= ind -> row <> [] ->
  zlen pre + zlen suf = excess s ->
  Forall2 (fun cell c => cell_ok c cell) row cols -> Forall (fun x => 0 <= x) cols -> length al = length cols ->
  Forall (fun x => zlen x = full_width s cols ind) (row_lines (t_border s) pre suf (t_pad s) ind row cols al).
Proof.
  intros (Hp & _) Hind Hne Hex Hrow Hnn Hal. unfold row_lines. set (cells := map (split_on 10%N) row).
  apply Forall_forall. intros x Hx. apply in_map_iff in Hx as (i & <- & _).
  rewrite !zlen_app, zlen_blanks, (row_line_len pre suf (t_pad s) _ _ i Hp cells cols al).
  + unfold full_width. replace (map (fun w => zlen pre + w + zlen suf) cols) with (map (fun c => c + excess s) cols); [lia|].
    apply map_ext. intros; lia.
  + unfold cells. clear -Hrow Hnn. induction Hrow as [|c w r cs Hcw _ IH]; cbn [map]; constructor.
    * apply Forall_cons_iff in Hnn as [Hw _]. apply nth_split_le; assumption.
    * apply IH. apply Forall_cons_iff in Hnn as [_ H]. exact H.
  + exact Hal.
  + unfold cells. destruct row; [congruence|discriminate].
Qed.

Section Draw.
  Variables (on : bool) (f : formatter).
  Hypothesis Hk : f_kind f <> FNull.
  Let dec := decorated on f.

  (* what is written for a line X and the line PL of the tag-free table: X without its SGR sequences is a text v and
     the line break, PL is v followed by white space; an undecorated output writes v itself *)
  Definition line_item (X PL : str) : Prop :=
    exists v sp, strips X (v ++ [10%N]) /\ (dec = false -> X = v ++ [10%N]) /\ PL = v ++ sp /\ Forall (fun c => is_space c = true) sp.
  (* a step of the drawing leaves the formatter as it was and writes the lines pls *)
  Definition step_ok (s : formatter -> res (formatter * str)) (pls : list str) : Prop :=
    exists Xs, s f = Ok (f, concat Xs) /\ Forall2 line_item Xs pls.

  Lemma run_steps_same steps outs : Forall2 (fun s o => s f = Ok (f, o)) steps outs -> run_steps steps f = Ok (f, concat outs).
  Proof. induction 1 as [|s o steps outs H _ IH]; [reflexivity|]. cbn [run_steps concat]. rewrite H. cbn [bind fst snd]. rewrite IH. reflexivity. Qed.
  Lemma steps_cons s steps r1 r2 : s f = Ok (f, r1) -> run_steps steps f = Ok (f, r2) -> run_steps (s :: steps) f = Ok (f, r1 ++ r2).
  Proof. intros E1 E2. cbn [run_steps]. rewrite E1. cbn [bind fst snd]. rewrite E2. reflexivity. Qed.
  Lemma run_steps_ok steps plss : Forall2 step_ok steps plss -> step_ok (run_steps steps) (concat plss).
  Proof.
    induction 1 as [|s pls steps plss (Xs & E & F) _ (Ys & E2 & F2)]; [exists []; split; [reflexivity|constructor]|].
    exists (Xs ++ Ys). cbn [run_steps concat]. rewrite E. cbn [bind fst snd]. rewrite E2. cbn [bind fst snd].
    split; [now rewrite concat_app|]. apply Forall2_app; assumption.
  Qed.

  Lemma inert_rep pad t : inert pad -> inert (rep pad t).
  Proof. intros H. unfold rep. induction (Z.to_nat t); cbn [repeat concat]; [constructor|apply inert_app; assumption]. Qed.
  Lemma inert_blanks k : inert (blanks k).
  Proof. unfold blanks. induction (Z.to_nat k); cbn [repeat]; constructor; auto. repeat split; discriminate. Qed.
  Lemma vrel_fill pad a t p pv : inert pad -> vrel f p pv -> vrel f (fill pad a t p) (fill pad a t pv).
  Proof.
    intros Hp H. unfold fill. destruct (a =? 0); [|destruct (a =? 1)];
      repeat (apply vrel_app); try exact H; apply vrel_inert, inert_rep, Hp.
  Qed.
  (* one cell of one line *)
  Lemma cell_f_ok pre suf pad a w p pv sep : inert pre -> inert suf -> inert pad -> inert sep -> vrel f p pv ->
    exists raw, cell_f pre suf pad a w p sep f = Ok (f, raw) /\
                vrel f raw (match pad_cell pad a w pv with Some x => pre ++ x ++ suf ++ sep | None => [] end).
  Proof.
    intros H1 H2 H3 H4 Hp. unfold cell_f, pad_cell. rewrite (vrel_remove f p pv Hk Hp). cbn [bind fst snd].
    eexists. split; [reflexivity|]. destruct (w - zlen pv <? 0); [apply vrel_nil|].
    apply vrel_app; [apply vrel_inert, H1|]. apply vrel_app; [apply vrel_fill; assumption|].
    apply vrel_app; apply vrel_inert; assumption.
  Qed.
  Definition cells_rel (cells cells' : list (list str)) : Prop :=
    Forall2 (fun c c' => forall i, vrel f (nth i c []) (nth i c' [])) cells cells'.
  Lemma row_steps_ok pre suf pad vc vr i : inert pre -> inert suf -> inert pad -> inert vc -> inert vr ->
    forall cells cells' cols al, cells_rel cells cells' ->
    exists raw, run_steps (row_steps pre suf pad vc vr i cells cols al) f = Ok (f, raw) /\
                vrel f raw (row_line pre suf pad vc vr i cells' cols al).
  Proof.
    intros H1 H2 H3 H4 H5 cells cells' cols al H. revert cols al.
    induction H as [|c c' cells cells' Hc Hrest IH]; intros cols al; cbn [row_steps row_line].
    - exists []. split; [reflexivity|apply vrel_nil].
    - destruct cols as [|w cols]; [exists []; split; [reflexivity|apply vrel_nil]|].
      destruct al as [|a al]; [exists []; split; [reflexivity|apply vrel_nil]|].
      destruct (IH cols al) as (r2 & E2 & V2). clear IH. cbn [row_steps row_line].
      assert (Hsep : forall sep, inert sep -> exists r1, cell_f pre suf pad a w (nth i c []) sep f = Ok (f, r1) /\
                       vrel f r1 (match pad_cell pad a w (nth i c' []) with Some x => pre ++ x ++ suf ++ sep | None => [] end))
        by (intros sep Hs; apply cell_f_ok; auto).
      destruct Hrest; cbv iota.
      + destruct (Hsep vr H5) as (r1 & E1 & V1). exists (r1 ++ r2). split; [apply steps_cons; [exact E1|exact E2]|]. apply vrel_app; [exact V1|exact V2].
      + destruct (Hsep vc H4) as (r1 & E1 & V1). exists (r1 ++ r2). split; [apply steps_cons; [exact E1|exact E2]|]. apply vrel_app; [exact V1|exact V2].
  Qed.
  (* one line of a row *)
  Lemma line_f_ok pre suf pad vl vc vr ind cells cells' cols al i :
    inert pre -> inert suf -> inert pad -> inert vl -> inert vc -> inert vr -> cells_rel cells cells' ->
    step_ok (line_f on pre suf pad vl vc vr ind cells cols al i) [blanks ind ++ vl ++ row_line pre suf pad vc vr i cells' cols al].
  Proof.
    intros H1 H2 H3 H4 H5 H6 HR. unfold step_ok, line_f.
    destruct (row_steps_ok pre suf pad vc vr i H1 H2 H3 H5 H6 cells cells' cols al HR) as (raw & E & V). rewrite E. cbn [bind fst snd].
    assert (VL : vrel f (blanks ind ++ vl ++ raw) (blanks ind ++ vl ++ row_line pre suf pad vc vr i cells' cols al)).
    { apply vrel_app; [apply vrel_inert, inert_blanks|]. apply vrel_app; [apply vrel_inert, H4|exact V]. }
    destruct (vrel_rstrip_nl f _ _ VL) as (v & sp & VR & Ey & Fs).
    destruct (out_write_vrel on f _ _ Hk VR) as (X & EX & SX & DX).
    exists [X]. cbn [concat]. rewrite app_nil_r. split; [exact EX|]. constructor; [|constructor].
    exists v, sp. auto.
  Qed.
  Lemma max_len_rel cells cells' : Forall2 (fun c c' => length c = length c') cells cells' ->
    fold_right Nat.max O (map (@length str) cells) = fold_right Nat.max O (map (@length str) cells').
  Proof. induction 1 as [|c c' cells cells' E _ IH]; [reflexivity|]. cbn [map fold_right]. now rewrite E, IH. Qed.

  (* a cell and its visible text, line by line *)
  Lemma split_no_sep sep c : ~ In sep c -> split_on sep c = [c].
  Proof.
    induction c as [|x c IH]; [reflexivity|]. intros H. cbn [split_on]. destruct (N.eqb_spec x sep) as [->|_]; [exfalso; apply H; left; reflexivity|].
    rewrite IH; [reflexivity|]. intros Hin. apply H. right. exact Hin.
  Qed.
  Lemma split_P (P : N -> Prop) sep s : Forall P s -> Forall (Forall P) (split_on sep s).
  Proof.
    induction 1 as [|c s Hc Hs IH]; cbn [split_on]; [repeat constructor|]. destruct (N.eqb c sep); [constructor; [constructor|exact IH]|].
    destruct (split_on sep s) as [|l ls]; [repeat constructor; exact Hc|]. inversion IH; subst. constructor; [constructor; assumption|assumption].
  Qed.
  Lemma good_cell_pieces c : good_cell f c -> Forall2 (vrel f) (split_on 10%N c) (split_on 10%N (vis f c)).
  Proof.
    intros Hc. pose proof (good_cell_vrel f c Hk Hc) as V. destruct Hc as (G & Hnl & _).
    destruct (has_lt c) eqn:Hl.
    - specialize (Hnl eq_refl). rewrite (split_no_sep _ c Hnl), split_no_sep.
      + constructor; [exact V|constructor].
      + pose proof (vrel_P (fun x => x <> 10%N) f c (vis f c) V) as HP. intros Hin.
        assert (HF : Forall (fun x => x <> 10%N) c) by (apply Forall_forall; intros x Hx ->; apply Hnl, Hx).
        specialize (HP HF). rewrite Forall_forall in HP. exact (HP _ Hin eq_refl).
    - apply has_lt_false in Hl. rewrite (vis_no_lt f c Hl).
      assert (HI : inert c).
      { unfold inert, no_lt in *. rewrite Forall_forall in *. intros x Hx. destruct (G x Hx) as [G1 G2]. split; [exact (Hl x Hx)|split; assumption]. }
      pose proof (split_P _ 10%N c HI) as HS. induction HS as [|p ps Hp _ IH]; constructor; [apply vrel_inert, Hp|exact IH].
  Qed.
  Lemma pieces_nth l l' : Forall2 (vrel f) l l' -> forall i, vrel f (nth i l []) (nth i l' []).
  Proof. induction 1 as [|p p' l l' H _ IH]; intros [|i]; cbn [nth]; auto; apply vrel_nil. Qed.
  Lemma row_cells_rel row : Forall (good_cell f) row ->
    cells_rel (map (split_on 10%N) row) (map (split_on 10%N) (map (vis f) row)) /\
    Forall2 (fun c c' => length c = length c') (map (split_on 10%N) row) (map (split_on 10%N) (map (vis f) row)).
  Proof.
    induction 1 as [|c row Hc _ [IH1 IH2]]; cbn [map]; [split; constructor|]. pose proof (good_cell_pieces c Hc) as HP.
    split; constructor; auto; [apply pieces_nth, HP|apply (Forall2_length _ _ _ HP)].
  Qed.

  (* a row *)
  Lemma draw_row_f_ok b pre suf pad ind row cols al :
    inert pre -> inert suf -> inert pad -> inert (b_vl b) -> inert (b_vc b) -> inert (b_vr b) -> Forall (good_cell f) row ->
    step_ok (draw_row_f on b pre suf pad ind row cols al) (row_lines b pre suf pad ind (map (vis f) row) cols al).
  Proof.
    intros H1 H2 H3 H4 H5 H6 HG. destruct (row_cells_rel row HG) as [HR HL]. unfold draw_row_f, row_lines. cbv zeta.
    rewrite <- (max_len_rel _ _ HL). set (total := fold_right Nat.max O (map (@length str) (map (split_on 10%N) row))).
    set (cells := map (split_on 10%N) row) in *. set (cells' := map (split_on 10%N) (map (vis f) row)) in *.
    replace (map (fun i => blanks ind ++ b_vl b ++ row_line pre suf pad (b_vc b) (b_vr b) i cells' cols al) (seq 0 total))
      with (concat (map (fun i => [blanks ind ++ b_vl b ++ row_line pre suf pad (b_vc b) (b_vr b) i cells' cols al]) (seq 0 total))).
    2:{ generalize (seq 0 total). intros l. induction l as [|i l IH]; [reflexivity|]. cbn [map concat app]. now rewrite IH. }
    apply run_steps_ok. generalize (seq 0 total). intros l. induction l as [|i l IH]; cbn [map]; constructor; [|exact IH].
    apply line_f_ok; assumption.
  Qed.
  (* a border line: free of '<', written as it is *)
  Lemma inert_border_body lc c r lens : inert lc -> inert c -> inert r -> inert (border_body lc c r lens).
  Proof.
    intros H1 H2 H3. induction lens as [|x lens IH]; cbn [border_body]; [constructor|]. destruct lens as [|y lens].
    - apply inert_app; [apply inert_rep, H1|exact H3].
    - apply inert_app; [apply inert_rep, H1|]. apply inert_app; [exact H2|exact IH].
  Qed.
  Lemma draw_border_f_ok ind lens lc l c r : inert lc -> inert l -> inert c -> inert r ->
    step_ok (draw_border_f on ind lens lc l c r) (border_lines ind lens lc l c r).
  Proof.
    intros H1 H2 H3 H4. unfold step_ok, draw_border_f, border_lines. set (full := blanks ind ++ l ++ border_body lc c r lens).
    assert (HI : inert full) by (apply inert_app; [apply inert_blanks|]; apply inert_app; [exact H2|apply inert_border_body; assumption]).
    destruct (rstrip_split full) as (sp & E & F). destruct (t_rstrip full) as [|ch line] eqn:ER.
    - exists []. split; [reflexivity|constructor].
    - assert (HL : inert (ch :: line)) by (rewrite E in HI; apply Forall_app in HI; apply HI).
      rewrite out_write_no_lt by (apply Forall_app; split; [apply inert_no_lt, HL|repeat constructor; discriminate]).
      exists [(ch :: line) ++ [10%N]]. cbn [concat]. rewrite app_nil_r. split; [reflexivity|]. constructor; [|constructor].
      exists (ch :: line), sp. split; [|auto]. apply strips_text. apply Forall_app; split; [apply good_no_esc, inert_good, HL|repeat constructor; discriminate].
  Qed.

  (* the whole table *)
  Definition inert_style (s : tstyle) : Prop :=
    let b := t_border s in
    inert (t_hpre s) /\ inert (t_hsuf s) /\ inert (t_cpre s) /\ inert (t_csuf s) /\ inert (t_pad s) /\
    Forall inert [b_ht b; b_hc b; b_hb b; b_vl b; b_vc b; b_vr b; b_tl b; b_tr b; b_bl b; b_br b; b_cc b; b_cl b; b_ct b; b_cr b; b_cb b].
  Lemma draw_table_f_ok s header ind st al : inert_style s -> rows_good f (f_rows st) ->
    step_ok (draw_table_f on s header ind st al) (table_lines s header ind (vst f st) al).
  Proof.
    intros (P1 & P2 & P3 & P4 & P5 & PB) HG. unfold draw_table_f, table_lines. cbn [vst f_rows f_cols].
    repeat (apply Forall_cons_iff in PB as [? PB]).
    set (b := t_border s) in *. set (bl := map (fun l => l + excess s) (f_cols st)).
    assert (Hhd : Forall (good_cell f) (hd [] (f_rows st))) by (destruct HG; [constructor|assumption]).
    assert (Htl : rows_good f (tl (f_rows st))) by (destruct HG; [constructor|assumption]).
    replace (hd [] (map (map (vis f)) (f_rows st))) with (map (vis f) (hd [] (f_rows st))) by (destruct (f_rows st); reflexivity).
    replace (tl (map (map (vis f)) (f_rows st))) with (map (map (vis f)) (tl (f_rows st))) by (destruct (f_rows st); reflexivity).
    match goal with |- step_ok _ (?a ++ ?h ++ ?rws ++ ?z) =>
      replace (a ++ h ++ rws ++ z) with (concat ([a] ++ (match header with [] => [] | _ =>
        [row_lines b (t_hpre s) (t_hsuf s) (t_pad s) ind (map (vis f) (hd [] (f_rows st))) (f_cols st) al;
         border_lines ind bl (b_hc b) (b_cl b) (b_cc b) (b_cr b)] end) ++
        map (fun row => row_lines b (t_cpre s) (t_csuf s) (t_pad s) ind row (f_cols st) al)
            (match header with [] => map (map (vis f)) (f_rows st) | _ => map (map (vis f)) (tl (f_rows st)) end) ++ [z])) end.
    2:{ rewrite !concat_app. cbn [concat]. rewrite !app_nil_r. f_equal. f_equal.
        - destruct header; [reflexivity|]. cbn [concat]. now rewrite app_nil_r.
        - f_equal. rewrite <- flat_map_concat_map. reflexivity. }
    apply run_steps_ok. apply Forall2_app; [constructor; [apply draw_border_f_ok; assumption|constructor]|].
    apply Forall2_app.
    - destruct header; [constructor|]. constructor; [apply draw_row_f_ok; assumption|]. constructor; [apply draw_border_f_ok; assumption|constructor].
    - apply Forall2_app; [|constructor; [apply draw_border_f_ok; assumption|constructor]].
      assert (HB : rows_good f (match header with [] => f_rows st | _ => tl (f_rows st) end)) by (destruct header; assumption).
      replace (match header with [] => map (map (vis f)) (f_rows st) | _ => map (map (vis f)) (tl (f_rows st)) end)
        with (map (map (vis f)) (match header with [] => f_rows st | _ => tl (f_rows st) end)) by (destruct header; reflexivity).
      induction HB as [|row body Hrow _ IH]; cbn [map]; constructor; [apply draw_row_f_ok; assumption|exact IH].
  Qed.
End Draw.

(* ================================================================ E. the theorems *)
Lemma table_lines_width s n header ind st al : wf_style s -> (1 <= n)%nat -> 0 <= ind -> INV n st -> length al = n ->
  Forall (fun l => zlen l = full_width s (f_cols st) ind) (table_lines s header ind st al).
Proof.
  intros Hwf Hn Hind HI Hal. unfold table_lines.
  pose proof (inv_cells_fit _ _ HI) as CF. pose proof (inv_len _ _ HI) as Hlen. pose proof (inv_nonneg _ _ HI) as Hnn.
  assert (Hne : f_cols st <> []) by (destruct (f_cols st); [cbn in Hlen; lia|congruence]).
  pose proof Hwf as (Hp & Hfmt & B1 & B2 & B3).
  assert (Hh : zlen (t_hpre s) + zlen (t_hsuf s) = excess s) by (unfold excess; rewrite !zlen_app in *; lia).
  assert (Hc : zlen (t_cpre s) + zlen (t_csuf s) = excess s) by (unfold excess; rewrite !zlen_app in *; lia).
  assert (Hrow : forall pre suf row, zlen pre + zlen suf = excess s -> In row (f_rows st) ->
                 Forall (fun l => zlen l = full_width s (f_cols st) ind) (row_lines (t_border s) pre suf (t_pad s) ind row (f_cols st) al)).
  { intros pre suf row He Hin. unfold cells_fit in CF. rewrite Forall_forall in CF. specialize (CF row Hin).
    apply row_lines_width; auto; [|congruence]. intros ->. inversion CF as [E|]; subst. congruence. }
  repeat (apply Forall_app; split).
  - apply border_lines_width; assumption.
  - destruct header as [|h0 hs]; [constructor|]. apply Forall_app; split.
    + destruct (f_rows st) as [|row rs] eqn:R; [constructor|]. cbn [hd]. apply Hrow; [exact Hh|left; reflexivity].
    + apply border_lines_width; assumption.
  - apply Forall_flat_map. apply Forall_forall. intros row Hin. apply Hrow; [exact Hc|].
    destruct header; [exact Hin|]. destruct (f_rows st); [destruct Hin|right; exact Hin].
  - apply border_lines_width; assumption.
Qed.

(* the visible text of what was written: the SGR sequences removed *)
Lemma items_visible on f Xs PLs : Forall2 (line_item on f) Xs PLs ->
  exists vs, strips (concat Xs) (flat_map (fun v => v ++ [10%N]) vs) /\
             (decorated on f = false -> concat Xs = flat_map (fun v => v ++ [10%N]) vs) /\
             Forall2 (fun v PL => exists sp, PL = v ++ sp /\ Forall (fun c => is_space c = true) sp) vs PLs.
Proof.
  induction 1 as [|X PL Xs PLs (v & sp & S & D & E & F) _ (vs & S2 & D2 & F2)].
  - exists []. repeat split; constructor.
  - exists (v :: vs). cbn [concat flat_map]. split; [apply strips_app; assumption|]. split.
    + intros Hd. rewrite (D Hd), (D2 Hd). reflexivity.
    + constructor; [exists sp; auto|exact F2].
Qed.

Section Main.
  Variable share : Z -> Z -> Z -> Z.
  Variables (on : bool) (f : formatter).
  Hypothesis Hk : f_kind f <> FNull.

  (* the cells of the table as CellWrapper holds them, and their visible texts *)
  Definition table_cells (header : list str) (rows : list (list str)) : list str := map t_rstrip (header ++ concat rows).

  (* what render_table_f writes is, line by line, the tag-free table of the visible texts of the cells *)
  Theorem table_visible_commutes s n header rows W ind st text :
    inert_style s -> rows <> [] -> Forall (good_cell f) (table_cells header rows) ->
    render_table_f share on f s n header rows W ind = Ok (st, text) ->
    let cs := map (vis f) (table_cells header rows) in
    exists al Xs,
      render_pure (fun _ => false) share s n header cs (map zlen cs) W ind
        = Ok (vst f st, strip_lines (table_lines s header ind (vst f st) al)) /\
      length al = length (f_cols st) /\
      text = concat Xs /\ Forall2 (line_item on f) Xs (table_lines s header ind (vst f st) al).
  Proof.
    intros Hs Hne HG H cs. unfold render_table_f in H. destruct rows as [|r0 rows]; [congruence|].
    unfold fit_f in H. fold (table_cells header (r0 :: rows)) in H. set (cs0 := table_cells header (r0 :: rows)) in *.
    assert (E : (do x <- (do m <- measure f cs0; do st <- fit_g has_lt share (available_width s W ind (Z.of_nat n)) n cs0 (snd m); Ok (fst m, st));
                 do al <- alignments s (length (f_cols (snd x))); do d <- draw_table_f on s header ind (snd x) al (fst x); Ok (snd x, snd d)) = Ok (st, text)).
    { destruct n; [|exact H]. destruct cs0; [exact H|discriminate]. }
    clear H. rewrite (measure_good f cs0 HG) in E. cbn [bind fst snd] in E.
    replace (map (fun c => zlen (vis f c)) cs0) with (map zlen cs) in E by (unfold cs; now rewrite map_map).
    destruct (fit_g has_lt share (available_width s W ind (Z.of_nat n)) n cs0 (map zlen cs)) as [st0|k] eqn:F; cbn [bind fst snd] in E; [|discriminate].
    destruct (alignments s (length (f_cols st0))) as [al|k] eqn:A; cbn [bind] in E; [|discriminate].
    pose proof (fit_g_good f share _ _ _ _ _ HG F) as RG.
    destruct (draw_table_f_ok on f Hk s header ind st0 al Hs RG) as (Xs & D & I). rewrite D in E. cbn [bind fst snd] in E.
    injection E as <- <-. exists al, Xs. split; [|split; [exact (alignments_length _ _ _ A)|split; [reflexivity|exact I]]].
    unfold render_pure. subst cs. rewrite (fit_g_sim f share _ _ _ _ _ F). cbn [bind]. change (f_cols (vst f st0)) with (f_cols st0).
    rewrite A. cbn [bind]. now rewrite draw_table_lines.
  Qed.

  (* a rectangle within the terminal: the visible text of every line, followed by white space, has the table's width *)
  Theorem table_rect_tagged s n header rows W ind st text :
    wf_style s -> inert_style s -> (1 <= n)%nat -> 0 <= ind -> rows <> [] ->
    Z.of_nat n <= available_width s W ind (Z.of_nat n) ->
    Forall (good_cell f) (table_cells header rows) ->
    render_table_f share on f s n header rows W ind = Ok (st, text) ->
    (exists vs, strip_sgr text = flat_map (fun v => v ++ [10%N]) vs /\
                (decorated on f = false -> text = flat_map (fun v => v ++ [10%N]) vs) /\
                Forall (fun v => exists sp, Forall (fun c => is_space c = true) sp /\ zlen (v ++ sp) = full_width s (f_cols st) ind) vs) /\
    full_width s (f_cols st) ind <= W /\ length (f_cols st) = n.
  Proof.
    intros Hwf Hs Hn Hind Hne Hg HG H.
    destruct (table_visible_commutes s n header rows W ind st text Hs Hne HG H) as (al & Xs & P & Hal & -> & I).
    set (cs := map (vis f) (table_cells header rows)) in *.
    destruct (fit_g_spec wrap_lines_fit_lemma wrap_total_lemma share _ n cs Hn Hg) as (st1 & F1 & HI & Hsum).
    unfold render_pure in P. rewrite F1 in P. cbn [bind] in P.
    destruct (alignments s (length (f_cols st1))) as [al1|k]; cbn [bind] in P; [|discriminate]. injection P as E1 _.
    rewrite E1 in HI, Hsum. change (f_cols (vst f st)) with (f_cols st) in *.
    pose proof (inv_len _ _ HI) as Hlen. change (f_cols (vst f st)) with (f_cols st) in Hlen.
    pose proof (table_lines_width s n header ind (vst f st) al Hwf Hn Hind HI ltac:(lia)) as HW. change (f_cols (vst f st)) with (f_cols st) in HW.
    destruct (items_visible on f Xs _ I) as (vs & S & D & F2).
    split; [|split; [|exact Hlen]].
    - exists vs. split; [apply strips_sgr_strip, S|]. split; [exact D|].
      clear -F2 HW. induction F2 as [|v PL vs PLs (sp & -> & Fsp) _ IH]; [constructor|].
      apply Forall_cons_iff in HW as [H1 H2]. constructor; [exists sp; auto|auto].
    - unfold full_width. rewrite zsum_map_add, Hlen. unfold available_width, border_width in *. lia.
  Qed.

  (* every cell keeps its visible text: the rows CellWrapper holds are, cell by cell and white space aside, the
     visible texts of the table's cells, and the visible lines are those of the tag-free table drawn from them *)
  Lemma Forall2_map2 {X Y X' Y'} (R : X' -> Y' -> Prop) (g : X -> X') (h : Y -> Y') a b :
    Forall2 R (map g a) (map h b) -> Forall2 (fun x y => R (g x) (h y)) a b.
  Proof.
    revert b; induction a as [|x a IH]; intros [|y b] H; cbn [map] in H; inversion H; subst; constructor; auto.
  Qed.
  Theorem table_keeps_text_tagged s n header rows W ind st text :
    inert_style s -> (1 <= n)%nat -> rows <> [] ->
    Forall (fun r => length r = n) rows -> (header = [] \/ length header = n) ->
    Forall (good_cell f) (table_cells header rows) ->
    render_table_f share on f s n header rows W ind = Ok (st, text) ->
    Forall2 (Forall2 (fun wrapped cell => filter nsp (vis f wrapped) = filter nsp (vis f (t_rstrip cell))))
            (f_rows st) (match header with [] => rows | _ => header :: rows end) /\
    exists al vs, strip_sgr text = flat_map (fun v => v ++ [10%N]) vs /\
                  Forall2 (fun v PL => exists sp, PL = v ++ sp /\ Forall (fun c => is_space c = true) sp) vs
                          (table_lines s header ind (vst f st) al).
  Proof.
    intros Hs Hn Hne Hrows Hhdr HG H.
    destruct (table_visible_commutes s n header rows W ind st text Hs Hne HG H) as (al & Xs & P & Hal & -> & I).
    split.
    - set (X := match header with [] => rows | _ => header :: rows end).
      assert (HX : Forall (fun r => length r = n) X).
      { unfold X. destruct header as [|h hs]; [exact Hrows|]. constructor; [destruct Hhdr; [discriminate|assumption]|exact Hrows]. }
      assert (EX : header ++ concat rows = concat X) by (unfold X; destruct header; reflexivity).
      assert (EC : map (vis f) (table_cells header rows) = concat (map (map (fun c => vis f (t_rstrip c))) X)).
      { unfold table_cells. rewrite EX, map_map, concat_map. reflexivity. }
      rewrite EC in P.
      assert (HX' : Forall (fun r => length r = n) (map (map (fun c => vis f (t_rstrip c))) X)).
      { clear -HX. induction HX; cbn [map]; constructor; auto. rewrite map_length. assumption. }
      pose proof (table_keeps_pure wrap_lines_fit_lemma wrap_keeps_text_lemma share _ s n header _ W ind _ _ Hn HX' P) as K.
      unfold rows_same in K. cbn [vst f_rows] in K. apply Forall2_map2 in K.
      clear -K. induction K as [|r r' a b Hr _ IH]; constructor; [|exact IH]. apply Forall2_map2 in Hr. exact Hr.
    - destruct (items_visible on f Xs _ I) as (vs & S & _ & F2). exists al, vs. split; [apply strips_sgr_strip, S|exact F2].
  Qed.
End Main.

(* ================================================================ F. the tag-free table is the special case *)
Definition rows_nolt (rows : list (list str)) : Prop := Forall (Forall no_lt) rows.
Lemma wrap_cell_nolt w cu cell len : no_lt cell ->
  wrap_cell has_lt w cu cell len = wrap_cell (fun _ => false) w cu cell len /\
  forall c' l' wr cu', wrap_cell has_lt w cu cell len = Ok (c', l', wr, cu') -> no_lt c'.
Proof.
  intros Hl. unfold wrap_cell. pose proof (proj2 (has_lt_false cell) Hl) as E. rewrite E. split; [reflexivity|].
  intros c' l' wr cu'. destruct (w <? len); [|intros H; injection H as <- _ _ _; exact Hl].
  destruct (wrap cell w) as [ls|e] eqn:W; cbn [bind]; [|discriminate]. intros H; injection H as <- _ _ _.
  apply (wrap_chars _ cell w ls space_not_lt Hl W).
Qed.
Lemma nth_nolt col row : Forall no_lt row -> no_lt (nth col row []).
Proof. intros H. revert col. induction H as [|c r Hc _ IH]; intros [|col]; cbn [nth]; auto; constructor. Qed.
Lemma wrap_col_nolt col w : forall rows lens wr cu, rows_nolt rows ->
  wrap_col has_lt col w rows lens wr cu = wrap_col (fun _ => false) col w rows lens wr cu /\
  forall rs ls wr' cu', wrap_col has_lt col w rows lens wr cu = Ok (rs, ls, wr', cu') -> rows_nolt rs.
Proof.
  induction rows as [|row rows IH]; intros lens wr cu HG; cbn [wrap_col].
  - split; [reflexivity|]. intros rs ls wr' cu' H. injection H as <- _ _ _. constructor.
  - destruct lens as [|ln lens]; [split; [reflexivity|intros rs ls wr' cu' H; injection H as <- _ _ _; constructor]|].
    apply Forall_cons_iff in HG as [Hrow Hrows].
    destruct (wrap_cell_nolt w cu (nth col row []) (nth col ln 0) (nth_nolt col row Hrow)) as [E1 N1]. rewrite <- E1.
    destruct (wrap_cell has_lt w cu (nth col row []) (nth col ln 0)) as [[[[c' l'] wrapped] cu1]|k] eqn:WC; cbn [bind]; [|split; [reflexivity|discriminate]].
    destruct (IH lens (wr || wrapped) cu1 Hrows) as [E2 N2]. rewrite <- E2.
    destruct (wrap_col has_lt col w rows lens (wr || wrapped) cu1) as [[[[rs1 ls1] wr1] cu2]|k] eqn:WR; cbn [bind]; [|split; [reflexivity|discriminate]].
    split; [reflexivity|]. intros rs ls wr' cu' H. injection H as <- _ _ _. constructor; [|eapply N2; reflexivity].
    apply Forall_set_nth; [exact Hrow|]. eapply N1; reflexivity.
Qed.
Lemma fit_column_nolt col w st : rows_nolt (f_rows st) ->
  fit_column has_lt col w st = fit_column (fun _ => false) col w st /\
  forall st', fit_column has_lt col w st = Ok st' -> rows_nolt (f_rows st').
Proof.
  intros HG. unfold fit_column. destruct (wrap_col_nolt col w (f_rows st) (f_lens st) (f_wraps st) (f_cuts st) HG) as [E N]. rewrite <- E.
  split; [reflexivity|]. intros st'.
  destruct (wrap_col has_lt col w (f_rows st) (f_lens st) (f_wraps st) (f_cuts st)) as [[[[rs ls] wr] cu]|k]; cbn [bind]; [|discriminate].
  intros H; injection H as <-. cbn [f_rows]. eapply N; reflexivity.
Qed.
Lemma distribute_nolt share av : forall long col actual rem st, rows_nolt (f_rows st) ->
  distribute has_lt share av long col actual rem st = distribute (fun _ => false) share av long col actual rem st /\
  forall st', distribute has_lt share av long col actual rem st = Ok st' -> rows_nolt (f_rows st').
Proof.
  induction long as [|[len|] r IH]; intros col actual rem st HG; cbn [distribute].
  - split; [reflexivity|]. intros st' H; injection H as <-; exact HG.
  - destruct (if count_some r =? 0 then Ok rem else if actual =? 0 then Err (Other 9)
              else Ok (Z.max 1 (Z.min (share len actual av) (rem - count_some r)))) as [w|k]; cbn [bind]; [|split; [reflexivity|discriminate]].
    destruct (fit_column_nolt col w st HG) as [E N]. rewrite <- E.
    destruct (fit_column has_lt col w st) as [st1|k]; cbn [bind]; [|split; [reflexivity|discriminate]].
    apply IH. apply N. reflexivity.
  - apply IH, HG.
Qed.
Lemma fit_g_nolt share max_total n cells lens : Forall no_lt cells ->
  fit_g has_lt share max_total n cells lens = fit_g (fun _ => false) share max_total n cells lens /\
  forall st, fit_g has_lt share max_total n cells lens = Ok st -> rows_nolt (f_rows st).
Proof.
  intros HG. unfold fit_g. destruct (init_state_l n cells lens) as [st0|k] eqn:E0; cbn [bind]; [|split; [reflexivity|discriminate]].
  assert (G0 : rows_nolt (f_rows st0)).
  { unfold init_state_l in E0.
    assert (R : f_rows st0 = map (pad_row n) (chunk (length cells) n cells)).
    { destruct n; [destruct cells; [|discriminate]|]; injection E0 as <-; reflexivity. }
    rewrite R. unfold rows_nolt. apply Forall_map. eapply Forall_impl; [|apply (chunk_Forall no_lt n _ _ HG)].
    intros r Hr. unfold pad_row. apply Forall_app; split; [exact Hr|]. clear. induction (n - length r)%nat; cbn; constructor; auto. constructor. }
  destruct (zsum (f_cols st0) <=? max_total); [split; [reflexivity|intros st H; injection H as <-; exact G0]|].
  destruct n; [split; [reflexivity|discriminate]|].
  destruct (short_loop (S (S n)) (Z.of_nat (S n)) (map Some (f_cols st0)) max_total) as [[av long]|]; [|split; [reflexivity|discriminate]].
  apply distribute_nolt, G0.
Qed.
Lemma measure_nolt f cs : Forall no_lt cs -> measure f cs = Ok (f, map zlen cs).
Proof.
  induction 1 as [|c cs Hc _ IH]; [reflexivity|]. cbn [measure map]. rewrite (remove_format_no_lt f c Hc). cbn [bind fst snd]. now rewrite IH.
Qed.

Section TagFree.
  Variables (on : bool) (f : formatter).
  Definition nolt_style (s : tstyle) : Prop :=
    let b := t_border s in
    no_lt (t_hpre s) /\ no_lt (t_hsuf s) /\ no_lt (t_cpre s) /\ no_lt (t_csuf s) /\ no_lt (t_pad s) /\
    Forall no_lt [b_ht b; b_hc b; b_hb b; b_vl b; b_vc b; b_vr b; b_tl b; b_tr b; b_bl b; b_br b; b_cc b; b_cl b; b_ct b; b_cr b; b_cb b].
  Lemma nolt_app a b : no_lt a -> no_lt b -> no_lt (a ++ b). Proof. intros; apply Forall_app; split; assumption. Qed.
  Lemma nolt_rep pad t : no_lt pad -> no_lt (rep pad t).
  Proof. intros H. unfold rep. induction (Z.to_nat t); cbn [repeat concat]; [constructor|apply nolt_app; assumption]. Qed.
  Lemma nolt_blanks k : no_lt (blanks k).
  Proof. unfold blanks. induction (Z.to_nat k); cbn [repeat]; constructor; auto. discriminate. Qed.
  Lemma nolt_fill pad a t p : no_lt pad -> no_lt p -> no_lt (fill pad a t p).
  Proof. intros H1 H2. unfold fill. destruct (a =? 0); [|destruct (a =? 1)]; repeat apply nolt_app; auto using nolt_rep. Qed.
  Lemma nolt_rstrip s : no_lt s -> no_lt (t_rstrip s).
  Proof. intros H. destruct (rstrip_split s) as (sp & E & _). rewrite E in H. apply Forall_app in H. apply H. Qed.
  Lemma nolt_border_body lc c r lens : no_lt lc -> no_lt c -> no_lt r -> no_lt (border_body lc c r lens).
  Proof.
    intros H1 H2 H3. induction lens as [|x lens IH]; cbn [border_body]; [constructor|]. destruct lens as [|y lens].
    - apply nolt_app; [apply nolt_rep, H1|exact H3].
    - apply nolt_app; [apply nolt_rep, H1|]. apply nolt_app; [exact H2|exact IH].
  Qed.
  Lemma draw_border_f_free ind lens lc l c r : no_lt lc -> no_lt l -> no_lt c -> no_lt r ->
    draw_border_f on ind lens lc l c r f = Ok (f, draw_border ind lens lc l c r).
  Proof.
    intros H1 H2 H3 H4. unfold draw_border_f, draw_border.
    assert (HL : no_lt (t_rstrip (blanks ind ++ l ++ border_body lc c r lens))).
    { apply nolt_rstrip, nolt_app; [apply nolt_blanks|]. apply nolt_app; [exact H2|apply nolt_border_body; assumption]. }
    destruct (t_rstrip (blanks ind ++ l ++ border_body lc c r lens)) as [|ch line]; [reflexivity|].
    apply out_write_no_lt. apply nolt_app; [exact HL|repeat constructor; discriminate].
  Qed.
  Lemma row_steps_free pre suf pad vc vr i : no_lt pre -> no_lt suf -> no_lt pad -> no_lt vc -> no_lt vr ->
    forall cells cols al, Forall (Forall no_lt) cells ->
    run_steps (row_steps pre suf pad vc vr i cells cols al) f = Ok (f, row_line pre suf pad vc vr i cells cols al) /\
    no_lt (row_line pre suf pad vc vr i cells cols al).
  Proof.
    intros H1 H2 H3 H4 H5 cells cols al H. revert cols al.
    induction H as [|c cells Hc Hrest IH]; intros cols al; cbn [row_steps row_line]; [split; [reflexivity|constructor]|].
    destruct cols as [|w cols]; [split; [reflexivity|constructor]|]. destruct al as [|a al]; [split; [reflexivity|constructor]|].
    destruct (IH cols al) as [E2 N2]. cbn [run_steps]. unfold cell_f at 1.
    assert (Hp : no_lt (nth i c [])) by (clear -Hc; revert i; induction Hc; intros [|i]; cbn [nth]; auto; constructor).
    rewrite (remove_format_no_lt f _ Hp). cbn [bind fst snd]. rewrite E2. cbn [bind fst snd]. unfold pad_cell.
    assert (Hsep : no_lt (match cells with [] => vr | _ => vc end)) by (destruct cells; assumption).
    destruct (w - zlen (nth i c []) <? 0); [split; [reflexivity|exact N2]|].
    split; [now rewrite <- !app_assoc|]. repeat apply nolt_app; auto using nolt_fill.
  Qed.
  Lemma draw_row_f_free b pre suf pad ind row cols al : no_lt pre -> no_lt suf -> no_lt pad ->
    no_lt (b_vl b) -> no_lt (b_vc b) -> no_lt (b_vr b) -> Forall no_lt row ->
    draw_row_f on b pre suf pad ind row cols al f = Ok (f, draw_row b pre suf pad ind row cols al).
  Proof.
    intros H1 H2 H3 H4 H5 H6 HG. unfold draw_row_f, draw_row. cbv zeta.
    assert (HC : Forall (Forall no_lt) (map (split_on 10%N) row)).
    { apply Forall_map. eapply Forall_impl; [|exact HG]. intros c Hc. apply split_P, Hc. }
    generalize (seq 0 (fold_right Nat.max O (map (@length str) (map (split_on 10%N) row)))). intros l.
    induction l as [|i l IH]; [reflexivity|]. cbn [map flat_map]. apply steps_cons; [|exact IH].
    unfold line_f. destruct (row_steps_free pre suf pad (b_vc b) (b_vr b) i H1 H2 H3 H5 H6 _ cols al HC) as [E N]. rewrite E. cbn [bind fst snd].
    apply out_write_no_lt. apply nolt_app; [|repeat constructor; discriminate].
    apply nolt_rstrip, nolt_app; [apply nolt_blanks|]. apply nolt_app; assumption.
  Qed.
  Lemma draw_table_f_free s header ind st al : nolt_style s -> rows_nolt (f_rows st) ->
    draw_table_f on s header ind st al f = Ok (f, draw_table s header ind st al).
  Proof.
    intros (P1 & P2 & P3 & P4 & P5 & PB) HG. unfold draw_table_f, draw_table. cbv zeta.
    repeat (apply Forall_cons_iff in PB as [? PB]).
    assert (Hhd : Forall no_lt (hd [] (f_rows st))) by (destruct HG; [constructor|assumption]).
    assert (Htl : rows_nolt (tl (f_rows st))) by (destruct HG; [constructor|assumption]).
    cbn [app]. apply steps_cons; [apply draw_border_f_free; assumption|].
    assert (HB : rows_nolt (match header with [] => f_rows st | _ => tl (f_rows st) end)) by (destruct header; assumption).
    assert (Hbody : run_steps (map (fun row => draw_row_f on (t_border s) (t_cpre s) (t_csuf s) (t_pad s) ind row (f_cols st) al)
                                   (match header with [] => f_rows st | _ => tl (f_rows st) end) ++
                               [draw_border_f on ind (map (fun l => l + excess s) (f_cols st)) (b_hb (t_border s)) (b_bl (t_border s)) (b_cb (t_border s)) (b_br (t_border s))]) f
                    = Ok (f, flat_map (fun row => draw_row (t_border s) (t_cpre s) (t_csuf s) (t_pad s) ind row (f_cols st) al)
                                      (match header with [] => f_rows st | _ => tl (f_rows st) end) ++
                             draw_border ind (map (fun l => l + excess s) (f_cols st)) (b_hb (t_border s)) (b_bl (t_border s)) (b_cb (t_border s)) (b_br (t_border s)))).
    { induction HB as [|row body Hrow _ IH]; cbn [map flat_map app].
      - rewrite <- (app_nil_r (draw_border _ _ _ _ _ _)). apply steps_cons; [apply draw_border_f_free; assumption|reflexivity].
      - rewrite <- app_assoc. apply steps_cons; [apply draw_row_f_free; assumption|exact IH]. }
    destruct header as [|h hs]; cbn [app]; [exact Hbody|].
    rewrite <- app_assoc. apply steps_cons; [apply draw_row_f_free; assumption|].
    apply steps_cons; [apply draw_border_f_free; assumption|exact Hbody].
  Qed.

  (* on a table whose cells and style hold no '<' the formatter plays no part: render_table_f is render_table *)
  Theorem render_f_tag_free share s n header rows W ind : nolt_style s -> Forall no_lt (header ++ concat rows) ->
    render_table_f share on f s n header rows W ind = render_table share s n header rows W ind.
  Proof.
    intros Hs HC. unfold render_table_f, render_table. destruct rows as [|r0 rows]; [reflexivity|].
    set (cs := map t_rstrip (header ++ concat (r0 :: rows))).
    assert (HN : Forall no_lt cs).
    { unfold cs. apply Forall_map. eapply Forall_impl; [|exact HC]. intros c Hc. apply nolt_rstrip, Hc. }
    unfold fit_f, render_pure. fold cs.
    assert (E : (match n, cs with
                 | O, _ :: _ => Err (Other 3)
                 | _, _ => do m <- measure f cs; do st <- fit_g has_lt share (available_width s W ind (Z.of_nat n)) n cs (snd m); Ok (fst m, st)
                 end) = do st <- fit_g (fun _ => false) share (available_width s W ind (Z.of_nat n)) n cs (map zlen cs); Ok (f, st)).
    { rewrite (measure_nolt f cs HN). cbn [bind fst snd]. rewrite (proj1 (fit_g_nolt share _ n cs (map zlen cs) HN)).
      destruct n; [|reflexivity]. destruct cs; [reflexivity|]. unfold fit_g, init_state_l. reflexivity. }
    rewrite E. clear E.
    destruct (fit_g (fun _ => false) share (available_width s W ind (Z.of_nat n)) n cs (map zlen cs)) as [st|k] eqn:F; cbn [bind fst snd]; [|reflexivity].
    destruct (alignments s (length (f_cols st))) as [al|k]; cbn [bind]; [|reflexivity].
    rewrite <- (proj1 (fit_g_nolt share _ n cs (map zlen cs) HN)) in F.
    rewrite (draw_table_f_free s header ind st al Hs (proj2 (fit_g_nolt share _ n cs (map zlen cs) HN) st F)). reflexivity.
  Qed.
End TagFree.

(* where the text of a cell line sits: between padding, inside the cell format, before its separator *)
Lemma pad_cell_holds pad a w v x : pad_cell pad a w v = Some x -> exists k1 k2, x = rep pad k1 ++ v ++ rep pad k2.
Proof.
  unfold pad_cell, fill. destruct (w - zlen v <? 0); [discriminate|]. intros H; injection H as <-.
  destruct (a =? 0); [exists 0, (w - zlen v); reflexivity|]. destruct (a =? 1); [exists (w - zlen v), 0; now rewrite app_nil_r|].
  eexists; eexists; reflexivity.
Qed.
Lemma row_line_unfold pre suf pad vc vr i c cells w cols a al :
  row_line pre suf pad vc vr i (c :: cells) (w :: cols) (a :: al)
  = (match pad_cell pad a w (nth i c []) with Some x => pre ++ x ++ suf ++ (match cells with [] => vr | _ => vc end) | None => [] end)
    ++ row_line pre suf pad vc vr i cells cols al.
Proof. reflexivity. Qed.
