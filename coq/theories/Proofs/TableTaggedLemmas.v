(* Proofs about the table model with the formatter threaded through (C14, style-tagged cells):
   on tag-free tables render_table_f is render_table; on tables whose cells are good markup and in which no cell
   holding '<' has to be wrapped, the visible text of what render_table_f writes is, line by line, the tag-free
   table of the cells' visible texts - hence a rectangle within the terminal that keeps every cell's visible text. *)
From Coq Require Import Lia ZifyBool.
From Clikit Require Import Base.Prelude Base.Res Model.Conv Model.Markup Model.OutputM Model.Wrap Model.Table
  Proofs.MarkupLemmas Proofs.WrapLemmas Proofs.TableLemmas.
Local Open Scope Z_scope.

(* ================================================================ A. the markup layer *)
Lemma unescape_no_lt s : no_lt s -> unescape s = s.
Proof.
  induction 1 as [|c s Hc Hs IH]; [reflexivity|]. cbn [unescape]. destruct s as [|d s']; [reflexivity|].
  inversion Hs as [|? ? Hd _]; subst. destruct (N.eqb_spec d LT); [contradiction|]. rewrite Bool.andb_false_r. now rewrite IH.
Qed.

Lemma fmt_eta f : {| f_kind := f_kind f; f_styles := f_styles f; f_stack := f_stack f |} = f.
Proof. destruct f; reflexivity. Qed.

Lemma colorize_no_lt sty colored sk m : no_lt m -> colorize sty colored sk m = Ok (sk, m).
Proof. intros H. unfold colorize. rewrite (lex_no_tag m H), (unescape_no_lt m H). reflexivity. Qed.
Lemma remove_format_no_lt f m : no_lt m -> remove_format f m = Ok (f, m).
Proof.
  intros H. destruct f as [k sty sk]. unfold remove_format. cbn [f_kind f_styles f_stack].
  destruct k; try reflexivity; rewrite (colorize_no_lt _ _ _ _ H); reflexivity.
Qed.
Lemma format_no_lt f m : no_lt m -> format f m None = Ok (f, m).
Proof.
  intros H. destruct f as [k sty sk]. unfold format. cbn [f_kind f_styles f_stack].
  destruct k; try reflexivity; rewrite (colorize_no_lt _ _ _ _ H); reflexivity.
Qed.
Lemma out_write_no_lt on f m : no_lt m -> out_write on f m = Ok (f, m).
Proof. intros H. unfold out_write. destruct on; [apply format_no_lt|apply remove_format_no_lt]; exact H. Qed.

(* ---- the scanner on a concatenation ---- *)
Definition mkst (d : list (str * tag)) (c : str) (k : cand) : lexst := {| l_done := d; l_cur := c; l_cand := k |}.
(* the state reached from (done0, cur0) in terms of the state reached from ([], []) *)
Definition shift (done0 : list (str * tag)) (cur0 : str) (st : lexst) : lexst :=
  match l_done st with
  | [] => mkst done0 (cur0 ++ l_cur st) (l_cand st)
  | (pre, t) :: r => mkst (done0 ++ (cur0 ++ pre, t) :: r) (l_cur st) (l_cand st)
  end.
Lemma lex_step_shift done0 cur0 st c : lex_step (shift done0 cur0 st) c = shift done0 cur0 (lex_step st c).
Proof.
  destruct st as [d cu k]. unfold shift, lex_step, mkst. cbn [l_done l_cur l_cand].
  destruct d as [|[pre t] r]; cbn [l_done l_cur l_cand app].
  - destruct (N.eqb c LT); cbn [l_done l_cur l_cand]; [now rewrite <- !app_assoc|].
    destruct k as [| | |cl nm]; cbn [l_done l_cur l_cand raw_of app].
    + now rewrite <- !app_assoc.
    + destruct (N.eqb c SLASH); [reflexivity|]. destruct (tag_start c); cbn [l_done l_cur l_cand]; [reflexivity|now rewrite <- !app_assoc].
    + destruct (N.eqb c GT); cbn [l_done l_cur l_cand app]; [reflexivity|]. destruct (tag_start c); cbn [l_done l_cur l_cand]; [reflexivity|now rewrite <- !app_assoc].
    + destruct (N.eqb c GT); cbn [l_done l_cur l_cand app]; [reflexivity|]. destruct (tag_char c); cbn [l_done l_cur l_cand]; [reflexivity|now rewrite <- !app_assoc].
  - destruct (N.eqb c LT); cbn [l_done l_cur l_cand app]; [reflexivity|].
    destruct k as [| | |cl nm]; cbn [l_done l_cur l_cand raw_of app].
    + reflexivity.
    + destruct (N.eqb c SLASH); [reflexivity|]. destruct (tag_start c); reflexivity.
    + destruct (N.eqb c GT); cbn [l_done l_cur l_cand app]; [now rewrite <- app_assoc|]. destruct (tag_start c); reflexivity.
    + destruct (N.eqb c GT); cbn [l_done l_cur l_cand app]; [now rewrite <- app_assoc|]. destruct (tag_char c); reflexivity.
Qed.
Lemma fold_shift done0 cur0 m : forall st, fold_left lex_step m (shift done0 cur0 st) = shift done0 cur0 (fold_left lex_step m st).
Proof. induction m as [|c m IH]; intros st; cbn [fold_left]; [reflexivity|]. rewrite lex_step_shift. apply IH. Qed.

Definition prefix_first (a : str) (segs : list (str * tag)) : list (str * tag) :=
  match segs with [] => [] | (pre, t) :: r => (a ++ pre, t) :: r end.
(* x ends outside a tag candidate (its tail holds no '<'): the scanner goes on with y as if from the start *)
Lemma lex_app x y : no_lt (snd (lex x)) ->
  lex (x ++ y) = (fst (lex x) ++ prefix_first (snd (lex x)) (fst (lex y)),
                  (match fst (lex y) with [] => snd (lex x) | _ => [] end) ++ snd (lex y)).
Proof.
  unfold lex at 1 2 3. unfold lex_end. cbn [fst snd]. intros H. rewrite fold_left_app.
  destruct (fold_left lex_step x lex_init) as [d c k] eqn:E. cbn [l_done l_cur l_cand] in *.
  assert (k = CText) as ->.
  { apply Forall_app in H as [_ H]. destruct k; cbn in H; try reflexivity; inversion H; congruence. }
  cbn [raw_of] in *. rewrite app_nil_r in *.
  replace {| l_done := d; l_cur := c; l_cand := CText |} with (shift d c lex_init)
    by (unfold shift, lex_init, mkst; cbn; now rewrite app_nil_r).
  rewrite fold_shift. unfold lex, lex_end. rewrite E. destruct (fold_left lex_step y lex_init) as [d2 c2 k2]. unfold shift, mkst. cbn [l_done l_cur l_cand fst snd raw_of].
  destruct d2 as [|[pre t] r]; cbn [l_done l_cur l_cand prefix_first].
  - now rewrite !app_nil_r, <- app_assoc.
  - now rewrite !app_nil_r.
Qed.

(* white space (and the line break) never continues a tag candidate *)
Definition ws_char (c : N) : Prop := c <> LT /\ c <> SLASH /\ c <> GT /\ tag_char c = false /\ tag_start c = false.
Lemma space_ws c : is_space c = true -> ws_char c.
Proof.
  unfold is_space. cbn [existsb]. rewrite !Bool.orb_true_iff. intros H.
  repeat (destruct H as [H|H]; [apply N.eqb_eq in H; subst c; repeat split; try discriminate; reflexivity|]). discriminate.
Qed.
Lemma lex_step_ws d c k ch : ws_char ch -> lex_step (mkst d c k) ch = mkst d (c ++ raw_of k ++ [ch]) CText.
Proof.
  intros (H1 & H2 & H3 & H4 & H5). unfold lex_step, mkst. cbn [l_done l_cur l_cand].
  destruct (N.eqb_spec ch LT); [contradiction|]. destruct k as [| | |cl nm]; cbn [raw_of].
  - reflexivity.
  - destruct (N.eqb_spec ch SLASH); [contradiction|]. rewrite H5. reflexivity.
  - destruct (N.eqb_spec ch GT); [contradiction|]. rewrite H5. reflexivity.
  - destruct (N.eqb_spec ch GT); [contradiction|]. rewrite H4. reflexivity.
Qed.
Lemma lex_app_ws x ws : Forall ws_char ws -> lex (x ++ ws) = (fst (lex x), snd (lex x) ++ ws).
Proof.
  intros H. unfold lex, lex_end. rewrite fold_left_app. destruct (fold_left lex_step x lex_init) as [d c k]. cbn [fst snd l_done l_cur l_cand].
  destruct H as [|ch ws Hc Hw]; cbn [fold_left]; [now rewrite app_nil_r|].
  change {| l_done := d; l_cur := c; l_cand := k |} with (mkst d c k). rewrite (lex_step_ws d c k ch Hc). unfold mkst.
  rewrite lex_text. 2:{ eapply Forall_impl; [|exact Hw]. intros a Ha. apply Ha. }
  cbn [l_done l_cur l_cand raw_of]. now rewrite app_nil_r, <- !app_assoc.
Qed.

(* ---- the undecorated rendering of a message without backslash ---- *)
Local Opaque lex.
Fixpoint segs_run (sty : styles) (segs : list (str * tag)) (sk : stack) : res (stack * str) :=
  match segs with
  | [] => Ok (sk, [])
  | (pre, t) :: r => do x <- do_tag sty false false t sk; do y <- segs_run sty r (fst x); Ok (fst y, pre ++ snd x ++ snd y)
  end.
Lemma run_segs_plain_run sty : forall segs sk out first le, Forall (segP (fun c => c <> BSL)) segs ->
  run_segs sty false false first segs sk out le
  = do y <- segs_run sty segs sk; Ok (fst y, out ++ snd y, match segs with [] => le | _ => false end).
Proof.
  induction segs as [|[pre t] r IH]; intros sk out first le Hs; cbn [run_segs segs_run bind fst snd]; [now rewrite app_nil_r|].
  inversion Hs as [|? ? [Hpre _] Hr]; subst. cbn [fst] in Hpre.
  assert ((match pre with [] => first && false | _ :: _ => ends_with_bsl pre end) = false) as ->.
  { destruct pre; [apply Bool.andb_false_r|]. apply no_bsl_ends, Hpre. }
  destruct (do_tag sty false false t sk) as [[s1 p1]|e]; cbn [bind fst snd]; [|reflexivity].
  rewrite (IH s1 _ false false Hr). destruct (segs_run sty r s1) as [[s2 o2]|e]; cbn [bind fst snd]; [|reflexivity].
  rewrite apply_cur_false, <- !app_assoc. destruct r; reflexivity.
Qed.
Lemma do_tag_plain_out P sty raw cl nm sk s p : Forall P raw -> do_tag sty false false (Tag raw cl nm) sk = Ok (s, p) -> Forall P p.
Proof.
  intros Hr. unfold do_tag. destruct (cl && match nm with [] => true | _ => false end); [intros H; injection H as _ <-; constructor|].
  destruct (resolve sty (py_lower nm)) as [[st|]|e]; cbn [bind]; try discriminate.
  - destruct cl; [destruct (pop_style st sk); cbn [bind]; try discriminate|]; intros H; injection H as _ <-; constructor.
  - intros H; injection H as _ <-. rewrite apply_cur_false. exact Hr.
Qed.
Lemma segs_run_P (P : N -> Prop) sty : forall segs sk s o, Forall (segP P) segs -> segs_run sty segs sk = Ok (s, o) -> Forall P o.
Proof.
  induction segs as [|[pre [raw cl nm]] r IH]; intros sk s o Hs H; cbn [segs_run] in H; [injection H as _ <-; constructor|].
  inversion Hs as [|? ? [Hpre Hraw] Hr]; subst. cbn [fst snd tagP] in *.
  destruct (do_tag sty false false (Tag raw cl nm) sk) as [[s1 p1]|e] eqn:D; cbn [bind fst snd] in H; [|discriminate].
  destruct (segs_run sty r s1) as [[s2 o2]|e] eqn:R; cbn [bind fst snd] in H; [|discriminate]. injection H as _ <-.
  apply Forall_app; split; [exact Hpre|]. apply Forall_app; split; [eapply do_tag_plain_out; eauto|eapply IH; eauto].
Qed.
Lemma colorize_plain sty sk m : no_bsl m ->
  colorize sty false sk m = do y <- segs_run sty (fst (lex m)) sk; Ok (fst y, snd y ++ snd (lex m)).
Proof.
  intros Hm. unfold colorize. destruct (lex_P (fun c => c <> BSL) m Hm) as [Hsegs Htail].
  pose proof (lex_lossless m) as HL. destruct (lex m) as [segs tail] eqn:EL. cbn [fst snd] in *.
  destruct segs as [|sg segs'] eqn:ES.
  - cbn [segs_run bind fst snd app]. cbn in HL. subst tail. now rewrite (unescape_id m Hm).
  - rewrite <- ES in *. rewrite (no_bsl_ends m Hm), (run_segs_plain_run sty segs sk [] true false Hsegs).
    destruct (segs_run sty segs sk) as [[s o]|e] eqn:R; cbn [bind fst snd app]; [|reflexivity].
    rewrite ES at 1. rewrite !apply_cur_false, removelast_lastchar, unescape_id; [reflexivity|].
    apply Forall_app; split; [eapply (segs_run_P (fun c => c <> BSL)); eauto|exact Htail].
Qed.
Lemma segs_run_app sty a : forall sk b,
  segs_run sty (a ++ b) sk = do x <- segs_run sty a sk; do y <- segs_run sty b (fst x); Ok (fst y, snd x ++ snd y).
Proof.
  induction a as [|[pre t] a IH]; intros sk b; cbn [app segs_run bind fst snd].
  - destruct (segs_run sty b sk) as [[s o]|e]; reflexivity.
  - destruct (do_tag sty false false t sk) as [[s1 p1]|e]; cbn [bind fst snd]; [|reflexivity]. rewrite IH.
    destruct (segs_run sty a s1) as [[s2 o2]|e]; cbn [bind fst snd]; [|reflexivity].
    destruct (segs_run sty b s2) as [[s3 o3]|e]; cbn [bind fst snd]; [|reflexivity]. now rewrite <- !app_assoc.
Qed.
Lemma segs_run_prefix sty a segs sk : segs <> [] ->
  segs_run sty (prefix_first a segs) sk = do y <- segs_run sty segs sk; Ok (fst y, a ++ snd y).
Proof.
  destruct segs as [|[pre t] r]; [congruence|]. intros _. cbn [prefix_first segs_run].
  destruct (do_tag sty false false t sk) as [[s1 p1]|e]; cbn [bind fst snd]; [|reflexivity].
  destruct (segs_run sty r s1) as [[s2 o2]|e]; cbn [bind fst snd]; [|reflexivity]. now rewrite <- !app_assoc.
Qed.

(* the undecorated rendering of  x ++ y  when that of x leaves no '<' behind *)
Lemma colorize_plain_app sty sk x y sk1 vx sk2 vy : no_bsl x -> no_bsl y ->
  colorize sty false sk x = Ok (sk1, vx) -> no_lt vx -> colorize sty false sk1 y = Ok (sk2, vy) ->
  colorize sty false sk (x ++ y) = Ok (sk2, vx ++ vy).
Proof.
  intros Hx Hy Cx Hv Cy. rewrite colorize_plain in Cx, Cy by assumption. rewrite colorize_plain by (apply Forall_app; split; assumption).
  destruct (segs_run sty (fst (lex x)) sk) as [[s1 o1]|e] eqn:R1; cbn [bind fst snd] in Cx; [|discriminate]. injection Cx as -> <-.
  destruct (segs_run sty (fst (lex y)) sk1) as [[s2 o2]|e] eqn:R2; cbn [bind fst snd] in Cy; [|discriminate]. injection Cy as -> <-.
  rewrite lex_app by (apply Forall_app in Hv as [_ H]; exact H). cbn [fst snd].
  rewrite segs_run_app, R1. cbn [bind fst snd].
  destruct (fst (lex y)) as [|sg r] eqn:E.
  - cbn [prefix_first segs_run bind fst snd]. cbn [segs_run] in R2. injection R2 as -> <-. now rewrite !app_nil_r, <- !app_assoc.
  - rewrite <- E in *. rewrite segs_run_prefix by (rewrite E; congruence). rewrite R2. cbn [bind fst snd]. cbn [app]. now rewrite <- !app_assoc.
Qed.
(* white space after x: the same tags, the white space appended *)
Lemma colorize_plain_ws sty sk x ws : no_bsl x -> Forall ws_char ws -> no_bsl ws ->
  colorize sty false sk (x ++ ws) = do r <- colorize sty false sk x; Ok (fst r, snd r ++ ws).
Proof.
  intros Hx Hw Hb. rewrite !colorize_plain by (try apply Forall_app; try split; assumption). rewrite lex_app_ws by exact Hw. cbn [fst snd].
  destruct (segs_run sty (fst (lex x)) sk) as [[s o]|e]; cbn [bind fst snd]; [|reflexivity]. now rewrite <- app_assoc.
Qed.
(* every character of the undecorated rendering is a character of the message *)
Lemma colorize_plain_P (P : N -> Prop) sty sk m s v : Forall P m -> no_bsl m -> colorize sty false sk m = Ok (s, v) -> Forall P v.
Proof.
  intros Hm Hb C. rewrite colorize_plain in C by exact Hb. destruct (lex_P P m Hm) as [Hs Ht].
  destruct (segs_run sty (fst (lex m)) sk) as [[s1 o1]|e] eqn:R; cbn [bind fst snd] in C; [|discriminate]. injection C as _ <-.
  apply Forall_app; split; [eapply segs_run_P; eauto|exact Ht].
Qed.

(* decorated and undecorated rendering in lockstep, with the composable form of "the SGR sequences removed" *)
Lemma colorize_strips sty sk m : Forall good m ->
  match colorize sty true sk m, colorize sty false sk m with
  | Ok (s1, o1), Ok (s2, o2) => s1 = s2 /\ strips o1 o2
  | Err e1, Err e2 => e1 = e2
  | _, _ => False
  end.
Proof.
  intros Hm. unfold colorize. destruct (lex_P good m Hm) as [Hsegs Htail].
  destruct (lex m) as [segs tail] eqn:EL. cbn [fst snd] in *.
  destruct segs as [|sg segs'] eqn:ES.
  - rewrite (unescape_id m (good_no_bsl m Hm)). split; [reflexivity|]. apply strips_text, good_no_esc, Hm.
  - rewrite <- ES in *. rewrite (no_bsl_ends m (good_no_bsl m Hm)).
    pose proof (run_segs_lockstep sty segs sk [] [] true false Hsegs strips_nil (Forall_nil _) (Forall_nil _)) as HL.
    destruct (run_segs sty true false true segs sk [] false) as [[[s1 r1] l1]|e1] eqn:R1,
             (run_segs sty false false true segs sk [] false) as [[[s2 r2] l2]|e2] eqn:R2; try contradiction; cbn [bind]; [|exact HL].
    destruct HL as (-> & -> & HS & B1 & B2 & El).
    assert (l2 = false) as -> by (rewrite El; destruct segs; reflexivity).
    set (t1 := removelast tail). set (t2 := match rev tail with c :: _ => [c] | [] => [] end).
    assert (Forall good t1) as G1 by (apply removelast_P, Htail).
    assert (Forall good t2) as G2 by (apply lastchar_P, Htail).
    rewrite !unescape_id.
    + split; [reflexivity|]. apply strips_app; [exact HS|]. apply strips_app; apply strips_apply_cur, good_no_esc; assumption.
    + apply Forall_app; split; [exact B2|]. apply Forall_app; split; apply apply_cur_no_bsl, good_no_bsl; assumption.
    + apply Forall_app; split; [exact B1|]. apply Forall_app; split; apply apply_cur_no_bsl, good_no_bsl; assumption.
Qed.
