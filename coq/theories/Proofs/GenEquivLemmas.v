(* The hand models of Model/Gate.v (C10) and Model/Flags.v (C07) EQUAL, for all inputs, the definitions that
   harness/translate.py regenerates from the Python sources on every bin/setup (Generated/GenGate.v, GenFlags.v).
   This file is hand-written; the generated files are not.  When the code changes its meaning, these proofs stop
   compiling (and the build, hence every check, fails); when it is only re-arranged they should go on compiling:
   the proofs do not mention the shape of the generated text - they unfold everything down to the bit tests
   "Z.land x c =? 0", split every mask test into tests of single masks, decide the tests one by one and compare. *)
From Coq Require Import Lia.
From Clikit Require Import Base.Prelude Base.Res.
From Clikit Require Model.Gate Model.Flags Generated.GenGate Generated.GenFlags.

(* x & (a | b) is zero iff x & a and x & b are *)
Lemma land_lor_eqb0 x a b :
  (Z.land x (Z.lor a b) =? 0)%Z = ((Z.land x a =? 0)%Z && (Z.land x b =? 0)%Z).
Proof.
  rewrite Z.land_lor_distr_r.
  destruct (Z.eqb_spec (Z.land x a) 0) as [Ha|Ha], (Z.eqb_spec (Z.land x b) 0) as [Hb|Hb]; cbn;
    try (apply Z.eqb_eq; apply Z.lor_eq_0_iff; auto);
    apply Z.eqb_neq; rewrite Z.lor_eq_0_iff; tauto.
Qed.

(* (x | a) & c is zero iff x & c and a & c are *)
Lemma land_lor_l_eqb0 x a c :
  (Z.land (Z.lor x a) c =? 0)%Z = ((Z.land x c =? 0)%Z && (Z.land a c =? 0)%Z).
Proof. rewrite (Z.land_comm (Z.lor x a)), land_lor_eqb0, !(Z.land_comm c). reflexivity. Qed.

(* closed sub-terms are computed; mask tests are split until they test the unknown word against one constant *)
Ltac closed_arith :=
  repeat match goal with
         | |- context [Z.pow (Zpos ?a) (Zpos ?b)] =>
           let v := eval vm_compute in (Z.pow (Zpos a) (Zpos b)) in change (Z.pow (Zpos a) (Zpos b)) with v
         | |- context [Z.pow (Zpos ?a) Z0] => change (Z.pow (Zpos a) Z0) with 1%Z
         | |- context [Z.land (Zpos ?a) (Zpos ?b)] =>
           let v := eval vm_compute in (Z.land (Zpos a) (Zpos b)) in change (Z.land (Zpos a) (Zpos b)) with v
         | |- context [Z.eqb (Zpos ?a) Z0] => change (Z.eqb (Zpos a) Z0) with false
         | |- context [Z.eqb Z0 Z0] => change (Z.eqb Z0 Z0) with true
         end.
(* c & x is written x & c; a literal mask with several bits is split into its bits *)
Ltac constants_right :=
  repeat match goal with
         | |- context [Z.land (Zpos ?a) ?x] =>
           lazymatch x with Zpos _ => fail | Z0 => fail | Zneg _ => fail | _ => rewrite (Z.land_comm (Zpos a) x) end
         end.
Ltac split_masks :=
  repeat match goal with
         | |- context [Z.eqb (Z.land ?x (Zpos ?c)) 0%Z] =>
           let c' := eval vm_compute in (Z.land (Zpos c) (Z.pred (Zpos c))) in
           lazymatch c' with
           | Z0 => fail
           | _ => let b := eval vm_compute in (Z.sub (Zpos c) c') in
                  change (Z.land x (Zpos c)) with (Z.land x (Z.lor b c')); rewrite land_lor_eqb0
           end
         end.
Ltac norm :=
  closed_arith; constants_right; repeat (rewrite land_lor_eqb0 || rewrite land_lor_l_eqb0); split_masks; closed_arith;
  cbn [negb andb orb]; rewrite ?andb_true_r, ?andb_false_r.
(* everything except the bit operations on an unknown word is computed away *)
Ltac expose :=
  cbv -[Z.land Z.lor Z.lxor Z.lnot Z.eqb Z.leb Z.ltb Z.add Z.sub Z.mul Z.pow negb andb orb]; norm.
(* decide the innermost undecided test; a test of a word that still contains an `if` waits for its turn *)
Ltac decide_one :=
  match goal with
  | |- context [Z.eqb (Z.land ?x ?c) 0%Z] =>
    lazymatch x with context [if _ then _ else _] => fail | _ => destruct (Z.eqb (Z.land x c) 0%Z) eqn:? end
  end; norm.
(* two words built from the same word by or-ing constants in: equal bit by bit *)
Ltac same_word :=
  apply Z.bits_inj'; intros ? _; rewrite ?Z.lor_spec;
  repeat match goal with |- context [Z.testbit ?a ?n] => destruct (Z.testbit a n) end; reflexivity.
Ltac same := reflexivity || congruence || same_word.
Ltac by_cases := expose; repeat decide_one; same.


(* ------------------------------------------------------------------------------------------------ C10 *)
Lemma gen_gate_constants :
  GenGate.NORMAL = Gate.NORMAL /\ GenGate.VERBOSE = Gate.VERBOSE /\
  GenGate.VERY_VERBOSE = Gate.VERY_VERBOSE /\ GenGate.DEBUG = Gate.DEBUG.
Proof. repeat split; reflexivity. Qed.

(* Output._may_write(flags) with self._quiet = quiet, self._verbosity = verbosity *)
Lemma gen_may_write_eq : forall quiet verbosity flags,
  GenGate.may_write quiet verbosity flags = Gate.may_write quiet verbosity flags.
Proof.
  intros quiet verbosity [flags|]; destruct quiet; try reflexivity; by_cases.
Qed.

(* ------------------------------------------------------------------------------------------------ C07 *)
(* AbstractOption._validate_flags *)
Lemma gen_abs_validate_eq : forall f, GenFlags.abstractoption_validate_flags f = Flags.abs_validate f.
Proof. intros f. by_cases. Qed.

(* Option._validate_flags (calls AbstractOption._validate_flags through super) *)
Lemma gen_opt_validate_eq : forall f, GenFlags.option_validate_flags f = Flags.opt_validate f.
Proof. intros f. by_cases. Qed.

(* Argument._validate_flags *)
Lemma gen_arg_validate_eq : forall f, GenFlags.argument_validate_flags f = Flags.arg_validate f.
Proof. intros f. by_cases. Qed.

(* AbstractOption._add_default_flags, has_short = bool(self._short_name) *)
Lemma gen_abs_defaults_eq : forall f has_short,
  GenFlags.abstractoption_add_default_flags has_short f = Flags.abs_defaults f has_short.
Proof. intros f [|]; by_cases. Qed.

(* Option._add_default_flags (calls AbstractOption._add_default_flags through super) *)
Lemma gen_opt_defaults_eq : forall f has_short,
  GenFlags.option_add_default_flags has_short f = Flags.opt_defaults f has_short.
Proof. intros f [|]; by_cases. Qed.

(* Argument._add_default_flags *)
Lemma gen_arg_defaults_eq : forall f, GenFlags.argument_add_default_flags f = Flags.arg_defaults f.
Proof. intros f. by_cases. Qed.

(* the flag words of the classes are the bit numbers the hand model (and Props/C07.v) speaks of *)
Lemma gen_flag_constants :
  GenFlags.AbstractOption_PREFER_LONG_NAME = (2 ^ 0)%Z /\ GenFlags.AbstractOption_PREFER_SHORT_NAME = (2 ^ 1)%Z /\
  GenFlags.Option_NO_VALUE = (2 ^ 2)%Z /\ GenFlags.Option_REQUIRED_VALUE = (2 ^ 3)%Z /\
  GenFlags.Option_OPTIONAL_VALUE = (2 ^ 4)%Z /\ GenFlags.Option_MULTI_VALUED = (2 ^ 5)%Z /\
  GenFlags.Option_STRING = (2 ^ 7)%Z /\ GenFlags.Option_BOOLEAN = (2 ^ 8)%Z /\ GenFlags.Option_INTEGER = (2 ^ 9)%Z /\
  GenFlags.Option_FLOAT = (2 ^ 10)%Z /\ GenFlags.Option_NULLABLE = (2 ^ 11)%Z /\
  GenFlags.Argument_REQUIRED = (2 ^ 0)%Z /\ GenFlags.Argument_OPTIONAL = (2 ^ 1)%Z /\
  GenFlags.Argument_MULTI_VALUED = (2 ^ 2)%Z /\ GenFlags.Argument_STRING = (2 ^ 4)%Z /\
  GenFlags.Argument_BOOLEAN = (2 ^ 5)%Z /\ GenFlags.Argument_INTEGER = (2 ^ 6)%Z /\ GenFlags.Argument_FLOAT = (2 ^ 7)%Z /\
  GenFlags.Argument_NULLABLE = (2 ^ 8)%Z.
Proof. repeat split; reflexivity. Qed.
