(* Proofs about Model/Markup.v (C11). *)
From Coq Require Import Lia.
From Clikit Require Import Base.Prelude Base.Res Model.Conv Model.Markup.

(* ---------- the scanner only rearranges characters of the message ---------- *)
Section Pieces.
Variable P : N -> Prop.
Definition tagP (t : tag) : Prop := match t with Tag raw _ _ => Forall P raw end.
Definition segP (sg : str * tag) : Prop := Forall P (fst sg) /\ tagP (snd sg).
Definition lexP (st : lexst) : Prop := Forall segP (l_done st) /\ Forall P (l_cur st) /\ Forall P (raw_of (l_cand st)).

Lemma lex_step_P st c : P c -> lexP st -> lexP (lex_step st c).
Proof.
  intros Hc (Hd & Hcur & Hraw). unfold lex_step.
  assert (Forall P [c]) as Hc1 by (constructor; auto).
  assert (forall k, Forall P (raw_of k) -> forall rest, Forall P rest ->
            lexP {| l_done := l_done st; l_cur := l_cur st ++ raw_of (l_cand st) ++ rest; l_cand := k |}) as Hfail.
  { intros k Hk rest Hr. repeat split; cbn [l_done l_cur l_cand]; auto. repeat (apply Forall_app; split); auto. }
  assert (forall k, Forall P (raw_of k) -> lexP {| l_done := l_done st; l_cur := l_cur st; l_cand := k |}) as Hgo.
  { intros k Hk. repeat split; cbn [l_done l_cur l_cand]; auto. }
  assert (forall cl nm, c = GT ->
            lexP {| l_done := l_done st ++ [(l_cur st, Tag (raw_of (l_cand st) ++ [GT]) cl nm)]; l_cur := []; l_cand := CText |}) as Hemit.
  { intros cl nm ->. repeat split; cbn [l_done l_cur l_cand raw_of]; auto.
    apply Forall_app. split; auto. constructor; [|constructor]. split; cbn; auto. apply Forall_app. split; auto. }
  destruct (N.eqb_spec c LT) as [->|Hlt].
  { apply Hfail; cbn; auto. }
  destruct (l_cand st) as [| | |cl nm] eqn:Ek.
  - apply Hfail; cbn; auto.
  - destruct (N.eqb_spec c SLASH) as [->|].
    + apply Hgo. cbn. inversion Hraw; subst. constructor; auto.
    + destruct (tag_start c); [apply Hgo; cbn; inversion Hraw; subst; auto|apply Hfail; cbn; auto].
  - destruct (N.eqb_spec c GT) as [->|].
    + apply Hemit. reflexivity.
    + destruct (tag_start c); [apply Hgo|apply Hfail; cbn; auto].
      cbn in *. inversion Hraw as [|? ? H1 H2]; subst. inversion H2; subst. auto.
  - destruct (N.eqb_spec c GT) as [->|].
    + apply Hemit. reflexivity.
    + destruct (tag_char c); [apply Hgo|apply Hfail; cbn; auto].
      cbn [raw_of] in *. inversion Hraw as [|? ? H1 H2]; subst. constructor; auto.
      rewrite app_assoc. apply Forall_app. split; auto.
Qed.

Lemma lex_P m : Forall P m -> Forall segP (fst (lex m)) /\ Forall P (snd (lex m)).
Proof.
  intros Hm. unfold lex, lex_end.
  assert (forall st, lexP st -> lexP (fold_left lex_step m st)) as H.
  { induction Hm as [|c r Hc Hr IH]; intros st Hst; cbn; auto. apply IH, lex_step_P; auto. }
  destruct (H lex_init) as (H1 & H2 & H3); [repeat split; cbn; constructor|].
  cbn [fst snd]. split; auto. apply Forall_app. split; auto.
Qed.
End Pieces.

(* ---------- stripping SGR sequences ---------- *)
Definition strips (o1 o2 : str) : Prop := fold_left strip_step o1 ([], GNone) = (o2, GNone).

Lemma strip_step_out out g c :
  strip_step (out, g) c = (out ++ fst (strip_step ([], g) c), snd (strip_step ([], g) c)).
Proof.
  unfold strip_step. destruct g as [| |p]; cbn [pending_of app fst snd].
  - destruct (N.eqb c ESC); cbn; now rewrite ?app_nil_r.
  - destruct (N.eqb c 91); [cbn; now rewrite app_nil_r|]. destruct (N.eqb c ESC); cbn; reflexivity.
  - destruct (is_digit c || N.eqb c SEMI); [cbn; now rewrite app_nil_r|].
    destruct (N.eqb c 109); [cbn; now rewrite app_nil_r|]. destruct (N.eqb c ESC); cbn; reflexivity.
Qed.
Lemma strip_fold_out s : forall out g,
  fold_left strip_step s (out, g) = (out ++ fst (fold_left strip_step s ([], g)), snd (fold_left strip_step s ([], g))).
Proof.
  induction s as [|c s IH]; intros out g; cbn [fold_left]; [cbn; now rewrite app_nil_r|].
  rewrite strip_step_out. destruct (strip_step ([], g) c) as [d g']. cbn [fst snd].
  rewrite IH. rewrite (IH d). cbn [fst snd]. now rewrite app_assoc.
Qed.
Lemma strips_app a a' b b' : strips a a' -> strips b b' -> strips (a ++ b) (a' ++ b').
Proof.
  unfold strips. intros Ha Hb. rewrite fold_left_app, Ha, strip_fold_out, Hb. reflexivity.
Qed.
Lemma strips_nil : strips [] []. Proof. reflexivity. Qed.
Definition no_esc (s : str) : Prop := Forall (fun c => c <> ESC) s.
Lemma strips_text t : no_esc t -> strips t t.
Proof.
  induction 1 as [|c t Hc Ht IH]; [reflexivity|].
  change (c :: t) with ([c] ++ t). apply (strips_app [c] [c] t t); [|exact IH].
  unfold strips. cbn. destruct (N.eqb_spec c ESC); [contradiction|reflexivity].
Qed.
Lemma strips_sgr_strip o1 o2 : strips o1 o2 -> strip_sgr o1 = o2.
Proof. unfold strips, strip_sgr, strip_end. intros ->. cbn. apply app_nil_r. Qed.

Definition param_char (c : N) : Prop := is_digit c || N.eqb c SEMI = true.
Lemma params_fold p : Forall param_char p -> forall q, fold_left strip_step p ([], GParams q) = ([], GParams (q ++ p)).
Proof.
  induction 1 as [|c p Hc Hp IH]; intros q; cbn [fold_left]; [now rewrite app_nil_r|].
  unfold strip_step at 2. unfold param_char in Hc. rewrite Hc. rewrite IH, <- app_assoc. reflexivity.
Qed.
Lemma chars_of_uint_digits u : Forall param_char (chars_of_uint u).
Proof. induction u; cbn [chars_of_uint]; constructor; auto; reflexivity. Qed.
Lemma dec_text_digits (c : N) : Forall param_char (dec_text (Z.of_N c)).
Proof. unfold dec_text. destruct c as [|p]; cbn; [repeat constructor|apply chars_of_uint_digits]. Qed.
Lemma join_params (l : list N) : Forall param_char (join_with SEMI (map (fun c => dec_text (Z.of_N c)) l)).
Proof.
  induction l as [|c l IH]; cbn [map join_with]; [constructor|].
  destruct l as [|d l]; [apply dec_text_digits|].
  apply Forall_app. split; [apply dec_text_digits|]. constructor; [reflexivity|exact IH].
Qed.
Lemma strips_open codes : strips (sgr_open codes) [].
Proof.
  unfold strips, sgr_open. cbn [fold_left]. change (strip_step ([], GNone) ESC) with (@nil N, GEsc).
  change (strip_step ([], GEsc) 91%N) with (@nil N, GParams []).
  rewrite fold_left_app, (params_fold _ (join_params codes)). cbn. reflexivity.
Qed.
Lemma strips_close : strips sgr_close []. Proof. reflexivity. Qed.
Lemma strips_apply st t : no_esc t -> strips (apply_style st t) t.
Proof.
  intros Ht. unfold apply_style, sgr_wrap. destruct (codes_of st) as [|c l]; [apply strips_text, Ht|].
  replace t with ([] ++ t ++ []) at 2 by (cbn; now rewrite app_nil_r).
  apply strips_app; [apply strips_open|]. apply strips_app; [apply strips_text, Ht|apply strips_close].
Qed.
Lemma strips_apply_cur sk t : no_esc t -> strips (apply_cur true sk t) (apply_cur false sk t).
Proof. intros Ht. unfold apply_cur. destruct t; [apply strips_nil|]. apply strips_apply, Ht. Qed.

(* the wrappers contain no backslash *)
Definition no_bsl (s : str) : Prop := Forall (fun c => c <> BSL) s.
Lemma param_no_bsl p : Forall param_char p -> no_bsl p.
Proof.
  intros H. eapply Forall_impl; [|exact H]. intros c Hc ->. vm_compute in Hc. discriminate.
Qed.
Lemma apply_cur_no_bsl colored sk t : no_bsl t -> no_bsl (apply_cur colored sk t).
Proof.
  intros Ht. unfold apply_cur. destruct t as [|c t]; [constructor|]. destruct colored; [|exact Ht].
  unfold apply_style, sgr_wrap. destruct (codes_of (current sk)); [exact Ht|].
  unfold sgr_open, sgr_close, no_bsl in *. apply Forall_app; split.
  - constructor; [discriminate|]. constructor; [discriminate|]. apply Forall_app; split; [apply param_no_bsl, join_params|].
    constructor; [discriminate|constructor].
  - apply Forall_app; split; [exact Ht|]. repeat constructor; discriminate.
Qed.
Lemma unescape_id s : no_bsl s -> unescape s = s.
Proof.
  induction 1 as [|c s Hc Hs IH]; [reflexivity|]. cbn [unescape]. destruct s as [|d s']; [reflexivity|].
  destruct (N.eqb_spec c BSL); [contradiction|]. cbn [andb]. now rewrite IH.
Qed.

(* ---------- decorated and plain rendering run in lockstep ---------- *)
Definition good (c : N) : Prop := c <> ESC /\ c <> BSL.
Lemma good_no_esc s : Forall good s -> no_esc s. Proof. intros H. eapply Forall_impl; [|exact H]. intros c [? ?]; auto. Qed.
Lemma good_no_bsl s : Forall good s -> no_bsl s. Proof. intros H. eapply Forall_impl; [|exact H]. intros c [? ?]; auto. Qed.
Lemma no_bsl_ends s : no_bsl s -> ends_with_bsl s = false.
Proof.
  intros H. unfold ends_with_bsl. destruct (rev s) as [|c r] eqn:E; [reflexivity|].
  assert (In c s) as Hin by (apply in_rev; rewrite E; left; reflexivity).
  unfold no_bsl in H. rewrite Forall_forall in H. specialize (H c Hin). destruct (N.eqb_spec c BSL); [contradiction|reflexivity].
Qed.

(* what the two renderings of one tag look like *)
Inductive tag_out (sk : stack) (raw : str) : str -> str -> Prop :=
| TONone : tag_out sk raw [] []
| TORaw : tag_out sk raw (apply_cur true sk raw) (apply_cur false sk raw).
Lemma do_tag_lockstep sty esc raw cl nm sk :
  match do_tag sty true esc (Tag raw cl nm) sk, do_tag sty false esc (Tag raw cl nm) sk with
  | Ok (s1, p1), Ok (s2, p2) => s1 = s2 /\ tag_out sk raw p1 p2
  | Err e1, Err e2 => e1 = e2
  | _, _ => False
  end.
Proof.
  unfold do_tag. destruct esc; [split; [reflexivity|constructor]|].
  destruct (cl && match nm with [] => true | _ => false end); [split; [reflexivity|constructor]|].
  destruct (resolve sty (py_lower nm)) as [[st|]|e]; cbn [bind]; try reflexivity.
  - destruct cl; [|split; [reflexivity|constructor]].
    destruct (pop_style st sk) as [sk'|e]; cbn [bind]; [split; [reflexivity|constructor]|reflexivity].
  - split; [reflexivity|constructor].
Qed.

Lemma tag_out_strips sk raw p1 p2 : Forall good raw -> tag_out sk raw p1 p2 -> strips p1 p2 /\ no_bsl p1 /\ no_bsl p2.
Proof.
  intros Hr [|]; [repeat split; try constructor|].
  repeat split; [apply strips_apply_cur, good_no_esc, Hr|apply apply_cur_no_bsl, good_no_bsl, Hr ..].
Qed.

Lemma run_segs_lockstep sty : forall segs sk o1 o2 first le,
  Forall (segP good) segs -> strips o1 o2 -> no_bsl o1 -> no_bsl o2 ->
  match run_segs sty true false first segs sk o1 le, run_segs sty false false first segs sk o2 le with
  | Ok (s1, r1, l1), Ok (s2, r2, l2) =>
      s1 = s2 /\ l1 = l2 /\ strips r1 r2 /\ no_bsl r1 /\ no_bsl r2 /\ l1 = match segs with [] => le | _ => false end
  | Err e1, Err e2 => e1 = e2
  | _, _ => False
  end.
Proof.
  induction segs as [|[pre [raw cl nm]] r IH]; intros sk o1 o2 first le Hs Ho H1 H2; cbn [run_segs].
  - repeat split; auto.
  - inversion Hs as [|? ? [Hpre Hraw] Hr]; subst. cbn [fst snd tagP] in *.
    assert ((match pre with [] => first && false | _ :: _ => ends_with_bsl pre end) = false) as ->.
    { destruct pre; [apply Bool.andb_false_r|]. apply no_bsl_ends, good_no_bsl, Hpre. }
    pose proof (do_tag_lockstep sty false raw cl nm sk) as HT.
    destruct (do_tag sty true false (Tag raw cl nm) sk) as [[s1 p1]|e1], (do_tag sty false false (Tag raw cl nm) sk) as [[s2 p2]|e2];
      cbn [bind fst snd]; try contradiction; [|exact HT].
    destruct HT as [-> HT]. destruct (tag_out_strips sk raw p1 p2 Hraw HT) as (S1 & B1 & B2).
    specialize (IH s2 (o1 ++ apply_cur true sk pre ++ p1) (o2 ++ apply_cur false sk pre ++ p2) false false Hr).
    assert (strips (o1 ++ apply_cur true sk pre ++ p1) (o2 ++ apply_cur false sk pre ++ p2)) as HS.
    { apply strips_app; [exact Ho|]. apply strips_app; [apply strips_apply_cur, good_no_esc, Hpre|exact S1]. }
    assert (no_bsl (o1 ++ apply_cur true sk pre ++ p1)) as HB1.
    { apply Forall_app; split; [exact H1|]. apply Forall_app; split; [apply apply_cur_no_bsl, good_no_bsl, Hpre|exact B1]. }
    assert (no_bsl (o2 ++ apply_cur false sk pre ++ p2)) as HB2.
    { apply Forall_app; split; [exact H2|]. apply Forall_app; split; [apply apply_cur_no_bsl, good_no_bsl, Hpre|exact B2]. }
    specialize (IH HS HB1 HB2).
    destruct (run_segs sty true false false r s2 _ false) as [[[s1' r1] l1]|e1], (run_segs sty false false false r s2 _ false) as [[[s2' r2] l2]|e2];
      try contradiction; auto.
    destruct IH as (E1 & E2 & E3 & E4 & E5 & E6). repeat split; auto. rewrite E6. destruct r; reflexivity.
Qed.

Lemma removelast_P {X} (P : X -> Prop) (l : list X) : Forall P l -> Forall P (removelast l).
Proof. induction 1 as [|x l Hx Hl IH]; cbn; [constructor|]. destruct l; [constructor|]. constructor; auto. Qed.
Lemma lastchar_P (P : N -> Prop) (l : str) : Forall P l -> Forall P (match rev l with c :: _ => [c] | [] => [] end).
Proof.
  intros H. destruct (rev l) as [|c r] eqn:E; [constructor|]. constructor; [|constructor].
  rewrite Forall_forall in H. apply H, in_rev. rewrite E. left. reflexivity.
Qed.
Lemma removelast_lastchar (l : str) : removelast l ++ (match rev l with c :: _ => [c] | [] => [] end) = l.
Proof.
  destruct l as [|x l] using rev_ind; [reflexivity|]. rewrite removelast_last, rev_app_distr. reflexivity.
Qed.


Definition raw_text (t : tag) : str := match t with Tag raw _ _ => raw end.
(* the scanner is lossless: the pieces, in order, are the message *)
Definition content (st : lexst) : str :=
  flat_map (fun sg => fst sg ++ raw_text (snd sg)) (l_done st) ++ l_cur st ++ raw_of (l_cand st).
Lemma lex_step_content st c : content (lex_step st c) = content st ++ [c].
Proof.
  unfold lex_step, content.
  destruct (N.eqb_spec c LT) as [->|Hlt]; cbn [l_done l_cur l_cand raw_of].
  { now rewrite <- ?app_assoc, ?app_nil_r. }
  destruct (l_cand st) as [| | |cl nm] eqn:Ek; cbn [l_done l_cur l_cand raw_of].
  - now rewrite <- ?app_assoc, ?app_nil_r.
  - destruct (N.eqb_spec c SLASH) as [->|]; cbn [l_done l_cur l_cand raw_of]; [now rewrite <- ?app_assoc|].
    destruct (tag_start c); cbn [l_done l_cur l_cand raw_of app]; now rewrite <- ?app_assoc, ?app_nil_r.
  - destruct (N.eqb_spec c GT) as [->|]; cbn [l_done l_cur l_cand raw_of].
    + rewrite flat_map_app. cbn [flat_map fst snd raw_text]. now rewrite <- ?app_assoc, ?app_nil_r.
    + destruct (tag_start c); cbn [l_done l_cur l_cand raw_of app]; now rewrite <- ?app_assoc, ?app_nil_r.
  - destruct (N.eqb_spec c GT) as [->|]; cbn [l_done l_cur l_cand raw_of].
    + rewrite flat_map_app. cbn [flat_map fst snd raw_text]. now rewrite <- ?app_assoc, ?app_nil_r.
    + destruct (tag_char c); cbn [l_done l_cur l_cand raw_of app]; rewrite <- ?app_assoc, ?app_nil_r; cbn [app]; now rewrite <- ?app_assoc.
Qed.
Lemma lex_lossless m : flat_map (fun sg => fst sg ++ raw_text (snd sg)) (fst (lex m)) ++ snd (lex m) = m.
Proof.
  unfold lex, lex_end. cbn [fst snd].
  assert (forall st, content (fold_left lex_step m st) = content st ++ m) as H.
  { induction m as [|c r IH]; intros st; cbn [fold_left]; [now rewrite app_nil_r|]. rewrite IH, lex_step_content, <- app_assoc. reflexivity. }
  specialize (H lex_init). unfold content in H at 1. rewrite H. reflexivity.
Qed.

(* the tag-stripped text: every recognised tag removed, everything else kept *)
Definition recognised (sty : styles) (t : tag) : bool :=
  match t with Tag _ cl nm =>
    (cl && match nm with [] => true | _ => false end) ||
    match resolve sty (py_lower nm) with Ok (Some _) => true | _ => false end
  end.
Definition strip_tags (sty : styles) (m : str) : str :=
  flat_map (fun sg => fst sg ++ (if recognised sty (snd sg) then [] else raw_text (snd sg))) (fst (lex m)) ++ snd (lex m).

Lemma apply_cur_false sk t : apply_cur false sk t = t.
Proof. destruct t; reflexivity. Qed.
Lemma run_segs_plain sty : forall segs sk out first le s r l,
  Forall (segP (fun c => c <> BSL)) segs ->
  run_segs sty false false first segs sk out le = Ok (s, r, l) ->
  r = out ++ flat_map (fun sg => fst sg ++ (if recognised sty (snd sg) then [] else raw_text (snd sg))) segs.
Proof.
  induction segs as [|[pre [raw cl nm]] rest IH]; intros sk out first le s r l Hs H; cbn [run_segs flat_map] in *.
  - inversion H; subst. now rewrite app_nil_r.
  - inversion Hs as [|? ? [Hpre Hraw] Hr]; subst. cbn [fst snd tagP] in *.
    assert ((match pre with [] => first && false | _ :: _ => ends_with_bsl pre end) = false) as E.
    { destruct pre; [apply Bool.andb_false_r|]. apply no_bsl_ends, Hpre. }
    rewrite E in H. unfold do_tag, recognised, raw_text in *.
    destruct (cl && match nm with [] => true | _ => false end); cbn [orb bind fst snd] in *.
    + apply IH in H; [|exact Hr]. rewrite H, !apply_cur_false, <- !app_assoc, ?app_nil_r. reflexivity.
    + destruct (resolve sty (py_lower nm)) as [[st|]|e]; cbn [bind fst snd] in *; try discriminate.
      * destruct cl.
        -- destruct (pop_style st sk) as [sk'|e]; cbn [bind fst snd] in *; try discriminate.
           apply IH in H; [|exact Hr]. rewrite H, !apply_cur_false, <- !app_assoc, ?app_nil_r. reflexivity.
        -- apply IH in H; [|exact Hr]. rewrite H, !apply_cur_false, <- !app_assoc, ?app_nil_r. reflexivity.
      * apply IH in H; [|exact Hr]. rewrite H, !apply_cur_false, <- !app_assoc, ?app_nil_r. reflexivity.
Qed.

Lemma colorize_lockstep sty sk m : Forall good m ->
  match colorize sty true sk m, colorize sty false sk m with
  | Ok (s1, o1), Ok (s2, o2) => s1 = s2 /\ strip_sgr o1 = o2 /\ o2 = strip_tags sty m
  | Err e1, Err e2 => e1 = e2
  | _, _ => False
  end.
Proof.
  intros Hm. unfold colorize, strip_tags. destruct (lex_P good m Hm) as [Hsegs Htail].
  assert (Forall (segP (fun c => c <> BSL)) (fst (lex m))) as Hsegs'.
  { eapply Forall_impl; [|exact Hsegs]. intros [pre [raw cl nm]] [A B]. split; cbn in *; apply good_no_bsl; assumption. }
  destruct (lex m) as [segs tail] eqn:EL. cbn [fst snd] in *.
  destruct segs as [|sg segs'] eqn:ES.
  - rewrite (unescape_id m (good_no_bsl m Hm)). repeat split.
    + apply strips_sgr_strip, strips_text, good_no_esc, Hm.
    + pose proof (lex_lossless m) as HL. rewrite EL in HL. cbn in HL. cbn. symmetry. exact HL.
  - rewrite <- ES in *. rewrite (no_bsl_ends m (good_no_bsl m Hm)).
    pose proof (run_segs_lockstep sty segs sk [] [] true false Hsegs strips_nil (Forall_nil _) (Forall_nil _)) as HL.
    destruct (run_segs sty true false true segs sk [] false) as [[[s1 r1] l1]|e1] eqn:R1,
             (run_segs sty false false true segs sk [] false) as [[[s2 r2] l2]|e2] eqn:R2; try contradiction; cbn [bind]; [|exact HL].
    destruct HL as (-> & -> & HS & B1 & B2 & El). rewrite El, ES. rewrite <- ES.
    set (t1 := removelast tail). set (t2 := match rev tail with c :: _ => [c] | [] => [] end).
    assert (Forall good t1) as G1 by (apply removelast_P, Htail).
    assert (Forall good t2) as G2 by (apply lastchar_P, Htail).
    rewrite !unescape_id.
    + split; [reflexivity|]. split.
      * apply strips_sgr_strip. apply strips_app; [exact HS|]. apply strips_app; apply strips_apply_cur, good_no_esc; assumption.
      * apply run_segs_plain in R2; [|exact Hsegs']. rewrite R2. cbn [app]. f_equal.
        rewrite !apply_cur_false. apply removelast_lastchar.
    + apply Forall_app; split; [exact B2|]. apply Forall_app; split; apply apply_cur_no_bsl, good_no_bsl; assumption.
    + apply Forall_app; split; [exact B1|]. apply Forall_app; split; apply apply_cur_no_bsl, good_no_bsl; assumption.
Qed.

(* ---------- every colour and attribute of a style is exactly its SGR code ---------- *)
Definition attr_codes (c : cstyle) : list N :=
  (if c_bold c then [1%N] else []) ++ (if c_italic c then [3%N] else []) ++ (if c_dark c then [2%N] else []) ++
  (if c_underlined c then [4%N] else []) ++ (if c_blinking c then [5%N] else []) ++ (if c_inverse c then [7%N] else []) ++
  (if c_hidden c then [8%N] else []).
(* the colour given (None / empty: no colour) and its code *)
Definition colour_code (table : str -> option N) (o : option str) (code : option N) : Prop :=
  match nonempty o with None => code = None | Some n => table n = code /\ code <> None end.
Definition opt_list (o : option N) : list N := match o with Some c => [c] | None => [] end.

Lemma convert_codes c cf cb :
  colour_code fg_code (c_fg c) cf -> colour_code bg_code (c_bg c) cb ->
  exists p, convert c = Ok p /\ codes_of p = opt_list cf ++ opt_list cb ++ attr_codes c.
Proof.
  unfold colour_code, convert, mk_pstyle, attr_codes. intros Hf Hb.
  destruct (nonempty (c_fg c)) as [nf|]; [destruct Hf as [Hf Hf']; destruct cf as [cf|]; [|congruence]|subst cf];
  (destruct (nonempty (c_bg c)) as [nb|]; [destruct Hb as [Hb Hb']; destruct cb as [cb|]; [|congruence]|subst cb]);
  unfold set_fg, set_bg; rewrite ?Hf, ?Hb; cbn [bind];
  destruct (c_bold c), (c_italic c), (c_dark c), (c_underlined c), (c_blinking c), (c_inverse c), (c_hidden c);
  eexists; (split; [vm_compute; reflexivity|reflexivity]).
Qed.

(* ---------- scanning  <name> text </name>  ---------- *)
Lemma tag_start_not c : tag_start c = true -> c <> LT /\ c <> SLASH /\ c <> GT.
Proof. intros H. repeat split; intros ->; vm_compute in H; discriminate. Qed.
Lemma tag_char_not c : tag_char c = true -> c <> LT /\ c <> GT.
Proof. intros H. repeat split; intros ->; vm_compute in H; discriminate. Qed.
Definition tag_name (nm : str) : Prop :=
  match nm with c :: r => tag_start c = true /\ Forall (fun x => tag_char x = true) r | [] => False end.
Definition no_lt (t : str) : Prop := Forall (fun c => c <> LT) t.

Lemma lex_text t : no_lt t -> forall done cur,
  fold_left lex_step t {| l_done := done; l_cur := cur; l_cand := CText |} = {| l_done := done; l_cur := cur ++ t; l_cand := CText |}.
Proof.
  induction 1 as [|c t Hc Ht IH]; intros done cur; cbn [fold_left]; [now rewrite app_nil_r|].
  unfold lex_step at 2. cbn [l_done l_cur l_cand raw_of]. destruct (N.eqb_spec c LT); [contradiction|].
  rewrite IH. cbn [app]. now rewrite <- app_assoc.
Qed.
Lemma lex_name_chars r : Forall (fun x => tag_char x = true) r -> forall done cur cl nm,
  fold_left lex_step r {| l_done := done; l_cur := cur; l_cand := CName cl nm |}
  = {| l_done := done; l_cur := cur; l_cand := CName cl (nm ++ r) |}.
Proof.
  induction 1 as [|c r Hc Hr IH]; intros done cur cl nm; cbn [fold_left]; [now rewrite app_nil_r|].
  unfold lex_step at 2. cbn [l_done l_cur l_cand]. destruct (tag_char_not c Hc) as [H1 H2].
  destruct (N.eqb_spec c LT); [contradiction|]. destruct (N.eqb_spec c GT); [contradiction|]. rewrite Hc.
  rewrite IH, <- app_assoc. reflexivity.
Qed.
Lemma step_text_lt done cur :
  lex_step {| l_done := done; l_cur := cur; l_cand := CText |} LT = {| l_done := done; l_cur := cur; l_cand := COpen |}.
Proof. unfold lex_step. cbn. now rewrite app_nil_r. Qed.
Lemma step_open_slash done cur :
  lex_step {| l_done := done; l_cur := cur; l_cand := COpen |} SLASH = {| l_done := done; l_cur := cur; l_cand := CSlash |}.
Proof. reflexivity. Qed.
Lemma step_open_start done cur c : tag_start c = true ->
  lex_step {| l_done := done; l_cur := cur; l_cand := COpen |} c = {| l_done := done; l_cur := cur; l_cand := CName false [c] |}.
Proof.
  intros Hc. destruct (tag_start_not c Hc) as (H1 & H2 & H3). unfold lex_step. cbn [l_done l_cur l_cand].
  destruct (N.eqb_spec c LT); [contradiction|]. destruct (N.eqb_spec c SLASH); [contradiction|]. now rewrite Hc.
Qed.
Lemma step_slash_start done cur c : tag_start c = true ->
  lex_step {| l_done := done; l_cur := cur; l_cand := CSlash |} c = {| l_done := done; l_cur := cur; l_cand := CName true [c] |}.
Proof.
  intros Hc. destruct (tag_start_not c Hc) as (H1 & H2 & H3). unfold lex_step. cbn [l_done l_cur l_cand].
  destruct (N.eqb_spec c LT); [contradiction|]. destruct (N.eqb_spec c GT); [contradiction|]. now rewrite Hc.
Qed.
Lemma step_name_gt done cur cl nm :
  lex_step {| l_done := done; l_cur := cur; l_cand := CName cl nm |} GT
  = {| l_done := done ++ [(cur, Tag (raw_of (CName cl nm) ++ [GT]) cl nm)]; l_cur := []; l_cand := CText |}.
Proof. reflexivity. Qed.

Lemma lex_tag (cl : bool) nm : tag_name nm -> forall done cur,
  fold_left lex_step (LT :: (if cl then [SLASH] else []) ++ nm ++ [GT]) {| l_done := done; l_cur := cur; l_cand := CText |}
  = {| l_done := done ++ [(cur, Tag (LT :: (if cl then [SLASH] else []) ++ nm ++ [GT]) cl nm)]; l_cur := []; l_cand := CText |}.
Proof.
  destruct nm as [|c r]; [contradiction|]. cbn [tag_name]. intros [Hc Hr] done cur.
  cbn [fold_left]. rewrite step_text_lt. destruct cl; cbn [app fold_left].
  - rewrite step_open_slash, (step_slash_start _ _ c Hc), fold_left_app, (lex_name_chars r Hr). cbn [fold_left].
    rewrite step_name_gt. cbn [raw_of app]. reflexivity.
  - rewrite (step_open_start _ _ c Hc), fold_left_app, (lex_name_chars r Hr). cbn [fold_left].
    rewrite step_name_gt. cbn [raw_of app]. reflexivity.
Qed.

Definition open_tag (nm : str) : str := LT :: nm ++ [GT].
Definition close_tag (nm : str) : str := LT :: SLASH :: nm ++ [GT].
Lemma lex_wrapped nm text : tag_name nm -> no_lt text ->
  lex (open_tag nm ++ text ++ close_tag nm)
  = ([([], Tag (open_tag nm) false nm); (text, Tag (close_tag nm) true nm)], []).
Proof.
  intros Hn Ht. unfold lex, lex_init. rewrite !fold_left_app.
  pose proof (lex_tag false nm Hn [] []) as H1. cbn [app] in H1. unfold open_tag. rewrite H1.
  rewrite (lex_text text Ht). pose proof (lex_tag true nm Hn) as H2. cbn [app] in H2. unfold close_tag. rewrite H2.
  reflexivity.
Qed.

Lemma optN_eqb_refl a : optN_eqb a a = true. Proof. destruct a; cbn; [apply N.eqb_refl|reflexivity]. Qed.
Lemma listN_eqb_refl a : listN_eqb a a = true. Proof. induction a; cbn; [reflexivity|]. now rewrite N.eqb_refl. Qed.
Lemma pstyle_eqb_refl p : pstyle_eqb p p = true.
Proof. unfold pstyle_eqb. now rewrite !optN_eqb_refl, listN_eqb_refl. Qed.

Lemma apply_cur_nonempty sk t : t <> [] -> apply_cur true sk t = apply_style (current sk) t.
Proof. destruct t; [congruence|reflexivity]. Qed.
Lemma escaped_false (first : bool) (pre : str) : no_bsl pre ->
  (match pre with [] => first && false | _ :: _ => ends_with_bsl pre end) = false.
Proof. intros H. destruct pre; [apply Bool.andb_false_r|apply no_bsl_ends, H]. Qed.
Lemma sgr_wrap_no_bsl codes t : no_bsl t -> no_bsl (sgr_wrap codes t).
Proof.
  intros Ht. unfold sgr_wrap. destruct codes as [|c l]; [exact Ht|].
  unfold sgr_open, sgr_close, no_bsl in *. apply Forall_app; split.
  - constructor; [discriminate|]. constructor; [discriminate|]. apply Forall_app; split; [apply param_no_bsl, join_params|].
    constructor; [discriminate|constructor].
  - apply Forall_app; split; [exact Ht|]. repeat constructor; discriminate.
Qed.

(* a registered style around a text: exactly the wrapper of its codes *)
Lemma colorize_wrapped sty nm text p :
  tag_name nm -> Forall good text -> no_lt text -> text <> [] ->
  resolve sty (py_lower nm) = Ok (Some p) ->
  colorize sty true [] (open_tag nm ++ text ++ close_tag nm) = Ok ([], sgr_wrap (codes_of p) text).
Proof.
  intros Hn Hg Ht Hne Hr. unfold colorize. rewrite (lex_wrapped nm text Hn Ht).
  assert (ends_with_bsl (open_tag nm ++ text ++ close_tag nm) = false) as ->.
  { unfold ends_with_bsl, close_tag. rewrite !rev_app_distr. cbn [rev]. rewrite !rev_app_distr. reflexivity. }
  assert (nm <> []) as Hnm by (destruct nm; [contradiction|discriminate]).
  cbn [run_segs andb].
  assert ((match text with [] => false | _ :: _ => ends_with_bsl text end) = false) as ->
    by (destruct text; [reflexivity|apply no_bsl_ends, good_no_bsl, Hg]).
  unfold do_tag. assert ((match nm with [] => true | _ :: _ => false end) = false) as -> by (destruct nm; [congruence|reflexivity]).
  cbn [andb]. rewrite Hr. cbn [bind fst snd app].
  unfold pop_style. cbn [app rev cut_rev]. rewrite pstyle_eqb_refl. cbn [bind fst snd rev run_segs app removelast].
  rewrite (apply_cur_nonempty [p] text Hne). unfold apply_cur at 1 2 3. cbn [app]. rewrite !app_nil_r.
  unfold current. cbn [last]. unfold apply_style.
  rewrite unescape_id; [reflexivity|]. apply sgr_wrap_no_bsl, good_no_bsl, Hg.
Qed.

(* a style passed for one call around a text without tags *)
Lemma lex_no_tag text : no_lt text -> lex text = ([], text).
Proof. intros Ht. unfold lex, lex_init. rewrite (lex_text text Ht). unfold lex_end. cbn. now rewrite app_nil_r. Qed.

(* ---------- the three ways a style reaches the formatter ---------- *)
From Clikit Require Import Proofs.StrLemmas.
Definition is_ansi (f : formatter) : Prop := match f_kind f with FAnsi _ => True | _ => False end.

Lemma format_percall f c p text :
  is_ansi f -> f_stack f = [] -> convert c = Ok p -> Forall good text -> no_lt text -> text <> [] ->
  exists f', format f text (Some c) = Ok (f', sgr_wrap (codes_of p) text) /\ f_stack f' = [] /\ f_styles f' = f_styles f.
Proof.
  intros Hk Hs Hc Hg Ht Hne. unfold format, is_ansi in *. destruct (f_kind f); try contradiction.
  rewrite Hc, Hs. cbn [bind app]. unfold colorize, has_tag. rewrite (lex_no_tag text Ht). cbn [bind fst snd].
  rewrite (unescape_id text (good_no_bsl text Hg)), (apply_cur_nonempty [p] text Hne).
  eexists. split; [reflexivity|]. split; reflexivity.
Qed.

Lemma format_registered f nm p text :
  is_ansi f -> f_stack f = [] -> aget str_eqb (py_lower nm) (f_styles f) = Some p ->
  tag_name nm -> Forall good text -> no_lt text -> text <> [] ->
  exists f', format f (open_tag nm ++ text ++ close_tag nm) None = Ok (f', sgr_wrap (codes_of p) text) /\ f_stack f' = [] /\ f_styles f' = f_styles f.
Proof.
  intros Hk Hs Hr Hn Hg Ht Hne. unfold format, is_ansi in *. destruct (f_kind f); try contradiction.
  rewrite Hs, (colorize_wrapped (f_styles f) nm text p Hn Hg Ht Hne); [|unfold resolve; now rewrite Hr].
  cbn [bind fst snd]. eexists. split; [reflexivity|]. split; reflexivity.
Qed.

(* registered at construction (a style set with this one style) ... *)
Lemma new_formatter_registers b c t p :
  c_tag c = Some t -> t <> [] -> convert c = Ok p ->
  exists f, new_formatter (FAnsi b) [c] = Ok f /\ is_ansi f /\ f_stack f = [] /\ aget str_eqb t (f_styles f) = Some p.
Proof.
  intros Ht Hne Hc. unfold new_formatter. cbn [style_set]. rewrite Ht. destruct t as [|t0 tr]; [congruence|].
  cbn [aset bind register]. rewrite Hc. cbn [bind]. eexists. split; [reflexivity|]. repeat split.
  cbn [f_styles]. rewrite sget_sset, str_eqb_refl. reflexivity.
Qed.
(* ... or added later *)
Lemma add_style_registers f c t p :
  is_ansi f -> c_tag c = Some t -> convert c = Ok p ->
  exists f', add_style f c = Ok f' /\ is_ansi f' /\ f_stack f' = f_stack f /\ aget str_eqb t (f_styles f') = Some p.
Proof.
  intros Hk Ht Hc. unfold add_style, is_ansi in *. destruct (f_kind f) eqn:Ek; try contradiction.
  rewrite Hc, Ht. cbn [bind]. eexists. split; [reflexivity|]. cbn [f_kind f_stack f_styles]. rewrite ?Ek. repeat split.
  rewrite sget_sset, str_eqb_refl. reflexivity.
Qed.

(* ---------- the formatters agree up to decoration ---------- *)
Lemma formatters_agree fa fp m style :
  is_ansi fa -> f_kind fp = FPlain -> f_styles fa = f_styles fp -> f_stack fa = f_stack fp -> Forall good m ->
  match format fa m None, remove_format fa m, format fp m style, remove_format fp m with
  | Ok (_, a), Ok (_, ra), Ok (_, pl), Ok (_, rp) =>
      strip_sgr a = pl /\ ra = pl /\ rp = pl /\ pl = strip_tags (f_styles fa) m /\ no_esc pl
  | Err e1, Err e2, Err e3, Err e4 => e1 = e2 /\ e2 = e3 /\ e3 = e4
  | _, _, _, _ => False
  end.
Proof.
  intros Hk Hp Hst Hsk Hm. unfold format, remove_format, is_ansi in *. rewrite Hp. destruct (f_kind fa); try contradiction.
  rewrite <- Hst, <- Hsk. pose proof (colorize_lockstep (f_styles fa) (f_stack fa) m Hm) as HL.
  destruct (colorize (f_styles fa) true (f_stack fa) m) as [[s1 o1]|e1], (colorize (f_styles fa) false (f_stack fa) m) as [[s2 o2]|e2];
    cbn [bind fst snd]; try contradiction; [|auto].
  destruct HL as (_ & H1 & H2). repeat split; auto.
  (* the plain text consists of characters of the message *)
  subst o2. rewrite H2. unfold strip_tags. destruct (lex_P (fun c => c <> ESC) m (good_no_esc m Hm)) as [Hs Ht].
  apply Forall_app; split; [|exact Ht]. apply Forall_flat_map. eapply Forall_impl; [|exact Hs].
  intros [pre [raw cl nm]] [A B]. cbn [fst snd raw_text tagP] in *. apply Forall_app; split; [exact A|].
  destruct (recognised (f_styles fa) (Tag raw cl nm)); [constructor|exact B].
Qed.
