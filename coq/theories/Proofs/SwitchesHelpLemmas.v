(* C09: the help switch placed after the command path prints THAT command's page; switches at the level of the LINE
   (not of an abstract option-token list); the tail behind "--" against no tail at all.
   Built on the C13 run-level machinery (HelpRunLemmas.help_same_run, HelpSamePageLemmas.help_target_no_defaults). *)
From Coq Require Import Lia Permutation.
From Clikit Require Import Base.Prelude Base.Res Model.Conv Model.Flags Model.Format Model.Parser Model.Resolver Model.Run
     Model.Tokenizer Model.Gate Model.Switches
     Proofs.StrLemmas Proofs.ResolverLemmas Proofs.SwitchesLemmas Proofs.HelpTargetLemmas Proofs.HelpSamePageLemmas
     Proofs.HelpRunLemmas.

(* ---------- the line and its option tokens ---------- *)
Definition no_ddash (l : list str) : bool := forallb (fun x => negb (is_ddash x)) l.

(* everything behind the first "--" is as if it were not there *)
Lemma option_tokens_cut l t : option_tokens (l ++ [DASH; DASH] :: t) = option_tokens l.
Proof.
  induction l as [|x r IH]; cbn [app option_tokens]; [reflexivity|]. destruct (is_ddash x); [reflexivity|]. now rewrite IH.
Qed.
Lemma option_tokens_no_ddash l : no_ddash l = true -> option_tokens l = l.
Proof.
  induction l as [|x r IH]; cbn [option_tokens no_ddash forallb]; [reflexivity|]. intros H. apply andb_prop in H as [Hx Hr].
  destruct (is_ddash x); [discriminate|]. f_equal. apply IH, Hr.
Qed.
(* a token placed anywhere before the first "--" of the line is an option token, at that place *)
Lemma option_tokens_insert l1 s l2 : is_ddash s = false -> no_ddash l1 = true ->
  option_tokens (l1 ++ s :: l2) = l1 ++ s :: option_tokens l2.
Proof.
  intros Hs. induction l1 as [|x r IH]; cbn [app option_tokens no_ddash forallb]; intros H.
  - now rewrite Hs.
  - apply andb_prop in H as [Hx Hr]. destruct (is_ddash x); [discriminate|]. now rewrite (IH Hr).
Qed.
Lemma option_tokens_app l1 l2 : no_ddash l1 = true -> option_tokens (l1 ++ l2) = l1 ++ option_tokens l2.
Proof.
  induction l1 as [|x r IH]; cbn [app option_tokens no_ddash forallb]; intros H; [reflexivity|].
  apply andb_prop in H as [Hx Hr]. destruct (is_ddash x); [discriminate|]. now rewrite (IH Hr).
Qed.

(* a switch inserted at ANY position of the line before its first "--": the settings, the help decision and the
   version decision are those of the line with the switch put first *)
Lemma line_insert_settings debug a l1 s l2 : is_ddash s = false -> no_ddash l1 = true ->
  sm_settings (run_summary debug a (l1 ++ s :: l2)) = sm_settings (run_summary debug a (s :: l1 ++ l2)).
Proof.
  intros Hs Hl. unfold run_summary. cbn [sm_settings]. rewrite (option_tokens_insert l1 s l2 Hs Hl).
  cbn [option_tokens]. rewrite Hs, (option_tokens_app l1 l2 Hl). apply settings_insert_lemma.
Qed.
Lemma line_insert_decisions l1 s l2 : is_ddash s = false -> no_ddash l1 = true ->
  wants_help (option_tokens (l1 ++ s :: l2)) = wants_help (option_tokens (s :: l1 ++ l2)) /\
  wants_version (option_tokens (l1 ++ s :: l2)) = wants_version (option_tokens (s :: l1 ++ l2)).
Proof.
  intros Hs Hl. rewrite (option_tokens_insert l1 s l2 Hs Hl). cbn [option_tokens]. rewrite Hs, (option_tokens_app l1 l2 Hl).
  split; [apply wants_help_perm|apply wants_version_perm]; apply Permutation_sym, Permutation_middle.
Qed.
(* each switch inserted anywhere before the first "--" has its effect on the settings, whatever else is on the line *)
Lemma line_switch_effect debug a l1 s l2 : is_ddash s = false -> no_ddash l1 = true ->
  let st := sm_settings (run_summary debug a (l1 ++ s :: l2)) in
  ((s = T_quiet \/ s = T_q) -> s_quiet st = true) /\
  ((s = T_no_interaction \/ s = T_n) -> s_interactive st = false) /\
  (s = T_no_ansi -> s_ansi st = AnsiOff) /\
  (s = T_vvv -> s_verbosity st = DEBUG).
Proof.
  intros Hs Hl. cbv zeta. rewrite (line_insert_settings debug a l1 s l2 Hs Hl). unfold run_summary. cbn [sm_settings option_tokens].
  rewrite Hs. unfold io_settings. cbn [s_quiet s_interactive s_ansi s_verbosity]. unfold has_token. cbn [existsb].
  repeat split.
  - intros [-> | ->]; cbn; now rewrite ?orb_true_r.
  - intros [-> | ->]; cbn; now rewrite ?orb_true_r.
  - intros ->. reflexivity.
  - intros ->. reflexivity.
Qed.

(* the same tokens behind "--": settings and both decisions are those of the line WITHOUT the tail *)
Lemma tail_inert debug a l t :
  sm_settings (run_summary debug a (l ++ [DASH; DASH] :: t)) = sm_settings (run_summary debug a l) /\
  wants_help (option_tokens (l ++ [DASH; DASH] :: t)) = wants_help (option_tokens l) /\
  wants_version (option_tokens (l ++ [DASH; DASH] :: t)) = wants_version (option_tokens l).
Proof. unfold run_summary. cbn [sm_settings]. rewrite option_tokens_cut. auto. Qed.

(* no help / version switch before the "--": what the run does is what resolution, the parsed options and the command
   selected say - a help or version token in the tail does not act *)
Lemma tail_switches_do_not_act debug a l t :
  wants_help (option_tokens l) = false -> wants_version (option_tokens l) = false ->
  sm_action (run_summary debug a (l ++ [DASH; DASH] :: t)) =
    match resolve a (l ++ [DASH; DASH] :: t) with
    | Err k => AError k
    | Ok (path, f, x) =>
      if args_is_option_set f x S_version then AVersion path
      else if match path with [p] => str_eqb p S_help | _ => false end then
        if args_is_argument_set f x (AName [99;111;109;109;97;110;100]%N)
        then match help_target a (l ++ [DASH; DASH] :: t) with Ok p => AHelpCmd p | Err k => AHelpFail k end
        else AHelpApp
      else AHandler path
    end.
Proof.
  intros Hh Hv. unfold run_summary. cbn [sm_action]. rewrite option_tokens_cut, Hh, Hv.
  destruct (resolve a (l ++ [DASH; DASH] :: t)) as [[[path f] x]|k]; [|reflexivity]. now rewrite orb_false_r.
Qed.

(* ---------- the help switch right after the command path ---------- *)
(* ends without an error: a page (or name and version) is printed, status 0 *)
Definition prints_page (x : action) : bool := match x with AHelpApp | AHelpCmd _ => true | _ => false end.

(* the help resolver's probe: the first default that parses the line, the ones before it refused or with a value error *)
Definition unfit (toks : list str) (c : bcmd) : Prop :=
  parse (b_fmt c) (b_lenient c) toks = Err CannotParse \/ parse (b_fmt c) (b_lenient c) toks = Err ValueError.
Lemma help_pick_first_parsable ds1 d x ds2 toks : Forall (unfit toks) ds1 -> parse (b_fmt d) (b_lenient d) toks = Ok x ->
  forall first, help_pick_default (ds1 ++ d :: ds2) toks first = Ok (Some (d, Ok x)).
Proof.
  induction ds1 as [|c r IH]; intros Hf Hd first; cbn [app help_pick_default].
  - rewrite Hd. reflexivity.
  - inversion Hf as [|? ? Hc Hr]; subst. destruct Hc as [Hc|Hc]; rewrite Hc; apply IH; assumption.
Qed.
(* none parses it: the first one *)
Lemma help_pick_none_parsable toks : forall ds first, Forall (unfit toks) ds ->
  exists k, help_pick_default ds toks first =
    Ok (match first, ds with Some (b, k0), _ => Some (b, Err k0) | None, d :: _ => Some (d, Err k) | None, [] => None end).
Proof.
  induction ds as [|d r IH]; intros first Hf; cbn [help_pick_default]; [exists CannotParse; destruct first as [[b k]|]; reflexivity|].
  inversion Hf as [|? ? Hd Hr]; subst. destruct Hd as [Hd|Hd]; rewrite Hd.
  - destruct first as [[b k0]|].
    + destruct (IH (Some (b, k0)) Hr) as [k ->]. exists k. reflexivity.
    + destruct (IH (Some (d, CannotParse)) Hr) as [k ->]. exists CannotParse. reflexivity.
  - destruct first as [[b k0]|].
    + destruct (IH (Some (b, k0)) Hr) as [k ->]. exists k. reflexivity.
    + destruct (IH (Some (d, ValueError)) Hr) as [k ->]. exists ValueError. reflexivity.
Qed.

Section HelpAfterPath.
  Variables (cfg : appcfg) (a : application) (debug : bool) (path : list str) (sw : str).
  Hypothesis Hb : build_app cfg = Ok a.
  Hypothesis Hcfg : default_help_config cfg = true.
  Hypothesis Hplain : forallb lead_ok path = true.
  Hypothesis Hne : path <> [].
  Hypothesis Hh : match path with t :: _ => str_eqb t S_help = false | [] => True end.
  Hypothesis Hsw : sw = T_help \/ sw = T_h.

  Lemma defines : defines_help cfg = true.
  Proof. unfold default_help_config in Hcfg. apply andb_prop in Hcfg as [H _]. apply andb_prop in H as [H _]. exact H. Qed.

  (* the run shows the page of the help target of "help <path>", or reports why there is none *)
  Lemma help_switch_run : sm_action (run_summary debug a (path ++ [sw])) = help_page a (S_help :: path).
  Proof.
    destruct (help_same_run cfg a debug path Hb Hcfg Hplain Hne Hh) as (_ & R2 & R3). destruct Hsw as [-> | ->]; assumption.
  Qed.

  (* the target, from the command the path walks to: its first default sub-command that parses the line (strictly or
     leniently, as configured), else the first one, else the command itself - parsed leniently in the end *)
  Lemma help_target_of_path b p : walk (named_of (ap_cmds a)) None path = Ok (Some (b, p)) ->
    help_target a (S_help :: path) =
      (do d <- help_pick_default (defaults_of (b_subs b)) path None;
       match d with
       | Some (dc, _) => do _ <- help_lenient (b_fmt dc) path; Ok (p ++ [b_name dc])
       | None => do _ <- help_lenient (b_fmt b) path; Ok p
       end).
  Proof.
    intros Hw. rewrite help_word_dropped by exact Hh. unfold help_target.
    assert ((match path with t :: r => if str_eqb t S_help then r else path | [] => [] end) = path) as ->.
    { destruct path as [|t r]; [reflexivity|now rewrite Hh]. }
    rewrite (leading_all _ Hplain), Hw. cbn [bind].
    destruct (help_pick_default (defaults_of (b_subs b)) path None) as [[[dc r]|]|k]; cbn [bind]; reflexivity.
  Qed.

  (* THAT command's page: the path walks to b (name path p), b has no default sub-command - the run prints the page of
     p unless the lenient parse of the path with b's format fails with something else than a value error (since fix
     488171f a value error no longer keeps the page from being shown; leniency swallows the two parse errors) *)
  Lemma help_switch_page b p : walk (named_of (ap_cmds a)) None path = Ok (Some (b, p)) -> defaults_of (b_subs b) = [] ->
    sm_action (run_summary debug a (path ++ [sw])) =
      match help_lenient (b_fmt b) path with Ok _ => AHelpCmd p | Err k => AHelpFail k end.
  Proof.
    intros Hw Hd. rewrite help_switch_run. unfold help_page. rewrite (help_target_of_path b p Hw), Hd. cbn [help_pick_default bind].
    destruct (help_lenient (b_fmt b) path); reflexivity.
  Qed.
  Lemma help_switch_page_ok b p : walk (named_of (ap_cmds a)) None path = Ok (Some (b, p)) -> defaults_of (b_subs b) = [] ->
    help_lenient (b_fmt b) path = Ok tt ->
    sm_action (run_summary debug a (path ++ [sw])) = AHelpCmd p /\ prints_page (sm_action (run_summary debug a (path ++ [sw]))) = true.
  Proof. intros Hw Hd Hp. rewrite (help_switch_page b p Hw Hd), Hp. auto. Qed.

  (* with default sub-commands: the page of the default sub-command the line selects *)
  Lemma help_switch_page_default b p ds1 d ds2 x : walk (named_of (ap_cmds a)) None path = Ok (Some (b, p)) ->
    defaults_of (b_subs b) = ds1 ++ d :: ds2 ->
    Forall (fun c => parse (b_fmt c) (b_lenient c) path = Err CannotParse \/ parse (b_fmt c) (b_lenient c) path = Err ValueError) ds1 ->
    parse (b_fmt d) (b_lenient d) path = Ok x -> help_lenient (b_fmt d) path = Ok tt ->
    sm_action (run_summary debug a (path ++ [sw])) = AHelpCmd (p ++ [b_name d]).
  Proof.
    intros Hw Hd H1 H2 H3. rewrite help_switch_run. unfold help_page. rewrite (help_target_of_path b p Hw), Hd.
    rewrite (help_pick_first_parsable ds1 d x ds2 path H1 H2 None). cbn [bind]. now rewrite H3.
  Qed.

  (* and never the handler, never a resolution error of the line itself *)
  Lemma help_switch_no_error : match sm_action (run_summary debug a (path ++ [sw])) with AHelpCmd _ | AHelpFail _ => True | _ => False end.
  Proof. rewrite help_switch_run. unfold help_page. destruct (help_target a (S_help :: path)); exact I. Qed.
End HelpAfterPath.
