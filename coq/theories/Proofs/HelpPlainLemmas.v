(* C13, the width of a help page written through the PLAIN formatter: whenever the page renders, no line is wider than
   W - 1.  The formatter only deletes (Proofs/MarkupShrinkLemmas.v), line by line; on the line of a label it deletes at
   least the markup the alignment has allowed for (the label measured on its own, as LabelAlignment does). *)
From Coq Require Import Lia.
From Clikit Require Import Base.Prelude Base.Res Model.Conv Model.Flags Model.Format Model.Markup Model.Wrap Model.Help.
From Clikit Require Import Proofs.MarkupLemmas Proofs.LiteralLemmas Proofs.MarkupShrinkLemmas Proofs.WrapLemmas Proofs.HelpLemmas.
Local Open Scope Z_scope.

(* ---- lines and okr ---- *)
Lemma okr_deletes x y : deletes x y -> forall b1 b, okr b1 b x -> okr b1 b y.
Proof.
  induction 1 as [|c x y H IH|c x y Hc H IH]; intros b1 b Hx; [exact Hx| |].
  - cbn [okr] in *. destruct (N.eqb c 10); [split; [tauto|apply IH; tauto]|apply IH, Hx].
  - cbn [okr] in Hx. apply N.eqb_neq in Hc. change NL with 10%N in Hc. rewrite Hc in Hx.
    apply IH in Hx. eapply okr_mono; [|exact Hx]. lia.
Qed.
Lemma okr_of_lines b s : forall b1, zlen (hd [] (split_on 10%N s)) <= b1 -> Forall (fun l => zlen l <= b) (tl (split_on 10%N s)) ->
  okr b1 b s.
Proof.
  induction s as [|c r IH]; intros b1 H1 H2; [exact H1|]. cbn [okr]. destruct (N.eqb c 10) eqn:E.
  - cbn [split_on] in H1, H2. rewrite E in H1, H2. cbn [hd tl] in H1, H2. split; [exact H1|].
    destruct (split_on 10%N r) as [|l ls] eqn:Er; [destruct (split_on_nonempty _ _ Er)|]. inversion H2; subst.
    apply IH; rewrite ?Er; cbn [hd tl]; assumption.
  - destruct (split_on_cons 10%N c r E) as (l & ls & Er & Ec). rewrite Ec in H1, H2. cbn [hd tl] in H1, H2.
    apply IH; rewrite ?Er; cbn [hd tl]; [rewrite zlen_cons in H1; lia|exact H2].
Qed.
Lemma hd_split_no_nl p s : no_nl p -> hd [] (split_on 10%N (p ++ s)) = p ++ hd [] (split_on 10%N s).
Proof.
  induction 1 as [|c p Hc Hp IH]; [reflexivity|]. cbn [app]. apply N.eqb_neq in Hc.
  destruct (split_on_cons 10%N c (p ++ s) Hc) as (l & ls & E1 & ->). rewrite E1 in IH. cbn [hd] in *. now rewrite IH.
Qed.
Lemma hd_split_prefix : forall t, exists t2, t = hd [] (split_on 10%N t) ++ t2.
Proof.
  induction t as [|c t [t2 IH]]; [exists []; reflexivity|]. destruct (N.eqb c 10) eqn:E.
  - cbn [split_on]. rewrite E. exists (c :: t). reflexivity.
  - destruct (split_on_cons 10%N c t E) as (l & ls & E1 & ->). rewrite E1 in IH. cbn [hd] in *. exists t2. now rewrite IH at 1.
Qed.
(* the first line of a text with more text behind it: the first line, and a piece of what is behind *)
Lemma hd_split_app : forall a t, exists t1 t2, t = t1 ++ t2 /\ hd [] (split_on 10%N (a ++ t)) = hd [] (split_on 10%N a) ++ t1.
Proof.
  induction a as [|c a IH]; intros t.
  - destruct (hd_split_prefix t) as [t2 E]. exists (hd [] (split_on 10%N t)), t2. split; [exact E|reflexivity].
  - cbn [app]. destruct (N.eqb c 10) eqn:E.
    + cbn [split_on]. rewrite E. exists [], t. split; reflexivity.
    + destruct (IH t) as (t1 & t2 & Et & Eh). exists t1, t2. split; [exact Et|].
      destruct (split_on_cons 10%N c (a ++ t) E) as (l & ls & E1 & ->). destruct (split_on_cons 10%N c a E) as (l' & ls' & E2 & ->).
      rewrite E1, E2 in Eh. cbn [hd] in *. now rewrite Eh.
Qed.
Lemma rstrip_rev_suffix_space r : exists t, r = t ++ rstrip_rev r /\ Forall (fun c => is_space c = true) t.
Proof.
  induction r as [|c r (t & IH & Ht)]; [exists []; split; [reflexivity|constructor]|]. cbn [rstrip_rev].
  destruct (is_space c) eqn:E; [|exists []; split; [reflexivity|constructor]].
  exists (c :: t). split; [cbn; now rewrite <- IH|constructor; assumption].
Qed.
Lemma rstrip_prefix_space s : exists t, s = rstrip s ++ t /\ Forall (fun c => is_space c = true) t.
Proof.
  unfold rstrip. destruct (rstrip_rev_suffix_space (rev s)) as (t & Ht & Hs). exists (rev t). split.
  - rewrite <- rev_app_distr, <- Ht. symmetry. apply rev_involutive.
  - apply Forall_forall. intros c Hc. apply in_rev in Hc. rewrite Forall_forall in Hs. auto.
Qed.
Lemma inert_spaces n : Forall inert (spaces n).
Proof. apply Forall_forall. intros c Hc. apply repeat_spec in Hc. subst. apply inert_space. reflexivity. Qed.
Lemma inert_blank t : Forall (fun c => is_space c = true) t -> Forall inert t.
Proof. intros H. eapply Forall_impl; [|exact H]. intros c. apply inert_space. Qed.

Definition vlen (sty : styles) (s : str) : Z := zlen (plain_of sty false s).
Lemma vlen_le sty s : vlen sty s <= zlen s.
Proof. unfold vlen, zlen. pose proof (plain_of_le sty false s). lia. Qed.

(* ---- the plain formatter ---- *)
Lemma remove_format_plain_of f m x : f_kind f <> FNull -> remove_format f m = Ok x ->
  snd x = plain_of (f_styles f) (ends_with_bsl m) m /\ f_kind (fst x) = f_kind f /\ f_styles (fst x) = f_styles f.
Proof.
  intros Hk H. destruct x as [f' out]. apply remove_format_colorize in H; [|exact Hk]. destruct H as (H & H1 & H2).
  apply colorize_plain_of in H. cbn [fst snd]. auto.
Qed.
Lemma emit_plain_of f m x : f_kind f = FPlain -> emit f m = Ok x ->
  snd x = plain_of (f_styles f) (ends_with_bsl m) m /\ f_kind (fst x) = FPlain /\ f_styles (fst x) = f_styles f.
Proof.
  intros Hk H. unfold emit in H. rewrite Hk in H. apply remove_format_plain_of in H; [|congruence]. now rewrite Hk in H.
Qed.
(* a text ended by a line break *)
Lemma plain_of_body sty body : plain_of sty (ends_with_bsl (body ++ [10%N])) (body ++ [10%N]) = plain_of sty false body ++ [10%N].
Proof. rewrite ends_snoc. change (N.eqb 10 BSL) with false. apply plain_of_snoc, inert_nl. Qed.

(* the lines of the text behind the first: within b before, within b after *)
Lemma okr_plain sty b1 b body : 0 <= b ->
  zlen (plain_of sty false (hd [] (split_on 10%N body))) <= b1 -> Forall (fun l => zlen l <= b) (tl (split_on 10%N body)) ->
  okr b1 b (plain_of sty false body).
Proof.
  intros Hb H1 H2. apply okr_of_lines; change 10%N with NL; rewrite plain_of_lines; change NL with 10%N.
  - destruct (split_on 10%N body) as [|l ls] eqn:E; [destruct (split_on_nonempty _ _ E)|]. exact H1.
  - destruct (split_on 10%N body) as [|l ls] eqn:E; [constructor|]. cbn [map tl] in *.
    apply Forall_forall. intros x Hx. apply in_map_iff in Hx. destruct Hx as (y & <- & Hy). rewrite Forall_forall in H2.
    specialize (H2 y Hy). pose proof (plain_of_le sty false y). unfold zlen in *. lia.
Qed.

(* ---- one element: the label line ---- *)
(* the first line of the text of a labelled paragraph, blanks stripped from its end put back: indentation, label, blanks up
   to the text column, the first wrapped line *)
Lemma lab_first_line W off ind vis label text padding aligned raw :
  elem_raw W off ind vis (ELab label text padding aligned) = Ok raw -> 0 <= vis -> no_nl label ->
  let to := Z.max (if aligned then off - Z.of_nat ind else 0) (vis + Z.of_nat padding) in
  exists body t1 j1, raw = body ++ [10%N]
    /\ hd [] (split_on 10%N body) ++ t1 = spaces ind ++ label ++ spaces (Z.to_nat (to - vis)) ++ j1
    /\ Forall (fun c => is_space c = true) t1
    /\ Z.of_nat ind + to + zlen j1 <= W - 1.
Proof.
  intros H Hvis Hlab. cbn [elem_raw] in H. cbv zeta in *.
  set (to := Z.max (if aligned then off - Z.of_nat ind else 0) (vis + Z.of_nat padding)) in *.
  destruct (wrap text (W - 1 - to - Z.of_nat ind)) as [lines|k] eqn:Ew; [|discriminate]. cbn [bind] in H. injection H as <-.
  apply wrap_ok_facts in Ew. destruct Ew as (Hw & Hnl & Hfit).
  assert (Hto : vis + Z.of_nat padding <= to) by (subst to; lia).
  set (J := join_lines (spaces ind ++ spaces (Z.to_nat to)) lines).
  set (X := spaces ind ++ ljust label (to + (zlen label - vis)) ++ rstrip J).
  destruct (rstrip_prefix_space X) as (t & Ht & Hts).
  destruct (hd_split_app (rstrip X) t) as (t1 & t2 & Et & Eh). rewrite <- Ht in Eh.
  exists (rstrip X), t1, (hd [] (split_on 10%N (rstrip J))). split; [reflexivity|]. split; [|split].
  - rewrite <- Eh. unfold X, ljust. rewrite <- !app_assoc.
    replace (to + (zlen label - vis) - zlen label) with (to - vis) by lia.
    rewrite hd_split_no_nl by apply no_nl_spaces. rewrite hd_split_no_nl by exact Hlab.
    rewrite hd_split_no_nl by apply no_nl_spaces. reflexivity.
  - rewrite Et in Hts. apply Forall_app in Hts. tauto.
  - assert (Hj : okr (W - 1 - to - Z.of_nat ind) (W - 1) J).
    { apply (okr_join _ _ (W - 1 - to - Z.of_nat ind)); [apply no_nl_app; apply no_nl_spaces| |lia|exact Hnl|exact Hfit|lia].
      rewrite zlen_app, !zlen_spaces. lia. }
    apply okr_rstrip, okr_split in Hj. lia.
Qed.

(* ... hence its visible width: the formatter deletes from the line at least what it deletes from the label alone *)
Lemma lab_first_fits sty a0 W off ind label text padding aligned raw :
  elem_raw W off ind (zlen (plain_of sty a0 label)) (ELab label text padding aligned) = Ok raw -> no_nl label ->
  exists body, raw = body ++ [10%N] /\ zlen (plain_of sty false (hd [] (split_on 10%N body))) <= W - 1.
Proof.
  intros H Hlab. set (vis := zlen (plain_of sty a0 label)) in *.
  destruct (lab_first_line _ _ _ _ _ _ _ _ _ H (zlen_nonneg _) Hlab) as (body & t1 & j1 & -> & EF & Ht1 & Hj). cbv zeta in *.
  set (to := Z.max (if aligned then off - Z.of_nat ind else 0) (vis + Z.of_nat padding)) in *.
  exists body. split; [reflexivity|]. set (F := hd [] (split_on 10%N body)) in *.
  pose proof (plain_of_inert_suffix sty false F t1 (inert_blank _ Ht1)) as E1. rewrite EF in E1.
  pose proof (plain_of_context_le sty a0 (spaces ind) label (spaces (Z.to_nat (to - vis)) ++ j1) (inert_spaces ind)) as E2.
  assert (Hsp : forall n, length (spaces n) = n) by (intros; apply repeat_length).
  rewrite E1 in E2. rewrite !app_length, !Hsp in E2.
  assert (vis + Z.of_nat padding <= to) by (subst to; lia).
  assert (0 <= vis) by apply zlen_nonneg. unfold zlen in *. fold vis in E2. lia.
Qed.

(* ---- one element through the plain formatter ---- *)
Lemma render_elem_plain_fits W off f ind e x : f_kind f = FPlain -> 1 <= W -> no_nl (elem_label e) ->
  render_elem W off f ind e = Ok x ->
  f_kind (fst x) = FPlain /\ f_styles (fst x) = f_styles f /\ exists p, snd x = p ++ [10%N] /\ okr (W - 1) (W - 1) p.
Proof.
  intros Hk HW Hlab H.
  assert (Hgen : forall f0 raw b1, f_kind f0 = FPlain -> f_styles f0 = f_styles f -> emit f0 raw = Ok x ->
            (exists body, raw = body ++ [10%N] /\ zlen (plain_of (f_styles f) false (hd [] (split_on 10%N body))) <= W - 1
                          /\ okr b1 (W - 1) body) ->
            f_kind (fst x) = FPlain /\ f_styles (fst x) = f_styles f /\ exists p, snd x = p ++ [10%N] /\ okr (W - 1) (W - 1) p).
  { intros f0 raw b1 Hk0 Hs0 He (body & -> & HF & Hb). apply emit_plain_of in He; [|exact Hk0]. destruct He as (E & E1 & E2).
    split; [exact E1|]. split; [congruence|]. rewrite E, Hs0, plain_of_body. eexists. split; [reflexivity|].
    apply okr_plain; [lia|exact HF|]. apply okr_split in Hb. tauto. }
  destruct e as [t|label text padding aligned|]; unfold render_elem in H.
  - destruct (elem_raw W off ind 0 (EPara t)) as [raw|k] eqn:Er; [|discriminate]. cbn [bind] in H.
    destruct (elem_raw_fits _ _ _ _ _ _ Er HW (Z.le_refl 0) Hlab) as (body & -> & Hb). cbn [first_bound] in Hb.
    apply (Hgen f _ (W - 1) Hk eq_refl H). exists body. split; [reflexivity|]. split; [|exact Hb].
    apply okr_split in Hb. pose proof (plain_of_le (f_styles f) false (hd [] (split_on 10%N body))). unfold zlen in *. lia.
  - destruct (remove_format f label) as [x1|k] eqn:E1; [|discriminate]. cbn [bind] in H.
    apply remove_format_plain_of in E1; [|congruence]. destruct E1 as (Ev & Ek1 & Es1). rewrite Ev in H.
    destruct (elem_raw W off ind _ (ELab label text padding aligned)) as [raw|k] eqn:Er; [|discriminate]. cbn [bind] in H.
    cbn [elem_label] in Hlab.
    destruct (lab_first_fits _ _ _ _ _ _ _ _ _ _ Er Hlab) as (body & -> & HF).
    destruct (elem_raw_fits _ _ _ _ _ _ Er HW (zlen_nonneg _) Hlab) as (body' & Eb & Hb).
    apply app_inj_tail in Eb. destruct Eb as [<- _].
    eapply (Hgen (fst x1) _ _ (eq_trans Ek1 Hk) Es1 H). exists body. split; [reflexivity|]. split; [exact HF|exact Hb].
  - cbn [elem_raw bind] in H. apply (Hgen f _ (W - 1) Hk eq_refl H). exists []. split; [reflexivity|]. cbn. lia.
Qed.

(* ---- the page ---- *)
Lemma render_all_plain_fits W off : 1 <= W -> forall l f out x, f_kind f = FPlain -> one_line_labels l ->
  render_all W off f l out = Ok x -> lines_within (W - 1) out -> lines_within (W - 1) (snd x).
Proof.
  intros HW. induction l as [|[ind e] r IH]; intros f out x Hk Hl H Hout; cbn [render_all] in H.
  - injection H as <-. exact Hout.
  - inversion Hl as [|? ? Hl1 Hl2]; subst. cbn [snd] in Hl1.
    destruct (render_elem W off f ind e) as [y|k] eqn:Ee; [|discriminate]. cbn [bind] in H.
    destruct (render_elem_plain_fits _ _ _ _ _ _ Hk HW Hl1 Ee) as (Hk' & _ & body & Ey & Hb).
    apply IH in H; [exact H|exact Hk'|exact Hl2|]. rewrite Ey.
    right. destruct Hout as [->|(p & -> & Hp)].
    + exists body. auto.
    + exists (p ++ 10%N :: body). split; [now rewrite <- !app_assoc|]. now apply okr_app_nl.
Qed.
Lemma align_plain : forall l f acc x, f_kind f = FPlain -> align f l acc = Ok x -> f_kind (fst x) = FPlain.
Proof.
  induction l as [|[ind e] r IH]; intros f acc x Hk H; cbn [align] in H; [injection H as <-; exact Hk|].
  destruct e as [t|label text padding aligned|]; [eapply IH; eassumption| |eapply IH; eassumption].
  destruct aligned; [|eapply IH; eassumption].
  destruct (remove_format f label) as [x1|k] eqn:E1; [|discriminate]. cbn [bind] in H.
  apply remove_format_plain_of in E1; [|congruence]. eapply IH; [|exact H]. destruct E1 as (_ & -> & _). exact Hk.
Qed.

(* Whenever a page renders through the plain formatter, no line of it is wider than W - 1: for EVERY layout whose labels
   hold no line break, every style table and every state of the formatter's style stack. *)
Theorem page_fits_plain_lemma W f l s : f_kind f = FPlain -> 1 <= W -> one_line_labels l ->
  render_page W f l = Ok s -> Forall (fun ln => zlen ln <= W - 1) (split_on 10%N s).
Proof.
  intros Hk HW Hl H. unfold render_page in H.
  destruct (align f l 0) as [a|k] eqn:Ea; [|discriminate]. cbn [bind] in H.
  destruct (render_all W (snd a) (fst a) l []) as [x|k] eqn:E; [|discriminate]. cbn [bind] in H. injection H as <-.
  apply lines_within_split; [lia|].
  eapply render_all_plain_fits; [exact HW|eapply align_plain; eassumption|exact Hl|exact E|left; reflexivity].
Qed.

(* a narrow terminal (W <= 0): the plain rendering of a page with a paragraph or a label fails; of empty lines only it is
   the empty lines - the statement holds there too *)
Theorem command_help_fits_plain_lemma W f sty app_name ch aliases help subs s :
  f_kind f = FPlain -> 1 <= W ->
  (match app_name with Some n => no_nl n | None => True end) -> Forall no_nl (chain_names ch) ->
  Forall arg_one_line (chain_args ch) -> Forall opt_one_line (own_opts ch) -> Forall opt_one_line (base_opts ch) ->
  Forall sub_one_line subs ->
  render_page W f (command_page sty app_name ch aliases help subs) = Ok s ->
  Forall (fun ln => zlen ln <= W - 1) (split_on 10%N s).
Proof.
  intros Hk HW H1 H2 H3 H4 H5 H6 Hs.
  eapply page_fits_plain_lemma; [exact Hk|exact HW|apply command_page_one_line; eassumption|exact Hs].
Qed.
Theorem application_help_fits_plain_lemma W f sty app_name display version gopts cmds help s :
  f_kind f = FPlain -> 1 <= W ->
  (match app_name with Some n => no_nl n | None => True end) -> Forall opt_one_line gopts ->
  Forall (fun c => no_nl (ac_name c)) cmds ->
  render_page W f (application_page sty app_name display version gopts cmds help) = Ok s ->
  Forall (fun ln => zlen ln <= W - 1) (split_on 10%N s).
Proof.
  intros Hk HW H1 H2 H3 Hs.
  eapply page_fits_plain_lemma; [exact Hk|exact HW|apply application_page_one_line; eassumption|exact Hs].
Qed.
