(* C13, the width of a help page written through the PLAIN formatter: whenever the page renders, no line is wider than
   W - 1.  The formatter only deletes (Proofs/MarkupShrinkLemmas.v), line by line; on the line of a label it deletes at
   least the markup the alignment has allowed for (the label measured on its own, as LabelAlignment does). *)
From Coq Require Import Lia.
From Clikit Require Import Base.Prelude Base.Res Model.Conv Model.Flags Model.Format Model.Markup Model.Wrap Model.Help.
From Clikit Require Import Proofs.MarkupLemmas Proofs.LiteralLemmas Proofs.MarkupShrinkLemmas Proofs.WrapLemmas Proofs.HelpLemmas.
Local Open Scope Z_scope.

(* ---- lines and okr ---- *)
Lemma okr_deletes x y : deletes x y -> forall b1 b, okr b1 b x -> okr b1 b y.
Proof.
  induction 1 as [|c x y H IH|c x y Hc H IH]; intros b1 b Hx; [exact Hx| |].
  - cbn [okr] in *. destruct (N.eqb c 10); [split; [tauto|apply IH; tauto]|apply IH, Hx].
  - cbn [okr] in Hx. apply N.eqb_neq in Hc. change NL with 10%N in Hc. rewrite Hc in Hx.
    apply IH in Hx. eapply okr_mono; [|exact Hx]. lia.
Qed.
Lemma okr_of_lines b s : forall b1, zlen (hd [] (split_on 10%N s)) <= b1 -> Forall (fun l => zlen l <= b) (tl (split_on 10%N s)) ->
  okr b1 b s.
Proof.
  induction s as [|c r IH]; intros b1 H1 H2; [exact H1|]. cbn [okr]. destruct (N.eqb c 10) eqn:E.
  - cbn [split_on] in H1, H2. rewrite E in H1, H2. cbn [hd tl] in H1, H2. split; [exact H1|].
    destruct (split_on 10%N r) as [|l ls] eqn:Er; [destruct (split_on_nonempty _ _ Er)|]. inversion H2; subst.
    apply IH; rewrite ?Er; cbn [hd tl]; assumption.
  - destruct (split_on_cons 10%N c r E) as (l & ls & Er & Ec). rewrite Ec in H1, H2. cbn [hd tl] in H1, H2.
    apply IH; rewrite ?Er; cbn [hd tl]; [rewrite zlen_cons in H1; lia|exact H2].
Qed.
Lemma hd_split_no_nl p s : no_nl p -> hd [] (split_on 10%N (p ++ s)) = p ++ hd [] (split_on 10%N s).
Proof.
  induction 1 as [|c p Hc Hp IH]; [reflexivity|]. cbn [app]. apply N.eqb_neq in Hc.
  destruct (split_on_cons 10%N c (p ++ s) Hc) as (l & ls & E1 & ->). rewrite E1 in IH. cbn [hd] in *. now rewrite IH.
Qed.
Lemma hd_split_prefix : forall t, exists t2, t = hd [] (split_on 10%N t) ++ t2.
Proof.
  induction t as [|c t [t2 IH]]; [exists []; reflexivity|]. destruct (N.eqb c 10) eqn:E.
  - cbn [split_on]. rewrite E. exists (c :: t). reflexivity.
  - destruct (split_on_cons 10%N c t E) as (l & ls & E1 & ->). rewrite E1 in IH. cbn [hd] in *. exists t2. now rewrite IH at 1.
Qed.
(* the first line of a text with more text behind it: the first line, and a piece of what is behind *)
Lemma hd_split_app : forall a t, exists t1 t2, t = t1 ++ t2 /\ hd [] (split_on 10%N (a ++ t)) = hd [] (split_on 10%N a) ++ t1.
Proof.
  induction a as [|c a IH]; intros t.
  - destruct (hd_split_prefix t) as [t2 E]. exists (hd [] (split_on 10%N t)), t2. split; [exact E|reflexivity].
  - cbn [app]. destruct (N.eqb c 10) eqn:E.
    + cbn [split_on]. rewrite E. exists [], t. split; reflexivity.
    + destruct (IH t) as (t1 & t2 & Et & Eh). exists t1, t2. split; [exact Et|].
      destruct (split_on_cons 10%N c (a ++ t) E) as (l & ls & E1 & ->). destruct (split_on_cons 10%N c a E) as (l' & ls' & E2 & ->).
      rewrite E1, E2 in Eh. cbn [hd] in *. now rewrite Eh.
Qed.
Lemma rstrip_rev_suffix_space r : exists t, r = t ++ rstrip_rev r /\ Forall (fun c => is_space c = true) t.
Proof.
  induction r as [|c r (t & IH & Ht)]; [exists []; split; [reflexivity|constructor]|]. cbn [rstrip_rev].
  destruct (is_space c) eqn:E; [|exists []; split; [reflexivity|constructor]].
  exists (c :: t). split; [cbn; now rewrite <- IH|constructor; assumption].
Qed.
Lemma rstrip_prefix_space s : exists t, s = rstrip s ++ t /\ Forall (fun c => is_space c = true) t.
Proof.
  unfold rstrip. destruct (rstrip_rev_suffix_space (rev s)) as (t & Ht & Hs). exists (rev t). split.
  - rewrite <- rev_app_distr, <- Ht. symmetry. apply rev_involutive.
  - apply Forall_forall. intros c Hc. apply in_rev in Hc. rewrite Forall_forall in Hs. auto.
Qed.
Lemma inert_spaces n : Forall inert (spaces n).
Proof. apply Forall_forall. intros c Hc. apply repeat_spec in Hc. subst. apply inert_space. reflexivity. Qed.
Lemma inert_blank t : Forall (fun c => is_space c = true) t -> Forall inert t.
Proof. intros H. eapply Forall_impl; [|exact H]. intros c. apply inert_space. Qed.

(* ---- the plain formatter ---- *)
Lemma remove_format_plain_of f m x : f_kind f <> FNull -> remove_format f m = Ok x ->
  snd x = plain_of (f_styles f) (ends_with_bsl m) m /\ f_kind (fst x) = f_kind f /\ f_styles (fst x) = f_styles f.
Proof.
  intros Hk H. destruct x as [f' out]. apply remove_format_colorize in H; [|exact Hk]. destruct H as (H & H1 & H2).
  apply colorize_plain_of in H. cbn [fst snd]. auto.
Qed.
Lemma emit_plain_of f m x : f_kind f = FPlain -> emit f m = Ok x ->
  snd x = plain_of (f_styles f) (ends_with_bsl m) m /\ f_kind (fst x) = FPlain /\ f_styles (fst x) = f_styles f.
Proof.
  intros Hk H. unfold emit in H. rewrite Hk in H. apply remove_format_plain_of in H; [|congruence]. now rewrite Hk in H.
Qed.

(* ---- one element: the label line ---- *)
(* the first line of the text of a labelled paragraph, blanks stripped from its end put back: indentation, label, blanks up
   to the text column, the first wrapped line *)
Lemma lab_first_line W off ind vis label text padding aligned raw :
  elem_raw W off ind vis (ELab label text padding aligned) = Ok raw -> 0 <= vis -> no_nl label ->
  let to := Z.max (if aligned then off - Z.of_nat ind else 0) (vis + Z.of_nat padding) in
  exists body t1 j1, raw = body ++ [10%N]
    /\ hd [] (split_on 10%N body) ++ t1 = spaces ind ++ label ++ spaces (Z.to_nat (to - vis)) ++ j1
    /\ Forall (fun c => is_space c = true) t1
    /\ Z.of_nat ind + to + zlen j1 <= W - 1.
Proof.
  intros H Hvis Hlab. cbn [elem_raw] in H. cbv zeta in *.
  set (to := Z.max (if aligned then off - Z.of_nat ind else 0) (vis + Z.of_nat padding)) in *.
  destruct (wrap text (W - 1 - to - Z.of_nat ind)) as [lines|k] eqn:Ew; [|discriminate]. cbn [bind] in H. injection H as <-.
  apply wrap_ok_facts in Ew. destruct Ew as (Hw & Hnl & Hfit).
  assert (Hto : vis + Z.of_nat padding <= to) by (subst to; lia).
  set (J := join_lines (spaces ind ++ spaces (Z.to_nat to)) lines).
  set (X := spaces ind ++ ljust label (to + (zlen label - vis)) ++ rstrip J).
  destruct (rstrip_prefix_space X) as (t & Ht & Hts).
  destruct (hd_split_app (rstrip X) t) as (t1 & t2 & Et & Eh). rewrite <- Ht in Eh.
  exists (rstrip X), t1, (hd [] (split_on 10%N (rstrip J))). split; [reflexivity|]. split; [|split].
  - rewrite <- Eh. unfold X, ljust. rewrite <- !app_assoc.
    replace (to + (zlen label - vis) - zlen label) with (to - vis) by lia.
    rewrite hd_split_no_nl by apply no_nl_spaces. rewrite hd_split_no_nl by exact Hlab.
    rewrite hd_split_no_nl by apply no_nl_spaces. reflexivity.
  - rewrite Et in Hts. apply Forall_app in Hts. tauto.
  - assert (Hj : okr (W - 1 - to - Z.of_nat ind) (W - 1) J).
    { apply (okr_join _ _ (W - 1 - to - Z.of_nat ind)); [apply no_nl_app; apply no_nl_spaces| |lia|exact Hnl|exact Hfit|lia].
      rewrite zlen_app, !zlen_spaces. lia. }
    apply okr_rstrip, okr_split in Hj. lia.
Qed.

(* ---- one element, for the rendering (p = post_unescape) and for the rendering before unescape (p = post_id) ---- *)
Section Element.
Variable p : post.
Variable sty : styles.

(* a text ended by a line break *)
Lemma render_body body : render p sty false (body ++ [10%N]) = render p sty false body ++ [10%N].
Proof. apply render_snoc, inert_nl. Qed.

(* the lines of the text behind the first: within b before, within b after *)
Lemma okr_render b1 b body : 0 <= b ->
  zlen (render p sty false (hd [] (split_on 10%N body))) <= b1 -> Forall (fun l => zlen l <= b) (tl (split_on 10%N body)) ->
  okr b1 b (render p sty false body).
Proof.
  intros Hb H1 H2. apply okr_of_lines; change 10%N with NL; rewrite render_lines; change NL with 10%N.
  - destruct (split_on 10%N body) as [|l ls] eqn:E; [destruct (split_on_nonempty _ _ E)|]. exact H1.
  - destruct (split_on 10%N body) as [|l ls] eqn:E; [constructor|]. cbn [map tl] in *.
    apply Forall_forall. intros x Hx. apply in_map_iff in Hx. destruct Hx as (y & <- & Hy). rewrite Forall_forall in H2.
    specialize (H2 y Hy). pose proof (render_le p sty false y). unfold zlen in *. lia.
Qed.

(* the label line: the formatter deletes from the line at least what it deletes from the label alone *)
Lemma lab_first_fits a0 W off ind vis label text padding aligned raw :
  elem_raw W off ind vis (ELab label text padding aligned) = Ok raw -> 0 <= vis -> zlen (render p sty a0 label) <= vis -> no_nl label ->
  exists body, raw = body ++ [10%N] /\ zlen (render p sty false (hd [] (split_on 10%N body))) <= W - 1.
Proof.
  intros H Hvis Hv Hlab.
  destruct (lab_first_line _ _ _ _ _ _ _ _ _ H Hvis Hlab) as (body & t1 & j1 & -> & EF & Ht1 & Hj). cbv zeta in *.
  set (to := Z.max (if aligned then off - Z.of_nat ind else 0) (vis + Z.of_nat padding)) in *.
  exists body. split; [reflexivity|]. set (F := hd [] (split_on 10%N body)) in *.
  pose proof (render_inert_suffix p sty false F t1 (inert_blank _ Ht1)) as E1. rewrite EF in E1.
  pose proof (render_context_le p sty a0 (spaces ind) label (spaces (Z.to_nat (to - vis)) ++ j1) (inert_spaces ind)) as E2.
  assert (Hsp : forall n, length (spaces n) = n) by (intros; apply repeat_length).
  rewrite E1 in E2. rewrite !app_length, !Hsp in E2.
  assert (vis + Z.of_nat padding <= to) by (subst to; lia). unfold zlen in *. lia.
Qed.

(* the text of an element, rendered: ended by a line break, every line within W - 1 - provided the label rendered on its
   own is at most as long as the alignment was told (vis) *)
Lemma elem_raw_render_fits a0 W off ind vis e raw :
  elem_raw W off ind vis e = Ok raw -> 1 <= W -> 0 <= vis -> zlen (render p sty a0 (elem_label e)) <= vis -> no_nl (elem_label e) ->
  exists body, raw = body ++ [10%N] /\ render p sty false raw = render p sty false body ++ [10%N]
    /\ okr (W - 1) (W - 1) (render p sty false body).
Proof.
  intros H HW Hvis Hv Hlab.
  destruct (elem_raw_fits _ _ _ _ _ _ H HW Hvis Hlab) as (body & -> & Hb). exists body. split; [reflexivity|]. split; [apply render_body|].
  apply okr_split in Hb. destruct Hb as [Hb1 Hb2]. apply okr_render; [lia| |exact Hb2].
  destruct e as [t|label text padding aligned|]; cbn [first_bound elem_label] in *.
  - pose proof (render_le p sty false (hd [] (split_on 10%N body))). unfold zlen in *. lia.
  - destruct (lab_first_fits _ _ _ _ _ _ _ _ _ _ H Hvis Hv Hlab) as (body' & Eb & HF).
    apply app_inj_tail in Eb. destruct Eb as [<- _]. exact HF.
  - pose proof (render_le p sty false (hd [] (split_on 10%N body))). unfold zlen in *. lia.
Qed.
End Element.

(* ---- one element through the plain formatter ---- *)
Lemma render_elem_plain_fits W off f ind e x : f_kind f = FPlain -> 1 <= W -> no_nl (elem_label e) ->
  render_elem W off f ind e = Ok x ->
  f_kind (fst x) = FPlain /\ f_styles (fst x) = f_styles f /\ exists p, snd x = p ++ [10%N] /\ okr (W - 1) (W - 1) p.
Proof.
  intros Hk HW Hlab H.
  assert (Hgen : forall f0 raw a0 vis, f_kind f0 = FPlain -> f_styles f0 = f_styles f -> emit f0 raw = Ok x ->
            elem_raw W off ind vis e = Ok raw -> 0 <= vis -> zlen (plain_of (f_styles f) a0 (elem_label e)) <= vis ->
            f_kind (fst x) = FPlain /\ f_styles (fst x) = f_styles f /\ exists p, snd x = p ++ [10%N] /\ okr (W - 1) (W - 1) p).
  { intros f0 raw a0 vis Hk0 Hs0 He Er Hvis Hv.
    destruct (elem_raw_render_fits post_unescape (f_styles f) a0 _ _ _ _ _ _ Er HW Hvis Hv Hlab) as (body & -> & Eb & Hb).
    apply emit_plain_of in He; [|exact Hk0]. destruct He as (E & E1 & E2).
    split; [exact E1|]. split; [congruence|]. rewrite E, Hs0, ends_snoc. change (N.eqb 10 BSL) with false.
    rewrite plain_of_render, Eb. eexists. split; [reflexivity|exact Hb]. }
  destruct e as [t|label text padding aligned|]; unfold render_elem in H.
  - destruct (elem_raw W off ind 0 (EPara t)) as [raw|k] eqn:Er; [|discriminate]. cbn [bind] in H.
    apply (Hgen f raw false 0 Hk eq_refl H Er (Z.le_refl 0)). cbn. lia.
  - destruct (remove_format f label) as [x1|k] eqn:E1; [|discriminate]. cbn [bind] in H.
    apply remove_format_plain_of in E1; [|congruence]. destruct E1 as (Ev & Ek1 & Es1). rewrite Ev in H.
    destruct (elem_raw W off ind _ (ELab label text padding aligned)) as [raw|k] eqn:Er; [|discriminate]. cbn [bind] in H.
    apply (Hgen (fst x1) raw (ends_with_bsl label) _ (eq_trans Ek1 Hk) Es1 H Er (zlen_nonneg _)). cbn [elem_label]. lia.
  - destruct (elem_raw W off ind 0 EEmpty) as [raw|k] eqn:Er; [|discriminate]. cbn [bind] in H.
    apply (Hgen f raw false 0 Hk eq_refl H Er (Z.le_refl 0)). cbn. lia.
Qed.

(* ---- the page ---- *)
Lemma render_all_plain_fits W off : 1 <= W -> forall l f out x, f_kind f = FPlain -> one_line_labels l ->
  render_all W off f l out = Ok x -> lines_within (W - 1) out -> lines_within (W - 1) (snd x).
Proof.
  intros HW. induction l as [|[ind e] r IH]; intros f out x Hk Hl H Hout; cbn [render_all] in H.
  - injection H as <-. exact Hout.
  - inversion Hl as [|? ? Hl1 Hl2]; subst. cbn [snd] in Hl1.
    destruct (render_elem W off f ind e) as [y|k] eqn:Ee; [|discriminate]. cbn [bind] in H.
    destruct (render_elem_plain_fits _ _ _ _ _ _ Hk HW Hl1 Ee) as (Hk' & _ & body & Ey & Hb).
    apply IH in H; [exact H|exact Hk'|exact Hl2|]. rewrite Ey.
    right. destruct Hout as [->|(p & -> & Hp)].
    + exists body. auto.
    + exists (p ++ 10%N :: body). split; [now rewrite <- !app_assoc|]. now apply okr_app_nl.
Qed.
Lemma align_plain : forall l f acc x, f_kind f = FPlain -> align f l acc = Ok x -> f_kind (fst x) = FPlain.
Proof.
  induction l as [|[ind e] r IH]; intros f acc x Hk H; cbn [align] in H; [injection H as <-; exact Hk|].
  destruct e as [t|label text padding aligned|]; [eapply IH; eassumption| |eapply IH; eassumption].
  destruct aligned; [|eapply IH; eassumption].
  destruct (remove_format f label) as [x1|k] eqn:E1; [|discriminate]. cbn [bind] in H.
  apply remove_format_plain_of in E1; [|congruence]. eapply IH; [|exact H]. destruct E1 as (_ & -> & _). exact Hk.
Qed.

(* Whenever a page renders through the plain formatter, no line of it is wider than W - 1: for EVERY layout whose labels
   hold no line break, every style table and every state of the formatter's style stack. *)
Theorem page_fits_plain_lemma W f l s : f_kind f = FPlain -> 1 <= W -> one_line_labels l ->
  render_page W f l = Ok s -> Forall (fun ln => zlen ln <= W - 1) (split_on 10%N s).
Proof.
  intros Hk HW Hl H. unfold render_page in H.
  destruct (align f l 0) as [a|k] eqn:Ea; [|discriminate]. cbn [bind] in H.
  destruct (render_all W (snd a) (fst a) l []) as [x|k] eqn:E; [|discriminate]. cbn [bind] in H. injection H as <-.
  apply lines_within_split; [lia|].
  eapply render_all_plain_fits; [exact HW|eapply align_plain; eassumption|exact Hl|exact E|left; reflexivity].
Qed.

(* a narrow terminal (W <= 0): the plain rendering of a page with a paragraph or a label fails; of empty lines only it is
   the empty lines - the statement holds there too *)
Theorem command_help_fits_plain_lemma W f sty app_name ch aliases help subs s :
  f_kind f = FPlain -> 1 <= W ->
  (match app_name with Some n => no_nl n | None => True end) -> Forall no_nl (chain_names ch) ->
  Forall arg_one_line (chain_args ch) -> Forall opt_one_line (own_opts ch) -> Forall opt_one_line (base_opts ch) ->
  Forall sub_one_line subs ->
  render_page W f (command_page sty app_name ch aliases help subs) = Ok s ->
  Forall (fun ln => zlen ln <= W - 1) (split_on 10%N s).
Proof.
  intros Hk HW H1 H2 H3 H4 H5 H6 Hs.
  eapply page_fits_plain_lemma; [exact Hk|exact HW|apply command_page_one_line; eassumption|exact Hs].
Qed.
Theorem application_help_fits_plain_lemma W f sty app_name display version gopts cmds help s :
  f_kind f = FPlain -> 1 <= W ->
  (match app_name with Some n => no_nl n | None => True end) -> Forall opt_one_line gopts ->
  Forall (fun c => no_nl (ac_name c)) cmds ->
  render_page W f (application_page sty app_name display version gopts cmds help) = Ok s ->
  Forall (fun ln => zlen ln <= W - 1) (split_on 10%N s).
Proof.
  intros Hk HW H1 H2 H3 Hs.
  eapply page_fits_plain_lemma; [exact Hk|exact HW|apply application_page_one_line; eassumption|exact Hs].
Qed.

(* ================= the ANSI formatter: the VISIBLE text (SGR sequences removed) ================= *)
(* On texts without ESC and without backslash the decorated and the undecorated colorize run in lockstep
   (MarkupLemmas.colorize_lockstep); here with the outputs related by strips, which composes. *)
Lemma colorize_lockstep_strips sty sk m : Forall good m ->
  match colorize sty true sk m, colorize sty false sk m with
  | Ok (s1, o1), Ok (s2, o2) => s1 = s2 /\ strips o1 o2
  | Err e1, Err e2 => e1 = e2
  | _, _ => False
  end.
Proof.
  intros Hm. unfold colorize. destruct (lex_P good m Hm) as [Hsegs Htail].
  destruct (lex m) as [segs tail] eqn:EL. cbn [fst snd] in *.
  destruct segs as [|sg segs'] eqn:ES.
  - rewrite (unescape_id m (good_no_bsl m Hm)). split; [reflexivity|]. apply strips_text, good_no_esc, Hm.
  - rewrite <- ES in *. rewrite (no_bsl_ends m (good_no_bsl m Hm)).
    pose proof (run_segs_lockstep sty segs sk [] [] true false Hsegs strips_nil (Forall_nil _) (Forall_nil _)) as HL.
    destruct (run_segs sty true false true segs sk [] false) as [[[s1 r1] l1]|e1] eqn:R1,
             (run_segs sty false false true segs sk [] false) as [[[s2 r2] l2]|e2] eqn:R2; try contradiction; cbn [bind]; [|exact HL].
    destruct HL as (-> & -> & HS & B1 & B2 & El). rewrite El, ES.
    set (t1 := removelast tail). set (t2 := match rev tail with c :: _ => [c] | [] => [] end).
    assert (Forall good t1) as G1 by (apply removelast_P, Htail).
    assert (Forall good t2) as G2 by (apply lastchar_P, Htail).
    rewrite !unescape_id.
    + split; [reflexivity|]. apply strips_app; [exact HS|]. apply strips_app; apply strips_apply_cur, good_no_esc; assumption.
    + apply Forall_app; split; [exact B2|]. apply Forall_app; split; apply apply_cur_no_bsl, good_no_bsl; assumption.
    + apply Forall_app; split; [exact B1|]. apply Forall_app; split; apply apply_cur_no_bsl, good_no_bsl; assumption.
Qed.

(* the plain formatter with the same style table and stack *)
Definition as_plain (f : formatter) : formatter := {| f_kind := FPlain; f_styles := f_styles f; f_stack := f_stack f |}.

Lemma remove_format_as_plain f m f1 o : is_ansi f -> remove_format f m = Ok (f1, o) ->
  remove_format (as_plain f) m = Ok (as_plain f1, o) /\ is_ansi f1.
Proof.
  unfold is_ansi, remove_format, as_plain. cbn [f_kind f_styles f_stack]. destruct (f_kind f) eqn:Ek; try contradiction. intros _ H.
  destruct (colorize (f_styles f) false (f_stack f) m) as [[sk out]|k]; [|discriminate]. cbn [bind fst snd] in *.
  injection H as <- <-. cbn [f_kind f_styles f_stack]. split; [reflexivity|exact I].
Qed.
Lemma emit_lockstep f raw f1 o1 : is_ansi f -> Forall good raw -> emit f raw = Ok (f1, o1) ->
  exists o2, emit (as_plain f) raw = Ok (as_plain f1, o2) /\ is_ansi f1 /\ strips o1 o2.
Proof.
  unfold is_ansi, emit, format, remove_format, as_plain. cbn [f_kind f_styles f_stack].
  destruct (f_kind f) eqn:Ek; try contradiction. intros _ Hg H.
  pose proof (colorize_lockstep_strips (f_styles f) (f_stack f) raw Hg) as HL.
  destruct (colorize (f_styles f) true (f_stack f) raw) as [[s1 r1]|e1]; [|discriminate].
  destruct (colorize (f_styles f) false (f_stack f) raw) as [[s2 r2]|e2]; [|contradiction]. destruct HL as [-> HS].
  cbn [bind fst snd] in *. injection H as <- <-. cbn [f_kind f_styles f_stack].
  exists r2. split; [reflexivity|]. split; [exact I|exact HS].
Qed.
Lemma align_as_plain : forall l f acc f1 off, is_ansi f -> align f l acc = Ok (f1, off) ->
  align (as_plain f) l acc = Ok (as_plain f1, off) /\ is_ansi f1.
Proof.
  induction l as [|[ind e] r IH]; intros f acc f1 off Hk H; cbn [align] in *; [injection H as <- <-; auto|].
  destruct e as [t|label text padding aligned|]; [apply IH; assumption| |apply IH; assumption].
  destruct aligned; [|apply IH; assumption].
  destruct (remove_format f label) as [[f2 o]|k] eqn:E1; [|discriminate]. cbn [bind fst snd] in H.
  destruct (remove_format_as_plain _ _ _ _ Hk E1) as [-> Hk2]. cbn [bind fst snd]. apply IH; assumption.
Qed.

(* the text handed to the formatter is made of the characters of the label, of the text, blanks and line breaks *)
Lemma good_spaces n : Forall good (spaces n).
Proof. apply Forall_forall. intros c Hc. apply repeat_spec in Hc. subst. split; discriminate. Qed.
Lemma good_rstrip s : Forall good s -> Forall good (rstrip s).
Proof. intros H. destruct (rstrip_prefix s) as [t Ht]. rewrite Ht in H. apply Forall_app in H. tauto. Qed.
Lemma good_join prefix : Forall good prefix -> forall lines, Forall (Forall good) lines -> Forall good (join_lines prefix lines).
Proof.
  intros Hp. induction lines as [|l r IH]; intros H; [constructor|]. inversion H as [|? ? H1 H2]; subst.
  destruct r as [|l2 r]; [exact H1|].
  change (join_lines prefix (l :: l2 :: r)) with (l ++ 10%N :: prefix ++ join_lines prefix (l2 :: r)).
  apply Forall_app. split; [exact H1|]. constructor; [split; discriminate|]. apply Forall_app. split; [exact Hp|apply IH, H2].
Qed.
Lemma good_wrap text w ls : Forall good text -> wrap text w = Ok ls -> Forall (Forall good) ls.
Proof.
  intros Ht H. eapply wrap_lines_chars_lemma; [exact H|]. unfold munge. apply Forall_forall. intros c Hc.
  apply in_map_iff in Hc. destruct Hc as (x & <- & Hx). destruct (tw_space x); [split; discriminate|].
  rewrite Forall_forall in Ht. auto.
Qed.
Lemma elem_raw_good W off ind vis e raw : Forall good (elem_label e) -> Forall good (elem_text e) ->
  elem_raw W off ind vis e = Ok raw -> Forall good raw.
Proof.
  intros Hl Ht H. assert (Hnl : Forall good [10%N]) by (constructor; [split; discriminate|constructor]).
  destruct e as [t|label text padding aligned|]; cbn [elem_raw elem_label elem_text] in *.
  - destruct (wrap t _) as [lines|k] eqn:Ew; [|discriminate]. cbn [bind] in H. injection H as <-.
    apply Forall_app. split; [apply good_spaces|]. apply Forall_app. split; [|exact Hnl].
    apply good_rstrip, good_join; [apply good_spaces|exact (good_wrap _ _ _ Ht Ew)].
  - cbv zeta in H. destruct (wrap text _) as [lines|k] eqn:Ew; [|discriminate]. cbn [bind] in H. injection H as <-.
    apply Forall_app. split; [|exact Hnl]. apply good_rstrip. apply Forall_app. split; [apply good_spaces|].
    apply Forall_app. split; [unfold ljust; apply Forall_app; split; [exact Hl|apply good_spaces]|].
    apply good_rstrip, good_join; [apply Forall_app; split; apply good_spaces|exact (good_wrap _ _ _ Ht Ew)].
  - injection H as <-. exact Hnl.
Qed.

Definition good_elem (x : nat * elem) : Prop := Forall good (elem_label (snd x)) /\ Forall good (elem_text (snd x)).
(* no ESC and no backslash in any label or text of the layout *)
Definition good_layout (l : layout) : Prop := Forall good_elem l.

Lemma render_elem_lockstep W off f ind e f1 o1 : is_ansi f -> good_elem (ind, e) -> render_elem W off f ind e = Ok (f1, o1) ->
  exists o2, render_elem W off (as_plain f) ind e = Ok (as_plain f1, o2) /\ is_ansi f1 /\ strips o1 o2.
Proof.
  intros Hk [Hl Ht] H. cbn [snd] in Hl, Ht. destruct e as [t|label text padding aligned|]; unfold render_elem in *.
  - destruct (elem_raw W off ind 0 (EPara t)) as [raw|k] eqn:Er; [|discriminate]. cbn [bind] in *.
    apply emit_lockstep; [exact Hk|eapply elem_raw_good; eassumption|exact H].
  - destruct (remove_format f label) as [[f2 o]|k] eqn:E1; [|discriminate]. cbn [bind fst snd] in H.
    destruct (remove_format_as_plain _ _ _ _ Hk E1) as [-> Hk2]. cbn [bind fst snd].
    destruct (elem_raw W off ind (zlen o) (ELab label text padding aligned)) as [raw|k] eqn:Er; [|discriminate]. cbn [bind] in *.
    apply emit_lockstep; [exact Hk2|eapply elem_raw_good; eassumption|exact H].
  - cbn [elem_raw bind] in *. apply emit_lockstep; [exact Hk| |exact H]. constructor; [split; discriminate|constructor].
Qed.
Lemma render_all_lockstep W off : forall l f out1 out2 f1 s1, is_ansi f -> good_layout l -> strips out1 out2 ->
  render_all W off f l out1 = Ok (f1, s1) ->
  exists s2, render_all W off (as_plain f) l out2 = Ok (as_plain f1, s2) /\ strips s1 s2.
Proof.
  induction l as [|[ind e] r IH]; intros f out1 out2 f1 s1 Hk Hl Ho H; cbn [render_all] in *.
  - injection H as <- <-. exists out2. auto.
  - inversion Hl as [|? ? Hl1 Hl2]; subst.
    destruct (render_elem W off f ind e) as [[f2 o1]|k] eqn:Ee; [|discriminate]. cbn [bind fst snd] in H.
    destruct (render_elem_lockstep _ _ _ _ _ _ _ Hk Hl1 Ee) as (o2 & -> & Hk2 & Hs). cbn [bind fst snd].
    eapply IH; [exact Hk2|exact Hl2| |exact H]. apply strips_app; assumption.
Qed.
(* the page through the ANSI formatter, SGR sequences removed, is the page through the plain formatter *)
Theorem ansi_page_visible_lemma W f l s : is_ansi f -> good_layout l -> render_page W f l = Ok s ->
  render_page W (as_plain f) l = Ok (strip_sgr s).
Proof.
  intros Hk Hl H. unfold render_page in *. destruct (align f l 0) as [[f1 off]|k] eqn:Ea; [|discriminate]. cbn [bind fst snd] in H.
  destruct (align_as_plain _ _ _ _ _ Hk Ea) as [-> Hk1]. cbn [bind fst snd].
  destruct (render_all W off f1 l []) as [[f2 s1]|k] eqn:Er; [|discriminate]. cbn [bind fst snd] in H. injection H as <-.
  destruct (render_all_lockstep _ _ _ _ _ _ _ _ Hk1 Hl strips_nil Er) as (s2 & -> & Hs). cbn [bind snd].
  now rewrite (strips_sgr_strip _ _ Hs).
Qed.

(* removing SGR sequences acts line by line: a line break ends every sequence begun *)
Lemma strip_step_nl out g : strip_step (out, g) 10%N = (out ++ pending_of g ++ [10%N], GNone).
Proof. destruct g; reflexivity. Qed.
Lemma strip_sgr_nl a b : strip_sgr (a ++ 10%N :: b) = strip_sgr a ++ 10%N :: strip_sgr b.
Proof.
  unfold strip_sgr, strip_end. rewrite fold_left_app. cbn [fold_left].
  destruct (fold_left strip_step a ([], GNone)) as [oa ga]. rewrite strip_step_nl, strip_fold_out. cbn [fst snd].
  now rewrite <- !app_assoc.
Qed.
Lemma strip_step_P (P : N -> Prop) out g c : P c -> Forall P out -> Forall P (pending_of g) ->
  Forall P (fst (strip_step (out, g) c)) /\ Forall P (pending_of (snd (strip_step (out, g) c))).
Proof.
  intros Hc Ho Hg. assert (Hc1 : Forall P [c]) by (constructor; [exact Hc|constructor]).
  assert (Hflush : Forall P (fst (if N.eqb c ESC then (out ++ pending_of g, GEsc) else (out ++ pending_of g ++ [c], GNone)))
                   /\ Forall P (pending_of (snd (if N.eqb c ESC then (out ++ pending_of g, GEsc) else (out ++ pending_of g ++ [c], GNone))))).
  { destruct (N.eqb_spec c ESC) as [->|]; cbn [fst snd pending_of]; split; auto; repeat (apply Forall_app; split); auto. }
  unfold strip_step. destruct g as [| |p]; [exact Hflush| |].
  - destruct (N.eqb_spec c 91) as [->|]; [|exact Hflush]. cbn [fst snd pending_of] in *. split; [exact Ho|].
    inversion Hg; subst. constructor; [assumption|exact Hc1].
  - destruct (is_digit c || N.eqb c SEMI).
    + cbn [fst snd pending_of] in *. split; [exact Ho|]. inversion Hg as [|? ? H1 H2]; subst. inversion H2; subst.
      constructor; [assumption|]. constructor; [assumption|]. apply Forall_app. split; assumption.
    + destruct (N.eqb c 109); [cbn [fst snd pending_of]; split; [exact Ho|constructor]|exact Hflush].
Qed.
Lemma strip_sgr_P (P : N -> Prop) s : Forall P s -> Forall P (strip_sgr s).
Proof.
  intros Hs. unfold strip_sgr, strip_end.
  assert (H : forall acc, Forall P (fst acc) -> Forall P (pending_of (snd acc)) ->
            Forall P (fst (fold_left strip_step s acc)) /\ Forall P (pending_of (snd (fold_left strip_step s acc)))).
  { induction Hs as [|c s Hc Hs IH]; intros [out g] H1 H2; cbn [fold_left]; [auto|].
    destruct (strip_step_P P out g c Hc H1 H2) as [H3 H4]. apply IH; assumption. }
  destruct (H ([], GNone)) as [H1 H2]; [constructor|constructor|]. apply Forall_app. auto.
Qed.
Lemma strip_sgr_join : forall ls, strip_sgr (join_with NL ls) = join_with NL (map strip_sgr ls).
Proof.
  induction ls as [|l ls IH]; [reflexivity|]. destruct ls as [|l2 ls]; [reflexivity|].
  change (join_with NL (l :: l2 :: ls)) with (l ++ 10%N :: join_with NL (l2 :: ls)). rewrite strip_sgr_nl, IH. reflexivity.
Qed.
Theorem strip_sgr_lines s : split_on 10%N (strip_sgr s) = map strip_sgr (split_on 10%N s).
Proof.
  change 10%N with NL. rewrite <- (join_split s) at 1. rewrite strip_sgr_join. apply split_join.
  - destruct (split_on NL s) eqn:E; [destruct (split_on_nonempty _ _ E)|discriminate].
  - apply Forall_forall. intros x Hx. apply in_map_iff in Hx. destruct Hx as (l & <- & Hl).
    apply strip_sgr_P. pose proof (split_lines_no_nl s) as H. rewrite Forall_forall in H. apply H, Hl.
Qed.

(* Whenever a page whose labels and texts hold neither ESC nor a backslash renders through the ANSI formatter, the
   visible text of every line (SGR sequences removed) is at most W - 1 long. *)
Theorem page_fits_ansi_visible_lemma W f l s : is_ansi f -> 1 <= W -> one_line_labels l -> good_layout l ->
  render_page W f l = Ok s -> Forall (fun ln => zlen (strip_sgr ln) <= W - 1) (split_on 10%N s).
Proof.
  intros Hk HW Hl Hg H. apply ansi_page_visible_lemma in H; [|exact Hk|exact Hg].
  apply page_fits_plain_lemma in H; [|reflexivity|exact HW|exact Hl]. rewrite strip_sgr_lines in H.
  apply Forall_forall. intros ln Hln. rewrite Forall_forall in H. apply H, in_map, Hln.
Qed.

(* good_layout, decided *)
Definition goodb (c : N) : bool := negb (N.eqb c ESC) && negb (N.eqb c BSL).
Definition good_layoutb (l : layout) : bool :=
  forallb (fun x => forallb goodb (elem_label (snd x)) && forallb goodb (elem_text (snd x))) l.
Lemma goodb_good s : forallb goodb s = true -> Forall good s.
Proof.
  intros H. apply Forall_forall. intros c Hc. rewrite forallb_forall in H. specialize (H c Hc). unfold goodb in H.
  apply andb_prop in H. destruct H as [H1 H2]. split; intros ->; discriminate.
Qed.
Lemma good_layoutb_ok l : good_layoutb l = true -> good_layout l.
Proof.
  intros H. apply Forall_forall. intros x Hx. unfold good_layoutb in H. rewrite forallb_forall in H. specialize (H x Hx).
  apply andb_prop in H. destruct H. split; apply goodb_good; assumption.
Qed.

(* rendering through the plain formatter: it fits, or it fails with ValueError *)
Theorem page_plain_fits_or_value_error_lemma W f l : f_kind f = FPlain -> 1 <= W -> one_line_labels l ->
  match render_page W f l with
  | Ok s => Forall (fun ln => zlen ln <= W - 1) (split_on 10%N s)
  | Err k => k = ValueError
  end.
Proof.
  intros Hk HW Hl. destruct (render_page W f l) as [s|k] eqn:E; [eapply page_fits_plain_lemma; eassumption|].
  eapply render_error_kind_lemma, E.
Qed.

(* an undecorated colorize of a message that does not end with a backslash works line by line *)
Theorem colorize_line_by_line sty sk m sk' out : colorize sty false sk m = Ok (sk', out) -> ends_with_bsl m = false ->
  split_on 10%N out = map (plain_of sty false) (split_on 10%N m).
Proof. intros H E. apply colorize_plain_of in H. rewrite E in H. subst out. apply plain_of_lines. Qed.

(* ================= the ANSI formatter, sharper: backslashes allowed in the texts, not in the labels ================= *)
(* The decorated colorize keeps the stack of the undecorated one and its visible text is a deletion of the undecorated
   output before unescape (MarkupShrinkLemmas.colorize_visible): what the SGR sequences can do is keep a backslash the plain
   formatter deletes.  On the line of a label that matters only when the label holds a backslash (page_fits_ansi_refuted
   in Props/C13.v). *)
Lemma P_spaces (P : N -> Prop) n : P 32%N -> Forall P (spaces n).
Proof. intros H. apply Forall_forall. intros c Hc. apply repeat_spec in Hc. now subst. Qed.
Lemma P_rstrip (P : N -> Prop) s : Forall P s -> Forall P (rstrip s).
Proof. intros H. destruct (rstrip_prefix s) as [t Ht]. rewrite Ht in H. apply Forall_app in H. tauto. Qed.
Lemma P_join (P : N -> Prop) prefix : P 10%N -> Forall P prefix -> forall lines, Forall (Forall P) lines -> Forall P (join_lines prefix lines).
Proof.
  intros Hn Hp. induction lines as [|l r IH]; intros H; [constructor|]. inversion H as [|? ? H1 H2]; subst.
  destruct r as [|l2 r]; [exact H1|].
  change (join_lines prefix (l :: l2 :: r)) with (l ++ 10%N :: prefix ++ join_lines prefix (l2 :: r)).
  apply Forall_app. split; [exact H1|]. constructor; [exact Hn|]. apply Forall_app. split; [exact Hp|apply IH, H2].
Qed.
Lemma P_wrap (P : N -> Prop) text w ls : P 32%N -> Forall P text -> wrap text w = Ok ls -> Forall (Forall P) ls.
Proof.
  intros Hs Ht H. eapply wrap_lines_chars_lemma; [exact H|]. unfold munge. apply Forall_forall. intros c Hc.
  apply in_map_iff in Hc. destruct Hc as (x & <- & Hx). destruct (tw_space x); [exact Hs|].
  rewrite Forall_forall in Ht. auto.
Qed.
Lemma elem_raw_P (P : N -> Prop) W off ind vis e raw : P 32%N -> P 10%N -> Forall P (elem_label e) -> Forall P (elem_text e) ->
  elem_raw W off ind vis e = Ok raw -> Forall P raw.
Proof.
  intros Hs Hn Hl Ht H. assert (Hnl : Forall P [10%N]) by (constructor; [exact Hn|constructor]).
  destruct e as [t|label text padding aligned|]; cbn [elem_raw elem_label elem_text] in *.
  - destruct (wrap t _) as [lines|k] eqn:Ew; [|discriminate]. cbn [bind] in H. injection H as <-.
    apply Forall_app. split; [apply P_spaces, Hs|]. apply Forall_app. split; [|exact Hnl].
    apply P_rstrip, P_join; [exact Hn|apply P_spaces, Hs|exact (P_wrap P _ _ _ Hs Ht Ew)].
  - cbv zeta in H. destruct (wrap text _) as [lines|k] eqn:Ew; [|discriminate]. cbn [bind] in H. injection H as <-.
    apply Forall_app. split; [|exact Hnl]. apply P_rstrip. apply Forall_app. split; [apply P_spaces, Hs|].
    apply Forall_app. split; [unfold ljust; apply Forall_app; split; [exact Hl|apply P_spaces, Hs]|].
    apply P_rstrip, P_join; [exact Hn|apply Forall_app; split; apply P_spaces, Hs|exact (P_wrap P _ _ _ Hs Ht Ew)].
  - injection H as <-. exact Hnl.
Qed.

Lemma deletes_snoc_nl : forall x v, deletes (x ++ [NL]) v -> exists q, v = q ++ [NL] /\ deletes x q.
Proof.
  induction x as [|c x IH]; intros v H; cbn [app] in H.
  - inversion H as [|? ? y Hy|? ? ? Hc Hy]; subst; [|contradiction]. inversion Hy; subst. exists []. split; [reflexivity|constructor].
  - inversion H as [|? ? y Hy|? ? ? Hc Hy]; subst.
    + destruct (IH _ Hy) as (q & -> & Hq). exists (c :: q). split; [reflexivity|now constructor].
    + destruct (IH _ Hy) as (q & -> & Hq). exists q. split; [reflexivity|now constructor].
Qed.

Lemma emit_ansi_visible f raw x : is_ansi f -> no_esc raw -> emit f raw = Ok x ->
  is_ansi (fst x) /\ f_styles (fst x) = f_styles f
  /\ exists v, strips (snd x) v /\ deletes (wout_of (f_styles f) (ends_with_bsl raw) raw) v.
Proof.
  unfold is_ansi, emit, format. destruct (f_kind f) eqn:Ek; try contradiction. intros _ Hr H.
  destruct (colorize (f_styles f) true (f_stack f) raw) as [[sk o1]|k] eqn:Ec; [|discriminate]. cbn [bind fst snd] in H.
  injection H as <-. cbn [fst snd f_kind f_styles]. split; [exact I|]. split; [reflexivity|].
  apply colorize_visible in Ec; [|exact Hr]. tauto.
Qed.

Definition clean_elem (x : nat * elem) : Prop :=
  no_esc (elem_label (snd x)) /\ no_bsl (elem_label (snd x)) /\ no_esc (elem_text (snd x)).
(* no ESC in any label or text of the layout, no backslash in any label *)
Definition clean_layout (l : layout) : Prop := Forall clean_elem l.

Lemma render_elem_ansi_fits W off f ind e x : is_ansi f -> 1 <= W -> no_nl (elem_label e) -> clean_elem (ind, e) ->
  render_elem W off f ind e = Ok x ->
  is_ansi (fst x) /\ exists v q, strips (snd x) v /\ v = q ++ [10%N] /\ okr (W - 1) (W - 1) q.
Proof.
  intros Hk HW Hlab (Hle & Hlb & Hte) H. cbn [snd] in Hle, Hlb, Hte.
  assert (Hgen : forall f0 raw a0 vis, is_ansi f0 -> emit f0 raw = Ok x ->
            elem_raw W off ind vis e = Ok raw -> 0 <= vis -> zlen (render post_id (f_styles f0) a0 (elem_label e)) <= vis ->
            is_ansi (fst x) /\ exists v q, strips (snd x) v /\ v = q ++ [10%N] /\ okr (W - 1) (W - 1) q).
  { intros f0 raw a0 vis Hk0 He Er Hvis Hv.
    assert (Hr : no_esc raw).
    { apply (elem_raw_P (fun c => c <> ESC) W off ind vis e raw); [discriminate|discriminate|exact Hle|exact Hte|exact Er]. }
    destruct (elem_raw_render_fits post_id (f_styles f0) a0 _ _ _ _ _ _ Er HW Hvis Hv Hlab) as (body & -> & Eb & Hb).
    destruct (emit_ansi_visible _ _ _ Hk0 Hr He) as (Hk1 & _ & v & Sv & Dv). split; [exact Hk1|].
    rewrite ends_snoc in Dv. change (N.eqb 10 BSL) with false in Dv.
    change (wout_of (f_styles f0) false (body ++ [10%N])) with (render post_id (f_styles f0) false (body ++ [10%N])) in Dv.
    rewrite Eb in Dv. apply deletes_snoc_nl in Dv. destruct Dv as (q & -> & Dq).
    exists (q ++ [10%N]), q. split; [exact Sv|]. split; [reflexivity|]. eapply okr_deletes; [exact Dq|exact Hb]. }
  destruct e as [t|label text padding aligned|]; unfold render_elem in H.
  - destruct (elem_raw W off ind 0 (EPara t)) as [raw|k] eqn:Er; [|discriminate]. cbn [bind] in H.
    apply (Hgen f raw false 0 Hk H Er (Z.le_refl 0)). cbn. lia.
  - destruct (remove_format f label) as [x1|k] eqn:E1; [|discriminate]. cbn [bind] in H.
    assert (Hn : f_kind f <> FNull) by (unfold is_ansi in Hk; destruct (f_kind f); [discriminate|contradiction|contradiction]).
    apply remove_format_plain_of in E1; [|exact Hn]. destruct E1 as (Ev & Ek1 & Es1). rewrite Ev in H.
    destruct (elem_raw W off ind _ (ELab label text padding aligned)) as [raw|k] eqn:Er; [|discriminate]. cbn [bind] in H.
    assert (Hk1 : is_ansi (fst x1)) by (unfold is_ansi in *; now rewrite Ek1).
    apply (Hgen (fst x1) raw (ends_with_bsl label) _ Hk1 H Er (zlen_nonneg _)). cbn [elem_label]. rewrite Es1.
    (* the label holds no backslash: nothing to unescape *)
    assert (E : plain_of (f_styles f) (ends_with_bsl label) label = render post_id (f_styles f) (ends_with_bsl label) label).
    { rewrite plain_of_render. unfold render at 1. cbn [pu post_unescape]. apply unescape_id.
      eapply deletes_P; [apply (render_deletes post_id)|exact Hlb]. }
    rewrite E. lia.
  - destruct (elem_raw W off ind 0 EEmpty) as [raw|k] eqn:Er; [|discriminate]. cbn [bind] in H.
    apply (Hgen f raw false 0 Hk H Er (Z.le_refl 0)). cbn. lia.
Qed.

Lemma render_all_ansi_fits W off : 1 <= W -> forall l f out x, is_ansi f -> one_line_labels l -> clean_layout l ->
  render_all W off f l out = Ok x ->
  (exists V, strips out V /\ lines_within (W - 1) V) -> exists V, strips (snd x) V /\ lines_within (W - 1) V.
Proof.
  intros HW. induction l as [|[ind e] r IH]; intros f out x Hk Hl Hc H Hout; cbn [render_all] in H.
  - injection H as <-. exact Hout.
  - inversion Hl as [|? ? Hl1 Hl2]; subst. inversion Hc as [|? ? Hc1 Hc2]; subst. cbn [snd] in Hl1.
    destruct (render_elem W off f ind e) as [y|k] eqn:Ee; [|discriminate]. cbn [bind] in H.
    destruct (render_elem_ansi_fits _ _ _ _ _ _ Hk HW Hl1 Hc1 Ee) as (Hk' & v & q & Sv & -> & Hq).
    apply IH in H; [exact H|exact Hk'|exact Hl2|exact Hc2|].
    destruct Hout as (V & SV & HV). exists (V ++ q ++ [10%N]). split; [apply strips_app; assumption|].
    right. destruct HV as [->|(p0 & -> & Hp)].
    + exists q. auto.
    + exists (p0 ++ 10%N :: q). split; [now rewrite <- !app_assoc|]. now apply okr_app_nl.
Qed.

(* Whenever a page whose labels and texts hold no ESC and whose labels hold no backslash renders through the ANSI
   formatter, the visible text of every line (SGR sequences removed) is at most W - 1 long. *)
Theorem page_fits_ansi_clean_lemma W f l s : is_ansi f -> 1 <= W -> one_line_labels l -> clean_layout l ->
  render_page W f l = Ok s -> Forall (fun ln => zlen (strip_sgr ln) <= W - 1) (split_on 10%N s).
Proof.
  intros Hk HW Hl Hc H. unfold render_page in H.
  destruct (align f l 0) as [[f1 off]|k] eqn:Ea; [|discriminate]. cbn [bind fst snd] in H.
  destruct (align_as_plain _ _ _ _ _ Hk Ea) as [_ Hk1].
  destruct (render_all W off f1 l []) as [x|k] eqn:E; [|discriminate]. cbn [bind] in H. injection H as <-.
  destruct (render_all_ansi_fits W off HW l f1 [] x Hk1 Hl Hc E) as (V & SV & HV).
  { exists []. split; [apply strips_nil|left; reflexivity]. }
  apply strips_sgr_strip in SV. apply lines_within_split in HV; [|lia]. rewrite <- SV, strip_sgr_lines in HV.
  apply Forall_forall. intros ln Hln. rewrite Forall_forall in HV. apply HV, in_map, Hln.
Qed.

Lemma good_clean l : good_layout l -> clean_layout l.
Proof.
  intros H. eapply Forall_impl; [|exact H]. intros x [H1 H2]. split; [apply good_no_esc, H1|]. split; [apply good_no_bsl, H1|apply good_no_esc, H2].
Qed.

(* clean_layout, decided *)
Definition clean_layoutb (l : layout) : bool :=
  forallb (fun x => forallb goodb (elem_label (snd x)) && forallb (fun c => negb (N.eqb c ESC)) (elem_text (snd x))) l.
Lemma clean_layoutb_ok l : clean_layoutb l = true -> clean_layout l.
Proof.
  intros H. apply Forall_forall. intros x Hx. unfold clean_layoutb in H. rewrite forallb_forall in H. specialize (H x Hx).
  apply andb_prop in H. destruct H as [H1 H2]. apply goodb_good in H1. split; [apply good_no_esc, H1|]. split; [apply good_no_bsl, H1|].
  apply Forall_forall. intros c Hc. rewrite forallb_forall in H2. specialize (H2 c Hc). intros ->. discriminate.
Qed.
