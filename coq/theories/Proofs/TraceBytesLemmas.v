(* C20: the bytes of the report on a DECORATED (ANSI) output, as one whole-buffer statement.
   TraceRenderLemmas characterises the undecorated bytes (full_bytes_total) and, per written line, the decorated text
   (write_pieces: strip_sgr text = the shown pieces).  Here: what render appends to the buffer, with the SGR sequences removed,
   IS the undecorated report - for every exception case whose texts hold no ESC (needed: a message that holds ESC [ 3 1 m is
   shown as it is and strip_sgr strips it too: Props/C20.v) -; hence it contains the class name and every line of the message;
   and the pieces of the trace and snippet lines are good pieces (pieces_ok). *)
From Coq Require Import Lia.
From Clikit Require Import Proofs.MarkupShrinkLemmas.      (* first: its "render" must not hide Model.Trace's *)
From Clikit Require Import Base.Prelude Base.Res Model.Conv Model.Markup Model.OutputM Model.Trace
  Proofs.StrLemmas Proofs.MarkupLemmas Proofs.OutputLemmas Proofs.TraceLemmas Proofs.LiteralLemmas Proofs.TraceRenderLemmas
  Proofs.TraceSolutionLemmas Proofs.TraceEscLemmas.

(* ---- p is a piece of s ---- *)
Definition part_of (p s : str) : Prop := exists u v, s = u ++ p ++ v.
Lemma part_refl p : part_of p p. Proof. exists [], []. now rewrite app_nil_r. Qed.
Lemma part_trans a b c : part_of a b -> part_of b c -> part_of a c.
Proof. intros (u & v & ->) (u' & v' & ->). exists (u' ++ u), (v ++ v'). now rewrite <- !app_assoc. Qed.
Lemma part_app_l p a b : part_of p a -> part_of p (a ++ b).
Proof. intros (u & v & ->). exists u, (v ++ b). now rewrite <- !app_assoc. Qed.
Lemma part_app_r p a b : part_of p b -> part_of p (a ++ b).
Proof. intros (u & v & ->). exists (a ++ u), v. now rewrite <- !app_assoc. Qed.
Fixpoint prefixb (p s : str) : bool :=
  match p, s with [], _ => true | c :: p', d :: s' => N.eqb c d && prefixb p' s' | _ :: _, [] => false end.
Fixpoint partb (p s : str) : bool := prefixb p s || match s with [] => false | _ :: s' => partb p s' end.
Lemma prefixb_spec p : forall s, prefixb p s = true <-> exists v, s = p ++ v.
Proof.
  induction p as [|c p IH]; intros s; cbn [prefixb]; [split; [intros _; exists s; reflexivity|reflexivity]|].
  destruct s as [|d s]; [split; [discriminate|intros [v E]; discriminate]|]. rewrite andb_true_iff, IH, N.eqb_eq. split.
  - intros [-> [v ->]]. exists v. reflexivity.
  - intros [v E]. injection E as -> ->. split; [reflexivity|exists v; reflexivity].
Qed.
Lemma partb_spec p : forall s, partb p s = true <-> part_of p s.
Proof.
  induction s as [|d s IH]; cbn [partb]; rewrite orb_true_iff, prefixb_spec.
  - split; [intros [[v E]|E]; [exists [], v; exact E|discriminate]|].
    intros (u & v & E). left. destruct u; [exists v; exact E|discriminate].
  - rewrite IH. split.
    + intros [[v E]|(u & v & E)]; [exists [], v; exact E|exists (d :: u), v; now rewrite E].
    + intros (u & v & E). destruct u as [|c u]; [left; exists v; exact E|right]. injection E as -> E. exists u, v. exact E.
Qed.

(* ---- removing SGR sequences acts line by line ---- *)
Lemma strip_step_nl' out g : strip_step (out, g) NL = (out ++ pending_of g ++ [NL], GNone).
Proof. destruct g; reflexivity. Qed.
Lemma strip_sgr_nl' a b : strip_sgr (a ++ NL :: b) = strip_sgr a ++ NL :: strip_sgr b.
Proof.
  unfold strip_sgr, strip_end. rewrite fold_left_app. cbn [fold_left].
  destruct (fold_left strip_step a ([], GNone)) as [oa ga]. rewrite strip_step_nl', strip_fold_out. cbn [fst snd].
  now rewrite <- !app_assoc.
Qed.
Lemma strip_sgr_nil : strip_sgr [] = []. Proof. reflexivity. Qed.

(* ------------------------------------------------------------------ 1. what write_lines appends, decorated or not *)
(* vis o w: what one sees of the bytes w written to o: the bytes without the SGR sequences when o decorates *)
Definition vis_of_out (o : outp) (w : str) : str := if decorated o then strip_sgr w else w.
Theorem write_lines_pieces_vis sty : forall (pls : list pline) o,
  out_ok sty o -> Forall (fun p => pieces_ok sty (snd p)) pls -> (decorated o = true -> Forall (fun p => pieces_noesc (snd p)) pls) ->
  exists o' w, write_lines o (map pline_w pls) = Ok o' /\ out_ok sty o' /\ o_on o' = o_on o /\ f_kind (o_fmt o') = f_kind (o_fmt o) /\
    o_buf o' = o_buf o ++ w /\ vis_of_out o w = flat_map shown_line pls.
Proof.
  induction pls as [|[ind ps] r IH]; intros o Ho Hok Hne.
  - exists o, []. cbn [map write_lines flat_map]. rewrite app_nil_r. split; [reflexivity|]. split; [exact Ho|].
    repeat split; try reflexivity. unfold vis_of_out. destruct (decorated o); reflexivity.
  - inversion Hok as [|? ? Hp Hr]; subst. cbn [snd] in Hp.
    destruct (write_pieces sty o ind ps Ho Hp) as (o1 & text & HW & Ho1 & Hon1 & Hk1 & Hb1 & Ht1).
    { intros Hd. specialize (Hne Hd). inversion Hne; subst. assumption. }
    pose proof (decorated_keep o o1 Hon1 Hk1) as Hd1.
    destruct (IH o1 Ho1 Hr) as (o2 & w2 & HW2 & Ho2 & Hon2 & Hk2 & Hb2 & Hv2).
    { rewrite Hd1. intros Hd. specialize (Hne Hd). inversion Hne; subst. assumption. }
    exists o2, (text ++ [NL] ++ w2). cbn [map write_lines pline_w fst snd]. rewrite HW. cbn [bind]. split; [exact HW2|]. split; [exact Ho2|].
    split; [congruence|]. split; [congruence|]. split; [rewrite Hb2, Hb1; now rewrite <- !app_assoc|].
    unfold vis_of_out in *. rewrite Hd1 in Hv2. cbn [flat_map]. change (shown_line (ind, ps)) with (flat_map piece_shown (wpieces ind ps) ++ [NL]).
    rewrite <- Ht1, <- Hv2. destruct (decorated o); [|now rewrite <- !app_assoc].
    cbn [app]. rewrite strip_sgr_nl', <- app_assoc. reflexivity.
Qed.

(* ------------------------------------------------------------------ 2. the full report *)
(* the text of the report: stack trace, blank line, class name, blank line, message block, snippet *)
Definition report_text (ind : Z) (x : exn_case) (tr_p sn_p : list pline) : str :=
  flat_map shown_line tr_p
    ++ [NL] ++ spaces ind ++ shown (ind_text ind (x_name x)) ++ [NL]
    ++ [NL] ++ spaces ind ++ shown (ind_text ind (msg_text (x_msg x))) ++ [NL]
    ++ flat_map shown_line sn_p.
Theorem full_bytes_vis sty c o x :
  out_ok sty o -> resolvable sty st_error -> resolvable sty st_b -> (0 <= o_indent o)%Z -> x_frames x <> [] ->
  (decorated o = true -> inputs_ne c x) ->
  let ind := (o_indent o + 2)%Z in
  exists tr_p sn_p w,
    render_trace c ind (x_frames x) = Ok (map pline_w tr_p) /\ Forall (fun p => pieces_ok sty (snd p)) tr_p /\
    render_snippet c ind (last (x_frames x) dflt_frame) = Ok (map pline_w sn_p) /\ Forall (fun p => pieces_ok sty (snd p)) sn_p /\
    render c false o x = Ok (o_buf o ++ w) /\ vis_of_out o w = report_text ind x tr_p sn_p.
Proof.
  intros Ho Herr Hb Hi Hne Hin ind.
  destruct (render_trace_total c ind (x_frames x)) as (tr & ET).
  destruct (render_snippet_total c ind (last (x_frames x) dflt_frame)) as (sn & ES).
  destruct (good_lines_pieces sty tr (good_render_trace sty Hb c ind _ tr ET)) as (tr_p & Etr & Htr).
  destruct (good_lines_pieces sty sn (good_render_snippet sty Hb c ind _ sn ES)) as (sn_p & Esn & Hsn).
  subst tr sn. exists tr_p, sn_p.
  set (mid := [(ind, []); (ind, name_pieces x); (ind, []); (ind, msg_pieces x)] : list pline).
  assert (render_lines c false (o_indent o) x = Ok (map pline_w (tr_p ++ mid ++ sn_p))) as HL.
  { unfold render_lines. fold ind. unfold render_exception. fold dflt_frame.
    destruct (x_frames x) as [|f0 fs] eqn:EF; [congruence|]. rewrite ET, ES. cbn [bind].
    assert (map pline_w mid = render_line ind (name_line x) true 0 ++ [(ind, [])] ++ render_line ind (msg_line x) false 0) as Emid
      by (rewrite name_line_pieces, msg_line_pieces; reflexivity).
    rewrite !map_app, Emid. unfold name_line, msg_line. rewrite <- ?app_assoc. reflexivity. }
  destruct (write_lines_pieces_vis sty (tr_p ++ mid ++ sn_p) o Ho) as (o' & w & HW & _ & _ & _ & HB & HV).
  { apply Forall_app. split; [exact Htr|]. apply Forall_app. split; [|exact Hsn]. unfold mid.
    constructor; [constructor|]. constructor; [apply name_pieces_ok, Herr|]. constructor; [constructor|].
    constructor; [apply msg_pieces_ok, Hb|constructor]. }
  { intros Hd. apply pieces_lines_noesc. apply (lines_noesc c false (o_indent o) x _ (Hin Hd) HL). }
  exists w. split; [exact ET|]. split; [exact Htr|]. split; [exact ES|]. split; [exact Hsn|].
  split; [unfold render; rewrite HL; cbn [bind]; rewrite HW; cbn [bind]; now rewrite HB|].
  rewrite HV, !flat_map_app. unfold mid, report_text. cbn [flat_map].
  unfold name_pieces, msg_pieces. rewrite !shown_line_blank, !shown_line_named.
  destruct (Z.ltb_spec 0 ind) as [_|Hle]; [|unfold ind in Hle; lia]. rewrite <- ?app_assoc. cbn [app]. rewrite <- ?app_assoc. reflexivity.
Qed.

(* ------------------------------------------------------------------ 3. the class name and the message are in it *)
Lemma shown_has s : part_of s (shown s).
Proof. unfold shown. destruct (ends_with_bsl s); [exists [], [32%N]; reflexivity|apply part_refl]. Qed.
Lemma part_join sep p : forall l, In p l -> part_of p (join_with sep l).
Proof.
  induction l as [|x l IH]; [contradiction|]. intros [->|H].
  - destruct l as [|y l]; [apply part_refl|]. exists [], (sep :: join_with sep (y :: l)). reflexivity.
  - destruct (IH H) as (u & v & E). destruct l as [|y l]; [contradiction|].
    exists (x ++ sep :: u), v. cbn [join_with] in *. rewrite E, <- app_assoc. reflexivity.
Qed.
(* a piece of a text that holds no line break survives the indentation and the message's replace: both are the machine
   expand, which changes nothing between two line breaks but for blanks put in front *)
Lemma expand_keeps R P l : no_nl l -> forall s b, part_of l s -> part_of l (expand R P b s).
Proof.
  intros Hl s b (u & v & ->). destruct l as [|c l']; [exists [], (expand R P b (u ++ [] ++ v)); reflexivity|].
  rewrite expand_app. apply part_app_r. rewrite (expand_block R P (c :: l') v _ Hl ltac:(discriminate)).
  apply part_app_r, part_app_l, part_refl.
Qed.
Lemma ind_text_keeps n l s : no_nl l -> part_of l s -> part_of l (ind_text n s).
Proof. intros Hl H. unfold ind_text. apply part_app_l. now apply expand_keeps. Qed.
Lemma msg_text_keeps l m : no_nl l -> part_of l m -> part_of l (msg_text m).
Proof. intros Hl H. unfold msg_text. rewrite (replace_nl_expand nl_indent m false). now apply expand_keeps. Qed.
(* the lines of a text are such pieces *)
Lemma line_is_part s l : In l (split_on NL s) -> no_nl l /\ part_of l s.
Proof.
  intros H. split.
  - pose proof (split_lines_no_nl s) as Hs. rewrite Forall_forall in Hs. exact (Hs l H).
  - rewrite <- (join_split s) at 1. now apply part_join.
Qed.
(* the report holds every piece without line break - in particular every line - of the class name and of the message *)
Theorem report_has_name_and_message ind x tr_p sn_p :
  (forall l, no_nl l -> part_of l (x_name x) -> part_of l (report_text ind x tr_p sn_p))
  /\ (forall l, no_nl l -> part_of l (x_msg x) -> part_of l (report_text ind x tr_p sn_p)).
Proof.
  unfold report_text. split; intros l Hl Hp.
  - apply part_app_r, part_app_r, part_app_r, part_app_l. eapply part_trans; [|apply shown_has]. now apply ind_text_keeps.
  - do 7 apply part_app_r. apply part_app_l. eapply part_trans; [|apply shown_has]. apply ind_text_keeps; [exact Hl|]. now apply msg_text_keeps.
Qed.

(* ------------------------------------------------------------------ 4. for the outputs clikit builds *)
(* the same output with formatting off (Output.set_format_output(False)): what an undecorated run writes *)
Definition undecorate (o : outp) : outp :=
  {| o_indent := o_indent o; o_on := false; o_sec := o_sec o; o_fmt := o_fmt o; o_buf := o_buf o |}.
Lemma undecorate_plain o : decorated (undecorate o) = false. Proof. reflexivity. Qed.
Lemma undecorate_ok sty o : out_ok sty o -> out_ok sty (undecorate o).
Proof. intros (H1 & H2 & H3 & H4). repeat split; assumption. Qed.

Theorem full_report_visible_clikit c o x : clikit_output o -> (0 <= o_indent o)%Z -> x_frames x <> [] ->
  (decorated o = true -> inputs_ne c x) ->
  let ind := (o_indent o + 2)%Z in
  let sty := f_styles (o_fmt o) in
  exists tr_p sn_p w,
    render_trace c ind (x_frames x) = Ok (map pline_w tr_p) /\ Forall (fun p => pieces_ok sty (snd p)) tr_p /\
    render_snippet c ind (last (x_frames x) dflt_frame) = Ok (map pline_w sn_p) /\ Forall (fun p => pieces_ok sty (snd p)) sn_p /\
    render c false o x = Ok (o_buf o ++ w) /\ vis_of_out o w = report_text ind x tr_p sn_p /\
    (* it is what the same output writes undecorated *)
    render c false (undecorate o) x = Ok (o_buf o ++ vis_of_out o w) /\
    (* and holds the class name and the message *)
    (forall l, no_nl l -> part_of l (x_name x) -> part_of l (vis_of_out o w)) /\
    (forall l, no_nl l -> part_of l (x_msg x) -> part_of l (vis_of_out o w)).
Proof.
  intros H Hi Hne Hin ind sty. destruct (clikit_output_ok o H) as (Ho & Herr & Hb). fold sty in Ho, Herr, Hb.
  destruct (full_bytes_vis sty c o x Ho Herr Hb Hi Hne Hin) as (tr_p & sn_p & w & ET & Htr & ES & Hsn & HR & HV). fold ind in ET, ES, HV.
  exists tr_p, sn_p, w. split; [exact ET|]. split; [exact Htr|]. split; [exact ES|]. split; [exact Hsn|]. split; [exact HR|]. split; [exact HV|].
  destruct (report_has_name_and_message ind x tr_p sn_p) as [Hn Hm]. rewrite HV. split; [|split; [exact Hn|exact Hm]].
  rewrite (full_bytes_of_pieces sty c (undecorate o) x tr_p sn_p (undecorate_ok sty o Ho) Herr Hb (undecorate_plain o) Hi Hne ET Htr ES Hsn).
  reflexivity.
Qed.
(* simple mode: the message, decorated or not *)
Theorem simple_report_visible_clikit c o x : clikit_output o -> (o_indent o <= 0)%Z -> (decorated o = true -> no_esc (x_msg x)) ->
  exists w, render c true o x = Ok (o_buf o ++ w) /\ vis_of_out o w = shown (x_msg x) ++ [NL].
Proof.
  intros H Hi Hin. destruct (clikit_output_ok o H) as (Ho & Herr & Hb). set (sty := f_styles (o_fmt o)) in *.
  unfold render, render_lines. cbn [bind]. rewrite simple_line_pieces.
  destruct (write_lines_pieces_vis sty [(o_indent o, simple_pieces x)] o Ho) as (o' & w & HW & _ & _ & _ & HB & HV).
  { constructor; [apply simple_pieces_ok, Herr|constructor]. }
  { intros Hd. constructor; [|constructor]. cbn [snd simple_pieces]. constructor; [exact (Hin Hd)|constructor]. }
  exists w. split.
  - match goal with |- bind ?r _ = _ => replace r with (@Ok outp o') by (symmetry; exact HW) end. cbn [bind]. now rewrite HB.
  - rewrite HV. cbn [flat_map]. unfold simple_pieces. rewrite shown_line_named, app_nil_r. destruct (Z.ltb_spec 0 (o_indent o)); [lia|reflexivity].
Qed.
