(* C08, last clause: a command STRING and the ARGV LIST it spells are indistinguishable to parser, resolver and run.
   Parser, resolver and run read a raw-arguments object only through its tokens (Model/Parser.v, Resolver.v, Switches.v
   take the token list); StringArgs(s) holds tokenize s, ArgvArgs(script :: ts) holds ts. *)
From Clikit Require Import Base.Prelude Base.Res Model.Conv Model.Format Model.Parser Model.Resolver Model.Run Model.Tokenizer
  Model.Switches Proofs.TokenizerLemmas.

(* what is observed of a raw-arguments object *)
Record observed := { ob_parse : fmt -> bool -> res args;
                     ob_resolve : application -> res (list str * fmt * args);
                     ob_run : bool -> application -> summary }.
Definition observe (ts : list str) : observed :=
  {| ob_parse := fun f len => parse f len ts; ob_resolve := fun a => resolve a ts; ob_run := fun d a => run_summary d a ts |}.
Definition string_args (s : str) : option observed :=
  match tokenize s with TOk ts => Some (observe ts) | TOutOfFuel => None end.
Definition argv_args (ts : list str) : observed := observe ts.

Lemma string_args_defined s : exists o, string_args s = Some o.
Proof. unfold string_args. destruct (tokenize_total_lemma s) as (ts & ->). eexists. reflexivity. Qed.
Lemma string_is_argv s ts : tokenize s = TOk ts -> string_args s = Some (argv_args ts).
Proof. intros H. unfold string_args. now rewrite H. Qed.
(* every quoted / spaced spelling of a token list is observed exactly like the token list itself *)
Lemma spelled_string_is_argv items trail :
  items_ok items = true -> all_space trail = true -> seps_ok items = true ->
  string_args (render items trail) = Some (argv_args (map it_tok items)).
Proof. intros A B C. apply string_is_argv. now apply roundtrip_lemma. Qed.
