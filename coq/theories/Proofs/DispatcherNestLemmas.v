(* C12, third layer of Model/Dispatcher.v (nstep / run_C12N): listeners that dispatch while they are called.
   nrun_refines: for every sequence of ops - dispatching listeners included - every dispatch (the flat call
   log: the listeners a dispatch calls, and right behind each of them what the dispatch IT makes calls),
   get_listeners(event) and has_listeners answer of the dispatcher model is the answer of a specification
   that keeps only the log of registrations and the behaviour tables, in which a dispatch - made by the
   harness or by a listener - walks  spec_order log ev  for the log AS IT IS WHEN THAT DISPATCH STARTS, up
   to the first callable that stops, and every callable acts (registers, dispatches) when it is called. *)
From Coq Require Import Lia.
From Clikit Require Import Base.Prelude Model.Dispatcher Proofs.DispatcherLemmas Proofs.DispatcherExtLemmas.

Record nspec := { m_q : xspec; m_disp : list (N * N) }.
Definition nsinit : nspec := {| m_q := xsinit; m_disp := [] |}.
Definition with_q (m : nspec) (q : xspec) : nspec := {| m_q := q; m_disp := m_disp m |}.

Definition qnregisters (q : xspec) (c : N) : xspec :=
  match aget N.eqb c (q_rg q) with
  | Some (e2, p2) => qnew q e2 p2 false None
  | None => q
  end.

Fixpoint qnwalk (rec : nspec -> N -> nspec * list N) (m : nspec) (l : list N) : nspec * list N :=
  match l with
  | [] => (m, [])
  | i :: r =>
    let c := callable_of (q_call (m_q m)) i in
    let stops := q_stops_of (m_q m) c in
    let m1 := with_q m (qnregisters (m_q m) c) in
    let '(m2, inner) := match aget N.eqb c (m_disp m1) with
                        | Some ev2 => rec m1 ev2
                        | None => (m1, [])
                        end in
    if stops then (m2, c :: inner)
    else let '(m3, rest) := qnwalk rec m2 r in (m3, c :: inner ++ rest)
  end.

(* a dispatch: the registrations of ev in the log NOW, highest priority first, registration order within a priority *)
Fixpoint qndispatch (fuel : nat) (m : nspec) (ev : N) : nspec * list N :=
  match fuel with
  | O => (m, [])
  | S f => qnwalk (qndispatch f) m (spec_order (q_regs (m_q m)) ev)
  end.

Definition nsstep (m : nspec) (o : nop) : nspec * dout :=
  match o with
  | NAddDispatcher ev prio ev2 stops =>
    ({| m_q := qnew (m_q m) ev prio stops None; m_disp := m_disp m ++ [(q_ncall (m_q m), ev2)] |}, ONone)
  | NOp (XOp (Dispatch ev)) => let '(m', l) := qndispatch NFUEL m ev in (m', OCalled l)
  | NOp (XAddAgain ev prio c) =>
    match aget N.eqb c (m_disp m) with
    | Some t => if (ev <? t)%N then (with_q m (fst (xsstep (m_q m) (XAddAgain ev prio c))), ONone) else (m, ONone)
    | None => (with_q m (fst (xsstep (m_q m) (XAddAgain ev prio c))), ONone)
    end
  | NOp o => let '(q', out) := xsstep (m_q m) o in (with_q m q', out)
  end.
Fixpoint nsrun (m : nspec) (ops : list nop) : list dout :=
  match ops with
  | [] => []
  | o :: r => let '(m', out) := nsstep m o in out :: nsrun m' r
  end.

Definition ncovered (o : nop) : bool := match o with NOp x => xcovered x | _ => true end.
Fixpoint nouts_agree (ops : list nop) (a b : list dout) : Prop :=
  match ops, a, b with
  | [], [], [] => True
  | o :: ops', x :: a', y :: b' => (ncovered o = true -> x = y) /\ nouts_agree ops' a' b'
  | _, _, _ => False
  end.

(* ------------------------------------------------------------------ *)
Definition NR (s : nstate) (m : nspec) : Prop := XR (n_x s) (m_q m) /\ n_disp s = m_disp m.

Lemma NR_init : NR ninit nsinit.
Proof. split; [apply XR_init | reflexivity]. Qed.

Lemma XR_nregisters x q c : XR x q -> XR (nregisters x c) (qnregisters q c).
Proof.
  intros H. pose proof H as (HI & Hc & Hn & Hs & Hr). unfold nregisters, qnregisters. rewrite Hr.
  destruct (aget N.eqb c (q_rg q)) as [[e2 p2]|]; [apply XR_new|]; exact H.
Qed.

Definition rec_sim (rec : nstate -> N -> nstate * list N) (qrec : nspec -> N -> nspec * list N) : Prop :=
  forall s m ev, NR s m -> NR (fst (rec s ev)) (fst (qrec m ev)) /\ snd (rec s ev) = snd (qrec m ev).

Lemma nwalk_sim rec qrec : rec_sim rec qrec ->
  forall l s m, NR s m -> NR (fst (nwalk rec s l)) (fst (qnwalk qrec m l)) /\ snd (nwalk rec s l) = snd (qnwalk qrec m l).
Proof.
  intros Hrec. induction l as [|i r IH]; intros s m H; cbn [nwalk qnwalk]; [split; [exact H|reflexivity]|].
  pose proof H as (HX & Hd). pose proof HX as (HI & Hc & Hn & Hs & Hr).
  rewrite Hc.
  set (c := callable_of (q_call (m_q m)) i).
  assert (stops_of (n_x s) c = q_stops_of (m_q m) c) as Hst by (unfold stops_of, q_stops_of; now rewrite Hs).
  rewrite Hst.
  assert (NR (with_x s (nregisters (n_x s) c)) (with_q m (qnregisters (m_q m) c))) as H1.
  { split; [apply XR_nregisters, HX | exact Hd]. }
  cbn [with_x with_q n_disp m_disp]. rewrite Hd.
  destruct (aget N.eqb c (m_disp m)) as [ev2|].
  - destruct (Hrec _ _ ev2 H1) as [H2 Ho].
    destruct (rec (with_x s (nregisters (n_x s) c)) ev2) as [s2 inner].
    destruct (qrec (with_q m (qnregisters (m_q m) c)) ev2) as [m2 qinner]. cbn [fst snd] in H2, Ho. subst qinner.
    destruct (q_stops_of (m_q m) c); [split; [exact H2|reflexivity]|].
    destruct (IH s2 m2 H2) as [H3 Ho3].
    destruct (nwalk rec s2 r) as [s3 rest]. destruct (qnwalk qrec m2 r) as [m3 qrest]. cbn [fst snd] in *. subst qrest.
    split; [exact H3|reflexivity].
  - destruct (q_stops_of (m_q m) c); [split; [exact H1|reflexivity]|].
    destruct (IH _ _ H1) as [H3 Ho3].
    destruct (nwalk rec (with_x s (nregisters (n_x s) c)) r) as [s3 rest].
    destruct (qnwalk qrec (with_q m (qnregisters (m_q m) c)) r) as [m3 qrest]. cbn [fst snd] in *. subst qrest.
    split; [exact H3|reflexivity].
Qed.

Lemma ndispatch_sim fuel : rec_sim (ndispatch fuel) (qndispatch fuel).
Proof.
  induction fuel as [|f IH]; intros s m ev H; cbn [ndispatch qndispatch]; [split; [exact H|reflexivity]|].
  pose proof H as (HX & Hd). pose proof HX as (HI & Hc & Hn & Hs & Hr).
  destruct (step_sim (x_d (n_x s)) (q_regs (m_q m)) (Get ev) HI) as [HI' Ho].
  specialize (Ho eq_refl). cbn [dstep sstep fst snd] in HI', Ho.
  destruct (get_listeners (x_d (n_x s)) ev) as [d' l]. cbn [fst snd] in *.
  injection Ho as Ho. subst l.
  apply (nwalk_sim _ _ IH).
  split; [apply XR_with_d; assumption | exact Hd].
Qed.

Lemma nstep_sim s m o :
  NR s m -> NR (fst (nstep s o)) (fst (nsstep m o)) /\ (ncovered o = true -> snd (nstep s o) = snd (nsstep m o)).
Proof.
  intros H. pose proof H as (HX & Hd). pose proof HX as (HI & Hc & Hn & Hs & Hr).
  assert (forall x, NR (with_x s (fst (xstep (n_x s) x))) (with_q m (fst (xsstep (m_q m) x)))) as Hx.
  { intros x. split; [apply (xstep_sim _ _ x HX) | exact Hd]. }
  assert (forall x, (forall ev, x <> XOp (Dispatch ev)) -> (forall ev prio c, x <> XAddAgain ev prio c) ->
            nstep s (NOp x) = (let '(x', out) := xstep (n_x s) x in (with_x s x', out)) /\
            nsstep m (NOp x) = (let '(q', out) := xsstep (m_q m) x in (with_q m q', out))) as Hgen.
  { intros x H1 H2. destruct x as [[ev prio stops|ev|e|ev| |ev c]|ev prio c|ev stops|ev prio ev2 prio2|ev];
      try (split; reflexivity); [exfalso; eapply H1; reflexivity | exfalso; eapply H2; reflexivity]. }
  destruct o as [x|ev prio ev2 stops].
  - destruct x as [[ev prio stops|ev|e|ev| |ev c]|ev prio c|ev stops|ev prio ev2 prio2|ev].
    2:{ (* Dispatch *)
      cbn [nstep nsstep ncovered xcovered].
      destruct (ndispatch_sim NFUEL s m ev H) as [H1 Ho].
      destruct (ndispatch NFUEL s ev) as [s' l]. destruct (qndispatch NFUEL m ev) as [m' ql]. cbn [fst snd] in *.
      subst ql. split; [exact H1 | reflexivity]. }
    6:{ (* XAddAgain *)
      cbn [nstep nsstep ncovered xcovered]. rewrite Hd.
      destruct (aget N.eqb c (m_disp m)) as [t|].
      - destruct (ev <? t)%N; cbn [fst snd]; (split; [|reflexivity]); [apply Hx | exact H].
      - cbn [fst snd]. split; [apply Hx | reflexivity]. }
    all: match goal with |- context [nstep _ (NOp ?x)] =>
           destruct (Hgen x ltac:(intros; discriminate) ltac:(intros; discriminate)) as [E1 E2];
           rewrite E1, E2; pose proof (Hx x) as Hxx; pose proof (xstep_sim _ _ x HX) as [_ Hox];
           destruct (xstep (n_x s) x) as [x' out]; destruct (xsstep (m_q m) x) as [q' qout]; cbn [fst snd] in *;
           split; [exact Hxx | exact Hox] end.
  - cbn [nstep nsstep ncovered fst snd]. split; [|reflexivity].
    split; [apply XR_new, HX | cbn [n_disp m_disp]; now rewrite Hn, Hd].
Qed.

Lemma nrun_sim ops : forall s m, NR s m -> nouts_agree ops (nrun s ops) (nsrun m ops).
Proof.
  induction ops as [|o r IH]; intros s m H; cbn; [exact I|].
  destruct (nstep_sim s m o H) as [H' Ho].
  destruct (nstep s o) as [s' x]. destruct (nsstep m o) as [m' y]. cbn in *.
  split; [exact Ho | apply IH, H'].
Qed.

Lemma nrun_refines_lemma ops : nouts_agree ops (nrun ninit ops) (nsrun nsinit ops).
Proof. apply nrun_sim, NR_init. Qed.
