(* Proofs about Model/GatedSection.v: the gate composed with the section model.
   1  a refused call: the settings stay, the step is the identity
   2  a gated run is the Section.v run of the operations of the ALLOWED calls (erase); the settings go their own way
   3  ... hence equals the run of the sequence with the refused calls removed (kept)
   4  the C15 screen theorem lifted
   5  groups of calls (the wire) against the run of their concatenation *)
From Coq Require Import Lia Arith.
From Clikit Require Import Base.Prelude Base.Res Base.Term Model.Conv Model.Markup Model.Gate Model.Section Model.GatedSection
  Proofs.TermLemmas Proofs.MarkupLemmas Proofs.SectionLemmas.

(* ---------- 1. a refused call ---------- *)
Lemma gates_step_refused gs o : allowed gs o = false -> gates_step gs o = gs.
Proof. destruct o; cbn; intros H; try reflexivity; discriminate. Qed.

Lemma refused_has_sop gs o : allowed gs o = false -> exists so, sop_of gs o = Some so.
Proof. destruct o; cbn; intros H; try discriminate; eexists; reflexivity. Qed.

(* (a) a refused call - write, write_line, overwrite, clear, full or partial, decorated or not, whatever the section has
   on record - changes neither the stream nor any section's state (content, row count, indentation), nor the settings,
   nor the formatter *)
Lemma refused_invisible ansi w st gs f o : allowed gs o = false -> gstep ansi w st gs f o = Ok (st, gs, f, []).
Proof. intros H. unfold gstep. destruct (refused_has_sop gs o H) as [so ->]. now rewrite H. Qed.

(* ---------- 2. a gated run is the flag-less run of the allowed calls ---------- *)
Definition lift (gs' : gates) (r : res (secs * formatter * list emit)) : res gres :=
  do x <- r; Ok (fst (fst x), gs', snd (fst x), snd x).

Lemma grun_erase ansi w : forall ops st gs f,
  grun ansi w st gs f ops = lift (gates_after gs ops) (srun ansi w st f (erase gs ops)).
Proof.
  induction ops as [|o r IH]; intros st gs f; [reflexivity|].
  cbn [grun erase gates_after fold_left]. fold (gates_after (gates_step gs o) r).
  unfold gstep.
  destruct (sop_of gs o) as [so|] eqn:Es.
  - destruct (allowed gs o) eqn:Ea.
    + cbn [app srun]. unfold sec_step.
      destruct (if ansi then sstep w st f so else sstep_plain w st f so) as [[[st1 f1] e1]|k]; [|reflexivity].
      cbn [bind fst snd]. rewrite IH. unfold lift.
      destruct (srun ansi w st1 f1 (erase (gates_step gs o) r)) as [[[st2 f2] e2]|k]; reflexivity.
    + cbn [bind fst snd app]. rewrite (gates_step_refused _ _ Ea) in *. rewrite IH. unfold lift.
      destruct (srun ansi w st f (erase gs r)) as [[[st2 f2] e2]|k]; reflexivity.
  - cbn [bind fst snd app]. rewrite IH. unfold lift.
    destruct (srun ansi w st f (erase (gates_step gs o) r)) as [[[st2 f2] e2]|k]; reflexivity.
Qed.

(* ---------- 3. the sequence without its refused calls ---------- *)
Lemma erase_kept : forall ops gs, erase gs (kept gs ops) = erase gs ops.
Proof.
  induction ops as [|o r IH]; intros gs; [reflexivity|]. cbn [kept erase].
  destruct (allowed gs o) eqn:Ea.
  - cbn [app erase]. rewrite Ea. now rewrite IH.
  - rewrite (gates_step_refused _ _ Ea). cbn [app]. rewrite IH. now destruct (sop_of gs o).
Qed.
Lemma gates_after_kept : forall ops gs, gates_after gs (kept gs ops) = gates_after gs ops.
Proof.
  unfold gates_after. induction ops as [|o r IH]; intros gs; [reflexivity|]. cbn [kept fold_left].
  destruct (allowed gs o) eqn:Ea; cbn [app fold_left]; [apply IH|].
  rewrite (gates_step_refused _ _ Ea). apply IH.
Qed.
Lemma kept_all_allowed : forall ops gs, kept gs (kept gs ops) = kept gs ops.
Proof.
  induction ops as [|o r IH]; intros gs; [reflexivity|]. cbn [kept].
  destruct (allowed gs o) eqn:Ea; cbn [app kept]; [rewrite Ea; cbn [app]; now rewrite IH|].
  rewrite (gates_step_refused _ _ Ea). apply IH.
Qed.

(* (b) the whole result of a run - stream, every section's state, settings, formatter - is that of the sequence with
   all refused calls removed: what a refused call was given can never show up, neither at once nor later *)
Lemma refused_never_appears ansi w st gs f ops : grun ansi w st gs f ops = grun ansi w st gs f (kept gs ops).
Proof. rewrite !grun_erase. now rewrite erase_kept, gates_after_kept. Qed.

(* two sequences that differ only in what their refused calls were given have the same result *)
Lemma refused_arguments_irrelevant ansi w st gs f ops ops' : kept gs ops = kept gs ops' ->
  grun ansi w st gs f ops = grun ansi w st gs f ops'.
Proof. intros E. rewrite (refused_never_appears _ _ _ _ _ ops), (refused_never_appears _ _ _ _ _ ops'). now rewrite E. Qed.

(* ---------- 4. the screen is the stack of what the ALLOWED calls wrote ---------- *)
Lemma gated_screen_lemma w : 1 <= w -> forall f0 ops, is_ansi f0 -> f_stack f0 = [] ->
  good_opsb (f_styles f0) (erase gates0 ops) = true ->
  exists st f es, grun true w [] gates0 f0 ops = Ok (st, gates_after gates0 ops, f, es) /\
    srun true w [] f0 (erase gates0 ops) = Ok (st, f, es) /\
    feed w term_init es = screen w (f_styles f0) st /\ Forall (sec_ok w (f_styles f0)) st /\ fmt_ok (f_styles f0) f.
Proof.
  intros Hw f0 ops Ha Hs Hg.
  destruct (screen_is_stack_lemma w Hw f0 (erase gates0 ops) Ha Hs Hg) as (st & f & es & Hr & Hscr & Hok & Hf).
  exists st, f, es. rewrite grun_erase, Hr. cbn. auto.
Qed.

(* the settings list stays parallel to the sections *)
Lemma set_gate_length (gs : list gate) i g x : nth_error gs i = Some x -> length (set_gate gs i g) = length gs.
Proof.
  intros H. unfold set_gate. rewrite app_length. cbn [length].
  assert (i < length gs) as Hi by (apply nth_error_Some; congruence).
  rewrite firstn_length, skipn_length. lia.
Qed.
Lemma gates_step_length gs o :
  length (g_secs (gates_step gs o)) = length (g_secs gs) + (match o with GCreate => 1 | _ => 0 end).
Proof.
  destruct o; cbn [gates_step with_secs g_secs]; try lia.
  - rewrite app_length. cbn. lia.
  - destruct (nth_error (g_secs gs) i) eqn:E; cbn [with_secs g_secs]; [rewrite (set_gate_length _ _ _ _ E)|]; lia.
  - destruct (nth_error (g_secs gs) i) eqn:E; cbn [with_secs g_secs]; [rewrite (set_gate_length _ _ _ _ E)|]; lia.
Qed.
(* a section starts with the settings its output has when section() is called: a quiet output has quiet sections *)
Lemma created_inherits gs : g_secs (gates_step gs GCreate) = g_secs gs ++ [g_parent gs] /\
  sop_of gs GCreate = Some (SCreate (g_pindent gs)).
Proof. split; reflexivity. Qed.

(* ---------- 5. groups ---------- *)
Lemma grun_app ansi w : forall a st gs f b,
  grun ansi w st gs f (a ++ b) =
  do x <- grun ansi w st gs f a;
  do y <- grun ansi w (fst (fst (fst x))) (snd (fst (fst x))) (snd (fst x)) b;
  Ok (fst (fst (fst y)), snd (fst (fst y)), snd (fst y), snd x ++ snd y).
Proof.
  induction a as [|o r IH]; intros st gs f b.
  - cbn. destruct (grun ansi w st gs f b) as [[[[? ?] ?] ?]|]; reflexivity.
  - cbn [app grun]. destruct (gstep ansi w st gs f o) as [[[[st1 gs1] f1] e1]|]; [|reflexivity].
    cbn [bind fst snd]. rewrite IH.
    destruct (grun ansi w st1 gs1 f1 r) as [[[[st2 gs2] f2] e2]|]; [|reflexivity]. cbn [bind fst snd].
    destruct (grun ansi w st2 gs2 f2 b) as [[[[st3 gs3] f3] e3]|]; [|reflexivity]. cbn [bind fst snd].
    now rewrite app_assoc.
Qed.
Lemma grun_groups_concat ansi w : forall groups st gs f st' gs' f' ess,
  grun_groups ansi w st gs f groups = Ok (st', gs', f', ess) ->
  grun ansi w st gs f (concat groups) = Ok (st', gs', f', concat ess) /\ length ess = length groups.
Proof.
  induction groups as [|g r IH]; intros st gs f st' gs' f' ess H.
  - cbn in H. inversion H; subst. split; reflexivity.
  - cbn [grun_groups] in H. cbn [concat]. rewrite grun_app.
    destruct (grun ansi w st gs f g) as [[[[st1 gs1] f1] e1]|]; [|discriminate]. cbn [bind fst snd] in *.
    destruct (grun_groups ansi w st1 gs1 f1 r) as [[[[st2 gs2] f2] e2]|] eqn:E; [|discriminate]. cbn [bind fst snd] in H.
    inversion H; subst. destruct (IH _ _ _ _ _ _ _ E) as [-> Hn]. cbn. now rewrite Hn.
Qed.
