(* Proofs about Model/OutputM.v (C11): line-writing methods, indentation, scopes. *)
From Coq Require Import Lia.
From Clikit Require Import Base.Prelude Base.Res Model.Conv Model.Markup Model.OutputM.

(* ---------- lines ---------- *)
Definition no_nl (l : str) : Prop := Forall (fun c => c <> NL) l.
Lemma split_on_nonempty sep s : split_on sep s <> [].
Proof. destruct s as [|c r]; cbn; [discriminate|]. destruct (N.eqb c sep); [discriminate|]. destruct (split_on sep r); discriminate. Qed.
Lemma split_lines_no_nl s : Forall no_nl (split_on NL s).
Proof.
  induction s as [|c r IH]; cbn [split_on]; [repeat constructor|].
  destruct (N.eqb_spec c NL) as [->|Hc]; [constructor; [constructor|exact IH]|].
  destruct (split_on NL r) as [|l ls]; [repeat constructor; exact Hc|].
  inversion IH; subst. constructor; [constructor; assumption|assumption].
Qed.
Lemma split_no_nl l : no_nl l -> split_on NL l = [l].
Proof.
  induction 1 as [|c l Hc Hl IH]; cbn [split_on]; [reflexivity|].
  destruct (N.eqb_spec c NL); [contradiction|]. now rewrite IH.
Qed.
Lemma split_app_nl l r : no_nl l -> split_on NL (l ++ NL :: r) = l :: split_on NL r.
Proof.
  induction 1 as [|c l Hc Hl IH]; cbn [split_on app]; [reflexivity|].
  destruct (N.eqb_spec c NL); [contradiction|]. now rewrite IH.
Qed.
Lemma split_join ls : ls <> [] -> Forall no_nl ls -> split_on NL (join_with NL ls) = ls.
Proof.
  induction ls as [|l r IH]; intros Hne H; [congruence|]. inversion H as [|? ? Hl Hr]; subst.
  destruct r as [|l2 r']; cbn [join_with]; [apply split_no_nl, Hl|].
  rewrite (split_app_nl l _ Hl). f_equal. apply IH; [discriminate|exact Hr].
Qed.
Lemma join_split s : join_with NL (split_on NL s) = s.
Proof.
  induction s as [|c r IH]; cbn [split_on]; [reflexivity|].
  destruct (N.eqb_spec c NL) as [->|Hc].
  - pose proof (split_on_nonempty NL r) as Hne. destruct (split_on NL r) as [|l ls] eqn:E; [congruence|].
    cbn [join_with app] in *. now rewrite IH.
  - pose proof (split_on_nonempty NL r) as Hne. destruct (split_on NL r) as [|l ls] eqn:E; [congruence|].
    destruct ls; cbn [join_with app] in *; rewrite <- IH; reflexivity.
Qed.

(* every non-empty line gets exactly the indentation, empty lines stay empty, nothing else changes *)
Lemma spaces_no_nl n : no_nl (spaces n).
Proof. unfold spaces. induction (Z.to_nat n); cbn; constructor; [discriminate|assumption]. Qed.
Lemma indent_lines n s : split_on NL (indent_text n s) = map (indent_line n) (split_on NL s).
Proof.
  unfold indent_text. apply split_join.
  - pose proof (split_on_nonempty NL s). destruct (split_on NL s); [congruence|discriminate].
  - pose proof (split_lines_no_nl s) as H. induction H as [|l ls Hl Hls IH]; cbn [map]; constructor; auto.
    unfold indent_line. destruct l; [constructor|]. apply Forall_app; split; [apply spaces_no_nl|exact Hl].
Qed.

(* ---------- line-writing methods ---------- *)
Lemma rstrip_nl_rev_spec r : exists k, r = repeat NL k ++ rstrip_nl_rev r /\ (match rstrip_nl_rev r with c :: _ => c <> NL | [] => True end).
Proof.
  induction r as [|c r IH]; cbn [rstrip_nl_rev]; [exists 0; split; [reflexivity|exact I]|].
  destruct (N.eqb_spec c NL) as [->|Hc].
  - destruct IH as (k & E & H). exists (S k). split; [cbn; now rewrite <- E|exact H].
  - exists 0. split; [reflexivity|exact Hc].
Qed.
Lemma rstrip_nl_spec s : exists k, s = rstrip_nl s ++ repeat NL k /\ (match rev (rstrip_nl s) with c :: _ => c <> NL | [] => True end).
Proof.
  unfold rstrip_nl. destruct (rstrip_nl_rev_spec (rev s)) as (k & E & H). exists k. split.
  - rewrite <- (rev_involutive s), E at 1. rewrite rev_app_distr. f_equal.
    clear. induction k; cbn; [reflexivity|]. rewrite IHk. clear. induction k; cbn; [reflexivity|]. now rewrite <- IHk.
  - rewrite rev_involutive. exact H.
Qed.
Lemma rstrip_nl_id s : (match rev s with c :: _ => c <> NL | [] => True end) -> rstrip_nl s = s.
Proof.
  unfold rstrip_nl. intros H. destruct (rev s) as [|c r] eqn:E.
  - cbn. apply (f_equal (@rev N)) in E. rewrite rev_involutive in E. now rewrite E.
  - cbn [rstrip_nl_rev]. destruct (N.eqb_spec c NL); [contradiction|]. rewrite <- E. apply rev_involutive.
Qed.

Lemma write_line_shape o s o' : do_write o WWriteLine s = Ok o' ->
  exists body, o_buf o' = o_buf o ++ body ++ [NL] /\ o_indent o' = o_indent o.
Proof.
  unfold do_write, write. intros H.
  destruct (if o_sec o && o_on o then add_content_effect o s else Ok (o_fmt o)) as [f0|e]; cbn [bind] in H; [|discriminate].
  match type of H with (do x <- ?F; _) = _ => destruct F as [x|e]; cbn [bind] in H; [|discriminate] end.
  inversion H; subst. cbn. eexists. split; reflexivity.
Qed.
Lemma write_line_raw_shape o s : exists o',
  do_write o WWriteLineRaw s = Ok o' /\ o_buf o' = o_buf o ++ rstrip_nl s ++ [NL] /\ o_indent o' = o_indent o /\ o_fmt o' = o_fmt o.
Proof. eexists. cbn. repeat split. Qed.

(* ---------- indentation scopes ---------- *)
Section StmtInd.
Variable P : stmt -> Prop.
Hypothesis Hw : forall t m text, P (SWrite t m text).
Hypothesis Hs : forall lv incr n body, Forall P body -> P (SScope lv incr n body).
Hypothesis Hr : P SRaise.
Hypothesis Ht : forall body, Forall P body -> P (STry body).
Hypothesis Hi : forall body, Forall P body -> P (SInSection body).
Fixpoint stmt_ind' (s : stmt) : P s :=
  match s with
  | SWrite t m text => Hw t m text
  | SScope lv incr n body =>
    Hs lv incr n body ((fix go (l : list stmt) : Forall P l :=
                          match l with [] => Forall_nil P | x :: r => Forall_cons x (stmt_ind' x) (go r) end) body)
  | SRaise => Hr
  | STry body =>
    Ht body ((fix go (l : list stmt) : Forall P l :=
                match l with [] => Forall_nil P | x :: r => Forall_cons x (stmt_ind' x) (go r) end) body)
  | SInSection body =>
    Hi body ((fix go (l : list stmt) : Forall P l :=
                match l with [] => Forall_nil P | x :: r => Forall_cons x (stmt_ind' x) (go r) end) body)
  end.
End StmtInd.

(* the inner loop of exec is exec_list *)
Lemma exec_scope lv incr n body st :
  exec (SScope lv incr n body) st = let '(st', raised) := exec_list body (scope_enter lv incr n st) in (scope_exit lv st st', raised).
Proof.
  cbn [exec]. generalize (scope_enter lv incr n st) as s0.
  assert (forall l s0, (fix run (l : list stmt) (st0 : iost) {struct l} : iost * bool :=
            match l with [] => (st0, false) | x :: r => let '(st', raised) := exec x st0 in if raised then (st', true) else run r st' end) l s0
          = exec_list l s0) as H.
  { induction l as [|x r IH]; intros s0; cbn [exec_list]; [reflexivity|]. destruct (exec x s0) as [st' [|]]; [reflexivity|apply IH]. }
  intros s0. now rewrite H.
Qed.
Lemma exec_try body st : exec (STry body) st = let '(st', _) := exec_list body st in (st', false).
Proof.
  cbn [exec].
  assert (forall l s0, (fix run (l : list stmt) (st0 : iost) {struct l} : iost * bool :=
            match l with [] => (st0, false) | x :: r => let '(st', raised) := exec x st0 in if raised then (st', true) else run r st' end) l s0
          = exec_list l s0) as H.
  { induction l as [|x r IH]; intros s0; cbn [exec_list]; [reflexivity|]. destruct (exec x s0) as [st' [|]]; [reflexivity|apply IH]. }
  now rewrite H.
Qed.

Lemma exec_insection body st :
  exec (SInSection body) st = let '(st', raised) := exec_list body (in_sections st) in (out_sections st st', raised).
Proof.
  cbn [exec].
  assert (forall l s0, (fix run (l : list stmt) (st0 : iost) {struct l} : iost * bool :=
            match l with [] => (st0, false) | x :: r => let '(st', raised) := exec x st0 in if raised then (st', true) else run r st' end) l s0
          = exec_list l s0) as H.
  { induction l as [|x r IH]; intros s0; cbn [exec_list]; [reflexivity|]. destruct (exec x s0) as [st' [|]]; [reflexivity|apply IH]. }
  now rewrite H.
Qed.

Definition indents (st : iost) : Z * Z := (o_indent (io_out st), o_indent (io_err st)).

Lemma do_write_indent o m s o' : do_write o m s = Ok o' -> o_indent o' = o_indent o.
Proof.
  destruct m; cbn [do_write]; try (intros H; inversion H; reflexivity);
  unfold write; intros H;
  (destruct (if o_sec o && o_on o then add_content_effect o s else Ok (o_fmt o)) as [f0|e]; cbn [bind] in H; [|discriminate]);
  match type of H with (do x <- ?F; _) = _ => destruct F as [x|e]; cbn [bind] in H; [|discriminate] end;
  inversion H; reflexivity.
Qed.

(* whatever a statement does - and however it is left - the indentation that held before it holds after it *)
Lemma exec_keeps_indents s : forall st, indents (fst (exec s st)) = indents st.
Proof.
  induction s as [t m text|lv incr n body IH| |body IH|body IH] using stmt_ind'; intros st.
  5: { rewrite exec_insection. destruct (exec_list body (in_sections st)) as [st' r]. reflexivity. }
  - cbn [exec]. destruct t.
    + destruct (do_write (io_out st) m text) as [o|e] eqn:E; [|reflexivity]. unfold indents. cbn. now rewrite (do_write_indent _ _ _ _ E).
    + destruct (do_write (io_err st) m text) as [o|e] eqn:E; [|reflexivity]. unfold indents. cbn. now rewrite (do_write_indent _ _ _ _ E).
  - rewrite exec_scope.
    assert (forall s0, indents (fst (exec_list body s0)) = indents s0) as HL.
    { induction IH as [|x r Hx Hr IHr]; intros s0; cbn [exec_list]; [reflexivity|].
      specialize (Hx s0). destruct (exec x s0) as [st' [|]]; cbn [fst] in *; [exact Hx|]. rewrite IHr. exact Hx. }
    specialize (HL (scope_enter lv incr n st)). destruct (exec_list body (scope_enter lv incr n st)) as [st' r]. cbn [fst] in *.
    unfold indents, scope_exit, scope_enter in *. destruct lv; cbn in *; inversion HL; try reflexivity; congruence.
  - reflexivity.
  - rewrite exec_try.
    assert (forall s0, indents (fst (exec_list body s0)) = indents s0) as HL.
    { induction IH as [|x r Hx Hr IHr]; intros s0; cbn [exec_list]; [reflexivity|].
      specialize (Hx s0). destruct (exec x s0) as [st' [|]]; cbn [fst] in *; [exact Hx|]. rewrite IHr. exact Hx. }
    specialize (HL st). destruct (exec_list body st) as [st' r]. exact HL.
Qed.
Lemma exec_list_keeps_indents l : forall st, indents (fst (exec_list l st)) = indents st.
Proof.
  induction l as [|x r IH]; intros st; cbn [exec_list]; [reflexivity|].
  pose proof (exec_keeps_indents x st) as Hx. destruct (exec x st) as [st' [|]]; cbn [fst] in *; [exact Hx|]. now rewrite IH.
Qed.

(* ---------- scopes are lexical: the indentation in force is a parameter handed down, never restored ---------- *)
Definition set_env (st : iost) (env : Z * Z) : iost :=
  {| io_out := with_indent (io_out st) (fst env); io_err := with_indent (io_err st) (snd env) |}.
Definition env_enter (lv : level) (incr : bool) (n : Z) (env : Z * Z) : Z * Z :=
  (if touches lv TOut then (if incr then fst env + n else n)%Z else fst env,
   if touches lv TErr then (if incr then snd env + n else n)%Z else snd env).

Fixpoint lexec (s : stmt) (env : Z * Z) (st : iost) : iost * bool :=
  let run := fix run (l : list stmt) (env : Z * Z) (st : iost) : iost * bool :=
    match l with
    | [] => (st, false)
    | x :: r => let '(st', raised) := lexec x env st in if raised then (st', true) else run r env st'
    end in
  match s with
  | SWrite t m text => exec (SWrite t m text) (set_env st env)
  | SScope lv incr n body => run body (env_enter lv incr n env) st
  | SRaise => (st, true)
  | STry body => let '(st', _) := run body env st in (st', false)
  | SInSection body => let '(st', raised) := run body env (in_sections st) in (out_sections st st', raised)
  end.
Fixpoint lexec_list (l : list stmt) (env : Z * Z) (st : iost) : iost * bool :=
  match l with
  | [] => (st, false)
  | x :: r => let '(st', raised) := lexec x env st in if raised then (st', true) else lexec_list r env st'
  end.
Lemma lexec_run l : forall env st,
  (fix run (l : list stmt) (env : Z * Z) (st : iost) : iost * bool :=
     match l with [] => (st, false) | x :: r => let '(st', raised) := lexec x env st in if raised then (st', true) else run r env st' end) l env st
  = lexec_list l env st.
Proof. induction l as [|x r IH]; intros env st; cbn [lexec_list]; [reflexivity|]. destruct (lexec x env st) as [st' [|]]; [reflexivity|apply IH]. Qed.

Lemma with_indent_same o : with_indent o (o_indent o) = o. Proof. destruct o; reflexivity. Qed.
Lemma set_env_same st : set_env st (indents st) = st.
Proof. destruct st as [o e]. unfold set_env, indents. cbn. now rewrite !with_indent_same. Qed.
Lemma set_env_twice st e1 e2 : set_env (set_env st e1) e2 = set_env st e2.
Proof. reflexivity. Qed.
Lemma indents_set_env st env : indents (set_env st env) = env.
Proof. destruct env; reflexivity. Qed.
Lemma scope_enter_env lv incr n st : scope_enter lv incr n st = set_env st (env_enter lv incr n (indents st)).
Proof.
  destruct st as [o e]. unfold scope_enter, set_env, env_enter, indents, enter. cbn [io_out io_err fst snd].
  destruct lv; cbn [touches]; rewrite ?with_indent_same; reflexivity.
Qed.
Lemma scope_exit_env lv incr n st st2 :
  scope_exit lv st (set_env st2 (env_enter lv incr n (indents st))) = set_env st2 (indents st).
Proof.
  destruct st as [o e], st2 as [o2 e2]. unfold scope_exit, set_env, env_enter, indents. cbn [io_out io_err fst snd].
  destruct lv; cbn [touches]; reflexivity.
Qed.

(* equal except for the indentation fields *)
Definition sbi (a b : iost) : Prop := set_env a (0, 0)%Z = set_env b (0, 0)%Z.
Lemma sbi_env a b : sbi a b -> forall e, set_env a e = set_env b e.
Proof. intros H e. rewrite <- (set_env_twice a (0, 0)%Z e), <- (set_env_twice b (0, 0)%Z e). unfold sbi in H. now rewrite H. Qed.
Lemma sbi_refl a : sbi a a. Proof. reflexivity. Qed.
Lemma sbi_set_env a e : sbi (set_env a e) a. Proof. reflexivity. Qed.
Lemma sbi_trans a b c : sbi a b -> sbi b c -> sbi a c. Proof. unfold sbi. congruence. Qed.
Lemma sbi_scope_exit lv s a : sbi (scope_exit lv s a) a.
Proof. destruct a as [o e]. unfold sbi, scope_exit, set_env. destruct lv; reflexivity. Qed.

Lemma lexical_lemma s : forall a b, sbi a b ->
  let '(a', r1) := exec s a in let '(b', r2) := lexec s (indents a) b in r1 = r2 /\ sbi a' b'.
Proof.
  induction s as [t m text|lv incr n body IH| |body IH|body IH] using stmt_ind'; intros a b Hab.
  5: { (* the body runs on the sections of both outputs: same indentations, then back to the outputs *)
    rewrite exec_insection. cbn [lexec]. rewrite lexec_run.
    assert (forall a0 b0, sbi a0 b0 -> indents a0 = indents a ->
              let '(a1, r1) := exec_list body a0 in let '(b1, r2) := lexec_list body (indents a) b0 in r1 = r2 /\ sbi a1 b1) as HL.
    { clear - IH. induction IH as [|x r Hx Hr IHr]; intros a0 b0 H0 He; cbn [exec_list lexec_list]; [split; [reflexivity|exact H0]|].
      specialize (Hx a0 b0 H0). rewrite He in Hx. pose proof (exec_keeps_indents x a0) as HK.
      destruct (exec x a0) as [a1 r1], (lexec x (indents a) b0) as [b1 r2]. destruct Hx as [-> H1]. cbn [fst] in HK.
      destruct r2; [split; [reflexivity|exact H1]|]. apply IHr; [exact H1|congruence]. }
    assert (sbi (in_sections a) (in_sections b)) as Hs.
    { unfold sbi, set_env, in_sections, as_section in *. cbn in *. inversion Hab. reflexivity. }
    specialize (HL (in_sections a) (in_sections b) Hs eq_refl).
    destruct (exec_list body (in_sections a)) as [a1 r1], (lexec_list body (indents a) (in_sections b)) as [b1 r2].
    destruct HL as [-> H1]. split; [reflexivity|].
    unfold sbi, set_env, out_sections, leave_section in *. cbn in *. inversion Hab. inversion H1. reflexivity. }
  - cbn [lexec]. rewrite <- (sbi_env a b Hab), set_env_same. destruct (exec (SWrite t m text) a) as [a' r]. split; reflexivity.
  - rewrite exec_scope. cbn [lexec]. rewrite lexec_run, scope_enter_env.
    set (env' := env_enter lv incr n (indents a)).
    assert (forall a0 b0, sbi a0 b0 -> indents a0 = env' ->
              let '(a1, r1) := exec_list body a0 in let '(b1, r2) := lexec_list body env' b0 in r1 = r2 /\ sbi a1 b1) as HL.
    { clear - IH. induction IH as [|x r Hx Hr IHr]; intros a0 b0 H0 He; cbn [exec_list lexec_list]; [split; [reflexivity|exact H0]|].
      specialize (Hx a0 b0 H0). rewrite He in Hx. pose proof (exec_keeps_indents x a0) as HK.
      destruct (exec x a0) as [a1 r1], (lexec x env' b0) as [b1 r2]. destruct Hx as [-> H1]. cbn [fst] in HK.
      destruct r2; [split; [reflexivity|exact H1]|]. apply IHr; [exact H1|congruence]. }
    specialize (HL (set_env a env') b (sbi_trans _ _ _ (sbi_set_env a env') Hab) (indents_set_env _ _)).
    destruct (exec_list body (set_env a env')) as [a1 r1], (lexec_list body env' b) as [b1 r2]. destruct HL as [-> H1].
    split; [reflexivity|]. exact (sbi_trans _ _ _ (sbi_scope_exit lv a a1) H1).
  - cbn. split; [reflexivity|exact Hab].
  - rewrite exec_try. cbn [lexec]. rewrite lexec_run.
    assert (forall a0 b0, sbi a0 b0 -> indents a0 = indents a ->
              let '(a1, r1) := exec_list body a0 in let '(b1, r2) := lexec_list body (indents a) b0 in r1 = r2 /\ sbi a1 b1) as HL.
    { clear - IH. induction IH as [|x r Hx Hr IHr]; intros a0 b0 H0 He; cbn [exec_list lexec_list]; [split; [reflexivity|exact H0]|].
      specialize (Hx a0 b0 H0). rewrite He in Hx. pose proof (exec_keeps_indents x a0) as HK.
      destruct (exec x a0) as [a1 r1], (lexec x (indents a) b0) as [b1 r2]. destruct Hx as [-> H1]. cbn [fst] in HK.
      destruct r2; [split; [reflexivity|exact H1]|]. apply IHr; [exact H1|congruence]. }
    specialize (HL a b Hab eq_refl).
    destruct (exec_list body a) as [a1 r1], (lexec_list body (indents a) b) as [b1 r2]. destruct HL as [_ H1].
    split; [reflexivity|exact H1].
Qed.

(* programs *)
Lemma lexical_list_lemma l : forall a b, sbi a b ->
  let '(a', r1) := exec_list l a in let '(b', r2) := lexec_list l (indents a) b in r1 = r2 /\ sbi a' b'.
Proof.
  induction l as [|x r IH]; intros a b Hab; cbn [exec_list lexec_list]; [split; [reflexivity|exact Hab]|].
  pose proof (lexical_lemma x a b Hab) as Hx. pose proof (exec_keeps_indents x a) as HK.
  destruct (exec x a) as [a1 r1], (lexec x (indents a) b) as [b1 r2]. destruct Hx as [-> H1]. cbn [fst] in HK.
  destruct r2; [split; [reflexivity|exact H1]|]. rewrite <- HK. apply IH, H1.
Qed.

(* ---------- write_line is write and exactly one more line feed ---------- *)
(* the text as it goes to the formatter: indented when the output has an indentation *)
Definition line_shown (o : outp) (s : str) : str := if (0 <? o_indent o)%Z then indent_text (o_indent o) s else s.
Definition line_render (o : outp) (f : formatter) (s : str) : res (formatter * str) :=
  if o_on o then format f (line_shown o s) None else remove_format f (line_shown o s).
Definition buf_push (o : outp) (f : formatter) (b : str) : outp := with_buf o f (o_buf o ++ b).

(* on every output that is not a decorated section: write_line succeeds exactly when write does, and leaves exactly what
   write leaves followed by ONE line feed (same formatter state, same indentation) *)
Lemma write_line_is_write_nl o s : o_sec o && o_on o = false ->
  do_write o WWriteLine s = (do o1 <- do_write o WWrite s; Ok (buf_push o1 (o_fmt o1) [NL])).
Proof.
  intros Hs. unfold do_write, write. rewrite Hs. cbn [bind orb].
  cbn [with_buf o_indent o_on o_sec o_fmt o_buf].
  match goal with |- (do x <- ?F; _) = _ => destruct F as [x|e]; cbn [bind]; [|reflexivity] end.
  unfold buf_push, with_buf. cbn [o_indent o_on o_sec o_fmt o_buf]. now rewrite app_nil_r, <- app_assoc.
Qed.
(* a decorated section ends the line whichever of the two is called: write and write_line are the same call *)
Lemma section_write_is_write_line o s : o_sec o && o_on o = true -> do_write o WWrite s = do_write o WWriteLine s.
Proof. intros Hs. unfold do_write, write. rewrite Hs. reflexivity. Qed.
(* what write_line emits, in full: the (indented) text as the formatter renders it, then one line feed *)
Lemma write_line_body o s o' : o_sec o && o_on o = false -> do_write o WWriteLine s = Ok o' ->
  exists f' out, line_render o (o_fmt o) s = Ok (f', out) /\ o' = buf_push o f' (out ++ [NL]).
Proof.
  intros Hs. unfold do_write, write, line_render, line_shown. rewrite Hs. cbn [bind orb andb].
  cbn [with_buf o_indent o_on o_sec o_fmt o_buf]. rewrite Bool.andb_true_r.
  destruct (o_on o);
    match goal with |- (do x <- ?F; _) = _ -> _ => destruct F as [[f' out]|e]; cbn [bind fst snd]; [|discriminate] end;
    intros H; inversion H; eexists _, _; (split; [reflexivity|]); reflexivity.
Qed.
Lemma section_write_line_body o s o' : o_sec o && o_on o = true -> do_write o WWriteLine s = Ok o' ->
  exists f0 f' out, add_content_effect o s = Ok f0 /\ format f0 (line_shown o s) None = Ok (f', out) /\ o' = buf_push o f' (out ++ [NL]).
Proof.
  intros Hs H. apply Bool.andb_true_iff in Hs as [H1 H2]. unfold do_write, write in H. rewrite H1, H2 in H. cbn [andb orb] in H.
  destruct (add_content_effect o s) as [f0|e]; cbn [bind] in H; [|discriminate].
  cbn [with_buf o_indent o_on o_sec o_fmt o_buf] in H. rewrite H2, Bool.andb_true_r in H. cbv iota in H. fold (line_shown o s) in H.
  destruct (format f0 (line_shown o s) None) as [[f' out]|e] eqn:EF; cbn [bind fst snd] in H; [|discriminate].
  inversion H. exists f0, f', out. split; [reflexivity|]. split; [exact EF|]. unfold buf_push, with_buf. cbn. now rewrite H1, H2.
Qed.
