(* C04 composed with C20: Model/Run.v abstracts the error-report renderer of ConsoleApplication.run as the boolean
   render_ok ("the renderer returned").  The renderer is ExceptionTrace.render, modelled in Model/Trace.v and proved not to
   fail once tokenize has succeeded where it is needed (TraceRenderLemmas, TraceSolutionLemmas).  Here render_ok is
   discharged: it is report_ok, computed from render_sol.
   The exception of Run.v (exn) says only what run() distinguishes: KeyboardInterrupt or not, CliKitException or not.
   What the renderer reads of the raised exception is its exn_case x (class name, message, frames with their token
   streams) and the solutions sols the provider repository returns for it: they are inputs, universally quantified - the
   theorems hold whatever they are, under the stated conditions.  The report is rendered in simple mode exactly for
   library exceptions (simple = e_clikit e), on the error output o at the verbosity of c. *)
From Coq Require Import Lia.
From Clikit Require Import Base.Prelude Base.Res Model.Conv Model.Markup Model.OutputM Model.Trace Model.Run
  Proofs.MarkupLemmas Proofs.OutputLemmas Proofs.TraceLemmas Proofs.LiteralLemmas Proofs.TraceRenderLemmas
  Proofs.TraceSolutionLemmas Proofs.RunLemmas.

(* the renderer returned *)
Definition report_ok (c : tcfg) (o : outp) (x : exn_case) (sols : list solution) (simple : bool) : bool :=
  match render_sol c simple o x sols with Ok _ => true | Err _ => false end.

(* ------------------------------------------------------------------ 1. the renderer returns *)
(* o: an ordinary output with an ANSI or plain formatter whose style stack is empty and whose style table resolves
   "error" and "b"; tokenize did not fail where the full report needs it (nothing is asked in simple mode); when the
   output decorates, the texts hold no ESC *)
Lemma report_ok_true sty c o x sols simple :
  out_ok sty o -> resolvable sty st_error -> resolvable sty st_b ->
  (simple = false -> render_cond c x) ->
  (decorated o = true -> inputs_ne c x /\ Forall sol_ne sols) ->
  report_ok c o x sols simple = true.
Proof.
  intros Ho Herr Hb Hc Hne. unfold report_ok.
  destruct (render_sol_never_fails_inputs sty c simple o x sols Ho Herr Hb Hc Hne) as (bytes & HR). rewrite HR. reflexivity.
Qed.
(* the full report: the renderer returns ONLY IF tokenize succeeded where it is needed *)
Lemma report_ok_cond c o x sols : report_ok c o x sols false = true -> render_cond c x.
Proof.
  unfold report_ok. destruct (render_sol c false o x sols) as [bytes|e] eqn:E; [|discriminate]. intros _.
  apply (render_sol_ok_cond c o x sols bytes E).
Qed.
Lemma report_ok_full_iff sty c o x sols :
  out_ok sty o -> resolvable sty st_error -> resolvable sty st_b -> (decorated o = true -> inputs_ne c x /\ Forall sol_ne sols) ->
  (report_ok c o x sols false = true <-> render_cond c x).
Proof.
  intros Ho Herr Hb Hne. split; [apply report_ok_cond|]. intros Hc. apply (report_ok_true sty c o x sols false Ho Herr Hb (fun _ => Hc) Hne).
Qed.
(* the simple report (library exceptions): the renderer always returns *)
Lemma report_ok_simple sty c o x sols :
  out_ok sty o -> resolvable sty st_error -> resolvable sty st_b -> (decorated o = true -> no_esc (x_msg x)) ->
  report_ok c o x sols true = true.
Proof.
  intros Ho Herr Hb Hne. unfold report_ok.
  destruct (render_sol_never_fails sty c true o x sols Ho Herr Hb) as (bytes & HR); [discriminate| |rewrite HR; reflexivity].
  intros Hd ls HL. assert (ls = [(o_indent o, s_error_open ++ literal (x_msg x) st_error ++ s_error_close)]) as ->
    by (injection HL; intros; symmetry; assumption).
  constructor; [|constructor]. cbn [snd].
  apply ne_app; [ne_compute|]. apply ne_app; [apply ne_literal; [ne_compute|apply Hne, Hd]|ne_compute].
Qed.

(* ------------------------------------------------------------------ 2. what run does with an exception *)
(* whatever reaches run() as an exception - raised by the handler, by a pre-handle listener, or by int(status) *)
Lemma run_exn catch debug ok ls h e calls : handle debug ls h = (inr e, calls) ->
  run catch debug ok ls h
  = if e_keyboard e then {| r_end := Status 1; r_handler_calls := calls; r_reported := false; r_simple := false |}
    else if negb catch then {| r_end := Escaped e; r_handler_calls := calls; r_reported := false; r_simple := false |}
    else if negb ok then {| r_end := Escaped conversion_error; r_handler_calls := calls; r_reported := false; r_simple := e_clikit e |}
    else {| r_end := Status 1; r_handler_calls := calls; r_reported := true; r_simple := e_clikit e |}.
Proof. intros H. unfold run. rewrite H. reflexivity. Qed.
Lemma run_status_ok catch debug ok ls h s calls : handle debug ls h = (inl s, calls) ->
  run catch debug ok ls h = {| r_end := Status s; r_handler_calls := calls; r_reported := false; r_simple := false |}.
Proof. intros H. unfold run. rewrite H. reflexivity. Qed.

(* 2a. the main statement: every exception that reaches run() (not KeyboardInterrupt), catching on: the report is
   printed, the run ends with status 1, nothing escapes *)
Theorem run_exception_rendered sty c o x sols debug ls h e calls :
  handle debug ls h = (inr e, calls) -> e_keyboard e = false ->
  out_ok sty o -> resolvable sty st_error -> resolvable sty st_b ->
  (e_clikit e = false -> render_cond c x) ->
  (decorated o = true -> inputs_ne c x /\ Forall sol_ne sols) ->
  run true debug (report_ok c o x sols (e_clikit e)) ls h
  = {| r_end := Status 1; r_handler_calls := calls; r_reported := true; r_simple := e_clikit e |}.
Proof.
  intros Hh Hk Ho Herr Hb Hc Hne. rewrite (run_exn true debug _ ls h e calls Hh), Hk.
  rewrite (report_ok_true sty c o x sols (e_clikit e) Ho Herr Hb Hc Hne). reflexivity.
Qed.

(* 2b. the handler raises (exception_reported of C04, render_ok discharged) *)
Theorem raise_rendered sty c o x sols debug ls e :
  listeners_pass ls -> e_keyboard e = false ->
  out_ok sty o -> resolvable sty st_error -> resolvable sty st_b ->
  (e_clikit e = false -> render_cond c x) ->
  (decorated o = true -> inputs_ne c x /\ Forall sol_ne sols) ->
  run true debug (report_ok c o x sols (e_clikit e)) ls (Raise e)
  = {| r_end := Status 1; r_handler_calls := 1; r_reported := true; r_simple := e_clikit e |}.
Proof.
  intros Hl Hk. apply (run_exception_rendered sty c o x sols debug ls (Raise e) e 1); [|exact Hk].
  unfold listeners_pass in Hl. unfold handle, do_handle. rewrite Hl, Hk. reflexivity.
Qed.
(* library exceptions: the simple report; nothing is asked of tokenize *)
Corollary raise_clikit_rendered sty c o x sols debug ls e :
  listeners_pass ls -> e_keyboard e = false -> e_clikit e = true ->
  out_ok sty o -> resolvable sty st_error -> resolvable sty st_b ->
  (decorated o = true -> inputs_ne c x /\ Forall sol_ne sols) ->
  run true debug (report_ok c o x sols true) ls (Raise e)
  = {| r_end := Status 1; r_handler_calls := 1; r_reported := true; r_simple := true |}.
Proof.
  intros Hl Hk Hc Ho Herr Hb Hne. pose proof (raise_rendered sty c o x sols debug ls e Hl Hk Ho Herr Hb) as H. rewrite Hc in H.
  apply H; [discriminate|exact Hne].
Qed.
(* a result int() rejects (unconvertible_result_reported of C04): the TypeError / ValueError gets the full report *)
Theorem unconvertible_rendered sty c o x sols debug ls v :
  listeners_pass ls -> truthy v = true -> to_int v = None ->
  out_ok sty o -> resolvable sty st_error -> resolvable sty st_b ->
  render_cond c x -> (decorated o = true -> inputs_ne c x /\ Forall sol_ne sols) ->
  run true debug (report_ok c o x sols false) ls (Ret v)
  = {| r_end := Status 1; r_handler_calls := 1; r_reported := true; r_simple := false |}.
Proof.
  intros Hl Ht Hi Ho Herr Hb Hc Hne.
  apply (run_exception_rendered sty c o x sols debug ls (Ret v) conversion_error 1); try assumption; [|reflexivity|intros _; exact Hc].
  unfold listeners_pass in Hl. unfold handle, do_handle. rewrite Hl, Ht, Hi. reflexivity.
Qed.
(* a pre-handle listener fails: the handler is not invoked, the failure is reported all the same *)
Theorem listener_failure_rendered sty c o x sols debug ls h e :
  dispatch_pre ls None = inr e -> e_keyboard e = false ->
  out_ok sty o -> resolvable sty st_error -> resolvable sty st_b ->
  (e_clikit e = false -> render_cond c x) ->
  (decorated o = true -> inputs_ne c x /\ Forall sol_ne sols) ->
  run true debug (report_ok c o x sols (e_clikit e)) ls h
  = {| r_end := Status 1; r_handler_calls := 0; r_reported := true; r_simple := e_clikit e |}.
Proof.
  intros Hl Hk. apply (run_exception_rendered sty c o x sols debug ls h e 0); [|exact Hk].
  unfold handle, do_handle. rewrite Hl, Hk. reflexivity.
Qed.

(* 2c. run_status of C04 with render_ok discharged: for EVERY handler outcome, verbosity and listener list, in either
   report mode, a run with catching on returns an integer status in 0..255 - nothing escapes *)
Theorem run_status_rendered sty c o x sols simple debug ls h :
  out_ok sty o -> resolvable sty st_error -> resolvable sty st_b ->
  render_cond c x -> (decorated o = true -> inputs_ne c x /\ Forall sol_ne sols) ->
  exists s, r_end (run true debug (report_ok c o x sols simple) ls h) = Status s /\ (0 <= s <= 255)%Z.
Proof.
  intros Ho Herr Hb Hc Hne. rewrite (report_ok_true sty c o x sols simple Ho Herr Hb (fun _ => Hc) Hne). apply run_status_lemma.
Qed.
(* and a report is printed exactly when an exception other than KeyboardInterrupt reached run() *)
Theorem reported_iff_exception sty c o x sols simple debug ls h :
  out_ok sty o -> resolvable sty st_error -> resolvable sty st_b ->
  render_cond c x -> (decorated o = true -> inputs_ne c x /\ Forall sol_ne sols) ->
  (r_reported (run true debug (report_ok c o x sols simple) ls h) = true
   <-> exists e calls, handle debug ls h = (inr e, calls) /\ e_keyboard e = false).
Proof.
  intros Ho Herr Hb Hc Hne. rewrite (report_ok_true sty c o x sols simple Ho Herr Hb (fun _ => Hc) Hne).
  destruct (handle debug ls h) as [[s|e] calls] eqn:E.
  - rewrite (run_status_ok true debug true ls h s calls E). cbn [r_reported]. split; [discriminate|]. intros (e & n & H & _). discriminate.
  - rewrite (run_exn true debug true ls h e calls E). destruct (e_keyboard e) eqn:Ek; cbn [negb r_reported].
    + split; [discriminate|]. intros (e' & n & H & Hk). injection H as <- <-. congruence.
    + split; [|reflexivity]. intros _. exists e, calls. split; [reflexivity|exact Ek].
Qed.

(* ------------------------------------------------------------------ 3. the condition on tokenize cannot be dropped *)
(* the full report of an exception whose last frame's file tokenize rejects (or, with the stack trace printed, a listed
   frame's): the renderer raises in turn and THAT exception escapes run() - C04 fails there *)
Theorem run_escapes_when_tokenize_fails c o x sols debug ls h e calls :
  handle debug ls h = (inr e, calls) -> e_keyboard e = false -> e_clikit e = false -> ~ render_cond c x ->
  run true debug (report_ok c o x sols (e_clikit e)) ls h
  = {| r_end := Escaped conversion_error; r_handler_calls := calls; r_reported := false; r_simple := false |}.
Proof.
  intros Hh Hk Hc Hn. rewrite (run_exn true debug _ ls h e calls Hh), Hk, Hc.
  destruct (report_ok c o x sols false) eqn:E; [|reflexivity]. exfalso. apply Hn, (report_ok_cond c o x sols E).
Qed.

(* ------------------------------------------------------------------ 4. the hypotheses are satisfiable *)
Module RunTraceExamples.
Import RenderExamples SolutionExamples.
Definition ex_exn : exn := {| e_keyboard := false; e_clikit := false |}.
Definition ex_lib_exn : exn := {| e_keyboard := false; e_clikit := true |}.
(* the handler raises  B</error>("<b>x\")  from a.py; two solutions with nasty texts; plain output *)
Example ex_raise_rendered debug :
  run true debug (report_ok (demo_cfg true) (demo_out FPlain false 0) (demo_x [demo_frame; demo_frame]) [ex_s1; ex_s2] (e_clikit ex_exn)) [LPass] (Raise ex_exn)
  = {| r_end := Status 1; r_handler_calls := 1; r_reported := true; r_simple := false |}.
Proof.
  apply (raise_rendered demo_sty2); [reflexivity|reflexivity|apply demo_out_ok; discriminate|apply demo_error|apply demo_b|intros _; apply ex_cond|].
  intros H. vm_compute in H. discriminate.
Qed.
(* decorated output, at indentation 4 *)
Example ex_raise_rendered_ansi debug :
  run true debug (report_ok (demo_cfg true) (demo_out (FAnsi false) true 4) (demo_x [demo_frame; demo_frame]) [ex_s1; ex_s2] (e_clikit ex_exn)) [] (Raise ex_exn)
  = {| r_end := Status 1; r_handler_calls := 1; r_reported := true; r_simple := false |}.
Proof.
  apply (raise_rendered demo_sty2); [reflexivity|reflexivity|apply demo_out_ok; discriminate|apply demo_error|apply demo_b|intros _; apply ex_cond|].
  intros _. split; [apply ex_inputs_ne|apply ex_sols_ne].
Qed.
(* a library exception whose frames tokenize rejects: the simple report does not need them *)
Example ex_lib_rendered debug :
  run true debug (report_ok (demo_cfg false) (demo_out FPlain false 0) (demo_x [bad_frame]) [] true) [] (Raise ex_lib_exn)
  = {| r_end := Status 1; r_handler_calls := 1; r_reported := true; r_simple := true |}.
Proof.
  apply (raise_clikit_rendered demo_sty2 _ _ _ _ debug [] ex_lib_exn); [reflexivity|reflexivity|reflexivity|apply demo_out_ok; discriminate|apply demo_error|apply demo_b|].
  intros H. vm_compute in H. discriminate.
Qed.
(* the same frames under an ordinary exception: the renderer's own failure escapes *)
Example ex_escapes debug :
  run true debug (report_ok (demo_cfg false) (demo_out FPlain false 0) (demo_x [bad_frame]) [] (e_clikit ex_exn)) [] (Raise ex_exn)
  = {| r_end := Escaped conversion_error; r_handler_calls := 1; r_reported := false; r_simple := false |}.
Proof.
  apply (run_escapes_when_tokenize_fails _ _ _ _ debug [] (Raise ex_exn) ex_exn 1); [reflexivity|reflexivity|reflexivity|apply ex_cond_fails].
Qed.
Example ex_escapes_vm : run true false (report_ok (demo_cfg false) (demo_out FPlain false 0) (demo_x [bad_frame]) [] false) [] (Raise ex_exn)
  = {| r_end := Escaped conversion_error; r_handler_calls := 1; r_reported := false; r_simple := false |}.
Proof. vm_compute. reflexivity. Qed.
End RunTraceExamples.

Print Assumptions report_ok_true.
Print Assumptions report_ok_full_iff.
Print Assumptions run_exception_rendered.
Print Assumptions raise_rendered.
Print Assumptions unconvertible_rendered.
Print Assumptions listener_failure_rendered.
Print Assumptions run_status_rendered.
Print Assumptions reported_iff_exception.
Print Assumptions run_escapes_when_tokenize_fails.
