(* C04 composed with C20: Model/Run.v abstracts the error-report renderer of ConsoleApplication.run as the boolean
   render_ok ("the renderer returned").  The renderer is ExceptionTrace.render, modelled in Model/Trace.v and proved never
   to fail (TraceRenderLemmas, TraceSolutionLemmas: since fix caca46b it catches what reading / tokenizing a source raises,
   so its lines always exist, and writing them cannot fail).  Here render_ok is discharged: it is report_ok, computed from
   render_sol, and it is always true under the hypotheses on the output.
   The exception of Run.v (exn) says only what run() distinguishes: KeyboardInterrupt or not, CliKitException or not.
   What the renderer reads of the raised exception is its exn_case x (class name, message, frames with their token
   streams - or the fact that tokenize / reading the file raised) and the solutions sols the provider repository returns
   for it: they are inputs, universally quantified - the theorems hold whatever they are.  The report is rendered in
   simple mode exactly for library exceptions (simple = e_clikit e), on the output o it is written to (io.write_line: the STANDARD output of the io, not its error
   output) at the verbosity of c. *)
From Coq Require Import Lia.
From Clikit Require Import Base.Prelude Base.Res Model.Conv Model.Markup Model.OutputM Model.Trace Model.Run
  Proofs.MarkupLemmas Proofs.OutputLemmas Proofs.TraceLemmas Proofs.LiteralLemmas Proofs.TraceRenderLemmas
  Proofs.TraceSolutionLemmas Proofs.RunLemmas.

(* the renderer returned *)
Definition report_ok (c : tcfg) (o : outp) (x : exn_case) (sols : list solution) (simple : bool) : bool :=
  match render_sol c simple o x sols with Ok _ => true | Err _ => false end.

(* ------------------------------------------------------------------ 1. the renderer returns *)
(* o: an ordinary output with an ANSI or plain formatter whose style stack is empty and whose style table resolves
   "error" and "b"; when the output decorates, the texts hold no ESC.  Nothing is asked of the exception case: whatever
   tokenize did on the sources of its frames, in either report mode. *)
Lemma report_ok_true sty c o x sols simple :
  out_ok sty o -> resolvable sty st_error -> resolvable sty st_b ->
  (decorated o = true -> inputs_ne c x /\ Forall sol_ne sols) ->
  report_ok c o x sols simple = true.
Proof.
  intros Ho Herr Hb Hne. unfold report_ok.
  destruct (render_sol_never_fails_unconditionally sty c simple o x sols Ho Herr Hb Hne) as (bytes & HR). rewrite HR. reflexivity.
Qed.
(* an output that does not decorate: no hypothesis on the texts either *)
Lemma report_ok_plain sty c o x sols simple :
  out_ok sty o -> resolvable sty st_error -> resolvable sty st_b -> decorated o = false ->
  report_ok c o x sols simple = true.
Proof. intros Ho Herr Hb Hd. apply (report_ok_true sty c o x sols simple Ho Herr Hb). rewrite Hd. discriminate. Qed.
(* the simple report (library exceptions) reads the message only *)
Lemma report_ok_simple sty c o x sols :
  out_ok sty o -> resolvable sty st_error -> resolvable sty st_b -> (decorated o = true -> no_esc (x_msg x)) ->
  report_ok c o x sols true = true.
Proof.
  intros Ho Herr Hb Hne. unfold report_ok.
  destruct (render_sol_never_fails sty c true o x sols Ho Herr Hb) as (bytes & HR); [|rewrite HR; reflexivity].
  intros Hd ls HL. assert (ls = [(o_indent o, s_error_open ++ literal (x_msg x) st_error ++ s_error_close)]) as ->
    by (injection HL; intros; symmetry; assumption).
  constructor; [|constructor]. cbn [snd].
  apply ne_app; [ne_compute|]. apply ne_app; [apply ne_literal; [ne_compute|apply Hne, Hd]|ne_compute].
Qed.

(* ------------------------------------------------------------------ 2. what run does with an exception *)
(* whatever reaches run() as an exception - raised by the handler, by a pre-handle listener, or by int(status) *)
Lemma run_exn catch debug ok ls h e calls : handle debug ls h = (inr e, calls) ->
  run catch debug ok ls h
  = if e_keyboard e then {| r_end := Status 1; r_handler_calls := calls; r_reported := false; r_simple := false |}
    else if negb catch then {| r_end := Escaped e; r_handler_calls := calls; r_reported := false; r_simple := false |}
    else if negb ok then {| r_end := Escaped conversion_error; r_handler_calls := calls; r_reported := false; r_simple := e_clikit e |}
    else {| r_end := Status 1; r_handler_calls := calls; r_reported := true; r_simple := e_clikit e |}.
Proof. intros H. unfold run. rewrite H. reflexivity. Qed.
Lemma run_status_ok catch debug ok ls h s calls : handle debug ls h = (inl s, calls) ->
  run catch debug ok ls h = {| r_end := Status s; r_handler_calls := calls; r_reported := false; r_simple := false |}.
Proof. intros H. unfold run. rewrite H. reflexivity. Qed.

(* 2a. the main statement: EVERY exception that reaches run() (not KeyboardInterrupt), catching on - whatever the
   exception case (its frames, what tokenize did on their sources) and the solutions: the report is printed, the run ends
   with status 1, nothing escapes.  Hypotheses: the output the report goes to (out_ok, "error" and "b" resolve) and, when it
   decorates, ESC-free texts. *)
Theorem run_exception_rendered sty c o x sols debug ls h e calls :
  handle debug ls h = (inr e, calls) -> e_keyboard e = false ->
  out_ok sty o -> resolvable sty st_error -> resolvable sty st_b ->
  (decorated o = true -> inputs_ne c x /\ Forall sol_ne sols) ->
  run true debug (report_ok c o x sols (e_clikit e)) ls h
  = {| r_end := Status 1; r_handler_calls := calls; r_reported := true; r_simple := e_clikit e |}.
Proof.
  intros Hh Hk Ho Herr Hb Hne. rewrite (run_exn true debug _ ls h e calls Hh), Hk.
  rewrite (report_ok_true sty c o x sols (e_clikit e) Ho Herr Hb Hne). reflexivity.
Qed.

(* 2b. the handler raises (exception_reported of C04, render_ok discharged) *)
Theorem raise_rendered sty c o x sols debug ls e :
  listeners_pass ls -> e_keyboard e = false ->
  out_ok sty o -> resolvable sty st_error -> resolvable sty st_b ->
  (decorated o = true -> inputs_ne c x /\ Forall sol_ne sols) ->
  run true debug (report_ok c o x sols (e_clikit e)) ls (Raise e)
  = {| r_end := Status 1; r_handler_calls := 1; r_reported := true; r_simple := e_clikit e |}.
Proof.
  intros Hl Hk. apply (run_exception_rendered sty c o x sols debug ls (Raise e) e 1); [|exact Hk].
  unfold listeners_pass in Hl. unfold handle, do_handle. rewrite Hl, Hk. reflexivity.
Qed.
(* library exceptions: the simple report *)
Corollary raise_clikit_rendered sty c o x sols debug ls e :
  listeners_pass ls -> e_keyboard e = false -> e_clikit e = true ->
  out_ok sty o -> resolvable sty st_error -> resolvable sty st_b ->
  (decorated o = true -> inputs_ne c x /\ Forall sol_ne sols) ->
  run true debug (report_ok c o x sols true) ls (Raise e)
  = {| r_end := Status 1; r_handler_calls := 1; r_reported := true; r_simple := true |}.
Proof.
  intros Hl Hk Hc Ho Herr Hb Hne. pose proof (raise_rendered sty c o x sols debug ls e Hl Hk Ho Herr Hb) as H. rewrite Hc in H.
  apply H. exact Hne.
Qed.
(* a result int() rejects (unconvertible_result_reported of C04): the TypeError / ValueError gets the full report *)
Theorem unconvertible_rendered sty c o x sols debug ls v :
  listeners_pass ls -> truthy v = true -> to_int v = None ->
  out_ok sty o -> resolvable sty st_error -> resolvable sty st_b ->
  (decorated o = true -> inputs_ne c x /\ Forall sol_ne sols) ->
  run true debug (report_ok c o x sols false) ls (Ret v)
  = {| r_end := Status 1; r_handler_calls := 1; r_reported := true; r_simple := false |}.
Proof.
  intros Hl Ht Hi Ho Herr Hb Hne.
  apply (run_exception_rendered sty c o x sols debug ls (Ret v) conversion_error 1); try assumption; [|reflexivity].
  unfold listeners_pass in Hl. unfold handle, do_handle. rewrite Hl, Ht, Hi. reflexivity.
Qed.
(* a pre-handle listener fails: the handler is not invoked, the failure is reported all the same *)
Theorem listener_failure_rendered sty c o x sols debug ls h e :
  dispatch_pre ls None = inr e -> e_keyboard e = false ->
  out_ok sty o -> resolvable sty st_error -> resolvable sty st_b ->
  (decorated o = true -> inputs_ne c x /\ Forall sol_ne sols) ->
  run true debug (report_ok c o x sols (e_clikit e)) ls h
  = {| r_end := Status 1; r_handler_calls := 0; r_reported := true; r_simple := e_clikit e |}.
Proof.
  intros Hl Hk. apply (run_exception_rendered sty c o x sols debug ls h e 0); [|exact Hk].
  unfold handle, do_handle. rewrite Hl, Hk. reflexivity.
Qed.

(* 2c. run_status of C04 with render_ok discharged: for EVERY handler outcome, verbosity and listener list, in either
   report mode, a run with catching on returns an integer status in 0..255 - nothing escapes *)
Theorem run_status_rendered sty c o x sols simple debug ls h :
  out_ok sty o -> resolvable sty st_error -> resolvable sty st_b ->
  (decorated o = true -> inputs_ne c x /\ Forall sol_ne sols) ->
  exists s, r_end (run true debug (report_ok c o x sols simple) ls h) = Status s /\ (0 <= s <= 255)%Z.
Proof.
  intros Ho Herr Hb Hne. rewrite (report_ok_true sty c o x sols simple Ho Herr Hb Hne). apply run_status_lemma.
Qed.
(* and a report is printed exactly when an exception other than KeyboardInterrupt reached run() *)
Theorem reported_iff_exception sty c o x sols simple debug ls h :
  out_ok sty o -> resolvable sty st_error -> resolvable sty st_b ->
  (decorated o = true -> inputs_ne c x /\ Forall sol_ne sols) ->
  (r_reported (run true debug (report_ok c o x sols simple) ls h) = true
   <-> exists e calls, handle debug ls h = (inr e, calls) /\ e_keyboard e = false).
Proof.
  intros Ho Herr Hb Hne. rewrite (report_ok_true sty c o x sols simple Ho Herr Hb Hne).
  destruct (handle debug ls h) as [[s|e] calls] eqn:E.
  - rewrite (run_status_ok true debug true ls h s calls E). cbn [r_reported]. split; [discriminate|]. intros (e & n & H & _). discriminate.
  - rewrite (run_exn true debug true ls h e calls E). destruct (e_keyboard e) eqn:Ek; cbn [negb r_reported].
    + split; [discriminate|]. intros (e' & n & H & Hk). injection H as <- <-. congruence.
    + split; [|reflexivity]. intros _. exists e, calls. split; [reflexivity|exact Ek].
Qed.

(* ------------------------------------------------------------------ 3. the renderer's own failure is unreachable *)
(* Before fix caca46b the full report of an exception whose last frame's file tokenize rejected made the renderer raise
   in turn, and THAT exception escaped run() (the earlier theorem run_escapes_when_tokenize_fails).  Now the renderer's
   result is true for every exception case, report mode and solutions ... *)
Theorem renderer_always_returns sty c o :
  out_ok sty o -> resolvable sty st_error -> resolvable sty st_b ->
  forall x sols simple, (decorated o = true -> inputs_ne c x /\ Forall sol_ne sols) -> report_ok c o x sols simple = true.
Proof. intros Ho Herr Hb x sols simple Hne. apply (report_ok_true sty c o x sols simple Ho Herr Hb Hne). Qed.
(* ... so the branch of run() in which the renderer's exception escapes is never taken: with catching on nothing escapes,
   whatever the handler, the listeners, the exception case and the solutions *)
Theorem run_never_escapes sty c o x sols simple debug ls h :
  out_ok sty o -> resolvable sty st_error -> resolvable sty st_b ->
  (decorated o = true -> inputs_ne c x /\ Forall sol_ne sols) ->
  forall e, r_end (run true debug (report_ok c o x sols simple) ls h) <> Escaped e.
Proof.
  intros Ho Herr Hb Hne e. destruct (run_status_rendered sty c o x sols simple debug ls h Ho Herr Hb Hne) as (st & E & _).
  rewrite E. discriminate.
Qed.
(* the unreadable source in particular: an ordinary exception whose frames' files cannot be read or tokenized is
   reported like any other *)
Theorem run_reports_unreadable_source sty c o x sols debug ls h e calls :
  handle debug ls h = (inr e, calls) -> e_keyboard e = false -> e_clikit e = false ->
  Forall (fun f => ~ tok_ok (f_content f) /\ ~ tok_ok (f_linetoks f)) (x_frames x) ->
  out_ok sty o -> resolvable sty st_error -> resolvable sty st_b ->
  (decorated o = true -> inputs_ne c x /\ Forall sol_ne sols) ->
  run true debug (report_ok c o x sols (e_clikit e)) ls h
  = {| r_end := Status 1; r_handler_calls := calls; r_reported := true; r_simple := false |}.
Proof.
  intros Hh Hk Hc _ Ho Herr Hb Hne. rewrite (run_exception_rendered sty c o x sols debug ls h e calls Hh Hk Ho Herr Hb Hne), Hc. reflexivity.
Qed.

(* ------------------------------------------------------------------ 4. the hypotheses are satisfiable *)
Module RunTraceExamples.
Import RenderExamples SolutionExamples.
Definition ex_exn : exn := {| e_keyboard := false; e_clikit := false |}.
Definition ex_lib_exn : exn := {| e_keyboard := false; e_clikit := true |}.
(* the handler raises  B</error>("<b>x\")  from a.py; two solutions with nasty texts; plain output *)
Example ex_raise_rendered debug :
  run true debug (report_ok (demo_cfg true) (demo_out FPlain false 0) (demo_x [demo_frame; demo_frame]) [ex_s1; ex_s2] (e_clikit ex_exn)) [LPass] (Raise ex_exn)
  = {| r_end := Status 1; r_handler_calls := 1; r_reported := true; r_simple := false |}.
Proof.
  apply (raise_rendered demo_sty2); [reflexivity|reflexivity|apply demo_out_ok; discriminate|apply demo_error|apply demo_b|].
  intros H. vm_compute in H. discriminate.
Qed.
(* decorated output, at indentation 4 *)
Example ex_raise_rendered_ansi debug :
  run true debug (report_ok (demo_cfg true) (demo_out (FAnsi false) true 4) (demo_x [demo_frame; demo_frame]) [ex_s1; ex_s2] (e_clikit ex_exn)) [] (Raise ex_exn)
  = {| r_end := Status 1; r_handler_calls := 1; r_reported := true; r_simple := false |}.
Proof.
  apply (raise_rendered demo_sty2); [reflexivity|reflexivity|apply demo_out_ok; discriminate|apply demo_error|apply demo_b|].
  intros _. split; [apply ex_inputs_ne|apply ex_sols_ne].
Qed.
(* a library exception whose frames tokenize rejects: the simple report does not need them *)
Example ex_lib_rendered debug :
  run true debug (report_ok (demo_cfg false) (demo_out FPlain false 0) (demo_x [bad_frame]) [] true) [] (Raise ex_lib_exn)
  = {| r_end := Status 1; r_handler_calls := 1; r_reported := true; r_simple := true |}.
Proof.
  apply (raise_clikit_rendered demo_sty2 _ _ _ _ debug [] ex_lib_exn); [reflexivity|reflexivity|reflexivity|apply demo_out_ok; discriminate|apply demo_error|apply demo_b|].
  intros H. vm_compute in H. discriminate.
Qed.
(* the same frames under an ordinary exception (it used to escape): reported, status 1 - through the theorem ... *)
Example ex_unreadable_rendered debug :
  run true debug (report_ok (demo_cfg false) (demo_out FPlain false 0) (demo_x [bad_frame; bad_frame2]) [ex_s1] (e_clikit ex_exn)) [] (Raise ex_exn)
  = {| r_end := Status 1; r_handler_calls := 1; r_reported := true; r_simple := false |}.
Proof.
  apply (run_reports_unreadable_source demo_sty2 _ _ _ _ debug [] (Raise ex_exn) ex_exn 1);
    [reflexivity|reflexivity|reflexivity| |apply demo_out_ok; discriminate|apply demo_error|apply demo_b|].
  - repeat constructor; intros (toks & H); discriminate.
  - intros H. vm_compute in H. discriminate.
Qed.
(* ... and by computation, TokenError and the other exceptions, at every verbosity *)
Example ex_unreadable_rendered_vm :
  run true false (report_ok (demo_cfg false) (demo_out FPlain false 0) (demo_x [bad_frame]) [] false) [] (Raise ex_exn)
  = {| r_end := Status 1; r_handler_calls := 1; r_reported := true; r_simple := false |}
  /\ run true false (report_ok (demo_cfg true) (demo_out FPlain false 0) (demo_x [bad_frame2; bad_frame]) [] false) [] (Raise ex_exn)
  = {| r_end := Status 1; r_handler_calls := 1; r_reported := true; r_simple := false |}
  /\ run true true (report_ok demo_cfg_debug (demo_out (FAnsi false) true 0) (demo_x [bad_frame2; bad_frame]) [ex_s1] false) [] (Raise ex_exn)
  = {| r_end := Status 1; r_handler_calls := 1; r_reported := true; r_simple := false |}.
Proof. vm_compute. repeat split; reflexivity. Qed.
End RunTraceExamples.

Print Assumptions report_ok_true.
Print Assumptions report_ok_plain.
Print Assumptions run_exception_rendered.
Print Assumptions raise_rendered.
Print Assumptions unconvertible_rendered.
Print Assumptions listener_failure_rendered.
Print Assumptions run_status_rendered.
Print Assumptions reported_iff_exception.
Print Assumptions renderer_always_returns.
Print Assumptions run_never_escapes.
Print Assumptions run_reports_unreadable_source.
