(* Proofs about the table model (C14): the short / long column split leaves one character for every long column,
   the distribution hands textwrap only positive widths, the fitted columns sum to at most the available width,
   every line of every cell fits its column, and the drawn lines form a rectangle. *)
From Coq Require Import Lia ZifyBool.
From Clikit Require Import Base.Prelude Base.Res Model.Markup Model.Wrap Model.Table.
Local Open Scope Z_scope.

(* ---------------------------------------------------------------- lists *)
Lemma set_nth_length {X} k (x : X) l : length (set_nth k x l) = length l.
Proof. revert k; induction l as [|y l IH]; intros [|k]; cbn; auto. Qed.
Lemma nth_set_nth_same {X} k (x d : X) l : (k < length l)%nat -> nth k (set_nth k x l) d = x.
Proof. revert k; induction l as [|y l IH]; intros [|k] H; cbn in *; try lia; auto. apply IH; lia. Qed.
Lemma nth_set_nth_other {X} k j (x d : X) l : k <> j -> nth j (set_nth k x l) d = nth j l d.
Proof. revert k j; induction l as [|y l IH]; intros [|k] [|j] H; cbn; auto; try congruence. Qed.
Lemma zsum_cons x l : zsum (x :: l) = x + zsum l. Proof. reflexivity. Qed.
Lemma zsum_app a b : zsum (a ++ b) = zsum a + zsum b.
Proof. induction a as [|x a IH]; [reflexivity|]. rewrite <- app_comm_cons, !zsum_cons. lia. Qed.
Lemma zsum_set_nth k x l : (k < length l)%nat -> zsum (set_nth k x l) = zsum l - nth k l 0 + x.
Proof. revert k; induction l as [|y l IH]; intros [|k] H; cbn [set_nth nth length] in *; try lia.
  - rewrite !zsum_cons. lia.
  - rewrite !zsum_cons. specialize (IH k ltac:(lia)). lia. Qed.
Lemma zmax_list_cons x l : zmax_list (x :: l) = Z.max x (zmax_list l). Proof. reflexivity. Qed.
Lemma zmax_list_nonneg l : 0 <= zmax_list l.
Proof. induction l as [|x l IH]; [cbv; congruence|]. rewrite zmax_list_cons. lia. Qed.
Lemma zmax_list_ge l x : In x l -> x <= zmax_list l.
Proof. induction l as [|y l IH]; [intros []|]. rewrite zmax_list_cons. intros [-> | H]; [lia|]. specialize (IH H). lia. Qed.
Lemma zmax_list_le l w : 0 <= w -> Forall (fun x => x <= w) l -> zmax_list l <= w.
Proof. intros Hw H; induction H as [|x l Hx _ IH]; [exact Hw|]. rewrite zmax_list_cons. lia. Qed.

Lemma zlen_app a b : zlen (a ++ b) = zlen a + zlen b.
Proof. unfold zlen. rewrite app_length. lia. Qed.
Lemma zlen_nonneg a : 0 <= zlen a. Proof. unfold zlen; lia. Qed.

(* every piece of a split is at most as long as the text *)
Lemma split_pieces_le sep s : Forall (fun p => zlen p <= zlen s) (split_on sep s).
Proof.
  induction s as [|c s IH]; cbn [split_on].
  - constructor; [unfold zlen; cbn; lia|constructor].
  - destruct (N.eqb c sep).
    + constructor; [unfold zlen; cbn; lia|]. eapply Forall_impl; [|exact IH]. intros p Hp. unfold zlen in *; cbn; lia.
    + destruct (split_on sep s) as [|l ls] eqn:E.
      * constructor; [unfold zlen; cbn; lia|constructor].
      * inversion IH as [|? ? Hl Hls]; subst. constructor.
        -- unfold zlen in *; cbn; lia.
        -- eapply Forall_impl; [|exact Hls]. intros p Hp. unfold zlen in *; cbn; lia.
Qed.
Lemma split_on_nonnil sep s : split_on sep s <> [].
Proof. destruct s as [|c s]; cbn; [congruence|]. destruct (N.eqb c sep); [congruence|]. destruct (split_on sep s); congruence. Qed.
Lemma split_app_sep sep a b : split_on sep (a ++ sep :: b) = split_on sep a ++ split_on sep b.
Proof.
  induction a as [|c a IH]; cbn [app split_on].
  - rewrite N.eqb_refl. reflexivity.
  - destruct (N.eqb c sep); [rewrite IH; reflexivity|]. rewrite IH.
    destruct (split_on sep a) as [|l ls] eqn:E; [exfalso; eapply split_on_nonnil; eauto|]. reflexivity.
Qed.
Lemma split_join_le sep w ls : 0 <= w -> Forall (fun l => zlen l <= w) ls -> Forall (fun p => zlen p <= w) (split_on sep (join_with sep ls)).
Proof.
  intros Hw H; induction H as [|l ls Hl Hls IH]; cbn [join_with].
  - cbn. constructor; [unfold zlen; cbn; lia|constructor].
  - destruct ls as [|l2 ls].
    + eapply Forall_impl; [|apply split_pieces_le]. cbn; intros; lia.
    + change (l ++ sep :: join_with sep (l2 :: ls)) with (l ++ sep :: join_with sep (l2 :: ls)).
      rewrite split_app_sep. apply Forall_app; split; [|exact IH].
      eapply Forall_impl; [|apply split_pieces_le]. cbn; intros; lia.
Qed.

(* ---------------------------------------------------------------- the short / long split *)
Lemma count_some_cons o l : count_some (o :: l) = (match o with Some _ => 1 | None => 0 end) + count_some l.
Proof. reflexivity. Qed.
Lemma count_some_nonneg l : 0 <= count_some l.
Proof. induction l as [|[x|] l IH]; [cbv; congruence| |]; rewrite count_some_cons; lia. Qed.
Lemma sum_some_cons o l : sum_some (o :: l) = (match o with Some x => x | None => 0 end) + sum_some l.
Proof. reflexivity. Qed.
Lemma count_S x l : count_some (Some x :: l) = 1 + count_some l. Proof. reflexivity. Qed.
Lemma count_N l : count_some (None :: l) = count_some l. Proof. reflexivity. Qed.
Lemma sum_S x l : sum_some (Some x :: l) = x + sum_some l. Proof. reflexivity. Qed.
Lemma sum_N l : sum_some (None :: l) = sum_some l. Proof. reflexivity. Qed.
Ltac csimp := rewrite ?count_S, ?count_N, ?sum_S, ?sum_N in *.

Definition long_nonneg (l : list (option Z)) : Prop := Forall (fun o => match o with Some x => 0 <= x | None => True end) l.
(* entries of l' are entries of l at the same index (or None) *)
Definition refines (l' l : list (option Z)) : Prop := Forall2 (fun o' o => o' = None \/ o' = o) l' l.
Lemma refines_refl l : refines l l. Proof. induction l; constructor; auto. Qed.
Lemma refines_trans a b c : refines a b -> refines b c -> refines a c.
Proof. intros H; revert c; induction H as [|x y a b Hxy _ IH]; intros c Hc; inversion Hc as [|y' z b' c' Hyz Hbc]; subst; constructor; [|apply IH; exact Hbc].
  destruct Hxy as [-> | ->]; [left; reflexivity|exact Hyz]. Qed.
Lemma refines_nonneg l' l : refines l' l -> long_nonneg l -> long_nonneg l'.
Proof. intros H; induction H as [|x y a b Hxy _ IH]; intros Hn; inversion Hn as [|? ? Hy Hb]; subst; constructor; [|apply IH; exact Hb].
  destruct Hxy as [-> | ->]; [exact I|exact Hy]. Qed.

Section ShortLoop.
  Variables (n A0 : Z).
  Hypothesis Hn : 0 < n.
  Hypothesis HA0 : 0 <= A0.

  (* one sweep *)
  Lemma short_pass_spec avp : avp <= A0 -> forall long av k, long_nonneg long -> 0 <= k ->
    av * n >= A0 * (k + count_some long) ->
    let '(av', long', ch) := short_pass n avp long av in
    refines long' long /\ av' = av - (sum_some long - sum_some long') /\ av' <= av /\
    av' * n >= A0 * (k + count_some long') /\
    (ch = false -> long' = long /\ Forall (fun o => match o with Some x => avp < x * n | None => True end) long) /\
    (ch = true -> count_some long' < count_some long).
  Proof.
    intros Hap. induction long as [|[len|] r IH]; intros av k Hnn Hk HJ; cbn [short_pass].
    - repeat split; try lia; auto; try constructor; congruence.
    - inversion Hnn as [|? ? Hlen Hr]; subst. csimp.
      destruct (Z.leb_spec (len * n) avp) as [E|E].
      + assert (HJ' : (av - len) * n >= A0 * (k + count_some r)) by nia.
        specialize (IH (av - len) k Hr Hk HJ').
        destruct (short_pass n avp r (av - len)) as [[av' r'] ch]. destruct IH as (R & Ea & Hle & J & _ & Hc).
        csimp. repeat split; try lia; try congruence.
        * constructor; auto.
        * intros _. assert (count_some r' <= count_some r); [|lia].
          clear -R. induction R as [|x y a b [-> | ->] _ IH']; csimp; try lia. all: destruct y; csimp; lia.
      + assert (HJ' : av * n >= A0 * ((k + 1) + count_some r)) by nia.
        specialize (IH av (k + 1) Hr ltac:(lia) HJ').
        destruct (short_pass n avp r av) as [[av' r'] ch]. destruct IH as (R & Ea & Hle & J & Hf & Hc).
        csimp. repeat split; try lia.
        all: try (constructor; auto; fail).
        all: try (destruct (Hf H) as [-> _]; reflexivity).
        all: try (destruct (Hf H) as [_ F]; constructor; [lia|exact F]).
    - inversion Hnn as [|? ? _ Hr]; subst. csimp.
      specialize (IH av k Hr Hk HJ).
      destruct (short_pass n avp r av) as [[av' r'] ch]. destruct IH as (R & Ea & Hle & J & Hf & Hc).
      csimp. repeat split; try lia.
      all: try (constructor; auto; fail).
      all: try (destruct (Hf H) as [-> _]; reflexivity).
      all: try (destruct (Hf H) as [_ F]; constructor; [exact I|exact F]).
      all: try (specialize (Hc H); lia).
  Qed.

  (* the loop: enough fuel, and what holds of its result *)
  Lemma short_loop_spec : forall fuel long av, long_nonneg long -> av <= A0 -> av * n >= A0 * count_some long ->
    (Z.to_nat (count_some long) < fuel)%nat ->
    exists av' long', short_loop fuel n long av = Some (av', long') /\
      refines long' long /\ av' = av - (sum_some long - sum_some long') /\
      av' * n >= A0 * count_some long' /\
      Forall (fun o => match o with Some x => av' < x * n | None => True end) long'.
  Proof.
    induction fuel as [|f IH]; intros long av Hnn Hav HJ Hf; [lia|]. cbn [short_loop].
    pose proof (short_pass_spec av Hav long av 0 Hnn ltac:(lia) ltac:(lia)) as P.
    destruct (short_pass n av long av) as [[av1 long1] ch]. destruct P as (R & Ea & Hle & J & Hfalse & Htrue).
    destruct ch.
    - specialize (Htrue eq_refl). pose proof (count_some_nonneg long1).
      destruct (IH long1 av1 (refines_nonneg _ _ R Hnn) ltac:(lia) J ltac:(lia)) as (av2 & long2 & E & R2 & Ea2 & J2 & F2).
      exists av2, long2. repeat split; auto; try lia; try (eapply refines_trans; eauto).
    - destruct (Hfalse eq_refl) as [-> F]. assert (av1 = av) as -> by lia.
      exists av, long. repeat split; auto; try lia; try apply refines_refl.
  Qed.
End ShortLoop.

(* ---------------------------------------------------------------- cells, rows, columns *)
Definition cell_ok (w : Z) (cell : str) : Prop := Forall (fun p => zlen p <= w) (split_on 10%N cell).
Definition row_ok (row : list str) (ln : list Z) : Prop := Forall2 (fun cell l => cell_ok l cell) row ln.
Definition lens_le (cols ln : list Z) : Prop := Forall2 Z.le ln cols.
Record INV (n : nat) (st : fitst) : Prop := {
  inv_rows : Forall2 row_ok (f_rows st) (f_lens st);
  inv_cols : Forall (lens_le (f_cols st)) (f_lens st);
  inv_len : length (f_cols st) = n;
  inv_nonneg : Forall (fun c => 0 <= c) (f_cols st) }.

Lemma cell_ok_mono w w' c : w <= w' -> cell_ok w c -> cell_ok w' c.
Proof. intros H. apply Forall_impl. intros; lia. Qed.
Lemma cell_ok_len c : cell_ok (zlen c) c. Proof. apply split_pieces_le. Qed.
Lemma cell_ok_max c : cell_ok (max_line_len c) c.
Proof. unfold cell_ok, max_line_len. apply Forall_forall. intros p Hp. apply zmax_list_ge. apply in_map. exact Hp. Qed.

Lemma Forall2_set_nth {X Y} (P : X -> Y -> Prop) k x y a b : Forall2 P a b -> P x y -> Forall2 P (set_nth k x a) (set_nth k y b).
Proof. intros H Hxy; revert k; induction H as [|u v a b Huv Hab IH]; intros [|k]; cbn; constructor; auto. Qed.
Lemma Forall_set_nth {X} (P : X -> Prop) k x a : Forall P a -> P x -> Forall P (set_nth k x a).
Proof. intros H Hx; revert k; induction H as [|u a Hu Ha IH]; intros [|k]; cbn; constructor; auto. Qed.
Lemma Forall2_length {X Y} (P : X -> Y -> Prop) a b : Forall2 P a b -> length a = length b.
Proof. induction 1; cbn; congruence. Qed.

Section Fit.
  Variable g : str -> bool.
  Hypothesis wrap_fits : forall t w ls, wrap t w = Ok ls -> Forall (fun l => zlen l <= w) ls.
  Hypothesis wrap_ok : forall t w, 1 <= w -> exists ls, wrap t w = Ok ls.

  Lemma wrap_cell_spec w cu cell len c' l' wrapped cu' :
    wrap_cell g w cu cell len = Ok (c', l', wrapped, cu') -> cell_ok len cell ->
    cell_ok l' c' /\ 0 <= l' + Z.max 0 (- len) /\ (0 <= w -> l' <= w).
  Proof.
    unfold wrap_cell. intros H Hc. destruct (Z.ltb_spec w len) as [E|E].
    - destruct (g cell); [discriminate|]. destruct (wrap cell w) as [ls|k] eqn:W; cbn [bind] in H; [|discriminate]. injection H as <- <- <- <-.
      split; [apply cell_ok_max|]. split; [pose proof (zmax_list_nonneg (map zlen (split_on 10%N (join_with 10%N ls)))); unfold max_line_len; lia|].
      intros Hw. unfold max_line_len. apply zmax_list_le; [exact Hw|]. apply Forall_forall. intros x Hx. apply in_map_iff in Hx as (p & <- & Hp).
      pose proof (split_join_le 10%N w ls Hw (wrap_fits _ _ _ W)) as F. rewrite Forall_forall in F. apply F, Hp.
    - injection H as <- <- <- <-. split; [exact Hc|]. split; lia.
  Qed.
  Lemma wrap_cell_ok w cu cell len : 1 <= w -> exists r, wrap_cell (fun _ => false) w cu cell len = Ok r.
  Proof. intros Hw. unfold wrap_cell. destruct (w <? len); [|eauto]. destruct (wrap_ok cell w Hw) as [ls ->]. cbn [bind]. eauto. Qed.

  Lemma wrap_col_spec col w : forall rows lens wr cu rs ls wr' cu',
    wrap_col g col w rows lens wr cu = Ok (rs, ls, wr', cu') -> Forall2 row_ok rows lens ->
    Forall2 row_ok rs ls /\ Forall2 (fun ln' ln => exists l', ln' = set_nth col l' ln /\ (0 <= w -> l' <= w)) ls lens.
  Proof.
    induction rows as [|row rows IH]; intros lens wr cu rs ls wr' cu' H HR.
    - inversion HR; subst. cbn in H. injection H as <- <- <- <-. split; constructor.
    - inversion HR as [|? ln ? lens' Hrow Hrest]; subst. cbn [wrap_col] in H.
      destruct (wrap_cell g w cu (nth col row []) (nth col ln 0)) as [[[[c' l'] wrapped] cu1]|k] eqn:WC; cbn [bind] in H; [|discriminate].
      destruct (wrap_col g col w rows lens' (wr || wrapped) cu1) as [[[[rs1 ls1] wr1] cu2]|k] eqn:WR; cbn [bind] in H; [|discriminate].
      injection H as <- <- <- <-.
      destruct (IH _ _ _ _ _ _ _ WR Hrest) as [A1 A2].
      assert (Hc : cell_ok (nth col ln 0) (nth col row [])).
      { clear -Hrow. assert (N0 : cell_ok 0 []) by (constructor; [unfold zlen; cbn; lia|constructor]).
        revert col. induction Hrow as [|c l r ls Hcl _ IH']; intros [|col]; cbn [nth]; auto. }
      destruct (wrap_cell_spec _ _ _ _ _ _ _ _ WC Hc) as (B1 & _ & B2).
      split; constructor; auto.
      + apply Forall2_set_nth; assumption.
      + exists l'. split; [reflexivity|exact B2].
  Qed.
  Lemma wrap_col_ok col w : 1 <= w -> forall rows lens wr cu, exists r, wrap_col (fun _ => false) col w rows lens wr cu = Ok r.
  Proof.
    intros Hw. induction rows as [|row rows IH]; intros lens wr cu; [cbn; eauto|]. destruct lens as [|ln lens]; [cbn; eauto|]. cbn [wrap_col].
    destruct (wrap_cell_ok w cu (nth col row []) (nth col ln 0) Hw) as [[[[c' l'] wrapped] cu1] ->]. cbn [bind].
    destruct (IH lens (wr || wrapped) cu1) as [[[[rs1 ls1] wr1] cu2] ->]. cbn [bind]. eauto.
  Qed.

  Lemma col_max_nonneg col ls : 0 <= col_max col ls. Proof. apply zmax_list_nonneg. Qed.

  Lemma fit_column_spec n col w st st' : INV n st -> (col < n)%nat -> fit_column g col w st = Ok st' ->
    INV n st' /\ exists m, f_cols st' = set_nth col m (f_cols st) /\ 0 <= m /\ (0 <= w -> m <= w).
  Proof.
    intros [I1 I2 I3 I4] Hcol H. unfold fit_column in H.
    destruct (wrap_col g col w (f_rows st) (f_lens st) (f_wraps st) (f_cuts st)) as [[[[rs ls] wr] cu]|k] eqn:WR; cbn [bind] in H; [|discriminate].
    injection H as <-. cbn [f_rows f_lens f_cols].
    destruct (wrap_col_spec _ _ _ _ _ _ _ _ _ _ WR I1) as [A1 A2].
    split.
    - constructor; cbn [f_rows f_lens f_cols].
      + exact A1.
      + (* every new length row is below the new columns *)
        assert (Hall : forall ln', In ln' ls -> nth col ln' 0 <= col_max col ls)
          by (intros ln' Hin; apply zmax_list_ge; apply in_map_iff; eauto).
        generalize dependent (col_max col ls). intros m Hall.
        apply Forall_forall. intros ln' Hin. specialize (Hall ln' Hin).
        clear -A2 I2 Hin Hall Hcol I3.
        revert I2. induction A2 as [|a b la lb (l' & -> & _) _ IH]; intros I2; [destruct Hin|].
        inversion I2 as [|? ? Hb Hlb]; subst. destruct Hin as [<- | Hin]; [|auto].
        assert (length b = length (f_cols st)) by (apply (Forall2_length _ _ _ Hb)).
        rewrite nth_set_nth_same in Hall by lia. apply Forall2_set_nth; assumption.
      + rewrite set_nth_length. exact I3.
      + apply Forall_set_nth; [exact I4|apply col_max_nonneg].
    - exists (col_max col ls). split; [reflexivity|]. split; [apply col_max_nonneg|].
      intros Hw. apply zmax_list_le; [exact Hw|]. apply Forall_forall. intros x Hx. apply in_map_iff in Hx as (ln' & <- & Hin).
      clear -A2 I2 Hin Hw Hcol I3. revert I2. induction A2 as [|a b la lb (l' & -> & Hl) _ IH]; intros I2; [destruct Hin|].
      inversion I2 as [|? ? Hb Hlb]; subst. destruct Hin as [<- | Hin]; [|auto].
      assert (length b = length (f_cols st)) by (apply (Forall2_length _ _ _ Hb)).
      rewrite nth_set_nth_same by lia. auto.
  Qed.
  Lemma fit_column_ok col w st : 1 <= w -> exists st', fit_column (fun _ => false) col w st = Ok st'.
  Proof. intros Hw. unfold fit_column. destruct (wrap_col_ok col w Hw (f_rows st) (f_lens st) (f_wraps st) (f_cuts st)) as [[[[rs ls] wr] cu] ->]. cbn [bind]. eauto. Qed.
End Fit.

(* ---------------------------------------------------------------- the distribution loop *)
Definition agree (long : list (option Z)) (col : nat) (cols : list Z) : Prop :=
  forall i len, nth_error long i = Some (Some len) -> nth (col + i) cols 0 = len.
Definition long_pos (l : list (option Z)) : Prop := Forall (fun o => match o with Some x => 1 <= x | None => True end) l.
Lemma sum_some_ge_count l : long_pos l -> count_some l <= sum_some l.
Proof. induction 1 as [|[x|] l Hx _ IH]; csimp; [cbv; congruence| |]; lia. Qed.

Section Distribute.
  Hypothesis wrap_fits : forall t w ls, wrap t w = Ok ls -> Forall (fun l => zlen l <= w) ls.
  Hypothesis wrap_ok : forall t w, 1 <= w -> exists ls, wrap t w = Ok ls.
  Variable share : Z -> Z -> Z -> Z.

  Lemma distribute_spec n av : forall long col actual rem st,
    INV n st -> (col + length long = n)%nat -> agree long col (f_cols st) -> long_pos long ->
    sum_some long <= actual -> count_some long <= rem ->
    exists st', distribute (fun _ => false) share av long col actual rem st = Ok st' /\ INV n st' /\
      exists rem', 0 <= rem' /\ zsum (f_cols st') + rem' = zsum (f_cols st) - sum_some long + rem.
  Proof.
    induction long as [|[len|] r IH]; intros col actual rem st HI Hlen Hag Hpos Hact Hrem; cbn [distribute].
    - exists st. split; [reflexivity|]. split; [exact HI|]. exists rem. cbn in Hrem. unfold sum_some; cbn. lia.
    - apply Forall_cons_iff in Hpos as [Hl Hr]. csimp. cbn [length] in Hlen.
      pose proof (count_some_nonneg r) as Hc0. pose proof (sum_some_ge_count r Hr) as Hsc.
      set (w := if count_some r =? 0 then rem else Z.max 1 (Z.min (share len actual av) (rem - count_some r))).
      assert (Hw : 1 <= w /\ w <= rem - count_some r).
      { unfold w. destruct (Z.eqb_spec (count_some r) 0) as [E|E]; lia. }
      assert (Hwe : (if count_some r =? 0 then Ok rem
                     else if actual =? 0 then Err (Other 9)
                     else Ok (Z.max 1 (Z.min (share len actual av) (rem - count_some r)))) = Ok w).
      { unfold w. destruct (Z.eqb_spec (count_some r) 0) as [E|E]; [reflexivity|]. destruct (Z.eqb_spec actual 0); [lia|reflexivity]. }
      rewrite Hwe. cbn [bind].
      destruct (fit_column_ok wrap_ok col w st (proj1 Hw)) as [st1 F1]. rewrite F1. cbn [bind].
      destruct (fit_column_spec (fun _ => false) wrap_fits n col w st st1 HI ltac:(lia) F1) as (HI1 & m & Hcols & Hm0 & Hmw).
      assert (Hcl : (col < length (f_cols st))%nat) by (rewrite (inv_len _ _ HI); lia).
      assert (Hnew : nth col (f_cols st1) 0 = m) by (rewrite Hcols; apply nth_set_nth_same; exact Hcl).
      rewrite Hnew.
      assert (Hold : nth col (f_cols st) 0 = len) by (specialize (Hag O len eq_refl); rewrite Nat.add_0_r in Hag; exact Hag).
      destruct (IH (S col) (actual - len + m) (rem - m) st1 HI1 ltac:(lia)) as (st2 & D & HI2 & rem2 & Hr2 & Hs2); try lia; auto.
      + intros i x Hi. rewrite Hcols. rewrite nth_set_nth_other by lia. replace (S col + i)%nat with (col + S i)%nat by lia. apply Hag. exact Hi.
      + exists st2. split; [exact D|]. split; [exact HI2|]. exists rem2. split; [exact Hr2|].
        rewrite Hs2, Hcols, zsum_set_nth by exact Hcl. rewrite Hold. lia.
    - apply Forall_cons_iff in Hpos as [_ Hr]. csimp. cbn [length] in Hlen.
      destruct (IH (S col) actual rem st HI ltac:(lia)) as (st2 & D & HI2 & rem2 & Hr2 & Hs2); auto.
      + intros i x Hi. replace (S col + i)%nat with (col + S i)%nat by lia. apply Hag. exact Hi.
      + exists st2. split; [exact D|]. split; [exact HI2|]. exists rem2. split; [exact Hr2|]. lia.
  Qed.
End Distribute.

(* ---------------------------------------------------------------- the initial state *)
Lemma chunk_lengths {X} n : forall fuel (l : list X), Forall (fun r => (length r <= n)%nat) (chunk fuel n l).
Proof. induction fuel as [|f IH]; intros l; cbn [chunk]; [constructor|]. destruct l as [|c l]; [constructor|].
  constructor; [rewrite firstn_length; lia|apply IH]. Qed.
Lemma pad_row_length n r : (length r <= n)%nat -> length (pad_row n r) = n.
Proof. intros H. unfold pad_row. rewrite app_length, repeat_length. lia. Qed.
Lemma Forall2_le_refl a : Forall2 Z.le a a. Proof. induction a; constructor; auto; lia. Qed.
Lemma Forall2_le_trans a b c : Forall2 Z.le a b -> Forall2 Z.le b c -> Forall2 Z.le a c.
Proof. intros H; revert c; induction H as [|x y a b Hxy Hab IH]; intros c Hc; inversion Hc as [|? z ? c' Hyz Hbc]; subst; constructor; [lia|auto]. Qed.
Lemma zip_max_spec : forall a b, length b = length a ->
  length (zip_max a b) = length a /\ Forall2 Z.le a (zip_max a b) /\ Forall2 Z.le b (zip_max a b).
Proof.
  induction a as [|x a IH]; intros [|y b] H; cbn in H; try discriminate; cbn [zip_max].
  - repeat split; constructor.
  - destruct (IH b ltac:(lia)) as (L & A1 & A2). cbn [length]. repeat split; [lia| |]; constructor; auto; lia.
Qed.
Lemma fold_zip_max : forall lens acc, Forall (fun ln => length ln = length acc) lens ->
  length (fold_left zip_max lens acc) = length acc /\ Forall2 Z.le acc (fold_left zip_max lens acc) /\
  Forall (fun ln => Forall2 Z.le ln (fold_left zip_max lens acc)) lens.
Proof.
  induction lens as [|ln lens IH]; intros acc H; cbn [fold_left].
  - repeat split; [apply Forall2_le_refl|constructor].
  - apply Forall_cons_iff in H as [Hl Hr]. destruct (zip_max_spec acc ln Hl) as (L & A1 & A2).
    destruct (IH (zip_max acc ln)) as (L' & B1 & B2).
    { eapply Forall_impl; [|exact Hr]. cbn. intros; congruence. }
    repeat split; [congruence|eapply Forall2_le_trans; eauto|]. constructor; [eapply Forall2_le_trans; eauto|exact B2].
Qed.
Lemma init_state_inv n cells st : init_state n cells = Ok st -> INV n st.
Proof.
  unfold init_state. intros H.
  assert (E : Ok {| f_rows := map (pad_row n) (chunk (length cells) n cells);
                    f_lens := map (map zlen) (map (pad_row n) (chunk (length cells) n cells));
                    f_cols := col_lengths n (map (map zlen) (map (pad_row n) (chunk (length cells) n cells)));
                    f_wraps := false; f_cuts := false |} = Ok st).
  { destruct n; [destruct cells; [exact H|discriminate]|exact H]. }
  clear H. injection E as <-.
  set (rows := map (pad_row n) (chunk (length cells) n cells)).
  assert (Hrl : Forall (fun r => length r = n) rows).
  { unfold rows. apply Forall_forall. intros r Hr. apply in_map_iff in Hr as (r0 & <- & Hr0).
    apply pad_row_length. pose proof (chunk_lengths n (length cells) cells) as F. rewrite Forall_forall in F. auto. }
  destruct (fold_zip_max (map (map zlen) rows) (repeat 0 n)) as (L & A1 & A2).
  { apply Forall_forall. intros ln Hln. apply in_map_iff in Hln as (r & <- & Hr). rewrite map_length, repeat_length.
    rewrite Forall_forall in Hrl. auto. }
  constructor; cbn [f_rows f_lens f_cols]; unfold col_lengths.
  - clear. induction rows as [|r rows IH]; cbn [map]; constructor; [|exact IH].
    induction r as [|c r IHr]; cbn [map]; constructor; [apply cell_ok_len|exact IHr].
  - exact A2.
  - rewrite L. apply repeat_length.
  - clear -A1. remember (fold_left zip_max (map (map zlen) rows) (repeat 0 n)) as c. clear Heqc.
    remember (repeat 0 n) as z. assert (Hz : Forall (fun x => 0 <= x) z) by (subst z; clear; induction n; cbn; constructor; auto; lia).
    clear Heqz. induction A1 as [|x y a b Hxy _ IH]; constructor; inversion Hz; subst; [lia|auto].
Qed.

(* the lengths handed in are the lengths: the state of the tag-free model *)
Lemma chunk_map {X Y} (f : X -> Y) n : forall fuel l, chunk fuel n (map f l) = map (map f) (chunk fuel n l).
Proof.
  induction fuel as [|fu IH]; intros l; cbn [chunk]; [reflexivity|]. destruct l as [|x l]; [reflexivity|].
  cbn [map]. rewrite <- (map_cons f x l), firstn_map, skipn_map, IH. reflexivity.
Qed.
Lemma pad_lens_zlen n r : pad_lens n (map zlen r) = map zlen (pad_row n r).
Proof. unfold pad_lens, pad_row. rewrite map_app, map_length. f_equal. induction (n - length r)%nat; cbn; congruence. Qed.
Lemma init_state_l_zlen n cells : init_state_l n cells (map zlen cells) = init_state n cells.
Proof.
  unfold init_state_l, init_state.
  assert (E : map (pad_lens n) (chunk (length (map zlen cells)) n (map zlen cells)) = map (map zlen) (map (pad_row n) (chunk (length cells) n cells))).
  { rewrite map_length, chunk_map, !map_map. apply map_ext. intros r. apply pad_lens_zlen. }
  rewrite E. reflexivity.
Qed.

(* ---------------------------------------------------------------- fit *)
Lemma count_some_map_Some l : count_some (map Some l) = Z.of_nat (length l).
Proof. induction l as [|x l IH]; [reflexivity|]. cbn [map length]. csimp. lia. Qed.
Lemma sum_some_map_Some l : sum_some (map Some l) = zsum l.
Proof. induction l as [|x l IH]; [reflexivity|]. cbn [map]. csimp. rewrite zsum_cons. lia. Qed.

Section FitSpec.
  Hypothesis wrap_fits : forall t w ls, wrap t w = Ok ls -> Forall (fun l => zlen l <= w) ls.
  Hypothesis wrap_ok : forall t w, 1 <= w -> exists ls, wrap t w = Ok ls.
  Variable share : Z -> Z -> Z -> Z.

  Theorem fit_g_spec max_total n cells : (1 <= n)%nat -> Z.of_nat n <= max_total ->
    exists st, fit_g (fun _ => false) share max_total n cells (map zlen cells) = Ok st /\ INV n st /\ zsum (f_cols st) <= max_total.
  Proof.
    intros Hn Hg. unfold fit_g. rewrite init_state_l_zlen.
    destruct (init_state n cells) as [st0|k] eqn:E0.
    2:{ exfalso. unfold init_state in E0. destruct n; [lia|discriminate]. }
    cbn [bind]. pose proof (init_state_inv _ _ _ E0) as HI.
    destruct (Z.leb_spec (zsum (f_cols st0)) max_total) as [Hfit|Hfit]; [eauto|].
    destruct n as [|n']; [lia|]. remember (S n') as n eqn:En. assert (Hn1 : 0 < Z.of_nat n) by lia.
    replace (match n with O => Err (Other 9) | S _ => match short_loop (S n) (Z.of_nat n) (map Some (f_cols st0)) max_total with None => Err (Other 8) | Some (av, long) => distribute (fun _ => false) share av long 0 (sum_some long) av st0 end end)
      with (match short_loop (S n) (Z.of_nat n) (map Some (f_cols st0)) max_total with None => Err (Other 8) | Some (av, long) => distribute (fun _ => false) share av long 0 (sum_some long) av st0 end) by (subst n; reflexivity).
    assert (Hnn : long_nonneg (map Some (f_cols st0))).
    { pose proof (inv_nonneg _ _ HI) as F. unfold long_nonneg. clear -F. induction F; cbn [map]; constructor; auto. }
    destruct (short_loop_spec (Z.of_nat n) max_total ltac:(lia) (S n) (map Some (f_cols st0)) max_total Hnn ltac:(lia))
      as (av & long & SL & R & Eav & J & F).
    { rewrite count_some_map_Some, (inv_len _ _ HI). nia. }
    { rewrite count_some_map_Some, (inv_len _ _ HI). lia. }
    rewrite SL. rewrite sum_some_map_Some in Eav.
    pose proof (count_some_nonneg long) as Hc0.
    assert (Hav : count_some long <= av) by nia.
    assert (Hpos : long_pos long).
    { eapply Forall_impl; [|exact F]. intros [x|]; [|auto]. cbn. intros Hx. nia. }
    assert (Hlen : length long = n).
    { rewrite (Forall2_length _ _ _ R), map_length. apply (inv_len _ _ HI). }
    assert (Hag : agree long 0 (f_cols st0)).
    { intros i len Hi. cbn [Nat.add]. clear -R Hi. revert i Hi. remember (f_cols st0) as cols. clear Heqcols.
      revert cols R. induction long as [|o long IH]; intros cols R i Hi; [destruct i; discriminate|].
      destruct cols as [|c cols]; [inversion R|]. cbn [map] in R. inversion R as [|? ? ? ? Ho Hr]; subst.
      destruct i as [|i]; cbn in Hi |- *.
      - injection Hi as ->. destruct Ho as [Ho|Ho]; congruence.
      - eapply IH; eauto. }
    destruct (distribute_spec wrap_fits wrap_ok share n av long 0 (sum_some long) av st0 HI ltac:(lia) Hag Hpos ltac:(lia) Hav)
      as (st & D & HI' & rem' & Hr' & Hs).
    exists st. split; [exact D|]. split; [exact HI'|]. lia.
  Qed.
  Theorem fit_spec max_total n cells : (1 <= n)%nat -> Z.of_nat n <= max_total ->
    exists st, fit share max_total n cells = Ok st /\ INV n st /\ zsum (f_cols st) <= max_total.
  Proof. intros Hn Hg. exact (fit_g_spec max_total n (map t_rstrip cells) Hn Hg). Qed.

  (* every line of every cell fits its column *)
  Definition cells_fit (st : fitst) : Prop :=
    Forall (fun row => Forall2 (fun cell c => cell_ok c cell) row (f_cols st)) (f_rows st).
  Lemma inv_cells_fit n st : INV n st -> cells_fit st.
  Proof.
    intros [I1 I2 _ _]. unfold cells_fit. revert I2. induction I1 as [|row ln rows lens Hr _ IH]; intros I2; constructor.
    - apply Forall_cons_iff in I2 as [Hle _]. clear -Hr Hle. unfold lens_le in Hle. revert Hle. generalize (f_cols st).
      induction Hr as [|c l r ls Hcl _ IH']; intros cols Hle; inversion Hle; subst; constructor; [eapply cell_ok_mono; eauto|auto].
    - apply IH. apply Forall_cons_iff in I2 as [_ H]. exact H.
  Qed.
End FitSpec.

(* ---------------------------------------------------------------- drawing: the rectangle *)
Lemma zlen_rep s k : zlen (rep s k) = Z.max 0 k * zlen s.
Proof.
  unfold rep. assert (H : forall m, zlen (concat (repeat s m)) = Z.of_nat m * zlen s).
  { induction m as [|m IH]; [reflexivity|]. cbn [repeat concat]. rewrite zlen_app, IH. lia. }
  rewrite H. lia.
Qed.
Lemma zlen_blanks k : zlen (blanks k) = Z.max 0 k.
Proof. unfold blanks, zlen. rewrite repeat_length. lia. Qed.
Lemma rstrip_blanks k : t_rstrip (blanks k) = [].
Proof.
  unfold t_rstrip, blanks. generalize (Z.to_nat k) as m. intros m.
  assert (H : rev (repeat 32%N m) = repeat 32%N m).
  { induction m as [|m IH]; [reflexivity|]. cbn [repeat rev]. rewrite IH. clear. induction m; cbn; congruence. }
  rewrite H. assert (S32 : is_space 32 = true) by reflexivity.
  assert (H2 : t_rstrip_rev (repeat 32%N m) = []) by (clear H; induction m as [|m IHm]; cbn [repeat t_rstrip_rev]; [reflexivity|rewrite S32; exact IHm]). rewrite H2. reflexivity.
Qed.

Lemma pad_cell_len pad a w line : zlen pad = 1 -> zlen line <= w ->
  exists x, pad_cell pad a w line = Some x /\ zlen x = w.
Proof.
  intros Hp Hl. unfold pad_cell. destruct (Z.ltb_spec (w - zlen line) 0) as [E|E]; [lia|].
  eexists. split; [reflexivity|]. unfold fill.
  pose proof (Z.div_pos (w - zlen line) 2 E ltac:(lia)). pose proof (Z.div_le_upper_bound (w - zlen line) 2 (w - zlen line) ltac:(lia) ltac:(lia)).
  destruct (a =? 0); [|destruct (a =? 1)]; rewrite ?zlen_app, ?zlen_rep, Hp; lia.
Qed.

Lemma row_line_len pre suf pad vc vr i : zlen pad = 1 -> forall cells cols al,
  Forall2 (fun c w => zlen (nth i c []) <= w) cells cols -> length al = length cols -> cells <> [] ->
  zlen (row_line pre suf pad vc vr i cells cols al)
  = zsum (map (fun w => zlen pre + w + zlen suf) cols) + (Z.of_nat (length cols) - 1) * zlen vc + zlen vr.
Proof.
  intros Hp cells cols al H. revert al. induction H as [|c w cells cols Hcw Hrest IH]; intros al Hal Hne; [congruence|].
  destruct al as [|a al]; [discriminate|]. cbn [row_line map length].
  destruct (pad_cell_len pad a w (@nth str i c []) Hp Hcw) as (x & -> & Hx).
  rewrite zsum_cons, !zlen_app, Hx.
  destruct cells as [|c2 cells].
  - inversion Hrest; subst. cbn [row_line map length zsum fold_right]. change (zlen []) with 0. lia.
  - rewrite IH; [|cbn in Hal |- *; lia|congruence]. cbn [length]. lia.
Qed.

Record wf_border (vl vc vr lc l c r : str) : Prop :=
  { wfb : (zlen lc = 1 /\ zlen l = zlen vl /\ zlen c = zlen vc /\ zlen r = zlen vr) \/ (lc = [] /\ l = [] /\ c = [] /\ r = []) }.
Definition wf_style (s : tstyle) : Prop :=
  let b := t_border s in
  zlen (t_pad s) = 1 /\ zlen (t_hpre s ++ t_hsuf s) = zlen (t_cpre s ++ t_csuf s) /\
  wf_border (b_vl b) (b_vc b) (b_vr b) (b_ht b) (b_tl b) (b_ct b) (b_tr b) /\
  wf_border (b_vl b) (b_vc b) (b_vr b) (b_hc b) (b_cl b) (b_cc b) (b_cr b) /\
  wf_border (b_vl b) (b_vc b) (b_vr b) (b_hb b) (b_bl b) (b_cb b) (b_br b).

Definition full_width (s : tstyle) (cols : list Z) (ind : Z) : Z :=
  ind + zlen (b_vl (t_border s)) + zsum (map (fun c => c + excess s) cols)
  + (Z.of_nat (length cols) - 1) * zlen (b_vc (t_border s)) + zlen (b_vr (t_border s)).

(* the text is a sequence of lines, each the right-stripped form of a line of the given width *)
Definition rect (width : Z) (text : str) : Prop :=
  exists ls, text = flat_map (fun l => t_rstrip l ++ [10%N]) ls /\ Forall (fun l => zlen l = width) ls.
Lemma rect_nil w : rect w []. Proof. exists []. split; [reflexivity|constructor]. Qed.
Lemma rect_app w a b : rect w a -> rect w b -> rect w (a ++ b).
Proof. intros (la & -> & Ha) (lb & -> & Hb). exists (la ++ lb). split; [rewrite flat_map_app; reflexivity|apply Forall_app; auto]. Qed.

Lemma border_body_len lc c r : forall lens, lens <> [] -> Forall (fun x => 0 <= x) lens ->
  zlen (border_body lc c r lens) = zlen lc * zsum lens + (Z.of_nat (length lens) - 1) * zlen c + zlen r.
Proof.
  induction lens as [|x lens IH]; intros Hne Hnn; [congruence|]. apply Forall_cons_iff in Hnn as [Hx Hr].
  cbn [border_body]. destruct lens as [|y lens].
  - rewrite zlen_app, zlen_rep, Z.max_r by lia. cbn [length]. rewrite zsum_cons. change (zsum []) with 0. lia.
  - rewrite !zlen_app, zlen_rep, IH by (congruence || assumption). rewrite Z.max_r by lia. cbn [length]. rewrite !zsum_cons. lia.
Qed.
Lemma draw_border_rect s cols ind lc l c r : 0 <= ind -> cols <> [] -> Forall (fun x => 0 <= x) cols ->
  wf_border (b_vl (t_border s)) (b_vc (t_border s)) (b_vr (t_border s)) lc l c r ->
  rect (full_width s cols ind) (draw_border ind (map (fun x => x + excess s) cols) lc l c r).
Proof.
  intros Hind Hne Hnn [[(H1 & H2 & H3 & H4)|(-> & -> & -> & ->)]]; unfold draw_border.
  - set (line := blanks ind ++ l ++ border_body lc c r (map (fun x => x + excess s) cols)).
    assert (Hlen : zlen line = full_width s cols ind).
    { unfold line, full_width. rewrite !zlen_app, zlen_blanks, border_body_len.
      - rewrite map_length, H1, H2, H3, H4. lia.
      - destruct cols; cbn; congruence.
      - assert (0 <= excess s) by (unfold excess; pose proof (zlen_nonneg (t_hpre s ++ t_hsuf s)); lia).
        clear -Hnn H. induction Hnn; cbn [map]; constructor; auto; lia. }
    destruct (t_rstrip line) as [|ch rest] eqn:E; [apply rect_nil|].
    exists [line]. split; [cbn [flat_map]; rewrite E, app_nil_r; reflexivity|constructor; auto].
  - assert (E : border_body [] [] [] (map (fun x => x + excess s) cols) = []).
    { clear. induction cols as [|x cols IH]; [reflexivity|]. cbn [map border_body]. destruct (map (fun x0 => x0 + excess s) cols) eqn:M.
      - unfold rep. clear. induction (Z.to_nat (x + excess s)); cbn; auto.
      - rewrite IH. unfold rep. clear. induction (Z.to_nat (x + excess s)); cbn; auto. }
    rewrite E, !app_nil_r, rstrip_blanks. apply rect_nil.
Qed.

Lemma nth_split_le i w cell : 0 <= w -> cell_ok w cell -> zlen (nth i (split_on 10%N cell) []) <= w.
Proof.
  intros Hw H. destruct (Nat.lt_ge_cases i (length (split_on 10%N cell))) as [L|L].
  - unfold cell_ok in H. rewrite Forall_forall in H. apply H. apply nth_In. exact L.
  - rewrite nth_overflow by exact L. exact Hw.
Qed.

Lemma draw_row_rect s pre suf ind row cols al : wf_style s -> 0 <= ind -> row <> [] ->
  zlen pre + zlen suf = excess s ->
  Forall2 (fun cell c => cell_ok c cell) row cols -> Forall (fun x => 0 <= x) cols -> length al = length cols ->
  rect (full_width s cols ind) (draw_row (t_border s) pre suf (t_pad s) ind row cols al).
Proof.
  intros (Hp & _) Hind Hne Hex Hrow Hnn Hal. unfold draw_row.
  set (cells := map (split_on 10%N) row).
  exists (map (fun i => blanks ind ++ b_vl (t_border s) ++ row_line pre suf (t_pad s) (b_vc (t_border s)) (b_vr (t_border s)) i cells cols al)
              (seq 0 (fold_right Nat.max O (map (@length str) cells)))).
  split.
  - generalize (seq 0 (fold_right Nat.max O (map (@length str) cells))). intros l. induction l as [|i l IH]; [reflexivity|].
    cbn [flat_map map]. rewrite IH. reflexivity.
  - apply Forall_forall. intros x Hx. apply in_map_iff in Hx as (i & <- & _).
    rewrite !zlen_app, zlen_blanks, (row_line_len pre suf (t_pad s) _ _ i Hp cells cols al).
    + unfold full_width. replace (map (fun w => zlen pre + w + zlen suf) cols) with (map (fun c => c + excess s) cols); [lia|].
      apply map_ext. intros; lia.
    + unfold cells. clear -Hrow Hnn. induction Hrow as [|c w r cs Hcw _ IH]; cbn [map]; constructor.
      * apply Forall_cons_iff in Hnn as [Hw _]. apply nth_split_le; assumption.
      * apply IH. apply Forall_cons_iff in Hnn as [_ H]. exact H.
    + exact Hal.
    + unfold cells. destruct row; [congruence|discriminate].
Qed.

Lemma rect_flat_map {X} w (f : X -> str) l : Forall (fun x => rect w (f x)) l -> rect w (flat_map f l).
Proof. induction 1 as [|x l Hx _ IH]; cbn [flat_map]; [apply rect_nil|apply rect_app; assumption]. Qed.
Lemma zsum_map_add k l : zsum (map (fun c => c + k) l) = zsum l + Z.of_nat (length l) * k.
Proof. induction l as [|x l IH]; [reflexivity|]. cbn [map length]. rewrite !zsum_cons, IH. lia. Qed.
Lemma alignments_length s n al : alignments s n = Ok al -> length al = n.
Proof. unfold alignments. destruct (Nat.ltb_spec n (length (t_aligns s))) as [E|E]; [discriminate|]. intros H; injection H as <-.
  rewrite app_length, repeat_length. lia. Qed.

Section TableRect.
  Hypothesis wrap_fits : forall t w ls, wrap t w = Ok ls -> Forall (fun l => zlen l <= w) ls.
  Hypothesis wrap_ok : forall t w, 1 <= w -> exists ls, wrap t w = Ok ls.
  Variable share : Z -> Z -> Z -> Z.

  (* rendering succeeds whenever every column can have one character (and no more alignments are set than there are columns) *)
  Theorem render_pure_total s n header cells W ind : (1 <= n)%nat -> Z.of_nat n <= available_width s W ind (Z.of_nat n) ->
    (length (t_aligns s) <= n)%nat -> exists r, render_pure (fun _ => false) share s n header cells (map zlen cells) W ind = Ok r.
  Proof.
    intros Hn Hg Hal. unfold render_pure.
    destruct (fit_g_spec wrap_fits wrap_ok share _ n cells Hn Hg) as (st & -> & HI & _). cbn [bind].
    unfold alignments. rewrite (inv_len _ _ HI). destruct (Nat.ltb_spec n (length (t_aligns s))) as [E|E]; [lia|]. cbn [bind]. eauto.
  Qed.
  Theorem render_total s n header rows W ind : (1 <= n)%nat -> Z.of_nat n <= available_width s W ind (Z.of_nat n) ->
    (length (t_aligns s) <= n)%nat -> exists r, render_table share s n header rows W ind = Ok r.
  Proof.
    intros Hn Hg Hal. unfold render_table. destruct rows as [|r0 rows]; [eauto|]. apply render_pure_total; assumption.
  Qed.

  Theorem table_rect_pure s n header cells W ind st text : wf_style s -> (1 <= n)%nat -> 0 <= ind ->
    Z.of_nat n <= available_width s W ind (Z.of_nat n) ->
    render_pure (fun _ => false) share s n header cells (map zlen cells) W ind = Ok (st, text) ->
    rect (full_width s (f_cols st) ind) text /\ full_width s (f_cols st) ind <= W /\ cells_fit st /\ length (f_cols st) = n.
  Proof.
    intros Hwf Hn Hind Hg H. unfold render_pure in H.
    destruct (fit_g_spec wrap_fits wrap_ok share _ n cells Hn Hg) as (st0 & F & HI & Hsum).
    rewrite F in H. cbn [bind] in H.
    destruct (alignments s (length (f_cols st0))) as [al|k] eqn:A; cbn [bind] in H; [|discriminate].
    injection H as <- <-. pose proof (alignments_length _ _ _ A) as Hal. unfold draw_table.
    pose proof (inv_cells_fit _ _ HI) as CF. pose proof (inv_len _ _ HI) as Hlen. pose proof (inv_nonneg _ _ HI) as Hnn.
    assert (Hne : f_cols st0 <> []) by (destruct (f_cols st0); [cbn in Hlen; lia|congruence]).
    pose proof Hwf as (Hp & Hfmt & B1 & B2 & B3).
    assert (Hh : zlen (t_hpre s) + zlen (t_hsuf s) = excess s) by (unfold excess; rewrite !zlen_app in *; lia).
    assert (Hc : zlen (t_cpre s) + zlen (t_csuf s) = excess s) by (unfold excess; rewrite !zlen_app in *; lia).
    assert (Hrow : forall pre suf row, zlen pre + zlen suf = excess s -> In row (f_rows st0) ->
                   rect (full_width s (f_cols st0) ind) (draw_row (t_border s) pre suf (t_pad s) ind row (f_cols st0) al)).
    { intros pre suf row He Hin. unfold cells_fit in CF. rewrite Forall_forall in CF. specialize (CF row Hin).
      apply draw_row_rect; auto. intros ->. inversion CF as [E|]; subst. congruence. }
    repeat split; [| |exact CF|exact Hlen].
    - repeat apply rect_app.
      + apply draw_border_rect; assumption.
      + destruct header as [|h0 hs]; [apply rect_nil|]. apply rect_app.
        * destruct (f_rows st0) as [|row rs] eqn:R; [apply rect_nil|]. cbn [hd]. apply Hrow; [exact Hh|left; reflexivity].
        * apply draw_border_rect; assumption.
      + apply rect_flat_map. apply Forall_forall. intros row Hin. apply Hrow; [exact Hc|].
        destruct header; [exact Hin|]. destruct (f_rows st0); [destruct Hin|right; exact Hin].
      + apply draw_border_rect; assumption.
    - unfold full_width. rewrite zsum_map_add, Hlen. unfold available_width, border_width in *. lia.
  Qed.
  Theorem table_rect s n header rows W ind st text : wf_style s -> (1 <= n)%nat -> 0 <= ind -> rows <> [] ->
    Z.of_nat n <= available_width s W ind (Z.of_nat n) ->
    render_table share s n header rows W ind = Ok (st, text) ->
    rect (full_width s (f_cols st) ind) text /\ full_width s (f_cols st) ind <= W /\ cells_fit st /\ length (f_cols st) = n.
  Proof.
    intros Hwf Hn Hind Hrows Hg H. unfold render_table in H. destruct rows as [|r0 rows]; [congruence|].
    eapply table_rect_pure; eauto.
  Qed.
End TableRect.

(* ---------------------------------------------------------------- the cells keep their text *)
Definition nsp (c : N) : bool := negb (is_space c).
Definition same_text (a b : str) : Prop := filter nsp a = filter nsp b.
Lemma same_text_refl a : same_text a a. Proof. reflexivity. Qed.
Lemma same_text_trans a b c : same_text a b -> same_text b c -> same_text a c.
Proof. unfold same_text; congruence. Qed.
Lemma filter_join_nl ls : filter nsp (join_with 10%N ls) = filter nsp (concat ls).
Proof.
  induction ls as [|l ls IH]; [reflexivity|]. cbn [join_with concat]. destruct ls as [|l2 ls].
  - cbn [concat]. rewrite app_nil_r. reflexivity.
  - rewrite !filter_app, <- IH. cbn [filter]. change (nsp 10%N) with false. reflexivity.
Qed.
Lemma munge_same_text t : filter nsp (munge t) = filter nsp t.
Proof.
  unfold munge. induction t as [|c t IH]; [reflexivity|]. cbn [map filter]. rewrite IH.
  destruct (tw_space c) eqn:E; [|reflexivity]. change (nsp SP) with false.
  assert (Hs : is_space c = true).
  { unfold tw_space in E. cbn [existsb] in E. rewrite !orb_true_iff in E.
    repeat (destruct E as [E|E]; [apply N.eqb_eq in E; subst c; reflexivity|]). discriminate. }
  unfold nsp. rewrite Hs. reflexivity.
Qed.
Lemma rstrip_rev_same r : filter nsp (rev (t_rstrip_rev r)) = filter nsp (rev r).
Proof.
  induction r as [|c r IH]; [reflexivity|]. cbn [t_rstrip_rev]. destruct (is_space c) eqn:E; [|reflexivity].
  rewrite IH. cbn [rev]. rewrite filter_app. cbn [filter]. unfold nsp at 3. rewrite E. cbn. rewrite app_nil_r. reflexivity.
Qed.
Lemma rstrip_same_text c : same_text (t_rstrip c) c.
Proof. unfold same_text, t_rstrip. rewrite rstrip_rev_same, rev_involutive. reflexivity. Qed.

Section Keeps.
  Variable g : str -> bool.
  Hypothesis wrap_keeps : forall t w ls, wrap t w = Ok ls -> filter nsp (concat ls) = filter nsp (munge t).

  Lemma wrap_cell_keeps w cu cell len c' l' wrapped cu' : wrap_cell g w cu cell len = Ok (c', l', wrapped, cu') -> same_text c' cell.
  Proof.
    unfold wrap_cell. destruct (w <? len).
    - destruct (g cell); [discriminate|]. destruct (wrap cell w) as [ls|k] eqn:W; cbn [bind]; [|discriminate]. intros H; injection H as <- _ _ _.
      unfold same_text. rewrite filter_join_nl, (wrap_keeps _ _ _ W). apply munge_same_text.
    - intros H; injection H as <- _ _ _. reflexivity.
  Qed.
  Definition rows_same (a b : list (list str)) : Prop := Forall2 (Forall2 same_text) a b.
  Lemma row_same_refl r : Forall2 same_text r r. Proof. induction r; constructor; auto. reflexivity. Qed.
  Lemma rows_same_refl a : rows_same a a. Proof. induction a; constructor; auto. apply row_same_refl. Qed.
  Lemma row_same_trans a b c : Forall2 same_text a b -> Forall2 same_text b c -> Forall2 same_text a c.
  Proof. intros H; revert c; induction H as [|x y a b Hxy Hab IH]; intros c Hc; inversion Hc as [|? z ? c' Hyz Hbc]; subst; constructor;
    [eapply same_text_trans; eauto|auto]. Qed.
  Lemma rows_same_trans a b c : rows_same a b -> rows_same b c -> rows_same a c.
  Proof. intros H; revert c; induction H as [|x y a b Hxy Hab IH]; intros c Hc; inversion Hc as [|? z ? c' Hyz Hbc]; subst; constructor;
    [eapply row_same_trans; eauto|apply IH; exact Hbc]. Qed.
  Lemma set_nth_same_text col c' : forall row, same_text c' (nth col row []) -> Forall2 same_text (set_nth col c' row) row.
  Proof.
    revert col. intros col row; revert col. induction row as [|x row IH]; intros [|col] H; cbn [set_nth nth] in *; try constructor; auto.
    - apply row_same_refl.
    - reflexivity.
  Qed.
  Lemma wrap_col_keeps col w : forall rows lens wr cu rs ls wr' cu',
    wrap_col g col w rows lens wr cu = Ok (rs, ls, wr', cu') -> rows_same rs (firstn (length lens) rows).
  Proof.
    induction rows as [|row rows IH]; intros lens wr cu rs ls wr' cu' H.
    - cbn in H. injection H as <- _ _ _. rewrite firstn_nil. constructor.
    - destruct lens as [|ln lens]; cbn [wrap_col] in H.
      + injection H as <- _ _ _. constructor.
      + destruct (wrap_cell g w cu (nth col row []) (nth col ln 0)) as [[[[c' l'] wrapped] cu1]|k] eqn:WC; cbn [bind] in H; [|discriminate].
        destruct (wrap_col g col w rows lens (wr || wrapped) cu1) as [[[[rs1 ls1] wr1] cu2]|k] eqn:WR; cbn [bind] in H; [|discriminate].
        injection H as <- _ _ _. cbn [length firstn]. constructor; [|eapply IH; eauto].
        apply set_nth_same_text. eapply wrap_cell_keeps; eauto.
  Qed.
  Lemma fit_column_keeps n col w st st' : INV n st -> fit_column g col w st = Ok st' -> rows_same (f_rows st') (f_rows st).
  Proof.
    intros HI H. unfold fit_column in H.
    destruct (wrap_col g col w (f_rows st) (f_lens st) (f_wraps st) (f_cuts st)) as [[[[rs ls] wr] cu]|k] eqn:WR; cbn [bind] in H; [|discriminate].
    injection H as <-. cbn [f_rows]. pose proof (wrap_col_keeps _ _ _ _ _ _ _ _ _ _ WR) as K.
    rewrite <- (Forall2_length _ _ _ (inv_rows _ _ HI)), firstn_all in K. exact K.
  Qed.
End Keeps.

Section KeepsFit.
  Variable g : str -> bool.
  Hypothesis wrap_fits : forall t w ls, wrap t w = Ok ls -> Forall (fun l => zlen l <= w) ls.
  Hypothesis wrap_keeps : forall t w ls, wrap t w = Ok ls -> filter nsp (concat ls) = filter nsp (munge t).
  Variable share : Z -> Z -> Z -> Z.

  Lemma distribute_keeps n av : forall long col actual rem st st', INV n st -> (col + length long = n)%nat ->
    distribute g share av long col actual rem st = Ok st' -> rows_same (f_rows st') (f_rows st).
  Proof.
    induction long as [|[len|] r IH]; intros col actual rem st st' HI Hlen H; cbn [distribute length] in *.
    - injection H as <-. apply rows_same_refl.
    - destruct (if count_some r =? 0 then Ok rem else if actual =? 0 then Err (Other 9)
                else Ok (Z.max 1 (Z.min (share len actual av) (rem - count_some r)))) as [w|k]; cbn [bind] in H; [|discriminate].
      destruct (fit_column g col w st) as [st1|k] eqn:F1; cbn [bind] in H; [|discriminate].
      destruct (fit_column_spec g wrap_fits n col w st st1 HI ltac:(lia) F1) as (HI1 & _).
      eapply rows_same_trans; [eapply (IH (S col)); [exact HI1|lia|exact H]|].
      eapply fit_column_keeps; eauto.
    - eapply (IH (S col)); [exact HI|lia|exact H].
  Qed.

  Theorem fit_g_keeps max_total n cells st : (1 <= n)%nat -> fit_g g share max_total n cells (map zlen cells) = Ok st ->
    rows_same (f_rows st) (map (pad_row n) (chunk (length cells) n cells)).
  Proof.
    intros Hn H. unfold fit_g in H. rewrite init_state_l_zlen in H.
    destruct (init_state n cells) as [st0|k] eqn:E0; cbn [bind] in H; [|discriminate].
    pose proof (init_state_inv _ _ _ E0) as HI.
    assert (R0 : f_rows st0 = map (pad_row n) (chunk (length cells) n cells)).
    { unfold init_state in E0. destruct n; [lia|]. injection E0 as <-. reflexivity. }
    rewrite <- R0. destruct (zsum (f_cols st0) <=? max_total); [injection H as <-; apply rows_same_refl|].
    destruct n as [|n']; [lia|].
    destruct (short_loop (S (S n')) (Z.of_nat (S n')) (map Some (f_cols st0)) max_total) as [[av long]|] eqn:SL; [|discriminate].
    eapply distribute_keeps; [exact HI| |exact H].
    (* the long list has one entry per column *)
    assert (L : forall fuel l a a' l', short_loop fuel (Z.of_nat (S n')) l a = Some (a', l') -> length l' = length l).
    { assert (P : forall avp l a, let '(a', l', _) := short_pass (Z.of_nat (S n')) avp l a in length l' = length l).
      { intros avp l; induction l as [|[x|] l IHl]; intros a; cbn [short_pass]; [reflexivity| |].
        - destruct (x * Z.of_nat (S n') <=? avp).
          + specialize (IHl (a - x)). destruct (short_pass (Z.of_nat (S n')) avp l (a - x)) as [[? ?] ?]. cbn [length]. congruence.
          + specialize (IHl a). destruct (short_pass (Z.of_nat (S n')) avp l a) as [[? ?] ?]. cbn [length]. congruence.
        - specialize (IHl a). destruct (short_pass (Z.of_nat (S n')) avp l a) as [[? ?] ?]. cbn [length]. congruence. }
      induction fuel as [|f IHf]; intros l a a' l' Hs; [discriminate|]. cbn [short_loop] in Hs.
      specialize (P a l a). destruct (short_pass (Z.of_nat (S n')) a l a) as [[a1 l1] ch]. destruct ch.
      - rewrite (IHf _ _ _ _ Hs). exact P.
      - injection Hs as <- <-. exact P. }
    rewrite (L _ _ _ _ _ SL), map_length, (inv_len _ _ HI). reflexivity.
  Qed.
End KeepsFit.

(* a table's cells laid out n per row are its rows again *)
Lemma chunk_concat n (rows : list (list str)) : (1 <= n)%nat -> Forall (fun r => length r = n) rows ->
  forall fuel, (length rows <= fuel)%nat -> chunk fuel n (concat rows) = rows.
Proof.
  intros Hn H. induction H as [|r rows Hr _ IH]; intros fuel Hf.
  - destruct fuel; reflexivity.
  - destruct fuel as [|f]; [cbn in Hf; lia|]. cbn [concat chunk].
    destruct (r ++ concat rows) as [|c rest] eqn:E.
    { destruct r; [cbn in Hr; lia|discriminate]. }
    rewrite <- E. rewrite <- Hr at 1 3. rewrite firstn_app, Nat.sub_diag, firstn_all, skipn_app, Nat.sub_diag, skipn_all. cbn [firstn skipn app].
    rewrite app_nil_r. f_equal. apply IH. cbn in Hf; lia.
Qed.
Lemma pad_row_full n r : length r = n -> pad_row n r = r.
Proof. intros <-. unfold pad_row. rewrite Nat.sub_diag. cbn. apply app_nil_r. Qed.

Lemma is_nil_true s : is_nil s = true -> s = []. Proof. destruct s; [reflexivity|discriminate]. Qed.
Lemma wf_borderb_sound vl vc vr lc l c r : wf_borderb vl vc vr lc l c r = true -> wf_border vl vc vr lc l c r.
Proof.
  unfold wf_borderb. intros H. constructor. apply orb_true_iff in H as [H|H].
  - left. rewrite !andb_true_iff in H. lia.
  - right. rewrite !andb_true_iff in H. destruct H as [[[A B] C] D]. repeat split; apply is_nil_true; assumption.
Qed.
Lemma wf_styleb_sound s : wf_styleb s = true -> wf_style s.
Proof.
  unfold wf_styleb, wf_style. intros H. rewrite !andb_true_iff in H. destruct H as [[[[A B] C] D] E].
  repeat split; try (apply wf_borderb_sound; assumption); lia.
Qed.

Section KeepsTable.
  Hypothesis wrap_fits : forall t w ls, wrap t w = Ok ls -> Forall (fun l => zlen l <= w) ls.
  Hypothesis wrap_keeps : forall t w ls, wrap t w = Ok ls -> filter nsp (concat ls) = filter nsp (munge t).
  Variable share : Z -> Z -> Z -> Z.
  (* on right-stripped cells: the wrapped rows are the cells laid out n per row *)
  Theorem table_keeps_pure g s n header (X : list (list str)) W ind st text : (1 <= n)%nat ->
    Forall (fun r => length r = n) X ->
    render_pure g share s n header (concat X) (map zlen (concat X)) W ind = Ok (st, text) ->
    rows_same (f_rows st) X.
  Proof.
    intros Hn HX H. unfold render_pure in H.
    destruct (fit_g g share (available_width s W ind (Z.of_nat n)) n (concat X) (map zlen (concat X))) as [st0|k] eqn:F; cbn [bind] in H; [|discriminate].
    destruct (alignments s (length (f_cols st0))) as [al|k]; cbn [bind] in H; [|discriminate]. injection H as <- _.
    pose proof (fit_g_keeps g wrap_fits wrap_keeps share _ _ _ _ Hn F) as K.
    rewrite chunk_concat in K; auto.
    - replace (map (pad_row n) X) with X in K; [exact K|].
      clear -HX. induction HX as [|r l Hr _ IH]; [reflexivity|]. cbn [map]. rewrite pad_row_full by exact Hr. f_equal. exact IH.
    - (* enough fuel: every row holds at least one cell *)
      clear -HX Hn. induction HX as [|r l Hr _ IH]; [cbn; lia|]. cbn [concat length]. rewrite app_length. lia.
  Qed.
  Theorem table_keeps s n header rows W ind st text : (1 <= n)%nat -> rows <> [] ->
    Forall (fun r => length r = n) rows -> (header = [] \/ length header = n) ->
    render_table share s n header rows W ind = Ok (st, text) ->
    rows_same (f_rows st) (map (map t_rstrip) (match header with [] => rows | _ => header :: rows end)).
  Proof.
    intros Hn Hne Hrows Hhdr H. unfold render_table in H. destruct rows as [|r0 rows]; [congruence|].
    set (X := match header with [] => r0 :: rows | _ => header :: r0 :: rows end).
    assert (HX : Forall (fun r => length r = n) X).
    { unfold X. destruct header as [|h hs]; [exact Hrows|]. constructor; [destruct Hhdr; [discriminate|assumption]|exact Hrows]. }
    assert (EX : header ++ concat (r0 :: rows) = concat X) by (unfold X; destruct header; reflexivity).
    rewrite EX, concat_map in H.
    assert (HX' : Forall (fun r => length r = n) (map (map t_rstrip) X)).
    { clear -HX. induction HX; cbn [map]; constructor; auto. rewrite map_length. assumption. }
    exact (table_keeps_pure _ s n header _ W ind st text Hn HX' H).
  Qed.
End KeepsTable.

Lemma rows_same_unstrip a b : rows_same a (map (map t_rstrip) b) -> Forall2 (Forall2 same_text) a b.
Proof.
  unfold rows_same. intros K. remember (map (map t_rstrip) b) as b' eqn:E. revert b E.
  induction K as [|ra rb a b' Hab _ IH]; intros b E; destruct b as [|r b]; try discriminate; constructor.
  - cbn [map] in E. injection E as -> _. clear -Hab. remember (map t_rstrip r) as r' eqn:E. revert r E.
    induction Hab as [|x y ra r' Hxy _ IH]; intros r E; destruct r as [|c r]; try discriminate; constructor.
    + cbn [map] in E. injection E as -> _. exact (same_text_trans _ _ _ Hxy (rstrip_same_text c)).
    + cbn [map] in E. injection E as _ E. exact (IH r E).
  - cbn [map] in E. injection E as _ E. exact (IH b E).
Qed.
