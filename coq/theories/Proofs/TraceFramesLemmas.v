(* C20, the frame listing: compact loses no frame (every frame of the kept stack but its last one is in some collection,
   up to the equality crashtest folds by: file, function, line) - the earlier statements were soundness only ("a listed
   frame is a kept frame") and also hold of a compact that lists nothing.
   And what the ignore filter does NOT guarantee: the listing always leaves out the LAST kept frame (it is expected to be
   the frame of the snippet), while the snippet always shows the last frame of the traceback, ignored or not - when the
   raising frame is under an ignored path, the last kept frame is shown nowhere and the ignored frame is shown. *)
From Coq Require Import Lia.
From Clikit Require Import Base.Prelude Base.Res Model.Conv Model.Markup Model.OutputM Model.Trace
  Proofs.StrLemmas Proofs.TraceLemmas Proofs.LiteralLemmas Proofs.TraceRenderLemmas.

Lemma frame_eqb_refl f : frame_eqb f f = true.
Proof. unfold frame_eqb. now rewrite !str_eqb_refl, Z.eqb_refl. Qed.

Definition covered (x : frame) (cs : list coll) : Prop := exists y, In y (flat_map c_frames cs) /\ frame_eqb x y = true.

Lemma covered_app_l x a b : covered x a -> covered x (a ++ b).
Proof. intros (y & Hy & E). exists y. split; [|exact E]. rewrite flat_map_app. apply in_or_app. now left. Qed.
Lemma covered_app_r x a b : covered x b -> covered x (a ++ b).
Proof. intros (y & Hy & E). exists y. split; [|exact E]. rewrite flat_map_app. apply in_or_app. now right. Qed.
Lemma covered_one x cl : (exists y, In y (c_frames cl) /\ frame_eqb x y = true) -> covered x [cl].
Proof. intros (y & Hy & E). exists y. split; [|exact E]. cbn. now rewrite app_nil_r. Qed.
Lemma covered_snoc_inv x acc cur : covered x (acc ++ [cur]) -> covered x acc \/ exists y, In y (c_frames cur) /\ frame_eqb x y = true.
Proof.
  intros (y & Hy & E). rewrite flat_map_app in Hy. apply in_app_or in Hy as [Hy|Hy]; [left; exists y; auto|right].
  cbn in Hy. rewrite app_nil_r in Hy. eauto.
Qed.

Lemma frames_eqb_in : forall a b x, frames_eqb a b = true -> In x a -> exists y, In y b /\ frame_eqb x y = true.
Proof.
  induction a as [|x0 a IH]; intros [|y0 b] x H Hin; cbn [frames_eqb] in H; try discriminate; [destruct Hin|].
  apply andb_prop in H as [H1 H2]. destruct Hin as [->|Hin]; [exists y0; split; [now left|exact H1]|].
  destruct (IH b x H2 Hin) as (y & Hy & E). exists y. split; [now right|exact E].
Qed.
Lemma find_same_spec rest cur : forall ds d, find_same rest cur ds = Some d -> frames_eqb (firstn (S d) rest) cur = true.
Proof.
  induction ds as [|d0 r IH]; intros d H; cbn [find_same] in H; [discriminate|].
  destruct (frames_eqb (firstn (S d0) rest) cur) eqn:E; [inversion H; subst; exact E|apply IH, H].
Qed.
Lemma removelast_split {X} n (l : list X) x : In x (removelast l) -> In x (firstn n l) \/ In x (removelast (skipn n l)).
Proof.
  intros H. rewrite <- (firstn_skipn n l) in H. destruct (skipn n l) as [|b r] eqn:E.
  - rewrite app_nil_r in H. left. clear E. revert H. generalize (firstn n l). intros a Ha.
    induction a as [|y a IH]; [destruct Ha|]. cbn [removelast] in Ha. destruct a; [destruct Ha|]. destruct Ha as [->|Ha]; [now left|right; auto].
  - rewrite removelast_app in H by discriminate. apply in_app_or in H. tauto.
Qed.

Lemma compact_loop_complete : forall fuel rest cur acc, length rest <= fuel ->
  forall x, In x (removelast rest) \/ covered x (acc ++ [cur]) -> covered x (compact_loop fuel rest cur acc).
Proof.
  induction fuel as [|fuel IH]; intros rest cur acc Hf x Hx; cbn [compact_loop].
  - destruct rest; [|cbn in Hf; lia]. destruct Hx as [[]|Hx]; exact Hx.
  - destruct rest as [|x0 after]; [destruct Hx as [[]|Hx]; exact Hx|].
    destruct after as [|y after']; [destruct Hx as [[]|Hx]; exact Hx|].
    set (after := y :: after') in *.
    assert (In x (removelast (x0 :: after)) -> x = x0 \/ In x (removelast after)) as Hsplit.
    { unfold after. cbn [removelast]. intros [H|H]; [left; now symmetry|right; exact H]. }
    assert (length after <= fuel) as Hfa by (cbn [length] in Hf; lia).
    destruct (dup_offsets x0 after 0) as [|d0 ds].
    + (* no later occurrence: x0 joins the current collection (a repeated one is closed first) *)
      destruct (coll_repeated cur); apply IH; try exact Hfa; cbn [c_frames].
      * destruct Hx as [Hx|Hx]; [destruct (Hsplit Hx) as [->|H]; [right|left; exact H]|right].
        -- apply covered_app_r, covered_one. exists x0. split; [now left|apply frame_eqb_refl].
        -- apply covered_app_l, Hx.
      * destruct Hx as [Hx|Hx]; [destruct (Hsplit Hx) as [->|H]; [right|left; exact H]|right].
        -- apply covered_app_r, covered_one. exists x0. cbn [c_frames]. split; [apply in_or_app; right; now left|apply frame_eqb_refl].
        -- apply covered_snoc_inv in Hx as [Hx|(z & Hz & E)]; [apply covered_app_l, Hx|].
           apply covered_app_r, covered_one. exists z. cbn [c_frames]. split; [apply in_or_app; now left|exact E].
    + destruct (find_same (x0 :: after) (c_frames cur) (d0 :: ds)) as [d|] eqn:EF.
      * (* the frames up to the duplicate repeat the current collection: folded *)
        apply IH; [rewrite skipn_length; cbn [length] in *; lia|]. cbn [c_frames].
        destruct Hx as [Hx|Hx].
        -- destruct (removelast_split (S d) _ x Hx) as [H|H]; [right|left; exact H].
           destruct (frames_eqb_in _ _ x (find_same_spec _ _ _ _ EF) H) as (z & Hz & E).
           apply covered_app_r, covered_one. exists z. split; [exact Hz|exact E].
        -- right. apply covered_snoc_inv in Hx as [Hx|(z & Hz & E)]; [apply covered_app_l, Hx|].
           apply covered_app_r, covered_one. exists z. split; [exact Hz|exact E].
      * (* a new collection: the frames up to the first duplicate *)
        apply IH; [rewrite skipn_length; cbn [length] in *; lia|]. cbn [c_frames].
        destruct Hx as [Hx|Hx].
        -- destruct (removelast_split (S d0) _ x Hx) as [H|H]; [right|left; exact H].
           apply covered_app_r, covered_one. exists x. split; [exact H|apply frame_eqb_refl].
        -- right. apply covered_app_l, Hx.
Qed.

(* compact loses no frame: every frame of the stack but the last is in some collection, up to (file, function, line) *)
Theorem compact_complete l x : In x (removelast l) -> exists y, In y (flat_map c_frames (compact l)) /\ frame_eqb x y = true.
Proof. intros H. apply (compact_loop_complete (length l) l _ [] (le_n _) x). now left. Qed.

(* the listing is complete for the kept frames but the last one ... *)
Theorem kept_frames_are_listed c fs f : In f (removelast (kept_frames c fs)) ->
  exists g, In g (trace_frames c fs) /\ frame_eqb f g = true.
Proof. apply compact_complete. Qed.
(* ... and each of them has its location line in the stack trace whenever it is printed *)
Theorem kept_frames_have_their_line c ind fs f :
  t_verbose c = true -> (zlen (kept_frames c fs) - 1 <> 0)%Z -> In f (removelast (kept_frames c fs)) ->
  exists ls g k w, render_trace c ind fs = Ok ls /\ frame_eqb f g = true /\ In (loc_line c ind w g k) ls.
Proof.
  intros Hv Hn Hf. destruct (render_trace_lists_total c ind fs Hv Hn) as (ls & HR & HL).
  destruct (kept_frames_are_listed c fs f Hf) as (g & Hg & E). destruct (HL g Hg) as (k & w & Hin).
  exists ls, g, k, w. auto.
Qed.

(* ------------------------------------------------------------------ what the ignore filter does not give *)
Module IgnoredLast.
  Import RenderExamples.
  Definition fr (file : N) (n : Z) (ign : bool) : frame :=
    {| f_file := [file]; f_ignored := ign; f_lineno := n; f_func := [102%N]; f_line := [120%N];
       f_content := TokOk demo_toks; f_linetoks := TokOk demo_toks |}.
  (* the traceback: a, b in the user's code, v under the ignored path - v raised *)
  Definition fs : list frame := [fr 97 1 false; fr 98 2 false; fr 118 3 true].
  Definition x : exn_case := {| x_name := [69%N]; x_msg := [109%N]; x_frames := fs |}.
  (* -v, not debug: b is kept and shown NOWHERE (not listed, not the snippet frame); v is ignored and IS shown *)
  Example kept_frame_shown_nowhere :
    t_verbose (demo_cfg true) = true /\ t_debug (demo_cfg true) = false /\
    In (fr 98 2 false) (kept_frames (demo_cfg true) fs) /\
    trace_frames (demo_cfg true) fs = [fr 97 1 false] /\
    last fs dflt_frame = fr 118 3 true /\ f_ignored (last fs dflt_frame) = true.
  Proof. vm_compute. repeat split. right. left. reflexivity. Qed.
  (* the bytes: "Stack trace:", "1  a:1 in f", the class name, the message, "at v:3 in f" and the snippet of v - no line for b:2 *)
  Example report_bytes :
    render (demo_cfg true) false (demo_out FPlain false 0) x
    = Ok ([10;32;32;83;116;97;99;107;32;116;114;97;99;101;58;10]%N
          ++ [10;32;32;49;32;32;97;58;49;32;105;110;32;102;10]%N ++ [32;32;32;32;32;120;10]%N
          ++ [10;32;32;69;10]%N ++ [10;32;32;109;10]%N
          ++ [10;32;32;97;116;32;118;58;51;32;105;110;32;102;10]%N ++ [32;32;32;32;32;32;32;32;49;124;32;120;10]%N).
  Proof. vm_compute. reflexivity. Qed.
End IgnoredLast.

(* ------------------------------------------------------------------ the snippet clauses composed on code_snippet itself *)
(* whenever the source has the failing line, the snippet has it: at some position k the snippet's line is the failing line
   with ITS number, marked - and no other line of the snippet is marked *)
Theorem snippet_shows_failing_line u toks line before after d :
  (0 <= before)%Z -> (0 <= after)%Z -> (1 <= line)%Z -> (line <= Z.of_nat (length (split_to_lines toks)))%Z ->
  let lines := split_to_lines toks in
  let off := Z.to_nat (Z.max (line - before - 1) 0) in
  exists k, (Z.of_nat k < after + before + 1)%Z /\
    nth k (code_snippet u toks line before after) d
      = number_line u (number_width (length lines)) line line (nth (Z.to_nat (line - 1)) lines []) /\
    marked u (nth k (code_snippet u toks line before after) d) /\
    (forall j, (Z.of_nat j < after + before + 1)%Z -> (off + j < length lines)%nat ->
               marked u (nth j (code_snippet u toks line before after) d) -> j = k).
Proof.
  intros Hb Ha H1 Hn. cbv zeta. destruct (code_snippet_has_line toks line before after Hb Ha H1 Hn) as (k & Hk & Hl & Hlen).
  exists k. split; [exact Hk|].
  pose proof (code_snippet_nth u toks line before after k d Hb Ha Hk Hlen) as E. rewrite Hl in E.
  replace (Z.to_nat (Z.max (line - before - 1) 0) + k)%nat with (Z.to_nat (line - 1)) in E by lia.
  split; [exact E|]. split; [rewrite E; apply number_line_marked; reflexivity|].
  intros j Hj Hjl Hm. rewrite (code_snippet_nth u toks line before after j d Hb Ha Hj Hjl) in Hm.
  apply number_line_marked in Hm. lia.
Qed.
