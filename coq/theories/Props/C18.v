(* C18 - questions return only valid answers, count attempts exactly and terminate.
   The input is a script of typed lines followed by end of input. entry_invalid q line: the validator
   rejects what reaches it for that line (the stripped text, or the default for an empty line). *)
From Clikit Require Import Base.Prelude Base.Res Model.Conv Model.Question Proofs.QuestionLemmas.

(* For EVERY choice list and script: an answer is a member of the choices (a list of members when multi-select). *)
Theorem answer_is_member : forall q script a, o_end (ask_choice true q script) = Answered a ->
  match a with AOne v => In v (q_choices q) | AMany l => Forall (fun x => In x (q_choices q)) l | ANone => False end.
Proof. exact answer_is_member_lemma. Qed.
Print Assumptions answer_is_member.

(* An index and the value it denotes are interchangeable (value occurring once, index text not itself a choice). *)
Theorem index_and_value_interchangeable : forall q i c,
  q_multi q = false -> nth_error (q_choices q) i = Some c ->
  positions (q_choices q) c 0 = [i] -> positions (q_choices q) (dec_text (Z.of_nat i)) 0 = [] ->
  validate q (Some (dec_text (Z.of_nat i))) = inr (AOne c) /\ validate q (Some c) = inr (AOne c).
Proof. exact index_value_lemma. Qed.
Print Assumptions index_and_value_interchangeable.

(* Every invalid entry consumes exactly one attempt (one line read, one error printed): n invalid entries then a
   valid one answer after n + 1 lines with n errors printed ... *)
Theorem invalid_entries_then_answer : forall q bad good rest a,
  Forall (entry_invalid q) bad -> validate q (effective_answer q good) = inr a ->
  (match q_attempts q with Some k => length bad < k | None => True end) ->
  let o := ask_choice true q (bad ++ good :: rest) in
  o_end o = Answered a /\ o_lines_read o = length bad + 1 /\ o_errors_printed o = length bad.
Proof.
  intros q bad good rest a Hb Hg Hk. unfold ask_choice. cbn [negb].
  destruct (ask_loop_until_valid q bad good rest (q_attempts q) None 0 0 0 a Hb Hg Hk) as (H1 & H2 & H3).
  cbn zeta in *. rewrite H1, H2, H3. repeat split; auto with arith.
Qed.
Print Assumptions invalid_entries_then_answer.
(* ... and the question fails after exactly the configured number of attempts. *)
Theorem attempts_exact : forall q bad rest,
  Forall (entry_invalid q) bad -> bad <> [] -> q_attempts q = Some (length bad) ->
  let o := ask_choice true q (bad ++ rest) in
  (exists er, o_end o = Failed er) /\ o_lines_read o = length bad /\ o_errors_printed o = length bad - 1.
Proof. exact attempts_exact_lemma. Qed.
Print Assumptions attempts_exact.

(* It gives up at end of input instead of asking forever - with or without an attempt limit. *)
Theorem gives_up_at_end_of_input : forall q bad,
  Forall (entry_invalid q) bad -> (match q_attempts q with Some k => length bad < k | None => True end) ->
  o_end (ask_choice true q bad) = Aborted /\ o_lines_read (ask_choice true q bad) = length bad.
Proof.
  intros q bad Hb Hk. unfold ask_choice. cbn [negb].
  destruct (ask_loop_eof q bad (q_attempts q) None 0 0 0 Hb Hk) as [H1 H2]. cbn zeta in *. rewrite H1, H2. auto.
Qed.
Print Assumptions gives_up_at_end_of_input.

(* Non-interactive: the default, nothing read, nothing written. *)
Theorem non_interactive_default : forall q script,
  ask_choice false q script = {| o_end := Answered (default_answer q); o_lines_read := 0; o_errors_printed := 0; o_prompts := 0 |}.
Proof. exact non_interactive_lemma. Qed.
Print Assumptions non_interactive_default.

(* Confirmation: true exactly for answers matching the pattern, the default on an empty answer. *)
Theorem confirmation_table : forall dflt prefix line rest,
  ask_confirm true dflt prefix (line :: rest) = (CBool (match strip_ws line with [] => dflt | t => starts_with_ci prefix t end), 1).
Proof. exact confirm_table. Qed.
Print Assumptions confirmation_table.
Theorem confirmation_non_interactive : forall dflt prefix script, ask_confirm false dflt prefix script = (CBool dflt, 0).
Proof. exact confirm_non_interactive. Qed.
Print Assumptions confirmation_non_interactive.

(* ======================================================================================================================
   What is WRITTEN (Model/QuestionText.v; the driver's entry run_C18T compares the whole text of the error output with
   the implementation's).  The outcome is still decided by ask_choice / ask_confirm above; these theorems tie the text
   layer to it. *)
From Clikit Require Import Model.QuestionText Proofs.Question2Lemmas.

(* The validator has an error message exactly for the entries it rejects. *)
Theorem validator_message_iff_rejected : forall q s,
  match validate q s with inr _ => validate_msg q s = None | inl _ => exists m, validate_msg q s = Some m end.
Proof. exact validate_msg_agrees. Qed.
Print Assumptions validator_message_iff_rejected.

(* Every invalid entry prints ONE error, and nothing else is written: the whole error output is the prompt followed, for
   every error counted by the outcome layer, by one error line and the prompt again; the number of prompts is one more. *)
Theorem error_output_is_a_dialogue : forall q prompt script, q_attempts q <> Some 0 ->
  exists msgs, fst (choice_text true q prompt script) = dialogue prompt msgs /\
               length msgs = o_errors_printed (ask_choice true q script) /\
               S (length msgs) = o_prompts (ask_choice true q script).
Proof. exact choice_text_is_dialogue. Qed.
Print Assumptions error_output_is_a_dialogue.

(* A question that fails raises the message of an entry (the one that used up the budget). *)
Theorem failure_carries_a_message : forall q prompt script er, q_attempts q <> Some 0 ->
  o_end (ask_choice true q script) = Failed er -> exists m, snd (choice_text true q prompt script) = Some m.
Proof. exact choice_failure_has_message. Qed.
Print Assumptions failure_carries_a_message.

(* ANY question on a non-interactive input writes nothing and reads nothing (choice, confirmation, plain). *)
Theorem non_interactive_writes_nothing : forall q prompt question dflt p script,
  choice_text false q prompt script = ([], None) /\ confirm_text false question dflt = [] /\
  pt_text (ask_plain false question p script) = [] /\ pt_read (ask_plain false question p script) = 0 /\
  pt_end (ask_plain false question p script) = Answered (plain_answer (p_default p)).
Proof. intros. repeat split. Qed.
Print Assumptions non_interactive_writes_nothing.

(* The plain question with a validator counts attempts the same way: n rejected entries then an accepted one ... *)
Theorem plain_question_rejected_then_accepted : forall question p acc bad good rest,
  p_accept p = Some acc -> Forall (plain_rejected p acc) bad -> plain_check acc (plain_value p good) = None ->
  (match p_attempts p with Some k => length bad < k | None => True end) ->
  let r := ask_plain true question p (bad ++ good :: rest) in
  pt_end r = Answered (plain_answer (plain_value p good)) /\ pt_read r = length bad + 1.
Proof.
  intros question p acc bad good rest Ha Hb Hg Hk. unfold ask_plain. cbn [negb]. rewrite Ha.
  exact (plain_loop_until_valid p acc _ bad good rest (p_attempts p) None 0 Hb Hg Hk).
Qed.
Print Assumptions plain_question_rejected_then_accepted.
(* ... and it fails after exactly the configured number of attempts, with the validator's message. *)
Theorem plain_question_attempts_exact : forall question p acc bad rest,
  p_accept p = Some acc -> Forall (plain_rejected p acc) bad -> bad <> [] -> p_attempts p = Some (length bad) ->
  let r := ask_plain true question p (bad ++ rest) in
  pt_end r = Failed VInvalid /\ pt_read r = length bad /\ pt_msg r <> None.
Proof.
  intros question p acc bad rest Ha Hb Hne Hk. unfold ask_plain. cbn [negb]. rewrite Ha, Hk.
  exact (plain_loop_budget p acc _ bad rest None 0 Hb Hne).
Qed.
Print Assumptions plain_question_attempts_exact.

(* not vacuous: a three-entry script against a limit of three, with the text it writes *)
Example dialogue_nonvacuous :
  let q := {| q_choices := [[97%N]; [98%N]]; q_multi := false; q_default := None; q_attempts := Some 3 |} in
  let script := [[120%N]; []; [55%N]; [48%N]] in
  o_end (ask_choice true q script) = Failed VInvalid /\ o_lines_read (ask_choice true q script) = 3 /\
  snd (choice_text true q [63%N] script) = Some (msg_invalid [55%N]) /\
  fst (choice_text true q [63%N] script) = dialogue [63%N] [msg_invalid [120%N]; msg_none].
Proof. vm_compute. repeat split. Qed.
