(* C18 - questions return only valid answers, count attempts exactly and terminate.
   The input is a script of typed lines followed by end of input. entry_invalid q line: the validator
   rejects what reaches it for that line (the stripped text, or the default for an empty line). *)
From Clikit Require Import Base.Prelude Base.Res Model.Conv Model.Question Proofs.QuestionLemmas.

(* For EVERY choice list and script: an answer is a member of the choices (a list of members when multi-select). *)
Theorem answer_is_member : forall q script a, o_end (ask_choice true q script) = Answered a ->
  match a with AOne v => In v (q_choices q) | AMany l => Forall (fun x => In x (q_choices q)) l | ANone => False end.
Proof. exact answer_is_member_lemma. Qed.
Print Assumptions answer_is_member.

(* An index and the value it denotes are interchangeable (value occurring once, index text not itself a choice). *)
Theorem index_and_value_interchangeable : forall q i c,
  q_multi q = false -> nth_error (q_choices q) i = Some c ->
  positions (q_choices q) c 0 = [i] -> positions (q_choices q) (dec_text (Z.of_nat i)) 0 = [] ->
  validate q (Some (dec_text (Z.of_nat i))) = inr (AOne c) /\ validate q (Some c) = inr (AOne c).
Proof. exact index_value_lemma. Qed.
Print Assumptions index_and_value_interchangeable.

(* Every invalid entry consumes exactly one attempt (one line read, one error printed): n invalid entries then a
   valid one answer after n + 1 lines with n errors printed ... *)
Theorem invalid_entries_then_answer : forall q bad good rest a,
  Forall (entry_invalid q) bad -> validate q (effective_answer q good) = inr a ->
  (match q_attempts q with Some k => length bad < k | None => True end) ->
  let o := ask_choice true q (bad ++ good :: rest) in
  o_end o = Answered a /\ o_lines_read o = length bad + 1 /\ o_errors_printed o = length bad.
Proof.
  intros q bad good rest a Hb Hg Hk. unfold ask_choice. cbn [negb].
  destruct (ask_loop_until_valid q bad good rest (q_attempts q) None 0 0 0 a Hb Hg Hk) as (H1 & H2 & H3).
  cbn zeta in *. rewrite H1, H2, H3. repeat split; auto with arith.
Qed.
Print Assumptions invalid_entries_then_answer.
(* ... and the question fails after exactly the configured number of attempts. *)
Theorem attempts_exact : forall q bad rest,
  Forall (entry_invalid q) bad -> bad <> [] -> q_attempts q = Some (length bad) ->
  let o := ask_choice true q (bad ++ rest) in
  (exists er, o_end o = Failed er) /\ o_lines_read o = length bad /\ o_errors_printed o = length bad - 1.
Proof. exact attempts_exact_lemma. Qed.
Print Assumptions attempts_exact.

(* It gives up at end of input instead of asking forever - with or without an attempt limit. *)
Theorem gives_up_at_end_of_input : forall q bad,
  Forall (entry_invalid q) bad -> (match q_attempts q with Some k => length bad < k | None => True end) ->
  o_end (ask_choice true q bad) = Aborted /\ o_lines_read (ask_choice true q bad) = length bad.
Proof.
  intros q bad Hb Hk. unfold ask_choice. cbn [negb].
  destruct (ask_loop_eof q bad (q_attempts q) None 0 0 0 Hb Hk) as [H1 H2]. cbn zeta in *. rewrite H1, H2. auto.
Qed.
Print Assumptions gives_up_at_end_of_input.

(* Non-interactive: the default, nothing read, nothing written. *)
Theorem non_interactive_default : forall q script,
  ask_choice false q script = {| o_end := Answered (default_answer q); o_lines_read := 0; o_errors_printed := 0; o_prompts := 0 |}.
Proof. exact non_interactive_lemma. Qed.
Print Assumptions non_interactive_default.

(* Confirmation: true exactly for answers matching the pattern, the default on an empty answer. *)
Theorem confirmation_table : forall dflt prefix line rest,
  ask_confirm true dflt prefix (line :: rest) = (CBool (match strip_ws line with [] => dflt | t => starts_with_ci prefix t end), 1).
Proof. exact confirm_table. Qed.
Print Assumptions confirmation_table.
Theorem confirmation_non_interactive : forall dflt prefix script, ask_confirm false dflt prefix script = (CBool dflt, 0).
Proof. exact confirm_non_interactive. Qed.
Print Assumptions confirmation_non_interactive.
