(* C18 - questions return only valid answers, count attempts exactly and terminate.
   The input is a script of typed lines followed by end of input. entry_invalid q line: the validator
   rejects what reaches it for that line (the stripped text, or the default for an empty line). *)
From Coq Require Import Lia.
From Clikit Require Import Base.Prelude Base.Res Model.Conv Model.Question Proofs.QuestionLemmas Proofs.QuestionAskLemmas Proofs.QuestionConfirmLemmas.

(* For EVERY choice list and script: an answer is a member of the choices (a list of members when multi-select). *)
Theorem answer_is_member : forall q script a, o_end (ask_choice true q script) = Answered a ->
  match a with AOne v => In v (q_choices q) | AMany l => Forall (fun x => In x (q_choices q)) l | ANone => False end.
Proof. exact answer_is_member_lemma. Qed.
Print Assumptions answer_is_member.

(* ... one value for a single-select question, a list for a multi-select one. *)
Theorem answer_shape : forall q script a, o_end (ask_choice true q script) = Answered a ->
  if q_multi q then exists l, a = AMany l else exists v, a = AOne v.
Proof. exact answer_shape_lemma. Qed.
Print Assumptions answer_shape.

(* An index and the value it denotes are interchangeable (value occurring once, index text not itself a choice). *)
Theorem index_and_value_interchangeable : forall q i c,
  q_multi q = false -> nth_error (q_choices q) i = Some c ->
  positions (q_choices q) c 0 = [i] -> positions (q_choices q) (dec_text (Z.of_nat i)) 0 = [] ->
  validate q (Some (dec_text (Z.of_nat i))) = inr (AOne c) /\ validate q (Some c) = inr (AOne c).
Proof. exact index_value_lemma. Qed.
Print Assumptions index_and_value_interchangeable.

(* The same at the level of ask(): l1 is the line typed for the index, l2 the line typed for the value - blanks around
   them or not (the answer is stripped before it is validated).  Hypotheses: single-select, at least one attempt, the
   value occurs once among the choices, is not empty and is not changed by stripping, and the index text is not itself
   a choice.  Both dialogues answer the value at once: one line read, one prompt, no error printed. *)
Theorem index_and_value_interchangeable_when_asked : forall q i c l1 l2 rest1 rest2,
  q_multi q = false -> q_attempts q <> Some 0 -> nth_error (q_choices q) i = Some c ->
  positions (q_choices q) c 0 = [i] -> positions (q_choices q) (dec_text (Z.of_nat i)) 0 = [] ->
  strip_ws l1 = dec_text (Z.of_nat i) -> strip_ws l2 = c -> c <> [] ->
  ask_choice true q (l1 :: rest1) = {| o_end := Answered (AOne c); o_lines_read := 1; o_errors_printed := 0; o_prompts := 1 |} /\
  ask_choice true q (l2 :: rest2) = {| o_end := Answered (AOne c); o_lines_read := 1; o_errors_printed := 0; o_prompts := 1 |}.
Proof. exact ask_index_value. Qed.
Print Assumptions index_and_value_interchangeable_when_asked.
(* "Not changed by stripping" is needed: the clause is FALSE of the model - and of the code, same dialogues, same answers
   (notes/a7-coq.md) - for a choice with a blank at an end (typing 0 answers " a", typing " a" is invalid: it reaches the
   validator as "a"), and for a multi-select choice holding a blank anywhere (all blanks are removed from the entry). *)
Theorem index_and_value_spaced_choice_refuted :
  exists q i c, q_multi q = false /\ nth_error (q_choices q) i = Some c /\ positions (q_choices q) c 0 = [i] /\
    o_end (ask_choice true q [dec_text (Z.of_nat i)]) = Answered (AOne c) /\ o_end (ask_choice true q [c]) = Failed VInvalid.
Proof.
  exists Spaced.q1, 0, [Spaced.sp; Spaced.a_]. destruct Spaced.index_works_value_does_not as [H1 H2].
  split; [reflexivity|]. split; [reflexivity|]. split; [reflexivity|]. split; [exact H1|exact H2].
Qed.
Print Assumptions index_and_value_spaced_choice_refuted.
Theorem index_and_value_multi_select_blank_refuted :
  exists q i c, q_multi q = true /\ nth_error (q_choices q) i = Some c /\ positions (q_choices q) c 0 = [i] /\
    o_end (ask_choice true q [dec_text (Z.of_nat i)]) = Answered (AMany [c]) /\ o_end (ask_choice true q [c]) = Failed VInvalid.
Proof.
  exists Spaced.q2, 0, [Spaced.a_; Spaced.sp; Spaced.b_]. destruct Spaced.multi_index_works_value_does_not as [H1 H2].
  split; [reflexivity|]. split; [reflexivity|]. split; [reflexivity|]. split; [exact H1|exact H2].
Qed.
Print Assumptions index_and_value_multi_select_blank_refuted.

(* Every invalid entry consumes exactly one attempt (one line read, one error printed): n invalid entries then a
   valid one answer after n + 1 lines with n errors printed ... *)
Theorem invalid_entries_then_answer : forall q bad good rest a,
  Forall (entry_invalid q) bad -> validate q (effective_answer q good) = inr a ->
  (match q_attempts q with Some k => length bad < k | None => True end) ->
  let o := ask_choice true q (bad ++ good :: rest) in
  o_end o = Answered a /\ o_lines_read o = length bad + 1 /\ o_errors_printed o = length bad.
Proof.
  intros q bad good rest a Hb Hg Hk. unfold ask_choice. cbn [negb].
  destruct (ask_loop_until_valid q bad good rest (q_attempts q) None 0 0 0 a Hb Hg Hk) as (H1 & H2 & H3).
  cbn zeta in *. rewrite H1, H2, H3. repeat split; auto with arith.
Qed.
Print Assumptions invalid_entries_then_answer.
(* ... and the question fails after exactly the configured number of attempts. *)
Theorem attempts_exact : forall q bad rest,
  Forall (entry_invalid q) bad -> bad <> [] -> q_attempts q = Some (length bad) ->
  let o := ask_choice true q (bad ++ rest) in
  (exists er, o_end o = Failed er) /\ o_lines_read o = length bad /\ o_errors_printed o = length bad - 1.
Proof. exact attempts_exact_lemma. Qed.
Print Assumptions attempts_exact.

(* ... with the error of the LAST entry it was allowed (the earlier ones were printed, this one is raised): *)
Theorem attempts_exact_last_error : forall q pre l rest er,
  Forall (entry_invalid q) pre -> validate q (effective_answer q l) = inl er -> q_attempts q = Some (length (pre ++ [l])) ->
  let o := ask_choice true q ((pre ++ [l]) ++ rest) in
  o_end o = Failed er /\ o_lines_read o = length pre + 1 /\ o_errors_printed o = length pre.
Proof. exact attempts_exact_err. Qed.
Print Assumptions attempts_exact_last_error.
(* a budget of zero attempts: nothing read, nothing printed, the question fails at once *)
Theorem zero_attempts_fail_without_reading : forall q script, q_attempts q = Some 0 ->
  ask_choice true q script = {| o_end := Failed VOther; o_lines_read := 0; o_errors_printed := 0; o_prompts := 0 |}.
Proof. exact zero_attempts. Qed.
Print Assumptions zero_attempts_fail_without_reading.

(* It gives up at end of input instead of asking forever - with or without an attempt limit. *)
Theorem gives_up_at_end_of_input : forall q bad,
  Forall (entry_invalid q) bad -> (match q_attempts q with Some k => length bad < k | None => True end) ->
  o_end (ask_choice true q bad) = Aborted /\ o_lines_read (ask_choice true q bad) = length bad.
Proof.
  intros q bad Hb Hk. unfold ask_choice. cbn [negb].
  destruct (ask_loop_eof q bad (q_attempts q) None 0 0 0 Hb Hk) as [H1 H2]. cbn zeta in *. rewrite H1, H2. auto.
Qed.
Print Assumptions gives_up_at_end_of_input.

(* Non-interactive: the default, nothing read, nothing written (no prompt, no error) - whatever the script holds.  This
   and confirmation_non_interactive hold by the definition of the model (ask() tests io.is_interactive() first); the
   content is in the tie: lines consumed from the stream and bytes on the error output are observed. *)
Theorem non_interactive_default : forall q script,
  ask_choice false q script = {| o_end := Answered (default_answer q); o_lines_read := 0; o_errors_printed := 0; o_prompts := 0 |}.
Proof. exact non_interactive_lemma. Qed.
Print Assumptions non_interactive_default.

(* Confirmation: true exactly for answers matching the pattern, the default on an empty answer.
   PARTIAL: patterns of the form (?i)^<literal prefix> only (the default "(?i)^y" is one); the regular expression
   engine is not modelled - a pattern with metacharacters (".", "[yj]") is outside this statement. *)
Theorem confirmation_table : forall dflt prefix line rest,
  ask_confirm true dflt prefix (line :: rest) = (CBool (match strip_ws line with [] => dflt | t => starts_with_ci prefix t end), 1).
Proof. exact confirm_table. Qed.
Print Assumptions confirmation_table.
Theorem confirmation_non_interactive : forall dflt prefix script, ask_confirm false dflt prefix script = (CBool dflt, 0).
Proof. exact confirm_non_interactive. Qed.
Print Assumptions confirmation_non_interactive.

(* Fourth session: the same table for patterns WITH and WITHOUT the (?i) flag (ask_confirm_g ci; ask_confirm is ci = true),
   and "the answer matches the pattern" said on the strings themselves: without the flag the stripped answer literally begins
   with the prefix, with the flag it begins with a string that equals the prefix after lower-casing both.  Still PARTIAL in the
   sense above: literal prefix patterns only. *)
Theorem confirmation_is_the_case_insensitive_table : forall inter dflt prefix script,
  ask_confirm inter dflt prefix script = ask_confirm_g true inter dflt prefix script.
Proof. exact ask_confirm_is_g_ci. Qed.
Print Assumptions confirmation_is_the_case_insensitive_table.
Theorem confirmation_table_with_and_without_the_flag : forall ci dflt prefix line rest,
  ask_confirm_g ci true dflt prefix (line :: rest)
  = (CBool (match strip_ws line with [] => dflt | t => (if ci then starts_with_ci else starts_with_cs) prefix t end), 1).
Proof. exact confirm_table_g. Qed.
Print Assumptions confirmation_table_with_and_without_the_flag.
Theorem confirmation_true_exactly_for_matching_answers : forall ci dflt prefix line rest,
  fst (ask_confirm_g ci true dflt prefix (line :: rest)) = CBool true <->
  (strip_ws line = [] /\ dflt = true) \/
  (strip_ws line <> [] /\
   if ci then exists u t, strip_ws line = u ++ t /\ map lower_char u = map lower_char prefix
   else exists t, strip_ws line = prefix ++ t).
Proof. exact confirm_true_iff. Qed.
Print Assumptions confirmation_true_exactly_for_matching_answers.
Theorem case_sensitive_match_is_a_case_insensitive_match : forall p s, starts_with_cs p s = true -> starts_with_ci p s = true.
Proof. exact starts_with_cs_implies_ci. Qed.
Print Assumptions case_sensitive_match_is_a_case_insensitive_match.
Theorem confirmation_any_flag_non_interactive : forall ci dflt prefix script, ask_confirm_g ci false dflt prefix script = (CBool dflt, 0).
Proof. exact confirm_g_non_interactive. Qed.
Print Assumptions confirmation_any_flag_non_interactive.
Theorem confirmation_any_flag_end_of_input : forall ci dflt prefix, ask_confirm_g ci true dflt prefix [] = (CAborted, 0).
Proof. exact confirm_g_end_of_input. Qed.
Print Assumptions confirmation_any_flag_end_of_input.
Example the_case_matters_without_the_flag :
  fst (ask_confirm_g false true false [89%N] ([121%N] :: [])) = CBool false /\
  fst (ask_confirm_g true true false [89%N] ([121%N] :: [])) = CBool true /\
  fst (ask_confirm_g false true false [89%N] ([89%N; 101%N; 115%N] :: [])) = CBool true.
Proof. exact case_matters_without_the_flag. Qed.

(* ======================================================================================================================
   What is WRITTEN (Model/QuestionText.v; the driver's entry run_C18T compares the whole text of the error output with
   the implementation's).  The outcome is still decided by ask_choice / ask_confirm above; these theorems tie the text
   layer to it. *)
From Clikit Require Import Model.QuestionText Proofs.Question2Lemmas.

(* The validator has an error message exactly for the entries it rejects. *)
Theorem validator_message_iff_rejected : forall q s,
  match validate q s with inr _ => validate_msg q s = None | inl _ => exists m, validate_msg q s = Some m end.
Proof. exact validate_msg_agrees. Qed.
Print Assumptions validator_message_iff_rejected.

(* Every invalid entry prints ONE error, and nothing else is written: the whole error output is the prompt followed, for
   every error counted by the outcome layer, by one error line and the prompt again; the number of prompts is one more. *)
Theorem error_output_is_a_dialogue : forall q prompt script, q_attempts q <> Some 0 ->
  exists msgs, fst (choice_text true q prompt script) = dialogue prompt msgs /\
               length msgs = o_errors_printed (ask_choice true q script) /\
               S (length msgs) = o_prompts (ask_choice true q script).
Proof. exact choice_text_is_dialogue. Qed.
Print Assumptions error_output_is_a_dialogue.

(* A question that fails raises the message of an entry (the one that used up the budget). *)
Theorem failure_carries_a_message : forall q prompt script er, q_attempts q <> Some 0 ->
  o_end (ask_choice true q script) = Failed er -> exists m, snd (choice_text true q prompt script) = Some m.
Proof. exact choice_failure_has_message. Qed.
Print Assumptions failure_carries_a_message.

(* ANY question on a non-interactive input writes nothing and reads nothing (choice, confirmation, plain). *)
Theorem non_interactive_writes_nothing : forall q prompt question dflt p script,
  choice_text false q prompt script = ([], None) /\ confirm_text false question dflt = [] /\
  pt_text (ask_plain false question p script) = [] /\ pt_read (ask_plain false question p script) = 0 /\
  pt_end (ask_plain false question p script) = Answered (plain_answer (p_default p)).
Proof. intros. repeat split. Qed.
Print Assumptions non_interactive_writes_nothing.

(* The plain question with a validator counts attempts the same way: n rejected entries then an accepted one ... *)
Theorem plain_question_rejected_then_accepted : forall question p acc bad good rest,
  p_accept p = Some acc -> Forall (plain_rejected p acc) bad -> plain_check acc (plain_value p good) = None ->
  (match p_attempts p with Some k => length bad < k | None => True end) ->
  let r := ask_plain true question p (bad ++ good :: rest) in
  pt_end r = Answered (plain_answer (plain_value p good)) /\ pt_read r = length bad + 1.
Proof.
  intros question p acc bad good rest Ha Hb Hg Hk. unfold ask_plain. cbn [negb]. rewrite Ha.
  exact (plain_loop_until_valid p acc _ bad good rest (p_attempts p) None 0 Hb Hg Hk).
Qed.
Print Assumptions plain_question_rejected_then_accepted.
(* ... and it fails after exactly the configured number of attempts, with the validator's message. *)
Theorem plain_question_attempts_exact : forall question p acc bad rest,
  p_accept p = Some acc -> Forall (plain_rejected p acc) bad -> bad <> [] -> p_attempts p = Some (length bad) ->
  let r := ask_plain true question p (bad ++ rest) in
  pt_end r = Failed VInvalid /\ pt_read r = length bad /\ pt_msg r <> None.
Proof.
  intros question p acc bad rest Ha Hb Hne Hk. unfold ask_plain. cbn [negb]. rewrite Ha, Hk.
  exact (plain_loop_budget p acc _ bad rest None 0 Hb Hne).
Qed.
Print Assumptions plain_question_attempts_exact.

(* not vacuous: a three-entry script against a limit of three, with the text it writes *)
Example dialogue_nonvacuous :
  let q := {| q_choices := [[97%N]; [98%N]]; q_multi := false; q_default := None; q_attempts := Some 3 |} in
  let script := [[120%N]; []; [55%N]; [48%N]] in
  o_end (ask_choice true q script) = Failed VInvalid /\ o_lines_read (ask_choice true q script) = 3 /\
  snd (choice_text true q [63%N] script) = Some (msg_invalid [55%N]) /\
  fst (choice_text true q [63%N] script) = dialogue [63%N] [msg_invalid [120%N]; msg_none].
Proof. vm_compute. repeat split. Qed.
Theorem confirmation_end_of_input : forall dflt prefix, ask_confirm true dflt prefix [] = (CAborted, 0).
Proof. exact confirm_eof. Qed.
Print Assumptions confirmation_end_of_input.

(* ---- non-vacuity: choices yes / no / maybe, two attempts resp. unlimited ---- *)
Definition YES : str := [121;101;115]%N. Definition NO : str := [110;111]%N. Definition MAYBE : str := [109;97;121;98;101]%N.
Definition ex_q (att : option nat) : choiceq := {| q_choices := [YES; NO; MAYBE]; q_multi := false; q_default := None; q_attempts := att |}.
Definition X9 : str := [57]%N. Definition XX : str := [120]%N. Definition ONE_SP : str := [32;49;32]%N.
Example invalid_entries_hypotheses_hold :
  Forall (entry_invalid (ex_q None)) [X9; XX; []] /\ validate (ex_q None) (effective_answer (ex_q None) ONE_SP) = inr (AOne NO) /\
  ask_choice true (ex_q None) ([X9; XX; []] ++ ONE_SP :: [YES]) = {| o_end := Answered (AOne NO); o_lines_read := 4; o_errors_printed := 3; o_prompts := 4 |}.
Proof.
  split; [|split; vm_compute; reflexivity].
  repeat constructor; eexists; vm_compute; reflexivity.
Qed.
Example attempts_hypotheses_hold :
  Forall (entry_invalid (ex_q (Some 2))) [X9] /\ validate (ex_q (Some 2)) (effective_answer (ex_q (Some 2)) XX) = inl VInvalid /\
  ask_choice true (ex_q (Some 2)) (([X9] ++ [XX]) ++ [YES]) = {| o_end := Failed VInvalid; o_lines_read := 2; o_errors_printed := 1; o_prompts := 2 |}.
Proof. split; [|split; vm_compute; reflexivity]. repeat constructor; eexists; vm_compute; reflexivity. Qed.
Example end_of_input_instance :
  ask_choice true (ex_q None) [X9; XX] = {| o_end := Aborted; o_lines_read := 2; o_errors_printed := 2; o_prompts := 3 |}.
Proof. vm_compute. reflexivity. Qed.
Example interchange_hypotheses_hold :
  positions (q_choices (ex_q None)) NO 0 = [1] /\ positions (q_choices (ex_q None)) (dec_text 1) 0 = [] /\
  strip_ws ONE_SP = dec_text (Z.of_nat 1) /\ strip_ws NO = NO.
Proof. vm_compute. repeat split; reflexivity. Qed.
Example ambiguous_entry : validate {| q_choices := [YES; YES]; q_multi := false; q_default := None; q_attempts := None |} (Some YES) = inl VAmbiguous.
Proof. vm_compute. reflexivity. Qed.
