(* C03 - the resolver selects the deepest command named by the leading tokens.
   leading toks = the tokens before the first empty token, double dash or option-like token;
   descends named l b = following the names/aliases l from the collection named reaches command b. *)
From Coq Require Import Lia.
From Clikit Require Import Base.Prelude Base.Res Model.Conv Model.Flags Model.Format Model.Parser Model.Spell Model.Resolver
  Proofs.FormatLemmas Proofs.ResolverLemmas Proofs.ResolverAliasLemmas Proofs.SpellArgs Proofs.ParserAliasLemmas Proofs.ResolverAliasFullLemmas.

(* The walk reaches the command named by the LONGEST prefix of the leading tokens that names a path:
   a prefix l1 descends to b, and the next leading token (if any) names no sub-command of b ... *)
Theorem walk_deepest : forall named names b p,
  walk named None names = Ok (Some (b, p)) ->
  exists l1 l2, names = l1 ++ l2 /\ descends named l1 b /\
                match l2 with [] => True | n :: _ => coll_contains (named_of (b_subs b)) n = false end.
Proof.
  intros named names b p H. destruct (walk_some named None names b p H) as [[Hc _]|H']; [discriminate|exact H'].
Qed.
Print Assumptions walk_deepest.
(* The name path returned with it (what Application.resolve_command reports): the names - not the spellings used - of
   the commands passed on the way down, one per token of that prefix. *)
Theorem walk_reports_the_names_on_the_path : forall named names b p,
  walk named None names = Ok (Some (b, p)) ->
  exists l1 l2, names = l1 ++ l2 /\ descendsP named l1 b p /\ descends named l1 b /\ length p = length l1 /\
                match l2 with [] => True | n :: _ => coll_contains (named_of (b_subs b)) n = false end.
Proof.
  intros named names b p H. destruct (walk_path names named None b p H) as [[Hc _]|(l1 & l2 & q & E & Hd & Hp & Hn)]; [discriminate|].
  cbn in Hp. subst q. exists l1, l2. destruct (descendsP_descends _ _ _ _ Hd). auto.
Qed.
Print Assumptions walk_reports_the_names_on_the_path.
(* The walk never fails: a collection built from a list of commands never takes the KeyError branch of its lookup
   (every entry of the alias index names a command of the collection). *)
Theorem walk_never_fails : forall a toks, exists w, walk (named_of (ap_cmds a)) None (leading toks) = Ok w.
Proof. intros. unfold named_of. apply walk_total. Qed.
Print Assumptions walk_never_fails.
Theorem lookup_finds_a_sibling : forall l n, coll_contains (coll_of l) n = true ->
  exists b, coll_get (coll_of l) n = Ok b /\ In b l /\
            (b_name b = n \/ exists c, In c l /\ In n (b_aliases c) /\ b_name c = b_name b).
Proof. exact coll_get_total. Qed.
Print Assumptions lookup_finds_a_sibling.
(* ... and then no longer prefix names any path, and the path reached is unique. *)
Theorem no_longer_prefix_names_a_path : forall named l1 b, descends named l1 b ->
  forall n l3 b', coll_contains (named_of (b_subs b)) n = false -> ~ descends named (l1 ++ n :: l3) b'.
Proof. exact no_longer_path. Qed.
Print Assumptions no_longer_prefix_names_a_path.
Theorem path_is_unique : forall named l b, descends named l b -> forall b', descends named l b' -> b = b'.
Proof. exact descends_functional. Qed.
Print Assumptions path_is_unique.

(* From the command reached: its first parsable default sub-command, else the first default's parse
   error, else the command itself (resolve is exactly this expression). *)
Theorem resolve_deepest : forall a toks b p,
  walk (named_of (ap_cmds a)) None (leading toks) = Ok (Some (b, p)) ->
  resolve a toks =
    (do d <- pick_default (defaults_of (b_subs b)) toks None;
     match d with
     | Some (dc, r) => do x <- r; Ok (p ++ [b_name dc], b_fmt dc, x)
     | None => do x <- parse (b_fmt b) (b_lenient b) toks; Ok (p, b_fmt b, x) end).
Proof. exact resolve_walk. Qed.
Print Assumptions resolve_deepest.
Theorem default_choice_first_parsable : forall ds1 d a ds2 toks,
  Forall (fun x => parse (b_fmt x) (b_lenient x) toks = Err CannotParse) ds1 ->
  parse (b_fmt d) (b_lenient d) toks = Ok a ->
  forall first, pick_default (ds1 ++ d :: ds2) toks first = Ok (Some (d, Ok a)).
Proof. exact pick_default_first_parsable. Qed.
Print Assumptions default_choice_first_parsable.

(* ... else (none parsable) the FIRST default with its parse error; a default whose parse fails with anything but
   CannotParseArgs (NoSuchOption, ValueError of a conversion) ends the resolution at once with that error. *)
Theorem default_choice_none_parsable : forall d ds toks,
  Forall (cannot toks) (d :: ds) -> pick_default (d :: ds) toks None = Ok (Some (d, Err CannotParse)).
Proof. intros d ds toks H. exact (pick_default_all_cannot (d :: ds) toks None H). Qed.
Print Assumptions default_choice_none_parsable.
Theorem default_choice_no_defaults : forall toks, pick_default [] toks None = Ok None.
Proof. reflexivity. Qed.
Print Assumptions default_choice_no_defaults.
Theorem default_choice_other_error_leaves : forall ds1 d ds2 toks k, Forall (cannot toks) ds1 ->
  parse (b_fmt d) (b_lenient d) toks = Err k -> k <> CannotParse ->
  pick_default (ds1 ++ d :: ds2) toks None = Err k.
Proof. intros. apply pick_default_error_leaves; assumption. Qed.
Print Assumptions default_choice_other_error_leaves.
(* Every successful selection, completely: the command reached by the walk when it has no default sub-command, else
   its first default sub-command that parses the line (the ones before it cannot). *)
Theorem selection_shape : forall a toks b p q f x,
  walk (named_of (ap_cmds a)) None (leading toks) = Ok (Some (b, p)) ->
  resolve a toks = Ok (q, f, x) ->
  (defaults_of (b_subs b) = [] /\ q = p /\ f = b_fmt b /\ parse (b_fmt b) (b_lenient b) toks = Ok x) \/
  (exists ds1 d ds2, defaults_of (b_subs b) = ds1 ++ d :: ds2 /\ Forall (cannot toks) ds1 /\
                     parse (b_fmt d) (b_lenient d) toks = Ok x /\ q = p ++ [b_name d] /\ f = b_fmt d).
Proof. exact resolve_shape. Qed.
Print Assumptions selection_shape.

Theorem resolve_empty : forall a toks, leading toks = [] ->
  resolve a toks =
    (do d <- pick_default (defaults_of (ap_cmds a)) toks None;
     match d with
     | Some (dc, r) => do x <- r; Ok ([b_name dc], b_fmt dc, x)
     | None => Err CannotResolve end).
Proof. exact resolve_empty_lemma. Qed.
Print Assumptions resolve_empty.
Theorem resolve_unknown : forall a toks n r,
  leading toks = n :: r -> coll_contains (named_of (ap_cmds a)) n = false -> resolve a toks = Err CannotResolve.
Proof. exact resolve_unknown_lemma. Qed.
Print Assumptions resolve_unknown.

(* Replacing a name on the path by any of its aliases.  The earlier statement took `coll_get named n = coll_get named n'`
   as a hypothesis - the clause itself.  What holds: when the names and aliases of the (non-anonymous) siblings are
   pairwise distinct at every level (the code does not enforce this: Command.add_sub_command has a TODO, and
   ConsoleApplication.add_command checks the new NAME only), the name and every alias of a sibling look up that sibling,
   so two spellings of the same path (respells: level by level any key - name or alias - of the same command) walk to the
   same command and the same reported path, whatever follows. *)
Theorem alias_looks_up_its_command : forall l b k, siblings_distinct l -> In b l -> In k (keys b) ->
  coll_contains (coll_of l) k = true /\ coll_get (coll_of l) k = Ok b.
Proof. intros l b k Hd Hb Hk. split; [apply (contains_key l b k Hb Hk)|apply (get_by_key l b k Hd Hb Hk)]. Qed.
Print Assumptions alias_looks_up_its_command.
Theorem alias_invariant : forall l names names', tree_distinct l -> respells l names names' ->
  forall cur, walk (named_of l) cur names = walk (named_of l) cur names'.
Proof. intros l names names' Ht Hr. apply walk_respelled; assumption. Qed.
Print Assumptions alias_invariant.
(* At the level of resolve the default sub-command below the command reached is chosen by parsing the whole line,
   command-name tokens included.  This first statement takes "the parser treats the two spellings alike" as a hypothesis
   (named _partial for that reason; kept as it was).  alias_invariant_resolve below DISCHARGES that hypothesis for every
   application built by build_app. *)
Theorem alias_invariant_resolve_partial : forall a toks toks',
  tree_distinct (ap_cmds a) -> respells (ap_cmds a) (leading toks) (leading toks') ->
  (forall f len, parse f len toks = parse f len toks') ->
  resolve a toks = resolve a toks'.
Proof.
  intros a toks toks' Ht Hr Hp. unfold resolve. cbv zeta. rewrite (walk_respelled _ _ _ Hr Ht None).
  assert (forall ds first, pick_default ds toks first = pick_default ds toks' first) as Hpd.
  { induction ds as [|d r IH]; intros first; cbn [pick_default]; [reflexivity|]. rewrite Hp. destruct (parse _ _ toks') as [?|[]]; auto. }
  destruct (walk (named_of (ap_cmds a)) None (leading toks')) as [[[b p]|]|k]; cbn [bind]; [| |reflexivity].
  - rewrite Hpd. destruct (pick_default _ toks' None) as [[[dc r]|]|k]; cbn [bind]; auto. now rewrite Hp.
  - inversion Hr as [? ? E1 E2|? b k k' r r' Hb Hk Hk' Hr' E1 E2]; [|reflexivity]. now rewrite Hpd.
Qed.
Print Assumptions alias_invariant_resolve_partial.
(* The clause in full: "replacing a name on the path by any of its aliases never changes the selection" - the resolver's
   WHOLE answer: the selected name path, the format, the parsed arguments and options, or the same error.
   For every application built by build_app from a configuration whose arguments are constructed objects
   (cfg_args_valid: exactly one of REQUIRED / OPTIONAL, the normal form C07 arg_normal_form proves of every Argument), with
   distinct names and aliases among the siblings of every level (tree_distinct; necessary:
   alias_invariant_without_distinctness_refuted), every line names ++ rest and every respelling names' of the names on
   the path (respells: level by level any key - name or alias - of the same command; what follows the path, in names or in
   rest, is untouched and ARBITRARY: options, arguments, a tail), both spellings made of tokens that can be command names
   (lead_ok: not empty, not option-like; necessary: alias_must_be_a_plain_token).
   Why the parser side holds (Proofs/ParserAliasLemmas.v parse_respelled, the statement parser_treats_spellings_alike
   below): a command's format lists the command names of its path with their aliases (CommandConfig.build_args_format;
   command_formats_list_the_path: every format at or below a command on the respelled path starts with the command names
   both spellings match); DefaultArgsParser stores the leading tokens as raw text on pseudo-arguments, and
   _insert_missing_command_names only asks CommandName.match of them before Args.set_argument drops the pseudo-arguments
   again - so a leading token acts only through "matches the command name of its position". *)
Theorem alias_invariant_resolve : forall cfg a names names' rest,
  build_app cfg = Ok a -> cfg_args_valid cfg = true -> tree_distinct (ap_cmds a) ->
  respells (ap_cmds a) names names' -> forallb lead_ok names = true -> forallb lead_ok names' = true ->
  resolve a (names ++ rest) = resolve a (names' ++ rest).
Proof. exact resolve_respelled. Qed.
Print Assumptions alias_invariant_resolve.
(* the parser side on its own: a well-formed format (SpellArgs.fmt_facts: what fmt_inv / fmt_ok give, C06) parses two
   lines alike that differ only in their first tokens, when both spell - by name or alias, as plain tokens - the format's
   first command names (names_ok); any leniency, any rest *)
Theorem parser_treats_spellings_alike : forall f g A cns ks ks' len rest,
  fmt_facts f g A cns -> names_ok cns ks = true -> names_ok cns ks' = true -> length ks = length ks' ->
  parse f len (ks ++ rest) = parse f len (ks' ++ rest).
Proof. intros f g A cns ks ks' len rest FF H1 H2 H3. exact (parse_respelled f g A cns FF ks ks' H1 H2 H3 len rest). Qed.
Print Assumptions parser_treats_spellings_alike.
(* the tree side: build_app gives every command a well-formed format that lists the command names (with aliases) of its
   non-anonymous ancestors and its own (cn_tree, from the empty list at the top) *)
Theorem command_formats_list_the_path : forall cfg a, build_app cfg = Ok a -> cfg_args_valid cfg = true ->
  Forall (cn_tree []) (ap_cmds a).
Proof. exact build_app_cn. Qed.
Print Assumptions command_formats_list_the_path.
(* Without distinctness the clause is FALSE of the model (and of the code: CommandCollection's alias index is last
   writer wins): siblings add[x] and del[x] - the alias x of add selects del. *)
Theorem alias_invariant_without_distinctness_refuted :
  exists l b a, In b l /\ In a (b_aliases b) /\ coll_get (coll_of l) a <> Ok b.
Proof.
  exists [BCmd [97;100;100]%N [[120]%N] false false false (Fmt None [] [] [] [] [] [] false false) [];
          BCmd [100;101;108]%N [[120]%N] false false false (Fmt None [] [] [] [] [] [] false false) []],
         (BCmd [97;100;100]%N [[120]%N] false false false (Fmt None [] [] [] [] [] [] false false) []), [120]%N.
  split; [left; reflexivity|]. split; [left; reflexivity|]. vm_compute. intros K. discriminate K.
Qed.
Print Assumptions alias_invariant_without_distinctness_refuted.

(* Adding options after the path / anything after the double dash: the leading tokens, hence the NAMED command the
   walk reaches, do not change ... *)
Theorem options_invariant : forall l o r, forallb lead_ok l = true -> starts_dash o = true -> leading (l ++ o :: r) = l.
Proof. intros l o r Hl Ho. apply leading_cut; [exact Hl | apply option_is_stopper, Ho]. Qed.
Print Assumptions options_invariant.
Theorem options_keep_the_named_command : forall named l o r, forallb lead_ok l = true -> starts_dash o = true ->
  walk named None (leading (l ++ o :: r)) = walk named None (leading l).
Proof. exact walk_options_invariant. Qed.
Print Assumptions options_keep_the_named_command.
Theorem tail_invariant : forall l t t', leading (l ++ [DASH; DASH] :: t) = leading (l ++ [DASH; DASH] :: t').
Proof. intros. apply leading_behind_stopper, dd_is_stopper. Qed.
Print Assumptions tail_invariant.
Theorem tail_keeps_the_named_command : forall named l (t : list str), forallb lead_ok l = true ->
  walk named None (leading (l ++ [DASH; DASH] :: t)) = walk named None (leading l).
Proof. intros named l t Hl. f_equal. rewrite (leading_all l Hl). exact (leading_cut l _ t Hl dd_is_stopper). Qed.
Print Assumptions tail_keeps_the_named_command.
(* ... and the SELECTION does not change either when the command reached has at most one default sub-command: two lines
   with the same leading tokens that both resolve select the same command. *)
Theorem same_leading_tokens_same_selection : forall a toks toks' b p q f x q' f' x',
  leading toks = leading toks' ->
  walk (named_of (ap_cmds a)) None (leading toks) = Ok (Some (b, p)) ->
  length (defaults_of (b_subs b)) <= 1 ->
  resolve a toks = Ok (q, f, x) -> resolve a toks' = Ok (q', f', x') -> q = q' /\ f = f'.
Proof. exact same_leading_same_selection. Qed.
Print Assumptions same_leading_tokens_same_selection.

(* With two default sub-commands the clause "adding options after the path never changes the selection" (and "tokens
   after -- never take part in it") is FALSE of the model, and of the code (same lines, same answers): the default
   sub-command is the first one that PARSES the line, and options / the tail decide that.
   Tree: srv [s] { add [a] <v?>, del [d], x1 (default, anonymous, --flag), x2 (default, anonymous, --flag=VALUE, <v?>) }, top (default). *)
Definition s_srv : str := [115;114;118]%N. Definition s_s : str := [115]%N.
Definition s_add : str := [97;100;100]%N.  Definition s_a : str := [97]%N.
Definition s_del : str := [100;101;108]%N. Definition s_d : str := [100]%N.
Definition s_x1 : str := [120;49]%N.       Definition s_x2 : str := [120;50]%N.
Definition s_flag : str := [102;108;97;103]%N. Definition s_top : str := [116;111;112]%N.
Definition o_nov : opt := {| o_long := s_flag; o_short := None; o_flags := opt_defaults 4 false; o_default := VNone |}.
Definition o_req : opt := {| o_long := s_flag; o_short := None; o_flags := opt_defaults 8 false; o_default := VNone |}.
Definition a_opt : arg := {| a_name := [118]%N; a_flags := arg_defaults 2; a_default := VNone |}.
Definition cfg : appcfg :=
  {| ac_opts := []; ac_args := [];
     ac_cmds := [Cmd s_srv [s_s] false false true false [] []
                   [Cmd s_add [s_a] false false true false [] [a_opt] []; Cmd s_del [s_d] false false true false [] [] [];
                    Cmd s_x1 [] true true true false [o_nov] [] []; Cmd s_x2 [] true true true false [o_req] [a_opt] []];
                 Cmd s_top [] true false true false [] [] []] |}.
Definition cmds0 : list bcmd := match build_app cfg with Ok ap => ap_cmds ap | Err _ => [] end.
Definition selected (toks : list str) : res (list str) :=
  do ap <- build_app cfg; do r <- resolve ap toks; Ok (fst (fst r)).
Definition t_flag3 : str := [45;45;102;108;97;103;61;51]%N.    (* --flag=3 *)

Theorem options_after_the_path_change_the_default_refuted :
  forallb lead_ok [s_srv] = true /\ starts_dash t_flag3 = true /\
  selected [s_srv] = Ok [s_srv; s_x1] /\ selected ([s_srv] ++ [t_flag3]) = Ok [s_srv; s_x2].
Proof. vm_compute. repeat split. Qed.
Print Assumptions options_after_the_path_change_the_default_refuted.
Theorem tail_changes_the_default_refuted :
  selected [s_srv] = Ok [s_srv; s_x1] /\ selected ([s_srv] ++ [[DASH; DASH]; [122]%N]) = Ok [s_srv; s_x2].
Proof. vm_compute. repeat split. Qed.
Print Assumptions tail_changes_the_default_refuted.

(* ---- the hypotheses are satisfiable on that tree (depth 2, aliases, two anonymous defaults) ---- *)
Example tree_is_distinct : cmds0 <> [] /\ tree_distinct cmds0.
Proof.
  split; [vm_compute; discriminate|].
  assert (forall l : list bcmd, l = [] -> tree_distinct l) as Leaf.
  { intros l ->. constructor; [constructor|intros b []]. }
  unfold cmds0. vm_compute build_app. constructor.
  - unfold siblings_distinct. cbn. repeat (constructor; [cbn; intuition discriminate|]). constructor.
  - intros b [<-|[<-|[]]]; cbn [b_subs]; [|apply Leaf; reflexivity]. constructor.
    + unfold siblings_distinct. cbn. repeat (constructor; [cbn; intuition discriminate|]). constructor.
    + intros b [<-|[<-|[<-|[<-|[]]]]]; apply Leaf; reflexivity.
Qed.
Example respelled_path : respells cmds0 [s_srv; s_add; [122]%N] [s_s; s_a; [122]%N].
Proof.
  unfold cmds0. vm_compute build_app.
  eapply rs_step; [left; reflexivity|left; reflexivity|right; left; reflexivity|]. cbn [b_subs].
  eapply rs_step; [left; reflexivity|left; reflexivity|right; left; reflexivity|]. apply rs_same.
Qed.
Example walk_instance : exists b, walk (named_of cmds0) None [s_s; s_a; [122]%N] = Ok (Some (b, [s_srv; s_add])) /\ b_name b = s_add.
Proof. vm_compute. eexists. split; reflexivity. Qed.
Example selections :
  selected [s_s; s_a] = Ok [s_srv; s_add] /\ selected [s_srv; s_add; [122]%N] = Ok [s_srv; s_add] /\
  selected [] = Ok [s_top] /\ selected [[122]%N] = Err CannotResolve /\ selected [s_srv; t_flag3] = Ok [s_srv; s_x2].
Proof. vm_compute. repeat split. Qed.
(* the hypotheses of the default-choice theorems on that tree: below srv the defaults are x1, x2 (in that order); the line
   srv --flag=3 cannot be parsed for x1 (its --flag takes no value) and parses for x2 *)
Example default_choice_instance :
  match walk (named_of cmds0) None [s_srv] with
  | Ok (Some (b, p)) =>
    p = [s_srv] /\
    match defaults_of (b_subs b) with
    | [d1; d2] => b_name d1 = s_x1 /\ b_name d2 = s_x2 /\ cannot [s_srv; t_flag3] d1 /\
                  (exists a, parse (b_fmt d2) (b_lenient d2) [s_srv; t_flag3] = Ok a) /\
                  (exists a, parse (b_fmt d1) (b_lenient d1) [s_srv] = Ok a)
    | _ => False end
  | _ => False end.
Proof. vm_compute. repeat split; try reflexivity; eexists; reflexivity. Qed.
(* and of same_leading_tokens_same_selection: below "top" there is no default sub-command *)
Example one_default_instance :
  match walk (named_of cmds0) None [s_top] with
  | Ok (Some (b, p)) => length (defaults_of (b_subs b)) <= 1 /\ leading [s_top; t_flag3] = leading [s_top]
  | _ => False end.
Proof. vm_compute. split; [lia|reflexivity]. Qed.

(* ---- alias_invariant_resolve on a tree with aliases at two levels and a NAMED default sub-command:
   server [srv, s] { add [a] <v?> --flag, list [ls] (default) <w?>, del [d] }, top (default) ---- *)
Definition s_server : str := [115;101;114;118;101;114]%N. Definition s_list : str := [108;105;115;116]%N.
Definition s_ls : str := [108;115]%N. Definition s_w : str := [119]%N. Definition s_z : str := [122]%N.
Definition t_flag : str := [45;45;102;108;97;103]%N.            (* --flag *)
Definition a_w : arg := {| a_name := s_w; a_flags := arg_defaults 2; a_default := VNone |}.
Definition cfg3 : appcfg :=
  {| ac_opts := []; ac_args := [];
     ac_cmds := [Cmd s_server [s_srv; s_s] false false true false [] []
                   [Cmd s_add [s_a] false false true false [o_nov] [a_opt] [];
                    Cmd s_list [s_ls] true false true false [] [a_w] [];
                    Cmd s_del [s_d] false false true false [] [] []];
                 Cmd s_top [] true false true false [] [] []] |}.
Definition cmds3 : list bcmd := match build_app cfg3 with Ok ap => ap_cmds ap | Err _ => [] end.
Example tree3_is_distinct : tree_distinct cmds3.
Proof.
  assert (forall l : list bcmd, l = [] -> tree_distinct l) as Leaf.
  { intros l ->. constructor; [constructor|intros b []]. }
  unfold cmds3. vm_compute build_app. constructor.
  - unfold siblings_distinct. cbn. repeat (constructor; [cbn; intuition discriminate|]). constructor.
  - intros b [<-|[<-|[]]]; cbn [b_subs]; [|apply Leaf; reflexivity]. constructor.
    + unfold siblings_distinct. cbn. repeat (constructor; [cbn; intuition discriminate|]). constructor.
    + intros b [<-|[<-|[<-|[]]]]; apply Leaf; reflexivity.
Qed.
Example respelled3 : respells cmds3 [s_server; s_add] [s_s; s_a] /\ respells cmds3 [s_server] [s_srv].
Proof.
  unfold cmds3. vm_compute build_app. split.
  - eapply rs_step; [left; reflexivity|left; reflexivity|right; right; left; reflexivity|]. cbn [b_subs].
    eapply rs_step; [left; reflexivity|left; reflexivity|right; left; reflexivity|]. apply rs_same.
  - eapply rs_step; [left; reflexivity|left; reflexivity|right; left; reflexivity|]. apply rs_same.
Qed.
(* the hypotheses hold, the theorem applies (two levels respelled; options and an argument behind the path), and the
   answers are what they should be: "server add z --flag" = "s a z --flag" selects server add with v = z and the flag;
   "server" = "srv" = "s" (and with an argument behind) select the NAMED default sub-command server list *)
Example alias_invariant_resolve_applied : forall a, build_app cfg3 = Ok a ->
  resolve a ([s_server; s_add] ++ [s_z; t_flag]) = resolve a ([s_s; s_a] ++ [s_z; t_flag]) /\
  resolve a ([s_server] ++ [[DASH; DASH]; s_z]) = resolve a ([s_srv] ++ [[DASH; DASH]; s_z]).
Proof.
  intros a Ha. assert (ap_cmds a = cmds3) as E by (unfold cmds3; now rewrite Ha).
  pose proof tree3_is_distinct as Ht. destruct respelled3 as [R1 R2]. rewrite <- E in Ht, R1, R2.
  split; apply (alias_invariant_resolve cfg3 a); try assumption; reflexivity.
Qed.
Definition selected3 (toks : list str) : res (list str * list (str * pyval) * list (str * pyval)) :=
  do ap <- build_app cfg3; do r <- resolve ap toks; Ok (fst (fst r), ar_args (snd r), ar_opts (snd r)).
Example alias_answers3 :
  cfg_args_valid cfg3 = true /\
  selected3 [s_server; s_add; s_z; t_flag] = Ok ([s_server; s_add], [([118]%N, VStr s_z)], [(s_flag, VBool true)]) /\
  selected3 [s_s; s_a; s_z; t_flag] = selected3 [s_server; s_add; s_z; t_flag] /\
  selected3 [s_server] = Ok ([s_server; s_list], [], []) /\ selected3 [s_srv] = selected3 [s_server] /\ selected3 [s_s] = selected3 [s_server] /\
  selected3 [s_srv; [DASH; DASH]; s_z] = Ok ([s_server; s_list], [(s_w, VStr s_z)], []) /\
  selected3 [s_server; s_ls; s_z] = Ok ([s_server; s_list], [(s_w, VStr s_z)], []) /\
  selected3 [s_s; s_list; s_z] = selected3 [s_server; s_ls; s_z].
Proof. vm_compute. repeat split. Qed.
(* lead_ok is needed: an alias that looks like an option is no spelling of the path - the walk stops in front of it.
   server { add [-a] }, no defaults: "server add" selects server add, "server -a" does not (NoSuchOption) *)
Definition t_dash_a : str := [45;97]%N.
Definition cfg4 : appcfg :=
  {| ac_opts := []; ac_args := [];
     ac_cmds := [Cmd s_server [] false false true false [] [] [Cmd s_add [t_dash_a] false false true false [] [] []]] |}.
Example alias_must_be_a_plain_token :
  lead_ok t_dash_a = false /\
  (do ap <- build_app cfg4; do r <- resolve ap [s_server; s_add]; Ok (fst (fst r))) = Ok [s_server; s_add] /\
  (do ap <- build_app cfg4; do r <- resolve ap [s_server; t_dash_a]; Ok (fst (fst r))) = Err NoSuchOption.
Proof. vm_compute. repeat split. Qed.
