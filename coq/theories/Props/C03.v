(* C03 - the resolver selects the deepest command named by the leading tokens.
   leading toks = the tokens before the first empty token, double dash or option-like token;
   descends named l b = following the names/aliases l from the collection named reaches command b. *)
From Clikit Require Import Base.Prelude Base.Res Model.Conv Model.Format Model.Parser Model.Resolver Proofs.ResolverLemmas.

(* The walk reaches the command named by the LONGEST prefix of the leading tokens that names a path:
   a prefix l1 descends to b, and the next leading token (if any) names no sub-command of b ... *)
Theorem walk_deepest : forall named names b p,
  walk named None names = Ok (Some (b, p)) ->
  exists l1 l2, names = l1 ++ l2 /\ descends named l1 b /\
                match l2 with [] => True | n :: _ => coll_contains (named_of (b_subs b)) n = false end.
Proof.
  intros named names b p H. destruct (walk_some named None names b p H) as [[Hc _]|H']; [discriminate|exact H'].
Qed.
Print Assumptions walk_deepest.
(* ... and then no longer prefix names any path, and the path reached is unique. *)
Theorem no_longer_prefix_names_a_path : forall named l1 b, descends named l1 b ->
  forall n l3 b', coll_contains (named_of (b_subs b)) n = false -> ~ descends named (l1 ++ n :: l3) b'.
Proof. exact no_longer_path. Qed.
Print Assumptions no_longer_prefix_names_a_path.
Theorem path_is_unique : forall named l b, descends named l b -> forall b', descends named l b' -> b = b'.
Proof. exact descends_functional. Qed.
Print Assumptions path_is_unique.

(* From the command reached: its first parsable default sub-command, else the first default's parse
   error, else the command itself (resolve is exactly this expression). *)
Theorem resolve_deepest : forall a toks b p,
  walk (named_of (ap_cmds a)) None (leading toks) = Ok (Some (b, p)) ->
  resolve a toks =
    (do d <- pick_default (defaults_of (b_subs b)) toks None;
     match d with
     | Some (dc, r) => do x <- r; Ok (p ++ [b_name dc], b_fmt dc, x)
     | None => do x <- parse (b_fmt b) (b_lenient b) toks; Ok (p, b_fmt b, x) end).
Proof. exact resolve_walk. Qed.
Print Assumptions resolve_deepest.
Theorem default_choice_first_parsable : forall ds1 d a ds2 toks,
  Forall (fun x => parse (b_fmt x) (b_lenient x) toks = Err CannotParse) ds1 ->
  parse (b_fmt d) (b_lenient d) toks = Ok a ->
  forall first, pick_default (ds1 ++ d :: ds2) toks first = Ok (Some (d, Ok a)).
Proof. exact pick_default_first_parsable. Qed.
Print Assumptions default_choice_first_parsable.

Theorem resolve_empty : forall a toks, leading toks = [] ->
  resolve a toks =
    (do d <- pick_default (defaults_of (ap_cmds a)) toks None;
     match d with
     | Some (dc, r) => do x <- r; Ok ([b_name dc], b_fmt dc, x)
     | None => Err CannotResolve end).
Proof. exact resolve_empty_lemma. Qed.
Print Assumptions resolve_empty.
Theorem resolve_unknown : forall a toks n r,
  leading toks = n :: r -> coll_contains (named_of (ap_cmds a)) n = false -> resolve a toks = Err CannotResolve.
Proof. exact resolve_unknown_lemma. Qed.
Print Assumptions resolve_unknown.

(* Replacing a name on the path by another spelling that looks up the same command changes nothing. *)
Theorem alias_invariant : forall named cur n n' r,
  coll_contains named n = true -> coll_contains named n' = true -> coll_get named n = coll_get named n' ->
  walk named cur (n :: r) = walk named cur (n' :: r).
Proof. exact walk_alias. Qed.
Print Assumptions alias_invariant.

(* Adding options after the path / anything after the double dash: the leading tokens, hence the
   named path, do not change. *)
Theorem options_invariant : forall l o r, forallb lead_ok l = true -> starts_dash o = true -> leading (l ++ o :: r) = l.
Proof. intros l o r Hl Ho. apply leading_cut; [exact Hl | apply option_is_stopper, Ho]. Qed.
Print Assumptions options_invariant.
Theorem tail_invariant : forall l t t', leading (l ++ [DASH; DASH] :: t) = leading (l ++ [DASH; DASH] :: t').
Proof. intros. apply leading_behind_stopper, dd_is_stopper. Qed.
Print Assumptions tail_invariant.
