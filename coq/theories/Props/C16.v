(* C16 - WORK IN PROGRESS (theorems being ported) *)
From Coq Require Import ZArith.
From Clikit Require Import Base.Prelude Base.Res Base.Term Model.Conv Model.Markup Model.Section Model.Progress Proofs.ProgressLemmas.
Local Open Scope Z_scope.
Theorem new_bar_in_range : forall ansi quiet sec w f st v mx bw mn md xn xd rf pc cu msg now,
  range (pb_new ansi quiet sec w f st v mx bw mn md xn xd rf pc cu msg now).
Proof. exact new_range. Qed.
Print Assumptions new_bar_in_range.
