(* C16 - a progress bar always shows a truthful, well-formed frame and ends at 100%.
   pstep p now op = Ok (p', es): one public call at clock value now (milliseconds) leaves the bar in state p' and puts the
   emits es on the stream (Err: the call raises - %estimated% / %remaining% without a maximum, a text the formatter refuses).
   range p = 0 <= step, 0 <= max, max > 0 -> step <= max.  drawable p = the output is not quiet (and, on a section output,
   the bar's section exists).  The frame is markup: it is measured by its visible length and reaches the stream through
   the formatter of the output; on a section output through SectionOutput.clear / write (Model/Section.v). *)
From Coq Require Import ZArith.
From Clikit Require Import Base.Prelude Base.Res Base.Term Model.Conv Model.Markup Model.Section Model.Progress
  Proofs.SectionLemmas Proofs.ProgressLemmas.
Local Open Scope Z_scope.

(* For EVERY sequence of calls and every timing: the current step stays between 0 and the maximum ... *)
Theorem step_in_range : forall p now o p' es, pstep p now o = Ok (p', es) -> range p -> range p'.
Proof. exact pstep_range. Qed.
Print Assumptions step_in_range.
Theorem new_bar_in_range : forall ansi quiet sec w f st v mx bw mn md xn xd rf pc cu msg now,
  range (pb_new ansi quiet sec w f st v mx bw mn md xn xd rf pc cu msg now).
Proof. exact new_range. Qed.
Print Assumptions new_bar_in_range.

(* ... every frame's bar segment is exactly as wide as configured (a progress character of one visible cell: pc is its
   visible text; the offset of a bar without maximum is the double arithmetic of the code, bit for bit), and the
   percentage shown is floor(100 * step / max), between 0 and 100 and equal to 100 exactly at the maximum. *)
Theorem frame_wf : forall p, range p -> 0 < p_bar_width p -> length (render_bar p) = Z.to_nat (p_bar_width p).
Proof. exact render_bar_width. Qed.
Print Assumptions frame_wf.
Theorem frame_wf_any_progress_character : forall p pc, range p -> 0 < p_bar_width p -> length pc = 1%nat ->
  length (render_bar_with p pc 1) = Z.to_nat (p_bar_width p).
Proof. exact render_bar_with_width. Qed.
Print Assumptions frame_wf_any_progress_character.
Theorem percent_wf : forall p, range p -> 0 < p_max p -> 0 <= p_step p * 100 / p_max p <= 100.
Proof. exact percent_bounds. Qed.
Print Assumptions percent_wf.
Theorem percent_100_at_max : forall p, 0 < p_max p -> p_step p = p_max p -> p_step p * 100 / p_max p = 100.
Proof. exact percent_at_max. Qed.
Print Assumptions percent_100_at_max.
Theorem percent_100_only_at_max : forall p, range p -> 0 < p_max p -> p_step p * 100 / p_max p = 100 -> p_step p = p_max p.
Proof. exact ProgressLemmas.percent_100_only_at_max. Qed.
Print Assumptions percent_100_only_at_max.

(* A redraw caused by advancing that does not reach the maximum comes no sooner than the minimum interval
   after the previous write. *)
Theorem throttle : forall p now k p' es, set_progress p now k = Ok (p', es) ->
  es <> [] -> p_step p' <> p_max p' -> p_min_num p * 1000 <= (now - p_last_write p) * p_min_den p.
Proof. exact throttle_lemma. Qed.
Print Assumptions throttle.

(* Reaching the maximum and finishing always draw on an overwriting output (ANSI, plain stream or section) that is not
   quiet; after finish step = max. *)
Theorem max_reached_draws : forall p now k p' es, drawable p -> p_ansi p = true -> set_progress p now k = Ok (p', es) ->
  p_step p' = p_max p' -> es <> [].
Proof. exact reaching_max_draws. Qed.
Print Assumptions max_reached_draws.
Theorem finish_shows_max : forall p now p' es, drawable p -> p_ansi p = true -> range p -> pstep p now OFinish = Ok (p', es) ->
  es <> [] /\ p_step p' = p_max p'.
Proof. exact finish_lemma. Qed.
Print Assumptions finish_shows_max.
(* On EVERY output that is not quiet (plain ones included): after finish the step is the maximum and the last frame
   display() wrote is the frame of that state (step = max) - on a plain output it may be the frame written when the
   maximum was reached, which is not written a second time. *)
Theorem finish_last_frame_is_max : forall p now p' es, p_quiet p = false -> range p -> pstep p now OFinish = Ok (p', es) ->
  p_step p' = p_max p' /\ p_drawn p' = Some (p_max p', p_max p').
Proof. exact finish_last_frame. Qed.
Print Assumptions finish_last_frame_is_max.

(* Plain output: only text and line breaks, never a control code. Quiet output: nothing at all from the bar's calls. *)
Theorem plain_own_line : forall p now o p' es, p_ansi p = false -> pstep p now o = Ok (p', es) -> forallb plain_emit es = true.
Proof. exact pstep_plain. Qed.
Print Assumptions plain_own_line.
Theorem quiet_silent : forall p now o p' es, p_quiet p = true -> bar_call o -> pstep p now o = Ok (p', es) -> es = [].
Proof. exact pstep_quiet. Qed.
Print Assumptions quiet_silent.

(* ================= the FRAMES written (not only the states) ================= *)
From Clikit Require Import Proofs.ProgressFrameLemmas.

(* draw_state p now o = the state a start / advance / set_progress / display / finish call renders when it draws: the
   state the call leaves (step, maximum), before the write is recorded.
   Whenever such a call puts anything on the stream, what it puts there is _overwrite of the frame rendered from
   draw_state - whose step and maximum are those the call leaves - with the format fixed (with_fmt), at the clock value
   of the call.  So no frame ever shows a step or maximum other than the current ones. *)
Theorem frame_written_is_frame_of_post_state : forall p now o p' es q,
  pstep p now o = Ok (p', es) -> draw_state p now o = Some q -> es <> [] ->
  p_step q = p_step p' /\ p_max q = p_max p' /\
  exists fm fr p2, frame_of (with_fmt q) now = Ok (fm, fr) /\
    overwrite (set_out (with_fmt q) fm (p_secs (with_fmt q))) now fr = Ok (p2, es) /\
    p' = set_drawn p2 (Some (p_step q, p_max q)).
Proof. exact frame_of_post_state. Qed.
Print Assumptions frame_written_is_frame_of_post_state.

(* A rendered frame is the concatenation, placeholder by placeholder, of: the literal text; %current% = the step,
   right-justified; %max% = the maximum; %percent% = percent_of; %elapsed% = the time since start; %message%; %bar% = a bar
   segment (frame_wf gives its width); %estimated% / %remaining% only with a maximum. *)
Theorem frame_pieces_show_state : forall q now, 0 <= p_max q -> forall f fm fm' fr,
  render_frame q now fm f = Ok (fm', fr) -> exists parts, fr = concat parts /\ Forall2 (shows q now) f parts.
Proof. exact render_frame_pieces. Qed.
Print Assumptions frame_pieces_show_state.
(* ... and the percentage every frame shows is between 0 and 100, is floor(100 * step / max), and is 100 exactly when the
   step is the maximum. *)
Theorem percent_shown : forall q, range q ->
  0 <= percent_of q <= 100 /\ (0 < p_max q -> percent_of q = p_step q * 100 / p_max q) /\
  (0 < p_max q -> (percent_of q = 100 <-> p_step q = p_max q)).
Proof. exact percent_of_spec. Qed.
Print Assumptions percent_shown.

(* ANSI output (not a section, not quiet, a one-line format, frames of good markup that fit the terminal width):
     ansi_out w sty p     the output is such an output, the formatter's style stack is empty, last length <= w
     on_line R r t        the cursor of terminal t is in its last row, which holds r; the rows above are R
     okl sty l            l is one line of good markup and does not end inside a tag (blanks may follow it)
     padded_to n v        v followed by blanks up to n cells
   One _overwrite of such a line l: whatever shorter-or-equal text the line held, it now holds exactly the VISIBLE text of
   l padded to the previous length - no residue of a longer earlier frame - and that length is recorded. *)
Theorem ansi_line_is_latest : forall w, (1 <= w)%nat -> forall sty q now l p' es R r t,
  ansi_out w sty q -> on_line R r t -> (length r <= p_last_len q)%nat -> okl sty l -> (length (vis sty l) <= w)%nat ->
  overwrite q now l = Ok (p', es) ->
  on_line R (padded_to (p_last_len q) (vis sty l)) (feed w t es) /\
  exists f', fmt_ok sty f' /\ p' = set_written (set_out q f' (p_secs q)) (length (padded_to (p_last_len q) (vis sty l))) now.
Proof. exact ansi_overwrite. Qed.
Print Assumptions ansi_line_is_latest.
(* One call (step_fits: the frame it would draw is such a line): the premises are re-established, and if the call wrote
   anything the line holds exactly the frame of the state the call leaves (shown_by: its visible text, padded; blanks
   after clear); if it wrote nothing the line is as before. *)
Theorem ansi_line_after_a_call : forall w, (1 <= w)%nat -> forall sty p now o p' es R r t,
  ansi_out w sty p -> on_line R r t -> (length r <= p_last_len p)%nat -> step_fits w sty p now o -> pstep p now o = Ok (p', es) ->
  ansi_out w sty p' /\ on_line R (match es with [] => r | _ => shown_by sty p now o end) (feed w t es) /\
  (length (match es with [] => r | _ => shown_by sty p now o end) <= p_last_len p')%nat.
Proof. exact ansi_step. Qed.
Print Assumptions ansi_line_after_a_call.
(* EVERY history with EVERY timing (run_fits: each frame drawn on the way is such a line; run_fitsb is the same as a check
   that can be run): the rows above stay, the line shows the frame of the latest call that wrote (run_shown), nothing else. *)
Theorem ansi_line_over_histories : forall w, (1 <= w)%nat -> forall sty ops p now R r t trace pf,
  ansi_out w sty p -> on_line R r t -> (length r <= p_last_len p)%nat -> run_fits w sty p now ops ->
  prun p now ops = Ok (trace, pf) ->
  ansi_out w sty pf /\ on_line R (run_shown sty p now ops r) (feed w t (flat_map snd trace)) /\
  (length (run_shown sty p now ops r) <= p_last_len pf)%nat.
Proof. exact ansi_run. Qed.
Print Assumptions ansi_line_over_histories.
Theorem run_fits_can_be_run : forall w sty ops p now, run_fitsb w sty p now ops = true -> run_fits w sty p now ops.
Proof. exact run_fitsb_ok. Qed.
Print Assumptions run_fits_can_be_run.

(* Section output (sec_out: decorated, not quiet, the bar's section is the first of the output's sections, the screen t is
   the stack of all sections - SectionLemmas.Inv, the invariant of C15 - and every row count is right).
   One call of the bar, or one write_line to a section below (good markup): the screen is again the stack of the sections -
   the bar's frame replaces the rows of its own section only - and a call of the BAR leaves every section below exactly
   as it was (content and row count). *)
Theorem section_below_intact : forall w, (1 <= w)%nat -> forall sty p now o p' es t,
  sec_out w sty p t -> sec_step_ok sty p now o -> good_pop sty o = true -> pstep p now o = Ok (p', es) ->
  sec_out w sty p' (feed w t es) /\ (bar_call o -> skipn 1 (p_secs p') = skipn 1 (p_secs p)).
Proof. exact sec_step. Qed.
Print Assumptions section_below_intact.
Theorem section_below_intact_over_histories : forall w, (1 <= w)%nat -> forall sty ops p now t trace pf,
  sec_out w sty p t -> sec_run_ok sty p now ops -> forallb (good_pop sty) (map snd ops) = true ->
  prun p now ops = Ok (trace, pf) ->
  sec_out w sty pf (feed w t (flat_map snd trace)) /\
  (Forall bar_call (map snd ops) -> skipn 1 (p_secs pf) = skipn 1 (p_secs p)).
Proof. exact sec_run. Qed.
Print Assumptions section_below_intact_over_histories.
Theorem sec_run_ok_can_be_run : forall sty ops p now, sec_run_okb sty p now ops = true -> sec_run_ok sty p now ops.
Proof. exact sec_run_okb_ok. Qed.
Print Assumptions sec_run_ok_can_be_run.

(* ---- instances: the premises are inhabited by non-trivial histories ---- *)
Definition demo_f : formatter :=
  match new_formatter (FAnsi true) [] with Ok f => f | Err _ => {| f_kind := FAnsi true; f_styles := []; f_stack := [] |} end.
Definition m_long : str := [60;105;110;102;111;62;108;111;110;103;101;114;60;47;105;110;102;111;62;32;109;115;103]%N.  (* <info>longer</info> msg *)
Definition m_short : str := [60;105;110;102;111;62;120;60;47;105;110;102;111;62]%N.                                    (* <info>x</info> *)
Definition f_msg : format := [PLit [32]%N; PCurrent; PLit [47]%N; PMax; PLit [32;91]%N; PBar; PLit [93;32]%N; PPercent (SRight 3);
                              PLit [37;32]%N; PMessage].
Definition demo_ops : list (Z * pop) :=
  [(0, OStart None); (200, OAdvance 1); (0, OMessage m_short); (200, OAdvance 3); (10, OAdvance 1); (200, OClear); (0, ODisplay); (50, OFinish)].
(* ANSI, width 60, a format with %message%: a long tagged message, then a short one - the line is the latest frame *)
Definition demo_ansi : pbar :=
  pb_new true false false 60 demo_f [] 0 10 10 1 10 1 1 None [60;105;110;102;111;62;62;60;47;105;110;102;111;62]%N (Some f_msg) (Some m_long) 1000.
Example c16_ansi_premises : run_fitsb 60 (f_styles demo_f) demo_ansi 1000 demo_ops = true /\
  p_ansi demo_ansi = true /\ p_quiet demo_ansi = false /\ p_section demo_ansi = false /\ p_flc demo_ansi = 0%nat /\
  good_lineb (f_styles demo_f) (p_pchar demo_ansi) = true /\ f_stack (p_f demo_ansi) = [].
Proof. vm_compute. repeat split. Qed.
Example c16_ansi_line :
  match prun demo_ansi 1000 demo_ops with
  | Ok (trace, pf) => rows (feed 60 term_init (flat_map snd trace)) = [run_shown (f_styles demo_f) demo_ansi 1000 demo_ops []]
                      /\ p_step pf = 10 /\ p_max pf = 10
  | Err _ => False
  end.
Proof. vm_compute. repeat split. Qed.
(* a section output at width 30 with a section below: the frame wraps inside its own section, the section below stays *)
Definition demo_sec_setup := srun true 30 [] demo_f [SCreate; SCreate; SWrite 1 [98;101;108;111;119]%N true].
Definition demo_sec : pbar :=
  match demo_sec_setup with
  | Ok (st, f, _) => pb_new true false true 30 f st 0 10 10 0 1 1 1 (Some 2) [62]%N (Some f_msg) (Some m_long) 1000
  | Err _ => demo_ansi
  end.
Example c16_section_premises : sec_run_okb (f_styles demo_f) demo_sec 1000 (demo_ops ++ [(0, OBelow m_short); (0, OAdvance (-3))]) = true /\
  forallb (good_pop (f_styles demo_f)) (map snd (demo_ops ++ [(0, OBelow m_short); (0, OAdvance (-3))])) = true.
Proof. vm_compute. split; reflexivity. Qed.
Example c16_section_below :
  match demo_sec_setup, prun demo_sec 1000 (demo_ops ++ [(0, OBelow m_short); (0, OAdvance (-3))]) with
  | Ok (_, _, es0), Ok (trace, pf) =>
    map sc_content (skipn 1 (p_secs pf)) = [[[98;101;108;111;119]%N; m_short]] /\
    firstn 3 (rev (rows (feed 30 term_init (es0 ++ flat_map snd trace)))) = [[]; [120]%N; [98;101;108;111;119]%N]
  | _, _ => False
  end.
Proof. vm_compute. repeat split. Qed.
