(* C16 - a progress bar always shows a truthful, well-formed frame and ends at 100%.
   pstep p now op = Ok (p', es): one public call at clock value now (milliseconds) leaves the bar in state p' and puts the
   emits es on the stream (Err: the call raises - %estimated% / %remaining% without a maximum, a text the formatter refuses).
   range p = 0 <= step, 0 <= max, max > 0 -> step <= max.  drawable p = the output is not quiet (and, on a section output,
   the bar's section exists).  The frame is markup: it is measured by its visible length and reaches the stream through
   the formatter of the output; on a section output through SectionOutput.clear / write (Model/Section.v). *)
From Coq Require Import ZArith.
From Clikit Require Import Base.Prelude Base.Res Base.Term Model.Conv Model.Markup Model.Section Model.Progress
  Proofs.SectionLemmas Proofs.ProgressLemmas.
Local Open Scope Z_scope.

(* For EVERY sequence of calls and every timing: the current step stays between 0 and the maximum ... *)
Theorem step_in_range : forall p now o p' es, pstep p now o = Ok (p', es) -> range p -> range p'.
Proof. exact pstep_range. Qed.
Print Assumptions step_in_range.
Theorem new_bar_in_range : forall ansi quiet sec w f st v mx bw mn md xn xd rf pc cu msg now,
  range (pb_new ansi quiet sec w f st v mx bw mn md xn xd rf pc cu msg now).
Proof. exact new_range. Qed.
Print Assumptions new_bar_in_range.

(* ... every frame's bar segment is exactly as wide as configured (a progress character of one visible cell: pc is its
   visible text; the offset of a bar without maximum is the double arithmetic of the code, bit for bit), and the
   percentage shown is floor(100 * step / max), between 0 and 100 and equal to 100 exactly at the maximum. *)
Theorem frame_wf : forall p, range p -> 0 < p_bar_width p -> length (render_bar p) = Z.to_nat (p_bar_width p).
Proof. exact render_bar_width. Qed.
Print Assumptions frame_wf.
Theorem frame_wf_any_progress_character : forall p pc, range p -> 0 < p_bar_width p -> length pc = 1%nat ->
  length (render_bar_with p pc 1) = Z.to_nat (p_bar_width p).
Proof. exact render_bar_with_width. Qed.
Print Assumptions frame_wf_any_progress_character.
Theorem percent_wf : forall p, range p -> 0 < p_max p -> 0 <= p_step p * 100 / p_max p <= 100.
Proof. exact percent_bounds. Qed.
Print Assumptions percent_wf.
Theorem percent_100_at_max : forall p, 0 < p_max p -> p_step p = p_max p -> p_step p * 100 / p_max p = 100.
Proof. exact percent_at_max. Qed.
Print Assumptions percent_100_at_max.
Theorem percent_100_only_at_max : forall p, range p -> 0 < p_max p -> p_step p * 100 / p_max p = 100 -> p_step p = p_max p.
Proof. exact ProgressLemmas.percent_100_only_at_max. Qed.
Print Assumptions percent_100_only_at_max.

(* A redraw caused by advancing that does not reach the maximum comes no sooner than the minimum interval
   after the previous write. *)
Theorem throttle : forall p now k p' es, set_progress p now k = Ok (p', es) ->
  es <> [] -> p_step p' <> p_max p' -> p_min_num p * 1000 <= (now - p_last_write p) * p_min_den p.
Proof. exact throttle_lemma. Qed.
Print Assumptions throttle.

(* Reaching the maximum and finishing always draw on an overwriting output (ANSI, plain stream or section) that is not
   quiet; after finish step = max. *)
Theorem max_reached_draws : forall p now k p' es, drawable p -> p_ansi p = true -> set_progress p now k = Ok (p', es) ->
  p_step p' = p_max p' -> es <> [].
Proof. exact reaching_max_draws. Qed.
Print Assumptions max_reached_draws.
Theorem finish_shows_max : forall p now p' es, drawable p -> p_ansi p = true -> range p -> pstep p now OFinish = Ok (p', es) ->
  es <> [] /\ p_step p' = p_max p'.
Proof. exact finish_lemma. Qed.
Print Assumptions finish_shows_max.
(* On EVERY output that is not quiet (plain ones included): after finish the step is the maximum and the last frame
   display() wrote is the frame of that state (step = max) - on a plain output it may be the frame written when the
   maximum was reached, which is not written a second time. *)
Theorem finish_last_frame_is_max : forall p now p' es, p_quiet p = false -> range p -> pstep p now OFinish = Ok (p', es) ->
  p_step p' = p_max p' /\ p_drawn p' = Some (p_max p', p_max p').
Proof. exact finish_last_frame. Qed.
Print Assumptions finish_last_frame_is_max.

(* Plain output: only text and line breaks, never a control code. Quiet output: nothing at all from the bar's calls. *)
Theorem plain_own_line : forall p now o p' es, p_ansi p = false -> pstep p now o = Ok (p', es) -> forallb plain_emit es = true.
Proof. exact pstep_plain. Qed.
Print Assumptions plain_own_line.
Theorem quiet_silent : forall p now o p' es, p_quiet p = true -> bar_call o -> pstep p now o = Ok (p', es) -> es = [].
Proof. exact pstep_quiet. Qed.
Print Assumptions quiet_silent.
