(* C16 - a progress bar always shows a truthful, well-formed frame and ends at 100%.
   pstep p now op = one public call at clock value now (milliseconds); range p = 0 <= step, 0 <= max,
   max > 0 -> step <= max. *)
From Coq Require Import ZArith.
From Clikit Require Import Base.Prelude Base.Res Base.Term Model.Conv Model.Progress Proofs.ProgressLemmas.
Local Open Scope Z_scope.

(* For EVERY sequence of calls and every timing: the current step stays between 0 and the maximum ... *)
Theorem step_in_range : forall p now o, range p -> range (fst (pstep p now o)).
Proof. exact pstep_range. Qed.
Print Assumptions step_in_range.
Theorem new_bar_in_range : forall ansi quiet v mx bw mn md cu msg now, range (pb_new ansi quiet v mx bw mn md cu msg now).
Proof. exact new_range. Qed.
Print Assumptions new_bar_in_range.

(* ... every frame's bar segment is exactly as wide as configured, and the percentage shown is
   floor(100 * step / max), between 0 and 100 and equal to 100 exactly at the maximum. *)
Theorem frame_wf : forall p, range p -> 0 < p_bar_width p -> 0 <= p_write_count p ->
  length (render_bar p) = Z.to_nat (p_bar_width p).
Proof. exact render_bar_width. Qed.
Print Assumptions frame_wf.
Theorem percent_wf : forall p, range p -> 0 < p_max p -> 0 <= p_step p * 100 / p_max p <= 100.
Proof. exact percent_bounds. Qed.
Print Assumptions percent_wf.
Theorem percent_100_at_max : forall p, 0 < p_max p -> p_step p = p_max p -> p_step p * 100 / p_max p = 100.
Proof. exact percent_at_max. Qed.
Print Assumptions percent_100_at_max.

(* A redraw caused by advancing that does not reach the maximum comes no sooner than the minimum interval
   after the previous write. *)
Theorem throttle : forall p now k,
  snd (set_progress p now k) <> [] -> p_step (fst (set_progress p now k)) <> p_max (fst (set_progress p now k)) ->
  p_min_num p * 1000 <= (now - p_last_write p) * p_min_den p.
Proof. exact throttle_lemma. Qed.
Print Assumptions throttle.

(* Reaching the maximum and finishing always draw (non-quiet overwriting output); after finish step = max. *)
Theorem max_reached_draws : forall p now k, p_quiet p = false -> p_ansi p = true ->
  p_step (fst (set_progress p now k)) = p_max (fst (set_progress p now k)) -> snd (set_progress p now k) <> [].
Proof. exact reaching_max_draws. Qed.
Print Assumptions max_reached_draws.
Theorem finish_shows_max : forall p now, p_quiet p = false -> p_ansi p = true -> range p ->
  snd (pstep p now OFinish) <> [] /\ p_step (fst (pstep p now OFinish)) = p_max (fst (pstep p now OFinish)).
Proof. exact finish_lemma. Qed.
Print Assumptions finish_shows_max.

(* ANSI: one redraw of a single-line frame leaves exactly that frame on the terminal line - no residue of a
   longer earlier frame (padding to the running maximum length). *)
Theorem ansi_line_is_latest : forall w p now msg R r c,
  (1 <= w)%nat -> p_ansi p = true -> p_quiet p = false -> p_flc p = 0%nat -> nolf msg ->
  (length r <= p_last_len p)%nat -> (length (padded p msg) <= w)%nat ->
  feed w {| rows := R ++ [r]; cr := length R; cc := c |} (snd (overwrite p now msg))
    = {| rows := R ++ [padded p msg]; cr := length R; cc := length (padded p msg) |} /\
  p_last_len (fst (overwrite p now msg)) = length (padded p msg).
Proof. exact ansi_redraw_lemma. Qed.
Print Assumptions ansi_line_is_latest.

(* Plain output: only text and line breaks, never a control code. Quiet output: nothing at all. *)
Theorem plain_own_line : forall p now o, p_ansi p = false -> forallb plain_emit (snd (pstep p now o)) = true.
Proof. exact pstep_plain. Qed.
Print Assumptions plain_own_line.
Theorem quiet_silent : forall p now o, p_quiet p = true -> snd (pstep p now o) = [].
Proof. exact pstep_quiet. Qed.
Print Assumptions quiet_silent.
