(* C02 - malformed command lines are rejected with the documented errors and only those.
   allowed k := k = CannotParse \/ k = NoSuchOption \/ k = ValueError.
   Hypotheses: the format can be augmented with the command-name pseudo-arguments (true of every
   format built through ArgsFormat, C06) and its options are valid objects (multi-valued => requires
   a value; defaults are None/bool/int/str) - opts_ok, see C07 normal form. *)
From Clikit Require Import Base.Prelude Base.Res Model.Conv Model.Format Model.Parser Proofs.ParserLemmas
     Proofs.ClassifyLemmas.

(* For EVERY token list (no length bound) and both modes: a parse either succeeds or ends in one of the
   three documented kinds - no other kind of exception - and in lenient mode never in a parse error. *)
Theorem strict_error_kinds : forall f len toks f' arguments cns,
  aug_format f = Ok (f', arguments, cns) -> opts_ok f' ->
  forall k, parse f len toks = Err k -> allowed k /\ (len = true -> k = ValueError).
Proof. exact parse_error_kinds. Qed.
Print Assumptions strict_error_kinds.

Theorem lenient_total : forall f toks f' arguments cns,
  aug_format f = Ok (f', arguments, cns) -> opts_ok f' ->
  forall k, parse f true toks = Err k -> k <> CannotParse /\ k <> NoSuchOption.
Proof.
  intros f toks f' a c Ha Ho k H. destruct (parse_error_kinds f true toks f' a c Ha Ho k H) as [_ Hv].
  rewrite (Hv eq_refl). split; discriminate.
Qed.
Print Assumptions lenient_total.

(* Whenever strict parsing succeeds, lenient parsing returns the identical result (no hypothesis). *)
Theorem lenient_extends_strict : forall f toks r, parse f false toks = Ok r -> parse f true toks = Ok r.
Proof. exact lenient_extends_strict_lemma. Qed.
Print Assumptions lenient_extends_strict.

(* ======================= the classification clauses: WHICH line gives WHICH error =======================
   Vocabulary (Proofs/ClassifyLemmas.v):
     long_tok b = "--" ++ b, short_tok b = "-" ++ b;  no_eq s: no "=" in s;
     scans f' pre st: the strict token loop processes all of pre without error and ends in scratch state st
       ("every token before is processed without error");  existsb is_dd pre = false: no "--" among them;
     listed f o: o is among the options the format lists (own and inherited);  opt_named o n: n is the long or
       the short name of o;  unknown_name f n: n names no listed option;  is_flag f x: x is the short name of a
       listed option that takes no value;
     no_value_next rest: nothing follows, or an empty token, or a token that starts with "-";
     plain tok: empty, "-", or not starting with "-";  positional p tok: read as a positional argument when the
       parse_options switch is p;  no_multi ar: no multi-valued argument;
     ar: the argument slots of f' - one per command name first, then the declared arguments;  cns: the
       command-name slots;  skip_names vals cns 0 = (vals', _, _): vals' are the positionals that remain once the
       leading ones that spell the command names, in order, are set aside;
     args_named l: every argument is listed under its own name (true of every format built through the API);
     bad_arg / bad_opt f n v: v is stored for argument / option n of f and its typed conversion fails.
   In strict mode the first failing iteration of the token loop decides the result: *)
Theorem first_failing_token_decides : forall f f' ar cns toks p st tok rest k,
  aug_format f = Ok (f', ar, cns) ->
  reach f' false true ps_empty toks p st (tok :: rest) ->
  step f' false p st tok rest = Err k ->
  parse f false toks = Err k.
Proof. exact strict_error_at. Qed.
Print Assumptions first_failing_token_decides.

(* ---- clause 1: an unknown option -> NoSuchOptionException ---- *)
Theorem unknown_long_option_rejected : forall f f' ar cns pre st,
  aug_format f = Ok (f', ar, cns) -> scans f' pre st -> existsb is_dd pre = false ->
  forall name rest, name <> [] -> no_eq name = true -> unknown_name f name = true ->
  parse f false (pre ++ long_tok name :: rest) = Err NoSuchOption.
Proof. exact unknown_long_option_listed. Qed.
Print Assumptions unknown_long_option_rejected.
Theorem unknown_long_option_with_value_rejected : forall f f' ar cns pre st,
  aug_format f = Ok (f', ar, cns) -> scans f' pre st -> existsb is_dd pre = false ->
  forall name value rest, no_eq name = true -> unknown_name f name = true ->
  parse f false (pre ++ long_tok (name ++ EQ :: value) :: rest) = Err NoSuchOption.
Proof. exact unknown_long_option_eq_listed. Qed.
Print Assumptions unknown_long_option_with_value_rejected.
(* "-x..." and, behind known flags, "-abx..." *)
Theorem unknown_short_option_rejected : forall f f' ar cns pre st,
  aug_format f = Ok (f', ar, cns) -> scans f' pre st -> existsb is_dd pre = false ->
  forall flags c more rest,
  starts_dash (flags ++ c :: more) = false -> forallb (is_flag f) flags = true -> unknown_name f [c] = true ->
  parse f false (pre ++ short_tok (flags ++ c :: more) :: rest) = Err NoSuchOption.
Proof. exact unknown_short_option_listed. Qed.
Print Assumptions unknown_short_option_rejected.
Theorem unknown_option_lenient_ok : forall f f' ar cns,
  aug_format f = Ok (f', ar, cns) -> opts_ok f' ->
  forall pre body rest, parse f true (pre ++ long_tok body :: rest) <> Err NoSuchOption /\
                        parse f true (pre ++ short_tok body :: rest) <> Err NoSuchOption.
Proof. exact unknown_option_lenient. Qed.
Print Assumptions unknown_option_lenient_ok.

(* ---- clause 2: a value given to a flag -> CannotParseArgsException ---- *)
Theorem flag_given_value_rejected : forall f f' ar cns pre st,
  aug_format f = Ok (f', ar, cns) -> scans f' pre st -> existsb is_dd pre = false ->
  forall o name value rest,
  listed f o -> opt_named o name = true -> no_eq name = true -> o_accepts o = false ->
  parse f false (pre ++ long_tok (name ++ EQ :: value) :: rest) = Err CannotParse.
Proof. exact flag_given_value_listed. Qed.
Print Assumptions flag_given_value_rejected.
Theorem flag_given_value_lenient_ok : forall f f' ar cns,
  aug_format f = Ok (f', ar, cns) -> opts_ok f' ->
  forall pre name value rest, parse f true (pre ++ long_tok (name ++ EQ :: value) :: rest) <> Err CannotParse.
Proof. exact flag_given_value_lenient. Qed.
Print Assumptions flag_given_value_lenient_ok.

(* ---- clause 3: a required option value left out -> CannotParseArgsException ---- *)
Theorem option_value_missing_rejected : forall f f' ar cns pre st,
  aug_format f = Ok (f', ar, cns) -> scans f' pre st -> existsb is_dd pre = false ->
  forall o name rest,
  listed f o -> opt_named o name = true -> name <> [] -> no_eq name = true -> o_required o = true ->
  no_value_next rest = true ->
  parse f false (pre ++ long_tok name :: rest) = Err CannotParse.
Proof. exact option_value_missing_listed. Qed.
Print Assumptions option_value_missing_rejected.
(* "--name=" *)
Theorem option_value_empty_rejected : forall f f' ar cns pre st,
  aug_format f = Ok (f', ar, cns) -> scans f' pre st -> existsb is_dd pre = false ->
  forall o name rest,
  listed f o -> opt_named o name = true -> no_eq name = true -> o_required o = true ->
  parse f false (pre ++ long_tok (name ++ [EQ]) :: rest) = Err CannotParse.
Proof. exact option_value_empty_listed. Qed.
Print Assumptions option_value_empty_rejected.
(* "-n" and, behind known flags, "-abn" *)
Theorem short_option_value_missing_rejected : forall f f' ar cns pre st,
  aug_format f = Ok (f', ar, cns) -> scans f' pre st -> existsb is_dd pre = false ->
  forall o flags c rest,
  listed f o -> o_short o = Some [c] -> o_required o = true ->
  starts_dash (flags ++ [c]) = false -> forallb (is_flag f) flags = true -> no_value_next rest = true ->
  parse f false (pre ++ short_tok (flags ++ [c]) :: rest) = Err CannotParse.
Proof. exact short_option_value_missing_listed. Qed.
Print Assumptions short_option_value_missing_rejected.
Theorem option_value_missing_lenient_ok : forall f f' ar cns,
  aug_format f = Ok (f', ar, cns) -> opts_ok f' ->
  forall pre body rest, parse f true (pre ++ long_tok body :: rest) <> Err CannotParse /\
                        parse f true (pre ++ short_tok body :: rest) <> Err CannotParse.
Proof. exact option_value_missing_lenient. Qed.
Print Assumptions option_value_missing_lenient_ok.

(* ---- clause 4: a required argument is missing -> CannotParseArgsException ----
   general form: the loop goes through the whole line; the i-th declared argument (0-based) is required and
   at most i positionals remain for the declared arguments *)
Theorem missing_argument_rejected : forall f f' ar cns toks st1 vals' cns' k i n a,
  aug_format f = Ok (f', ar, cns) -> args_named (get_arguments_all f) ->
  scans f' toks st1 ->
  skip_names (flatten (ps_args st1)) cns 0 = (vals', cns', k) ->
  nth_error ar (length cns + i) = Some (n, a) -> a_required a = true -> length vals' <= i ->
  parse f false toks = Err CannotParse.
Proof. exact missing_argument. Qed.
Print Assumptions missing_argument_rejected.
(* option-free lines, formats without multi-valued argument: the hypotheses are on the tokens themselves *)
Theorem missing_argument_plain_rejected : forall f f' ar cns toks vals' cns' k i n a,
  aug_format f = Ok (f', ar, cns) -> args_named (get_arguments_all f) -> no_multi ar = true ->
  forallb plain toks = true -> length toks <= length ar ->
  skip_names toks cns 0 = (vals', cns', k) ->
  nth_error ar (length cns + i) = Some (n, a) -> a_required a = true -> length vals' <= i ->
  parse f false toks = Err CannotParse.
Proof. exact missing_argument_plain. Qed.
Print Assumptions missing_argument_plain_rejected.
Theorem missing_argument_lenient_ok : forall f f' ar cns,
  aug_format f = Ok (f', ar, cns) -> opts_ok f' -> forall toks, parse f true toks <> Err CannotParse.
Proof. exact missing_argument_lenient. Qed.
Print Assumptions missing_argument_lenient_ok.

(* ---- clause 5: more positional arguments than declared (no multi-valued argument) -> CannotParseArgsException ----
   found in the loop: every slot is taken when one more positional token comes *)
Theorem extra_positional_rejected : forall f f' ar cns toks p st tok rest,
  aug_format f = Ok (f', ar, cns) ->
  reach f' false true ps_empty toks p st (tok :: rest) ->
  positional p tok = true -> no_multi (get_arguments_all f') = true ->
  length (get_arguments_all f') <= length (ps_args st) ->
  parse f false toks = Err CannotParse.
Proof. exact extra_positional_at. Qed.
Print Assumptions extra_positional_rejected.
(* found when the values are re-aligned against omitted command names *)
Theorem too_many_after_realign_rejected : forall f f' ar cns toks st1 vals' cns' k,
  aug_format f = Ok (f', ar, cns) -> scans f' toks st1 ->
  skip_names (flatten (ps_args st1)) cns 0 = (vals', cns', k) ->
  no_multi ar = true -> length ar - length cns < length vals' ->
  parse f false toks = Err CannotParse.
Proof. exact too_many_after_realign. Qed.
Print Assumptions too_many_after_realign_rejected.
(* option-free lines, either way: more plain tokens than declared arguments once the spelled command names are
   discounted *)
Theorem too_many_plain_rejected : forall f f' ar cns toks vals' cns' k,
  aug_format f = Ok (f', ar, cns) -> args_named (get_arguments_all f) -> no_multi ar = true ->
  forallb plain toks = true -> skip_names toks cns 0 = (vals', cns', k) ->
  length ar - length cns < length vals' ->
  parse f false toks = Err CannotParse.
Proof. exact too_many_plain. Qed.
Print Assumptions too_many_plain_rejected.
Theorem too_many_positionals_lenient_ok : forall f f' ar cns,
  aug_format f = Ok (f', ar, cns) -> opts_ok f' ->
  forall pre tok rest, parse f true (pre ++ tok :: rest) <> Err CannotParse.
Proof. exact too_many_positionals_lenient. Qed.
Print Assumptions too_many_positionals_lenient_ok.

(* ---- clause 6: a value that does not convert to the declared type -> ValueError ----
   general forms: the line gets through the token loop, the re-alignment and the required-argument check,
   and a value then stored for an argument / option does not convert *)
Theorem bad_argument_value_rejected : forall f f' ar cns toks st1 st2 n v,
  aug_format f = Ok (f', ar, cns) -> scans f' toks st1 ->
  insert_missing ar cns false st1 = Ok st2 -> missing_required ar st2 = false ->
  In (n, v) (ps_args st2) -> bad_arg f n v ->
  parse f false toks = Err ValueError.
Proof. exact bad_argument_value. Qed.
Print Assumptions bad_argument_value_rejected.
Theorem bad_option_value_rejected : forall f f' ar cns toks st1 st2 n v,
  aug_format f = Ok (f', ar, cns) -> opts_ok f' -> scans f' toks st1 ->
  insert_missing ar cns false st1 = Ok st2 -> missing_required ar st2 = false ->
  In (n, v) (ps_opts st1) -> bad_opt f n v ->
  parse f false toks = Err ValueError.
Proof. exact bad_option_value. Qed.
Print Assumptions bad_option_value_rejected.
(* "--name=value" put behind a line that the strict parser accepts *)
Theorem bad_option_value_last_rejected : forall f f' ar cns pre r name value o' o k0,
  aug_format f = Ok (f', ar, cns) ->
  parse f false pre = Ok r -> existsb is_dd pre = false ->
  no_eq name = true -> value <> [] ->
  has_option f' name true = true -> get_option f' name true = Ok o' -> o_accepts o' = true -> o_multi o' = false ->
  has_option f name true = true -> get_option f name true = Ok o -> o_accepts o = true -> o_multi o = false ->
  parse_typed (o_type o) (o_nullable o) (VStr value) = Err k0 ->
  parse f false (pre ++ [long_tok (name ++ EQ :: value)]) = Err ValueError.
Proof. exact bad_option_value_last. Qed.
Print Assumptions bad_option_value_last_rejected.
(* such a line is rejected in exactly the same way in lenient mode *)
Theorem value_error_mode_independent : forall f f' ar cns toks st1 st2,
  aug_format f = Ok (f', ar, cns) -> scans f' toks st1 ->
  insert_missing ar cns false st1 = Ok st2 -> missing_required ar st2 = false ->
  parse f true toks = parse f false toks.
Proof. exact modes_agree_after_scan. Qed.
Print Assumptions value_error_mode_independent.

(* ---- the first two theorems of this file again, under a hypothesis that formats with multi-valued options meet ----
   opts_ok asks conv_input (o_default o) of every option, and a multi-valued option keeps the list [] as default
   (conv_input (VList []) = false; ClassifyLemmas.ex_h_not_opts_ok).  opts_ok_w asks it only of the options whose
   value is not required - the only ones whose default is ever stored: opts_ok f' -> opts_ok_w f'. *)
Theorem strict_error_kinds_w : forall f len toks f' arguments cns,
  aug_format f = Ok (f', arguments, cns) -> opts_ok_w f' ->
  forall k, parse f len toks = Err k -> allowed k /\ (len = true -> k = ValueError).
Proof. exact parse_error_kinds_w. Qed.
Print Assumptions strict_error_kinds_w.
Theorem lenient_total_w : forall f f' ar cns toks,
  aug_format f = Ok (f', ar, cns) -> opts_ok_w f' ->
  parse f true toks <> Err NoSuchOption /\ parse f true toks <> Err CannotParse.
Proof. exact lenient_no_parse_error_w. Qed.
Print Assumptions lenient_total_w.
Theorem bad_option_value_rejected_w : forall f f' ar cns toks st1 st2 n v,
  aug_format f = Ok (f', ar, cns) -> opts_ok_w f' -> scans f' toks st1 ->
  insert_missing ar cns false st1 = Ok st2 -> missing_required ar st2 = false ->
  In (n, v) (ps_opts st1) -> bad_opt f n v ->
  parse f false toks = Err ValueError.
Proof. exact bad_option_value_w. Qed.
Print Assumptions bad_option_value_rejected_w.

(* ======================= the clauses on LINE DESCRIPTIONS: a well-formed line with ONE fault =======================
   Vocabulary of C01 (Model/Spell.v): d : ld is a line description - command-name spellings, option items in their written
   forms, positionals, "--" tail; render d its tokens; values d its positional values; events d what it gives to the
   options; wf_line f d the conditions under which parse f len (render d) = Ok (denote f d) (C01.parse_spells).
   wf_line f d = forms_ok f d (the written forms are unambiguous; Proofs/ClassifyLineLemmas.v: the conjuncts names_ok,
   items_ok, no_clash of wf_line with the conversions of the option texts taken out) && texts_convert d (every option text
   converts) && fits (no more values than arguments - shape - and every value converts) && req_ok (every required argument
   gets a value):  well_formed_line_is.  Each clause below keeps forms_ok and breaks ONE other conjunct.
   fmt_ok f is the format hypothesis of parse_spells (true of every API-built format, C01.api_format_fmt_ok);
   opts_listed_ok f: the options f lists are valid objects (the opts_ok_w of above, read off the option list of f).
   From here on long_tok, no_eq, is_flag, names_ok unqualified are those of Model/Spell.v. *)
From Clikit Require Import Model.Spell Proofs.SpellArgs Proofs.ClassifyLineLemmas.

Theorem well_formed_line_is : forall f d,
  wf_line f d = forms_ok f d && texts_convert d &&
                fits (get_arguments_all f) (values d) && req_ok (get_arguments_all f) (values d).
Proof. exact wf_line_conjuncts. Qed.
Print Assumptions well_formed_line_is.
Theorem fitting_values_fit_in_number : forall A V, fits A V = true -> shape A V = true.
Proof. exact fits_shape. Qed.
Print Assumptions fitting_values_fit_in_number.

(* ---- clause 5: the line carries more positional values than the format declares arguments ---- *)
Theorem surplus_positional_rejected : forall f d,
  fmt_ok f = true -> forms_ok f d = true ->
  no_multi (get_arguments_all f) = true -> length (get_arguments_all f) < length (values d) ->
  parse f false (render d) = Err CannotParse.
Proof. exact surplus_positional_rejected_lemma. Qed.
Print Assumptions surplus_positional_rejected.
Theorem surplus_positional_lenient_ok : forall f d,
  fmt_ok f = true -> opts_listed_ok f = true -> parse f true (render d) <> Err CannotParse.
Proof. exact surplus_positional_lenient_lemma. Qed.
Print Assumptions surplus_positional_lenient_ok.

(* ---- clause 4: the values fit in number (shape), but a required argument gets none ---- *)
Theorem missing_required_rejected : forall f d,
  fmt_ok f = true -> forms_ok f d = true ->
  shape (get_arguments_all f) (values d) = true -> req_ok (get_arguments_all f) (values d) = false ->
  parse f false (render d) = Err CannotParse.
Proof. exact missing_required_rejected_lemma. Qed.
Print Assumptions missing_required_rejected.
Theorem missing_required_lenient_ok : forall f d,
  fmt_ok f = true -> opts_listed_ok f = true -> parse f true (render d) <> Err CannotParse.
Proof. exact missing_required_lenient_lemma. Qed.
Print Assumptions missing_required_lenient_ok.

(* ---- clause 6: the values fit in number and reach every required argument, but a text does not convert; both modes ----
   a line of this kind is parsed, in either mode, by converting what it stores - nothing else can go wrong *)
Theorem conversion_is_all_that_is_left : forall f d, fmt_ok f = true -> forms_ok f d = true ->
  shape (get_arguments_all f) (values d) = true -> req_ok (get_arguments_all f) (values d) = true ->
  forall len, parse f len (render d) =
    do a1 <- set_arguments f {| ar_opts := []; ar_args := [] |} (place (get_arguments_all f) (values d));
    set_options f a1 (fold_left SpellOpts.raw_event (events d) []).
Proof. exact parse_form_line. Qed.
Print Assumptions conversion_is_all_that_is_left.
(* a positional text: fits = shape and every text converts *)
Theorem unconvertible_positional_rejected : forall f d, fmt_ok f = true -> forms_ok f d = true ->
  shape (get_arguments_all f) (values d) = true -> req_ok (get_arguments_all f) (values d) = true ->
  fits (get_arguments_all f) (values d) = false ->
  forall len, parse f len (render d) = Err ValueError.
Proof. exact unconvertible_positional_rejected_lemma. Qed.
Print Assumptions unconvertible_positional_rejected.
(* the text s of ONE occurrence of option o (item_text: "--o=s", "--o s", "-os", "-o s", "-abos", "-abo s"); o is
   multi-valued, or no later item mentions o - a single-valued option keeps what its LAST mention gives
   (ClassifyLineLemmas.ValueExamples.overwritten_bad_text_accepted, ClassifyLemmas.overwritten_bad_value_accepted) *)
Theorem unconvertible_option_value_rejected : forall f d its1 it its2 o s, fmt_ok f = true -> forms_ok f d = true ->
  shape (get_arguments_all f) (values d) = true -> req_ok (get_arguments_all f) (values d) = true ->
  ld_items d = its1 ++ it :: its2 -> item_text it = Some (o, s) ->
  res_ok (parse_typed (o_type o) (o_nullable o) (VStr s)) = false ->
  (o_multi o = true \/ SpellDenote.mentions (o_long o) (flat_map item_events its2) = false) ->
  forall len, parse f len (render d) = Err ValueError.
Proof. exact unconvertible_option_item_rejected_lemma. Qed.
Print Assumptions unconvertible_option_value_rejected.
(* the same on the events of the line *)
Theorem unconvertible_option_event_rejected : forall f d o s es1 es2, fmt_ok f = true -> forms_ok f d = true ->
  shape (get_arguments_all f) (values d) = true -> req_ok (get_arguments_all f) (values d) = true ->
  events d = es1 ++ (o, GText s) :: es2 ->
  res_ok (parse_typed (o_type o) (o_nullable o) (VStr s)) = false ->
  (o_multi o = true \/ SpellDenote.mentions (o_long o) es2 = false) ->
  forall len, parse f len (render d) = Err ValueError.
Proof. exact unconvertible_option_value_rejected_lemma. Qed.
Print Assumptions unconvertible_option_event_rejected.
(* general form: some positional text does not convert, or the option scratch map ends up holding one that does not *)
Theorem unconvertible_value_rejected : forall f d, fmt_ok f = true -> forms_ok f d = true ->
  shape (get_arguments_all f) (values d) = true -> req_ok (get_arguments_all f) (values d) = true ->
  (fits (get_arguments_all f) (values d) = false \/
   exists n v, In (n, v) (fold_left SpellOpts.raw_event (events d) []) /\ bad_opt f n v) ->
  forall len, parse f len (render d) = Err ValueError.
Proof. exact unconvertible_value_lemma. Qed.
Print Assumptions unconvertible_value_rejected.

(* ---- clauses 1-3: ONE extra token at the k-th item boundary of a WELL-FORMED line (before its "--" tail) ----
   prefix_toks d k: the tokens of the command names and of the first k items;  suffix_toks d k: those of the remaining
   items and of the tail;  insert_tok d k tok = prefix_toks d k ++ tok :: suffix_toks d k.
   The bridge between the two vocabularies: the strict loop processes every such prefix without error, and "--" is not in it *)
Theorem scans_rendered_prefix : forall f d k, fmt_ok f = true -> wf_line f d = true ->
  exists g A cns st, aug_format f = Ok (g, A, cns) /\ scans g (prefix_toks d k) st /\ existsb is_dd (prefix_toks d k) = false /\
                     st = line_state A (prefix_line d k).
Proof. exact scans_rendered_prefix_lemma. Qed.
Print Assumptions scans_rendered_prefix.
Theorem rendered_line_splits : forall d k, render d = prefix_toks d k ++ suffix_toks d k.
Proof. exact render_split. Qed.
Print Assumptions rendered_line_splits.

Theorem unknown_option_in_line_rejected : forall f d k, fmt_ok f = true -> wf_line f d = true ->
  forall name, name <> [] -> ClassifyLemmas.no_eq name = true -> unknown_name f name = true ->
  parse f false (insert_tok d k (ClassifyLemmas.long_tok name)) = Err NoSuchOption.
Proof. exact unknown_option_in_line_rejected_lemma. Qed.
Print Assumptions unknown_option_in_line_rejected.
Theorem unknown_option_with_value_in_line_rejected : forall f d k, fmt_ok f = true -> wf_line f d = true ->
  forall name value, ClassifyLemmas.no_eq name = true -> unknown_name f name = true ->
  parse f false (insert_tok d k (ClassifyLemmas.long_tok (name ++ EQ :: value))) = Err NoSuchOption.
Proof. exact unknown_option_with_value_in_line_rejected_lemma. Qed.
Print Assumptions unknown_option_with_value_in_line_rejected.
Theorem unknown_short_option_in_line_rejected : forall f d k, fmt_ok f = true -> wf_line f d = true ->
  forall flags c more,
  starts_dash (flags ++ c :: more) = false -> forallb (ClassifyLemmas.is_flag f) flags = true -> unknown_name f [c] = true ->
  parse f false (insert_tok d k (ClassifyLemmas.short_tok (flags ++ c :: more))) = Err NoSuchOption.
Proof. exact unknown_short_option_in_line_rejected_lemma. Qed.
Print Assumptions unknown_short_option_in_line_rejected.

Theorem flag_with_value_in_line_rejected : forall f d k, fmt_ok f = true -> wf_line f d = true ->
  forall o name value,
  listed f o -> opt_named o name = true -> ClassifyLemmas.no_eq name = true -> o_accepts o = false ->
  parse f false (insert_tok d k (ClassifyLemmas.long_tok (name ++ EQ :: value))) = Err CannotParse.
Proof. exact flag_with_value_in_line_rejected_lemma. Qed.
Print Assumptions flag_with_value_in_line_rejected.

(* no value follows: the end of the line, the "--" separator, another option, an empty token or "-" *)
Theorem value_missing_in_line_rejected : forall f d k, fmt_ok f = true -> wf_line f d = true ->
  forall o name,
  listed f o -> opt_named o name = true -> name <> [] -> ClassifyLemmas.no_eq name = true -> o_required o = true ->
  no_value_next (suffix_toks d k) = true ->
  parse f false (insert_tok d k (ClassifyLemmas.long_tok name)) = Err CannotParse.
Proof. exact value_missing_in_line_rejected_lemma. Qed.
Print Assumptions value_missing_in_line_rejected.
Theorem value_empty_in_line_rejected : forall f d k, fmt_ok f = true -> wf_line f d = true ->
  forall o name,
  listed f o -> opt_named o name = true -> ClassifyLemmas.no_eq name = true -> o_required o = true ->
  parse f false (insert_tok d k (ClassifyLemmas.long_tok (name ++ [EQ]))) = Err CannotParse.
Proof. exact value_empty_in_line_rejected_lemma. Qed.
Print Assumptions value_empty_in_line_rejected.
Theorem short_value_missing_in_line_rejected : forall f d k, fmt_ok f = true -> wf_line f d = true ->
  forall o flags c,
  listed f o -> o_short o = Some [c] -> o_required o = true ->
  starts_dash (flags ++ [c]) = false -> forallb (ClassifyLemmas.is_flag f) flags = true ->
  no_value_next (suffix_toks d k) = true ->
  parse f false (insert_tok d k (ClassifyLemmas.short_tok (flags ++ [c]))) = Err CannotParse.
Proof. exact short_value_missing_in_line_rejected_lemma. Qed.
Print Assumptions short_value_missing_in_line_rejected.
(* lenient mode: no line at all ends in a parse error (the format hypothesis of the line theorems) *)
Theorem line_lenient_total : forall f, fmt_ok f = true -> opts_listed_ok f = true ->
  forall toks, parse f true toks <> Err CannotParse /\ parse f true toks <> Err NoSuchOption.
Proof. exact line_lenient_no_parse_error. Qed.
Print Assumptions line_lenient_total.

(* ==== added after the Coq review (REPORT "C02: minor issues" 1 and 4) ====
   Instances for the two theorems that had none, one instance over a format WITH a base (own and inherited elements), and
   the boundary of the hypothesis opts_ok_w.  Definitions and proofs: Proofs/ClassifyMoreExamples.v. *)
From Coq Require Import String.
From Clikit Require Import Proofs.SpellLemmas Proofs.FmtOkLemmas Proofs.ClassifyMoreExamples.
Import SpellExamples FmtOkExamples LineExamples ValueExamples MoreExamples.

(* conversion_is_all_that_is_left:  srv add h1 --num=5 http  over  server add <host> [<port:int>] [<files>...]  (U1): forms,
   number of values and required arguments are fine, so the parse IS the conversion of what the line stores, which fails on
   "http"; with 8080 instead (W2) it succeeds *)
Example conversion_is_all_that_is_left_instance :
  forms_ok F1 U1 = true /\ shape (get_arguments_all F1) (values U1) = true /\ req_ok (get_arguments_all F1) (values U1) = true /\
  (forall len, parse F1 len (render U1) =
     do a1 <- set_arguments F1 {| ar_opts := []; ar_args := [] |} (place (get_arguments_all F1) (values U1));
     set_options F1 a1 (fold_left SpellOpts.raw_event (events U1) [])) /\
  place (get_arguments_all F1) (values U1) = [(s "host", RStr (s "h1")); (s "port", RStr (s "http"))] /\
  set_arguments F1 {| ar_opts := []; ar_args := [] |} (place (get_arguments_all F1) (values U1)) = Err ValueError /\
  (forall len, parse F1 len (render W2) =
     do a1 <- set_arguments F1 {| ar_opts := []; ar_args := [] |} (place (get_arguments_all F1) (values W2));
     set_options F1 a1 (fold_left SpellOpts.raw_event (events W2) [])) /\
  (do a1 <- set_arguments F1 {| ar_opts := []; ar_args := [] |} (place (get_arguments_all F1) (values W2));
   set_options F1 a1 (fold_left SpellOpts.raw_event (events W2) [])) =
    Ok {| ar_opts := [(s "num", VInt 5)]; ar_args := [(s "host", VStr (s "h1")); (s "port", VInt 8080)] |}.
Proof. exact conversion_instance. Qed.
Print Assumptions conversion_is_all_that_is_left_instance.

(* lenient_extends_strict:  srv add h1 --num=5 -vq 8080 -- -x ; and the converse is false *)
Example lenient_extends_strict_instance :
  parse F1 false ok_line =
    Ok {| ar_opts := [(s "num", VInt 5); (s "verbose", VBool true); (s "quiet", VBool true)];
          ar_args := [(s "host", VStr (s "h1")); (s "port", VInt 8080); (s "files", VList [VStr (s "-x")])] |} /\
  parse F1 true ok_line = parse F1 false ok_line /\
  parse F1 false (Tk ["h1"; "--nope"; "--verbose=1"]%string) = Err NoSuchOption /\
  parse F1 true (Tk ["h1"; "--nope"; "--verbose=1"]%string) = Ok {| ar_opts := []; ar_args := [(s "host", VStr (s "h1"))] |}.
Proof. exact MoreExamples.lenient_extends_strict_instance. Qed.
Print Assumptions lenient_extends_strict_instance.

(* a format WITH a base.  G (C01.parse_spells_reachable_not_vacuous; api_format): OWN command name add, arguments
   [<port:int>] [<files>...], options --num/-n (value required, int), --tag/-t (multi-valued), --level;  INHERITED command
   name server/srv, argument <host>, options --verbose/-v, --quiet/-q (flags), --color/-c (value optional).
   D1 is the well-formed line of C01; M1b = srv add -v --num 5;  U1 = srv add h1 --num=5 http;  U3 = srv add h1 --num=five 8080 *)
Example classification_over_a_base :
  f_base G <> None /\ api_format G /\ fmt_ok G = true /\ wf_line G D1 = true /\
  map fst (get_options_all G) = [s "num"; s "tag"; s "level"; s "verbose"; s "quiet"; s "color"] /\
  map fst (f_opts G) = [s "num"; s "tag"; s "level"] /\
  parse G false (insert_tok D1 3 (s "--nope")) = Err NoSuchOption /\
  parse G false (insert_tok D1 4 (s "-vz")) = Err NoSuchOption /\
  parse G false (insert_tok D1 0 (s "--quiet=1")) = Err CannotParse /\
  parse G false (insert_tok D1 2 (s "--num")) = Err CannotParse /\
  parse G false (render M1b) = Err CannotParse /\
  (forall len, parse G len (render U1) = Err ValueError) /\
  (forall len, parse G len (render U3) = Err ValueError) /\
  (forall len toks k, parse G len toks = Err k -> allowed k /\ (len = true -> k = ValueError)) /\
  (forall toks, parse G true toks <> Err CannotParse /\ parse G true toks <> Err NoSuchOption).
Proof. exact over_a_base. Qed.
Print Assumptions classification_over_a_base.

(* OUTSIDE THE DOMAIN of opts_ok_w / opts_listed_ok - a model / code divergence hidden by the hypothesis.
   The hypothesis asks that the default of every option whose value is not required be None, a bool, an int or a str
   (conv_input).  Valid API objects outside it, and the bare option on the line:
     Option("lvl", "l", OPTIONAL_VALUE | INTEGER, default=0.5), "x --lvl":  model Err (Other 9) in both modes - NOT one of
        the three documented kinds, so strict_error_kinds_w would be false without its hypothesis;  Python: succeeds with
        {'lvl': 0} (int(0.5)).
     Option("lst", None, OPTIONAL_VALUE, default=['a']), "x --lst":  model Err (Other 9);  Python: {'lst': "['a']"}.
     Option("ratio", "r", OPTIONAL_VALUE | FLOAT, default=0.5), "x --ratio":  model Ok {'ratio': 0.5} = Python; this one
        the hypothesis excludes without need.
   The C02 generator uses no such default, so the tie does not see the divergence. *)
Example strict_error_kinds_w_outside_domain :
  opt_ok_wb OutsideDomain.o_lvl = false /\ opt_ok_wb OutsideDomain.o_lst = false /\ opt_ok_wb OutsideDomain.o_ratio = false /\
  opts_listed_ok OutsideDomain.fB = false /\ ~ opts_ok_w OutsideDomain.fB' /\ fmt_ok OutsideDomain.fB = true /\
  parse OutsideDomain.fB false (T ["x"; "--lvl"]%string) = Err (Other 9) /\
  parse OutsideDomain.fB true (T ["x"; "--lvl"]%string) = Err (Other 9) /\
  ~ allowed (Other 9) /\
  parse OutsideDomain.fC false (T ["x"; "--lst"]%string) = Err (Other 9) /\
  parse OutsideDomain.fC true (T ["x"; "--lst"]%string) = Err (Other 9) /\
  parse OutsideDomain.fA false (T ["x"; "--ratio"]%string) =
    Ok {| ar_opts := [(S_ "ratio", VFloat (S_ "0.5"))]; ar_args := [(S_ "src", VStr (S_ "x"))] |} /\
  parse OutsideDomain.fB false (T ["x"; "--lvl=7"]%string) =
    Ok {| ar_opts := [(S_ "lvl", VInt 7)]; ar_args := [(S_ "src", VStr (S_ "x"))] |}.
Proof. exact OutsideDomain.outside_domain. Qed.
Print Assumptions strict_error_kinds_w_outside_domain.
