(* C02 - malformed command lines are rejected with the documented errors and only those.
   allowed k := k = CannotParse \/ k = NoSuchOption \/ k = ValueError.
   Hypotheses: the format can be augmented with the command-name pseudo-arguments (true of every
   format built through ArgsFormat, C06) and its options are valid objects (multi-valued => requires
   a value; defaults are None/bool/int/str) - opts_ok, see C07 normal form. *)
From Clikit Require Import Base.Prelude Base.Res Model.Conv Model.Format Model.Parser Proofs.ParserLemmas.

(* For EVERY token list (no length bound) and both modes: a parse either succeeds or ends in one of the
   three documented kinds - no other kind of exception - and in lenient mode never in a parse error. *)
Theorem strict_error_kinds : forall f len toks f' arguments cns,
  aug_format f = Ok (f', arguments, cns) -> opts_ok f' ->
  forall k, parse f len toks = Err k -> allowed k /\ (len = true -> k = ValueError).
Proof. exact parse_error_kinds. Qed.
Print Assumptions strict_error_kinds.

Theorem lenient_total : forall f toks f' arguments cns,
  aug_format f = Ok (f', arguments, cns) -> opts_ok f' ->
  forall k, parse f true toks = Err k -> k <> CannotParse /\ k <> NoSuchOption.
Proof.
  intros f toks f' a c Ha Ho k H. destruct (parse_error_kinds f true toks f' a c Ha Ho k H) as [_ Hv].
  rewrite (Hv eq_refl). split; discriminate.
Qed.
Print Assumptions lenient_total.

(* Whenever strict parsing succeeds, lenient parsing returns the identical result (no hypothesis). *)
Theorem lenient_extends_strict : forall f toks r, parse f false toks = Ok r -> parse f true toks = Ok r.
Proof. exact lenient_extends_strict_lemma. Qed.
Print Assumptions lenient_extends_strict.
