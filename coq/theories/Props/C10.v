(* C10 - quiet and verbosity gate every write path identically. *)
From Clikit Require Import Base.Prelude Model.Gate Proofs.GateLemmas.

(* The gate itself: for EVERY flag word (any integer, also undefined bits and negatives)
   and every verbosity >= 0, text passes iff the output is not quiet and its verbosity is
   at least the lowest level the flags ask for. *)
Theorem gate_level : forall q v f, (0 <= v)%Z ->
  may_write q v f = negb q && (lowest_level f <=? v)%Z.
Proof. exact may_write_level. Qed.
Print Assumptions gate_level.

(* Every modelled entry point that writes text (output / section x decorated or not x
   method) emits exactly when the gate, asked with the caller's flags (None for methods
   without a flags parameter), says so. *)
Theorem gate_iff : forall k a m q v f p, path k a m = Some p ->
  emits k a m q v (if takes_flags m then f else None) = may_write q v (if takes_flags m then f else None).
Proof. exact gate_iff_lemma. Qed.
Print Assumptions gate_iff.

Theorem gate_monotone : forall v v' f, (0 <= v <= v')%Z ->
  may_write false v f = true -> may_write false v' f = true.
Proof. exact gate_monotone_lemma. Qed.
Print Assumptions gate_monotone.

Theorem quiet_silent : forall v f, may_write true v f = false.
Proof. exact quiet_silent_lemma. Qed.
Print Assumptions quiet_silent.

(* ---- the hand model re-checked against the source on every build ----
   Generated/GenGate.v is what harness/translate.py (a fail-closed translator of a small pure subset of Python) makes of
   Output._may_write and of the constants of api/io/flags.py in the source tree at hand; bin/setup regenerates it before
   every build.  The gate of the model IS that function, for every quiet, verbosity and flags (None, any integer): *)
From Clikit Require Generated.GenGate Proofs.GenEquivLemmas.
Theorem may_write_matches_source : forall quiet verbosity flags,
  GenGate.may_write quiet verbosity flags = may_write quiet verbosity flags.
Proof. exact GenEquivLemmas.gen_may_write_eq. Qed.
Print Assumptions may_write_matches_source.

Theorem gate_constants_match_source :
  GenGate.NORMAL = NORMAL /\ GenGate.VERBOSE = VERBOSE /\ GenGate.VERY_VERBOSE = VERY_VERBOSE /\ GenGate.DEBUG = DEBUG.
Proof. exact GenEquivLemmas.gen_gate_constants. Qed.
Print Assumptions gate_constants_match_source.

(* ... so gate_level is a statement about the translated code itself *)
Theorem source_gate_level : forall q v f, (0 <= v)%Z ->
  GenGate.may_write q v f = negb q && (lowest_level f <=? v)%Z.
Proof. intros q v f H. rewrite GenEquivLemmas.gen_may_write_eq. exact (may_write_level q v f H). Qed.
Print Assumptions source_gate_level.

Example gate_nonvacuous :
  emits KSection true MWriteLine false VERBOSE (Some 3%Z) = true /\
  emits KSection true MWriteLine false NORMAL (Some 3%Z) = false /\
  emits KSection true MWriteLine false DEBUG (Some 8%Z) = true.
Proof. vm_compute. auto. Qed.

(* ===============================================================================================================   The gate composed with the section model (Model/GatedSection.v): write(text, flags) / write_line(text, flags) /
   overwrite(text) / clear(n) on sections of one stream, every section with its own quiet / verbosity settings that
   set_quiet / set_verbosity change on the way.  A refused call must not only be silent at once: it must leave no trace,
   or what it was given is printed LATER, when an older section is written to and the newer ones are printed again
   (seeded change C10-g).
     allowed gs o        the gate of the section lets the call o through (write: the caller's flags; overwrite, clear: None)
     gstep / grun        the step / run of the code: the Section.v step iff allowed, the identity otherwise (write returns
                         before it pops or records anything; clear asks the gate before it cuts _content / _lines - since
                         /repo a112510, the repair of the finding this model made: a refused clear used to cut the record)
     kept gs ops         ops without its refused calls;  erase gs ops: the Section.v operations of the allowed calls
   ====================================================================================================================== *)
From Clikit Require Import Base.Res Base.Term Model.Markup Model.Section Model.GatedSection
  Proofs.MarkupLemmas Proofs.SectionLemmas Proofs.GatedSectionLemmas.

(* (a) EVERY refused call - write, write_line (any flags), overwrite, clear, full or partial, decorated or not, whatever the
   section has on record - changes neither the stream nor any section's state (content, row count, indentation) nor the
   settings nor the formatter. *)
Theorem refused_call_is_invisible : forall ansi w st gs f o, allowed gs o = false ->
  gstep ansi w st gs f o = Ok (st, gs, f, []).
Proof. exact refused_invisible. Qed.
Print Assumptions refused_call_is_invisible.

(* (b) For EVERY sequence of calls, from any state of sections, settings and formatter: the whole result - the emitted
   stream, every section's content and row count, the settings, the formatter, also the exception if a call raises - is
   that of the sequence with all refused calls removed.  What a refused call was given can never show up, neither at once
   nor later. *)
Theorem refused_text_never_appears : forall ansi w st gs f ops,
  grun ansi w st gs f ops = grun ansi w st gs f (kept gs ops).
Proof. exact refused_never_appears. Qed.
Print Assumptions refused_text_never_appears.

(* ... and it is the flag-less Section.v run (C15) of the operations of the allowed calls; the settings only depend on
   the calls made *)
Theorem gated_run_is_section_run : forall ansi w ops st gs f,
  grun ansi w st gs f ops = lift (gates_after gs ops) (srun ansi w st f (erase gs ops)).
Proof. exact grun_erase. Qed.
Print Assumptions gated_run_is_section_run.

(* two sequences that differ only in what their refused calls were given (texts, flags, line counts) have the same result *)
Theorem refused_arguments_do_not_matter : forall ansi w st gs f ops ops', kept gs ops = kept gs ops' ->
  grun ansi w st gs f ops = grun ansi w st gs f ops'.
Proof. exact refused_arguments_irrelevant. Qed.
Print Assumptions refused_arguments_do_not_matter.

(* (c) The C15 screen theorem lifted.  For EVERY sequence of section creations, indentations, set_quiet / set_verbosity,
   flagged writes, overwrites and clears on a decorated output in which the texts of the ALLOWED writes are good markup
   (the refused ones may be anything), every width >= 1: no call raises, and the terminal fed with the emitted bytes shows
   exactly the stacked visible contents of the sections - which are the contents the allowed calls wrote (the Section.v
   run of erase) -, every row count is right, the style stack is empty. *)
Theorem gated_screen_is_stack : forall w, 1 <= w -> forall f0 ops, is_ansi f0 -> f_stack f0 = [] ->
  good_opsb (f_styles f0) (erase gates0 ops) = true ->
  exists st f es, grun true w [] gates0 f0 ops = Ok (st, gates_after gates0 ops, f, es) /\
    srun true w [] f0 (erase gates0 ops) = Ok (st, f, es) /\
    feed w term_init es = screen w (f_styles f0) st /\ Forall (sec_ok w (f_styles f0)) st /\ fmt_ok (f_styles f0) f.
Proof. exact gated_screen_lemma. Qed.
Print Assumptions gated_screen_is_stack.

(* (d) A section STARTS with the settings of its output: after output.section() the new section's quiet flag and verbosity
   are those the output has at that moment (and its indentation too) - so what a quiet output would refuse is refused
   through its sections as well, until set_quiet / set_verbosity are called on the section itself.  (The code before
   /repo e696a15 built every section not quiet, verbosity NORMAL.) *)
Theorem section_starts_with_its_outputs_settings : forall gs,
  g_secs (gates_step gs GCreate) = g_secs gs ++ [g_parent gs] /\ sop_of gs GCreate = Some (SCreate (g_pindent gs)).
Proof. exact created_inherits. Qed.
Print Assumptions section_starts_with_its_outputs_settings.
(* ... hence: whatever a section of a quiet output is asked to write, overwrite, clear or record before anybody touches its
   own settings leaves no trace *)
Theorem section_of_quiet_output_is_silent : forall ansi w st gs f o i,
  g_quiet (g_parent gs) = true -> i = length (g_secs gs) ->
  (match o with GWrite j _ _ _ | GOverwrite j _ | GClear j _ | GAddContent j _ => j = i | _ => False end) ->
  forall st1 gs1 f1 e1, gstep ansi w st gs f GCreate = Ok (st1, gs1, f1, e1) ->
  gstep ansi w st1 gs1 f1 o = Ok (st1, gs1, f1, []).
Proof.
  intros ansi w st gs f o i Hq Hi Ho st1 gs1 f1 e1 H1. apply refused_invisible.
  unfold gstep in H1. cbn [sop_of allowed] in H1.
  destruct (sec_step ansi w st f (SCreate (g_pindent gs))) as [[[a b] c]|]; cbn [bind fst snd] in H1; [|discriminate].
  inversion H1; subst gs1.
  assert (forall fl, asks (gates_step gs GCreate) (length (g_secs gs)) fl = false) as HA.
  { intros fl. unfold asks, gate_of. cbn [gates_step with_secs g_secs]. rewrite app_nth2 by apply le_n. rewrite PeanoNat.Nat.sub_diag. cbn [nth].
    rewrite Hq. reflexivity. }
  destruct o; try contradiction; cbn [allowed]; subst; apply HA.
Qed.
Print Assumptions section_of_quiet_output_is_silent.

(* the groups of calls the driver runs (run_C10S) are the run of their concatenation, one emit list per group *)
Theorem groups_are_one_run : forall ansi w groups st gs f st' gs' f' ess,
  grun_groups ansi w st gs f groups = Ok (st', gs', f', ess) ->
  grun ansi w st gs f (concat groups) = Ok (st', gs', f', concat ess) /\ length ess = length groups.
Proof. exact grun_groups_concat. Qed.
Print Assumptions groups_are_one_run.

(* ---- instances ---- *)
Definition g_f : formatter := match new_formatter (FAnsi true) [] with Ok f => f | Err _ => {| f_kind := FAnsi true; f_styles := []; f_stack := [] |} end.
Definition t_older : str := [111;108;100;101;114]%N.          (* older *)
Definition t_mark : str := [77;65;82;75]%N.                   (* MARK *)
Definition t_later : str := [108;97;116;101;114]%N.           (* later *)
(* the scenario of the seeded change C10-g: two sections; the NEWER one is refused a write_line (flags VERBOSE at
   verbosity NORMAL), then the OLDER one is written to, which prints the newer ones again.  The stream is that of the
   sequence without the refused call, no cell of it is an 'M', the screen shows older / later, section 1 has no content. *)
Example c10g_refused_text_absent :
  let ops := [GCreate; GCreate; GWrite 0 t_older None true; GWrite 1 t_mark (Some VERBOSE) true; GWrite 0 t_later None true] in
  match grun true 10 [] gates0 g_f ops, grun true 10 [] gates0 g_f [GCreate; GCreate; GWrite 0 t_older None true; GWrite 0 t_later None true] with
  | Ok (st, _, _, es), Ok (st', _, _, es') =>
      es = es' /\ st = st' /\ existsb (fun e => match e with Ch 77%N => true | _ => false end) es = false
      /\ rows (feed 10 term_init es) = [t_older; t_later; []] /\ map sc_content st = [[t_older; t_later]; []]
      /\ kept gates0 ops = [GCreate; GCreate; GWrite 0 t_older None true; GWrite 0 t_later None true]
  | _, _ => False
  end.
Proof. vm_compute. repeat split. Qed.
(* the same with a quiet newer section, and the allowed write when the section is verbose enough *)
Example c10g_quiet_and_verbose :
  (match grun true 10 [] gates0 g_f [GCreate; GCreate; GWrite 0 t_older None true; GSetQuiet 1 true; GWrite 1 t_mark None true;
                                 GOverwrite 1 t_mark; GSetQuiet 1 false; GWrite 0 t_later None true] with
   | Ok (st, _, _, es) => rows (feed 10 term_init es) = [t_older; t_later; []] /\ map sc_content st = [[t_older; t_later]; []]
   | Err _ => False end) /\
  (match grun true 10 [] gates0 g_f [GCreate; GCreate; GWrite 0 t_older None true; GSetVerbosity 1 LVerbose;
                                 GWrite 1 t_mark (Some VERBOSE) true; GWrite 0 t_later None true] with
   | Ok (st, _, _, es) => rows (feed 10 term_init es) = [t_older; t_later; t_mark; []] /\ map sc_content st = [[t_older; t_later]; [t_mark]]
   | Err _ => False end).
Proof. vm_compute. repeat split. Qed.
(* THE FINDING this model made, repaired in /repo a112510: clear() (and overwrite, clear(1)) of a quiet decorated section
   emits nothing AND leaves the record alone.  The later write into the older section erases the row that is on the
   screen and prints it again: the screen shows older / later / MARK, the contents are older, later / MARK - no trace of
   the refused calls, the run is that of the sequence without them.  (Before the repair the record of section 1 was cut:
   screen older / MARK / later against contents older, later / nothing.) *)
Example c10_refused_clear_leaves_no_trace :
  let ops := [GCreate; GCreate; GWrite 0 t_older None true; GWrite 1 t_mark None true; GSetQuiet 1 true; GClear 1 None;
              GOverwrite 1 t_later; GClear 1 (Some 1); GSetQuiet 1 false; GWrite 0 t_later None true] in
  match grun true 10 [] gates0 g_f ops with
  | Ok (st, _, _, es) => rows (feed 10 term_init es) = [t_older; t_later; t_mark; []] /\ map sc_content st = [[t_older; t_later]; [t_mark]]
                         /\ map sc_lines st = [2; 1]
                         /\ kept gates0 ops = [GCreate; GCreate; GWrite 0 t_older None true; GWrite 1 t_mark None true; GSetQuiet 1 true;
                                          GSetQuiet 1 false; GWrite 0 t_later None true]
  | Err _ => False
  end.
Proof. vm_compute. repeat split. Qed.

(* the two pristine findings of the reflection-driven table, on the model of the repaired code:
   a quiet OUTPUT, then section(), then write_line into it: nothing; the public add_content of a quiet section, then a write
   into the older section: the text is nowhere *)
Example c10_section_of_quiet_output_and_add_content :
  (match grun true 10 [] gates0 g_f [GParentQuiet true; GCreate; GWrite 0 t_mark None true] with
   | Ok (st, gs, _, es) => es = [] /\ map sc_content st = [[]] /\ map g_quiet (g_secs gs) = [true] | Err _ => False end) /\
  (match grun true 10 [] gates0 g_f [GCreate; GCreate; GWrite 0 t_older None true; GSetQuiet 1 true; GAddContent 1 t_mark;
                                     GWrite 0 t_later None true] with
   | Ok (st, _, _, es) => rows (feed 10 term_init es) = [t_older; t_later; []] /\ map sc_content st = [[t_older; t_later]; []]
                          /\ existsb (fun e => match e with Ch 77%N => true | _ => false end) es = false
   | Err _ => False end).
Proof. vm_compute. repeat split. Qed.
(* ==== added after the Coq review (REPORT "C10: minor issues" 1 and 3) ====
   Note on gate_iff and refused_call_is_invisible above: both hold by unfolding - emits is forallb may_write over the
   hand-written table `path` (transcribed from the method bodies), gstep is "the Section.v step iff allowed, else the
   identity".  They are statements about the composed MODEL; that the code has this shape is what the tie validates. *)
From Clikit Require Import Proofs.GateMonoLemmas.

(* monotonicity at the level of the entry points: whatever output / section method emits at verbosity v emits at every
   verbosity v' >= v of a non-quiet output (every integer v, v'; gate_monotone above is the same for the bare gate) *)
Theorem emits_monotone : forall k a m q v v' f, (v <= v')%Z ->
  emits k a m q v f = true -> emits k a m false v' f = true.
Proof. exact emits_monotone_lemma. Qed.
Print Assumptions emits_monotone.
Theorem emits_antitone : forall k a m q v v' f, (v <= v')%Z ->
  emits k a m false v' f = false -> emits k a m q v f = false.
Proof. exact emits_antitone_lemma. Qed.
Print Assumptions emits_antitone.
Theorem quiet_silences_every_entry_point : forall k a m v f, emits k a m true v f = false.
Proof. exact emits_quiet_lemma. Qed.
Print Assumptions quiet_silences_every_entry_point.
Example emits_monotone_instance :
  emits KSection true MWriteLine false VERBOSE (Some 3%Z) = true /\ emits KSection true MWriteLine false DEBUG (Some 3%Z) = true /\
  emits KSection true MWriteLine false NORMAL (Some 3%Z) = false /\
  emits KOutput false MWriteRaw false VERY_VERBOSE (Some 6%Z) = true /\ emits KOutput false MWriteRaw false VERBOSE (Some 6%Z) = false.
Proof.
  assert (emits KSection true MWriteLine false VERBOSE (Some 3%Z) = true) as H by (vm_compute; reflexivity).
  split; [exact H|]. split; [apply (emits_monotone_lemma _ _ _ false VERBOSE DEBUG _); [vm_compute; discriminate|exact H]|].
  vm_compute. auto.
Qed.
Print Assumptions emits_monotone_instance.

(* ---- the section index of the composed model ----
   In the code the target of write / overwrite / clear is a SectionOutput OBJECT: "a call on a section that does not exist"
   cannot be written down, and no IndexError of clikit corresponds to it (the harness keeps the created sections in a Python
   list and draws indexes below the number created so far; an index beyond it would be an IndexError of the harness's own
   list, before clikit is entered).  The model totalises it:
     target o         the section index a call names (none for section());
     gate_asked o     the index and the flags a call asks the gate with (write: the caller's; overwrite, clear: None);
     gate_of gs i     uses the `nth` DEFAULT beyond the list: a fresh gate (not quiet, NORMAL);
     Section.v        returns the state unchanged for an index without section.
   So on a nonexistent index gstep is the identity and returns Ok - whether the flags would pass the default gate or not: *)
Theorem gstep_on_nonexistent_section : forall ansi w st gs f o i,
  target o = Some i -> length st <= i -> length (g_secs gs) <= i -> gstep ansi w st gs f o = Ok (st, gs, f, []).
Proof. exact gstep_nonexistent_section_lemma. Qed.
Print Assumptions gstep_on_nonexistent_section.
Theorem gate_asked_out_of_range_is_the_default : forall gs o i fl, gate_asked o = Some (i, fl) -> length (g_secs gs) <= i ->
  allowed gs o = may_write false NORMAL fl.
Proof. exact allowed_out_of_range_lemma. Qed.
Print Assumptions gate_asked_out_of_range_is_the_default.
(* UNDER THE IN-RANGE GUARD (the only calls that exist in the code): the gate asked is the one of the section itself, with
   that section's own quiet / verbosity ... *)
Theorem gate_asked_is_the_sections_own : forall gs o i fl g, gate_asked o = Some (i, fl) -> nth_error (g_secs gs) i = Some g ->
  allowed gs o = may_write (g_quiet g) (g_verb g) fl.
Proof. exact allowed_in_range_lemma. Qed.
Print Assumptions gate_asked_is_the_sections_own.
(* ... and the step is: refused iff THAT gate refuses the flags asked, and then the identity (refused_call_is_invisible);
   otherwise the Section.v step, the settings untouched *)
Theorem gstep_in_range : forall ansi w st gs f o i fl g so, gate_asked o = Some (i, fl) -> sop_of gs o = Some so ->
  nth_error (g_secs gs) i = Some g ->
  gstep ansi w st gs f o =
    if may_write (g_quiet g) (g_verb g) fl
    then do a <- sec_step ansi w st f so; Ok (fst (fst a), gs, snd (fst a), snd a)
    else Ok (st, gs, f, []).
Proof. exact gstep_in_range_lemma. Qed.
Print Assumptions gstep_in_range.
(* the settings stay parallel to the sections along every run that starts so (every run of the driver starts from [] and gates0),
   hence "the index names a section" and "the index names a gate" are one condition *)
Theorem run_keeps_settings_parallel : forall ansi w ops st gs f st' gs' f' es,
  grun ansi w st gs f ops = Ok (st', gs', f', es) -> length (g_secs gs) = length st -> length (g_secs gs') = length st'.
Proof. exact grun_parallel_lemma. Qed.
Print Assumptions run_keeps_settings_parallel.

(* Instance.  Two sections, the newer one quiet.  In range: the SAME call (write_line MARK, no flags) is performed on
   section 0 and refused on section 1 - each by its own gate.  Out of range (index 5): write_line with flags VERBOSE (the
   default gate would refuse) and without flags (it would allow), overwrite, clear, set_quiet: all the identity, all Ok. *)
Example section_index_instance :
  match grun true 10 [] gates0 g_f [GCreate; GCreate; GSetQuiet 1 true] with
  | Ok (st, gs, f, _) =>
      length st = 2 /\ length (g_secs gs) = 2 /\
      allowed gs (GWrite 0 t_mark None true) = true /\ allowed gs (GWrite 1 t_mark None true) = false /\
      (match gstep true 10 st gs f (GWrite 0 t_mark None true) with
       | Ok (st', gs', _, es) => map sc_content st' = [[t_mark]; []] /\ gs' = gs /\ es <> [] | Err _ => False end) /\
      gstep true 10 st gs f (GWrite 1 t_mark None true) = Ok (st, gs, f, []) /\
      allowed gs (GWrite 5 t_mark (Some VERBOSE) true) = false /\ allowed gs (GWrite 5 t_mark None true) = true /\
      gstep true 10 st gs f (GWrite 5 t_mark (Some VERBOSE) true) = Ok (st, gs, f, []) /\
      gstep true 10 st gs f (GWrite 5 t_mark None true) = Ok (st, gs, f, []) /\
      gstep true 10 st gs f (GOverwrite 5 t_mark) = Ok (st, gs, f, []) /\
      gstep false 10 st gs f (GOverwrite 5 t_mark) = Ok (st, gs, f, []) /\
      gstep true 10 st gs f (GClear 5 None) = Ok (st, gs, f, []) /\
      gstep true 10 st gs f (GSetQuiet 5 true) = Ok (st, gs, f, [])
  | Err _ => False
  end.
Proof. vm_compute. repeat split; try reflexivity. discriminate. Qed.
Print Assumptions section_index_instance.

(* ====================================================================================================================
   Fourth session: THE IO LAYER (Model/GateIO.v).  An I/O object with its standard output and its error output, every setter
   of the I/O and of the outputs, section() at both levels, the eight writing methods of IO (which output, which method there,
   which flags: `io_delegate`, transcribed from api/io/io.py) and the text-writing methods of the output objects - as
   operations of HISTORIES, every call made on numbered objects:
     world          the outputs (quiet, verbosity, indentation, formatter kind, stream, decorated?, section?), the I/Os (their two
                    outputs), the interactive flag of the shared input, whether the class can build a section of itself
     step w op      the world after the call and what the call showed: ODone | ORaised k | OWrote stream emitted? | ONothing
     run w ops      all calls of a history, one after the other (a call that raises changes nothing; the history goes on)
     world0 k a b c the start: one I/O on outputs 0 and 1, formatter kind k, streams that support ANSI or not
   The gate law below is no longer "by definition": the setters go through Output.set_verbosity's validation, and the iff needs
   the invariant that every verbosity a history can produce is one of the four levels.
   ==================================================================================================================== *)
From Clikit Require Import Model.GateIO Proofs.GateIOLemmas.

(* THE PROPERTY AT IO LEVEL.  After EVERY history from the start (setters on any I/O and output in any order and repetition,
   invalid verbosities, set_formatter / set_stream, indent, set_interactive, section() of I/Os, of outputs, of sections, other
   writes), for every I/O i that exists then, every one of the eight writing methods, every flag word (None, any integer): the
   call changes nothing and its text reaches the stream of the output the method belongs to (write* the standard output's,
   error* the error output's) IF AND ONLY IF that output is not quiet and its verbosity is at least the lowest level the
   flags ask for. *)
Theorem io_gate_iff : forall k sa se cs h i m fl ab o,
  let w := fst (GateIO.run (world0 k sa se cs) h) in
  nth_error (w_ios w) i = Some ab -> nth_error (w_outs w) (pick (fst (fst (io_delegate m))) ab) = Some o ->
  GateIO.step w (IWrite i m fl) = (w, OWrote (s_sid o) (negb (s_quiet o) && (lowest_level fl <=? s_verb o)%Z)).
Proof. exact io_gate_after_history. Qed.
Print Assumptions io_gate_iff.
(* ... the two hypotheses only name the objects: in every world a history reaches, an I/O's two outputs exist and differ,
   and every verbosity is one of NORMAL / VERBOSE / VERY_VERBOSE / DEBUG (so Output.section()'s own set_verbosity cannot raise) *)
Theorem reachable_worlds_are_well_formed : forall k sa se cs h,
  let w := fst (GateIO.run (world0 k sa se cs) h) in
  Forall (fun o => valid_verbosity (s_verb o) = true) (w_outs w) /\
  Forall (fun ab => fst ab < length (w_outs w) /\ snd ab < length (w_outs w) /\ fst ab <> snd ab) (w_ios w).
Proof. exact reachable_wf. Qed.
Print Assumptions reachable_worlds_are_well_formed.
(* which output each method writes to, as transcribed *)
Example io_delegation_table :
  map (fun m => fst (fst (io_delegate m))) [IoWrite; IoWriteLine; IoWriteRaw; IoWriteLineRaw] = [WOut; WOut; WOut; WOut] /\
  map (fun m => fst (fst (io_delegate m))) [IoError; IoErrorLine; IoErrorRaw; IoErrorLineRaw] = [WErr; WErr; WErr; WErr] /\
  map (fun m => snd (fst (io_delegate m))) [IoWrite; IoWriteLine; IoWriteRaw; IoWriteLineRaw; IoError; IoErrorLine; IoErrorRaw; IoErrorLineRaw]
    = [MWrite; MWriteLine; MWriteRaw; MWriteLineRaw; MWrite; MWriteLine; MWriteRaw; MWriteLineRaw].
Proof. repeat split. Qed.

(* in ANY world - every integer verbosity, also one no setter accepts - the answer is Output._may_write of that output *)
Theorem io_write_asks_the_gate_of_its_output : forall w i m fl ab o,
  nth_error (w_ios w) i = Some ab -> nth_error (w_outs w) (pick (fst (fst (io_delegate m))) ab) = Some o ->
  GateIO.step w (IWrite i m fl) = (w, OWrote (s_sid o) (may_write (s_quiet o) (s_verb o) fl)).
Proof. exact io_write_step. Qed.
Print Assumptions io_write_asks_the_gate_of_its_output.
(* ... and so does every text-writing method called on an output object itself: an output, a section, a section of a section *)
Theorem output_write_asks_its_own_gate : forall w j m fl o,
  nth_error (w_outs w) j = Some o -> has_method o (meth_of_wm m) = true ->
  GateIO.step w (OWrite j m fl) =
    (w, OWrote (s_sid o) (may_write (s_quiet o) (s_verb o) (if takes_flags (meth_of_wm m) then fl else None))).
Proof. exact out_write_step. Qed.
Print Assumptions output_write_asks_its_own_gate.

(* (C) set_stream / set_formatter between calls.  The gate does not look at them: two output objects with the same quiet flag
   and verbosity answer every text-writing method alike - whatever their streams, formatters, indentation, decorated or not,
   output or section ... *)
Theorem gate_does_not_depend_on_stream_or_formatter : forall o o' m fl,
  s_quiet o = s_quiet o' -> s_verb o = s_verb o' ->
  has_method o (meth_of_wm m) = true -> has_method o' (meth_of_wm m) = true ->
  out_emits o (meth_of_wm m) fl = out_emits o' (meth_of_wm m) fl.
Proof. exact out_gate_ignores_the_rest. Qed.
Print Assumptions gate_does_not_depend_on_stream_or_formatter.

(* WHAT THE SETTERS OF THE I/O REACH.  io.set_quiet(q) / io.set_verbosity(v), on any I/O of any world: BOTH outputs of that I/O
   get the value (nothing else about them changes), EVERY other output - the sections made from them BEFORE included - is left
   exactly as it was, and a section made AFTERWARDS (io.section()) starts with the value on both of its outputs (cf. /repo
   e696a15).  An invalid verbosity raises ValueError and changes nothing. *)
Theorem io_setters_reach_both_outputs : forall w i a b oa ob,
  nth_error (w_ios w) i = Some (a, b) -> nth_error (w_outs w) a = Some oa -> nth_error (w_outs w) b = Some ob ->
  (forall q, let r := GateIO.step w (ISetQuiet i q) in let w' := fst r in
     snd r = ODone /\ nth_error (w_outs w') a = Some (put_quiet q oa) /\ nth_error (w_outs w') b = Some (put_quiet q ob) /\
     (forall j, j <> a -> j <> b -> nth_error (w_outs w') j = nth_error (w_outs w) j) /\
     w_ios w' = w_ios w /\ length (w_outs w') = length (w_outs w) /\
     (w_cansec w = true ->
      let w2 := fst (GateIO.step w' (ISection i)) in
      snd (GateIO.step w' (ISection i)) = ODone /\
      nth_error (w_ios w2) (length (w_ios w)) = Some (length (w_outs w), S (length (w_outs w))) /\
      nth_error (w_outs w2) (length (w_outs w)) = Some (section_of (put_quiet q oa)) /\
      nth_error (w_outs w2) (S (length (w_outs w))) = Some (section_of (put_quiet q ob)))) /\
  (forall v, valid_verbosity v = true -> let r := GateIO.step w (ISetVerbosity i v) in let w' := fst r in
     snd r = ODone /\ nth_error (w_outs w') a = Some (put_verb v oa) /\ nth_error (w_outs w') b = Some (put_verb v ob) /\
     (forall j, j <> a -> j <> b -> nth_error (w_outs w') j = nth_error (w_outs w) j) /\
     w_ios w' = w_ios w /\ length (w_outs w') = length (w_outs w) /\
     (w_cansec w = true ->
      let w2 := fst (GateIO.step w' (ISection i)) in
      snd (GateIO.step w' (ISection i)) = ODone /\
      nth_error (w_ios w2) (length (w_ios w)) = Some (length (w_outs w), S (length (w_outs w))) /\
      nth_error (w_outs w2) (length (w_outs w)) = Some (section_of (put_verb v oa)) /\
      nth_error (w_outs w2) (S (length (w_outs w))) = Some (section_of (put_verb v ob)))) /\
  (forall v, valid_verbosity v = false -> GateIO.step w (ISetVerbosity i v) = (w, ORaised ValueError)).
Proof. exact io_setters_lemma. Qed.
Print Assumptions io_setters_reach_both_outputs.
(* ... in particular a section made BEFORE the I/O is silenced (or turned up) keeps what it started with: the setters of an
   I/O do not reach the sections made from it earlier (they are objects of their own; their own setters do) *)
Theorem older_sections_keep_their_settings : forall w i a b oa ob s,
  nth_error (w_ios w) i = Some (a, b) -> nth_error (w_outs w) a = Some oa -> nth_error (w_outs w) b = Some ob ->
  w_cansec w = true -> (exists q, s = ISetQuiet i q) \/ (exists v, s = ISetVerbosity i v) ->
  let w1 := fst (GateIO.step w (ISection i)) in
  let w2 := fst (GateIO.step w1 s) in
  nth_error (w_ios w2) (length (w_ios w)) = Some (length (w_outs w), S (length (w_outs w))) /\
  nth_error (w_outs w2) (length (w_outs w)) = Some (section_of oa) /\
  nth_error (w_outs w2) (S (length (w_outs w))) = Some (section_of ob).
Proof. exact older_section_untouched. Qed.
Print Assumptions older_sections_keep_their_settings.

(* SECTIONS OF SECTIONS exist in the code: SectionOutput inherits Output.section().  Called on ANY output object x - an output,
   a section, a section of a section - it makes a section output on x's stream that starts with x's quiet flag, verbosity and
   indentation (and x's formatter); afterwards the two are independent objects.  (The new object keeps its own, fresh list of
   sections - `self._section_outputs` of x, not the list x itself lives in -, so the STACKING of C15 does not extend to it:
   Model/GatedSection.v and C15 do not model a section of a section; the gate does.) *)
Theorem section_of_any_output_starts_with_its_settings : forall w j x, nth_error (w_outs w) j = Some x ->
  GateIO.step w (OSection j) =
    ({| w_outs := w_outs w ++ [section_of x]; w_ios := w_ios w; w_inter := w_inter w; w_cansec := w_cansec w |}, ODone) /\
  s_quiet (section_of x) = s_quiet x /\ s_verb (section_of x) = s_verb x /\ s_indent (section_of x) = s_indent x /\
  s_sid (section_of x) = s_sid x /\ s_fk (section_of x) = s_fk x /\ s_sec (section_of x) = true.
Proof. exact out_section_step. Qed.
Print Assumptions section_of_any_output_starts_with_its_settings.

(* ONLY THE LAST VALUE COUNTS.  gives_quiet w op j / gives_verb w op j: the quiet value / the (valid) verbosity the call op gives
   to output j - io.set_quiet / set_verbosity when j is one of the two outputs of that I/O, output.set_quiet / set_verbosity
   when it is that output; every other call, and set_verbosity with an invalid level, gives none.  After ANY history h -
   setters in any order and repetition, set_stream, set_formatter, indent, set_interactive, section() at every level, writes,
   calls that raise - an output that existed at the start has the LAST quiet value and the LAST verbosity a call of h gave it,
   or what it had when no call gave it one. *)
Theorem settings_are_the_last_values_given : forall w j o, nth_error (w_outs w) j = Some o -> forall h,
  option_map s_quiet (nth_error (w_outs (GateIO.exec w h)) j) = Some (or_else (last_given (fun op => gives_quiet w op j) h) (s_quiet o)) /\
  option_map s_verb (nth_error (w_outs (GateIO.exec w h)) j) = Some (or_else (last_given (fun op => gives_verb w op j) h) (s_verb o)).
Proof. exact last_value_lemma. Qed.
Print Assumptions settings_are_the_last_values_given.
Theorem run_ends_where_exec_ends : forall h w, fst (GateIO.run w h) = GateIO.exec w h.
Proof. exact run_exec. Qed.
Print Assumptions run_ends_where_exec_ends.
(* ... hence two histories that give the two outputs of an I/O the same last values leave each of its eight writing methods
   with the same answer, for every flag word - whatever else the histories did and in whatever order *)
Theorem gate_depends_only_on_the_last_values_given : forall w i a b h1 h2,
  wf w -> nth_error (w_ios w) i = Some (a, b) ->
  (forall j, j = a \/ j = b ->
     last_given (fun op => gives_quiet w op j) h1 = last_given (fun op => gives_quiet w op j) h2 /\
     last_given (fun op => gives_verb w op j) h1 = last_given (fun op => gives_verb w op j) h2) ->
  forall m fl, emitted (snd (GateIO.step (GateIO.exec w h1) (IWrite i m fl))) = emitted (snd (GateIO.step (GateIO.exec w h2) (IWrite i m fl))).
Proof. exact same_last_values_same_gate. Qed.
Print Assumptions gate_depends_only_on_the_last_values_given.
(* ... and a set_quiet and a set_verbosity - each on an I/O or on one output, the same objects or different ones, a valid
   level or one that raises - leave the SAME WORLD in either order *)
Theorem set_quiet_and_set_verbosity_commute : forall w s1 s2, is_quiet_setter s1 = true -> is_verb_setter s2 = true ->
  GateIO.exec w [s1; s2] = GateIO.exec w [s2; s1].
Proof. exact quiet_verb_commute. Qed.
Print Assumptions set_quiet_and_set_verbosity_commute.

(* MONOTONE ALONG HISTORIES.  raises op op': op' is op itself, or the same set_quiet leaving quiet mode where op entered it
   (q' = true -> q = true), or the same set_verbosity with a level at least as high (both valid).  obs_le x x': the two calls
   showed the same, except that a writing call whose text did not reach the stream in x may reach it in x' - never the other
   way round.  For every pair of histories related call by call: every text shown by the first is shown by the second, on the
   same stream.  Raising the verbosity or leaving quiet mode ANYWHERE in a history never removes a write ANYWHERE later. *)
Theorem io_monotone : forall k sa se cs h h', Forall2 raises h h' ->
  Forall2 obs_le (snd (GateIO.run (world0 k sa se cs) h)) (snd (GateIO.run (world0 k sa se cs) h')).
Proof. exact io_monotone_lemma. Qed.
Print Assumptions io_monotone.
(* the same from any two worlds of which the second is at least as permissive, output by output (le_world) *)
Theorem io_monotone_from_any_worlds : forall h h', Forall2 raises h h' -> forall w w', le_world w w' ->
  Forall2 obs_le (snd (GateIO.run w h)) (snd (GateIO.run w' h')) /\ le_world (fst (GateIO.run w h)) (fst (GateIO.run w' h')).
Proof. exact run_le. Qed.
Print Assumptions io_monotone_from_any_worlds.

(* ---- instances (the hypotheses above are inhabited; the histories of the task) ---- *)
Definition w_plain : world := world0 FPlain false false true.
(* "set_verbosity; write; set_quiet; write" and "set_quiet; write; set_verbosity; write": in BOTH orders *)
Example setters_in_both_orders :
  snd (GateIO.run w_plain [ISetVerbosity 0 VERBOSE; IWrite 0 IoWriteLine (Some VERBOSE); ISetQuiet 0 true;
                           IWrite 0 IoWriteLine (Some VERBOSE); IWrite 0 IoErrorLine None])
    = [ODone; OWrote 0 true; ODone; OWrote 0 false; OWrote 1 false] /\
  snd (GateIO.run w_plain [ISetQuiet 0 true; IWrite 0 IoWriteLine (Some VERBOSE); ISetVerbosity 0 VERBOSE;
                           IWrite 0 IoWriteLine (Some VERBOSE); ISetQuiet 0 false; IWrite 0 IoErrorLine (Some VERBOSE);
                           IWrite 0 IoErrorRaw (Some VERY_VERBOSE)])
    = [ODone; OWrote 0 false; ODone; OWrote 0 false; ODone; OWrote 1 true; OWrote 1 false] /\
  GateIO.exec w_plain [ISetQuiet 0 true; ISetVerbosity 0 DEBUG] = GateIO.exec w_plain [ISetVerbosity 0 DEBUG; ISetQuiet 0 true].
Proof. vm_compute. repeat split. Qed.
(* a section made before the I/O is silenced still writes (I/O 1, outputs 2 and 3); the I/O itself does not; a section made
   afterwards (I/O 2, outputs 4 and 5) starts quiet and stays so when the parent leaves quiet mode; a section of that section
   (output 6) starts quiet too, until it is told otherwise itself - and then overwrite, which takes no flags, writes *)
Example io_setters_and_sections :
  snd (GateIO.run w_plain [ISection 0; ISetQuiet 0 true; IWrite 1 IoWriteLine None; IWrite 1 IoError None; IWrite 0 IoWriteLine None;
                           ISection 0; IWrite 2 IoErrorLine None; ISetQuiet 0 false; IWrite 2 IoErrorLine None; IWrite 0 IoErrorLine None;
                           OSection 4; OWrite 6 WmWriteLine None; OSetQuiet 6 false; OWrite 6 WmOverwrite None; OWrite 4 WmWriteLine None])
    = [ODone; ODone; OWrote 0 true; OWrote 1 true; OWrote 0 false;
       ODone; OWrote 1 false; ODone; OWrote 1 false; OWrote 1 true;
       ODone; OWrote 0 false; ODone; OWrote 0 true; OWrote 0 false].
Proof. vm_compute. reflexivity. Qed.
(* an invalid level raises and changes nothing; NullIO cannot make a section; set_stream moves the text, set_formatter and
   set_stream change `decorated`, neither changes the gate; an Output has no overwrite *)
Example invalid_level_null_io_streams :
  GateIO.step w_plain (ISetVerbosity 0 3) = (w_plain, ORaised ValueError) /\
  GateIO.step w_plain (OSetVerbosity 1 (-1)) = (w_plain, ORaised ValueError) /\
  GateIO.step (world0 FNull false false false) (ISection 0) = (world0 FNull false false false, ORaised TYPE_ERROR) /\
  GateIO.step w_plain (OWrite 0 WmOverwrite None) = (w_plain, ORaised ATTRIBUTE_ERROR) /\
  snd (GateIO.run w_plain [ISetVerbosity 0 VERBOSE; OSetStream 1 2 true; ISetFormatter 0 (FAnsi false); IWrite 0 IoError (Some VERBOSE);
                           IWrite 0 IoError (Some DEBUG); IWrite 0 IoWrite (Some VERBOSE)])
    = [ODone; ODone; ODone; OWrote 2 true; OWrote 2 false; OWrote 0 true] /\
  map s_fo (w_outs (GateIO.exec w_plain [OSetStream 1 2 true; ISetFormatter 0 FPlain])) = [false; true] /\
  map s_fo (w_outs (GateIO.exec (world0 FPlain true true true) [])) = [false; false].
Proof. vm_compute. repeat split. Qed.
(* io_monotone is not vacuous: two related histories, the second leaves quiet mode and raises the verbosity; a text refused
   in the first is shown in the second *)
Example io_monotone_instance :
  let h := [ISetQuiet 0 true; ISetVerbosity 0 NORMAL; ISection 0; IWrite 1 IoErrorLine (Some VERY_VERBOSE); IWrite 0 IoWrite None] in
  let h' := [ISetQuiet 0 false; ISetVerbosity 0 VERY_VERBOSE; ISection 0; IWrite 1 IoErrorLine (Some VERY_VERBOSE); IWrite 0 IoWrite None] in
  Forall2 raises h h' /\
  snd (GateIO.run w_plain h) = [ODone; ODone; ODone; OWrote 1 false; OWrote 0 false] /\
  snd (GateIO.run w_plain h') = [ODone; ODone; ODone; OWrote 1 true; OWrote 0 true].
Proof.
  split; [|vm_compute; split; reflexivity].
  repeat constructor; try discriminate; try reflexivity; unfold NORMAL, VERY_VERBOSE; discriminate.
Qed.
(* the last values given: output 1 (the error output) is reached by io.set_quiet and by its own setter, not by output 0's;
   an invalid level gives nothing *)
Example last_values_instance :
  let h := [ISetQuiet 0 true; ISetVerbosity 0 DEBUG; OSetQuiet 0 false; OSetVerbosity 0 VERBOSE; ISetVerbosity 0 3; IWrite 0 IoError None] in
  last_given (fun op => gives_quiet w_plain op 1) h = Some true /\ last_given (fun op => gives_verb w_plain op 1) h = Some DEBUG /\
  last_given (fun op => gives_quiet w_plain op 0) h = Some false /\ last_given (fun op => gives_verb w_plain op 0) h = Some VERBOSE /\
  map (fun o => (s_quiet o, s_verb o)) (w_outs (GateIO.exec w_plain h)) = [(false, VERBOSE); (true, DEBUG)] /\ wf w_plain.
Proof. split; [|split; [|split; [|split; [|split]]]]; try (vm_compute; reflexivity). apply wf_world0. Qed.
