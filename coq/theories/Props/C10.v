(* C10 - quiet and verbosity gate every write path identically. *)
From Clikit Require Import Base.Prelude Model.Gate Proofs.GateLemmas.

(* The gate itself: for EVERY flag word (any integer, also undefined bits and negatives)
   and every verbosity >= 0, text passes iff the output is not quiet and its verbosity is
   at least the lowest level the flags ask for. *)
Theorem gate_level : forall q v f, (0 <= v)%Z ->
  may_write q v f = negb q && (lowest_level f <=? v)%Z.
Proof. exact may_write_level. Qed.
Print Assumptions gate_level.

(* Every modelled entry point that writes text (output / section x decorated or not x
   method) emits exactly when the gate, asked with the caller's flags (None for methods
   without a flags parameter), says so. *)
Theorem gate_iff : forall k a m q v f p, path k a m = Some p ->
  emits k a m q v (if takes_flags m then f else None) = may_write q v (if takes_flags m then f else None).
Proof. exact gate_iff_lemma. Qed.
Print Assumptions gate_iff.

Theorem gate_monotone : forall v v' f, (0 <= v <= v')%Z ->
  may_write false v f = true -> may_write false v' f = true.
Proof. exact gate_monotone_lemma. Qed.
Print Assumptions gate_monotone.

Theorem quiet_silent : forall v f, may_write true v f = false.
Proof. exact quiet_silent_lemma. Qed.
Print Assumptions quiet_silent.

(* ---- the hand model re-checked against the source on every build ----
   Generated/GenGate.v is what harness/translate.py (a fail-closed translator of a small pure subset of Python) makes of
   Output._may_write and of the constants of api/io/flags.py in the source tree at hand; bin/setup regenerates it before
   every build.  The gate of the model IS that function, for every quiet, verbosity and flags (None, any integer): *)
From Clikit Require Generated.GenGate Proofs.GenEquivLemmas.
Theorem may_write_matches_source : forall quiet verbosity flags,
  GenGate.may_write quiet verbosity flags = may_write quiet verbosity flags.
Proof. exact GenEquivLemmas.gen_may_write_eq. Qed.
Print Assumptions may_write_matches_source.

Theorem gate_constants_match_source :
  GenGate.NORMAL = NORMAL /\ GenGate.VERBOSE = VERBOSE /\ GenGate.VERY_VERBOSE = VERY_VERBOSE /\ GenGate.DEBUG = DEBUG.
Proof. exact GenEquivLemmas.gen_gate_constants. Qed.
Print Assumptions gate_constants_match_source.

(* ... so gate_level is a statement about the translated code itself *)
Theorem source_gate_level : forall q v f, (0 <= v)%Z ->
  GenGate.may_write q v f = negb q && (lowest_level f <=? v)%Z.
Proof. intros q v f H. rewrite GenEquivLemmas.gen_may_write_eq. exact (may_write_level q v f H). Qed.
Print Assumptions source_gate_level.

Example gate_nonvacuous :
  emits KSection true MWriteLine false VERBOSE (Some 3%Z) = true /\
  emits KSection true MWriteLine false NORMAL (Some 3%Z) = false /\
  emits KSection true MWriteLine false DEBUG (Some 8%Z) = true.
Proof. vm_compute. auto. Qed.

(* ======================================================================================================================
   The gate composed with the section model (Model/GatedSection.v): write(text, flags) / write_line(text, flags) /
   overwrite(text) / clear(n) on sections of one stream, every section with its own quiet / verbosity settings that
   set_quiet / set_verbosity change on the way.  A refused call must not only be silent at once: it must leave no trace,
   or what it was given is printed LATER, when an older section is written to and the newer ones are printed again
   (seeded change C10-g).
     allowed gs o        the gate of the section lets the call o through (write: the caller's flags; overwrite, clear: None)
     gstep / grun        the step / run of the code: the Section.v step iff allowed, the identity otherwise (write returns
                         before it pops or records anything; clear asks the gate before it cuts _content / _lines - since
                         /repo a112510, the repair of the finding this model made: a refused clear used to cut the record)
     kept gs ops         ops without its refused calls;  erase gs ops: the Section.v operations of the allowed calls
   ====================================================================================================================== *)
From Clikit Require Import Base.Res Base.Term Model.Markup Model.Section Model.GatedSection
  Proofs.MarkupLemmas Proofs.SectionLemmas Proofs.GatedSectionLemmas.

(* (a) EVERY refused call - write, write_line (any flags), overwrite, clear, full or partial, decorated or not, whatever the
   section has on record - changes neither the stream nor any section's state (content, row count, indentation) nor the
   settings nor the formatter. *)
Theorem refused_call_is_invisible : forall ansi w st gs f o, allowed gs o = false ->
  gstep ansi w st gs f o = Ok (st, gs, f, []).
Proof. exact refused_invisible. Qed.
Print Assumptions refused_call_is_invisible.

(* (b) For EVERY sequence of calls, from any state of sections, settings and formatter: the whole result - the emitted
   stream, every section's content and row count, the settings, the formatter, also the exception if a call raises - is
   that of the sequence with all refused calls removed.  What a refused call was given can never show up, neither at once
   nor later. *)
Theorem refused_text_never_appears : forall ansi w st gs f ops,
  grun ansi w st gs f ops = grun ansi w st gs f (kept gs ops).
Proof. exact refused_never_appears. Qed.
Print Assumptions refused_text_never_appears.

(* ... and it is the flag-less Section.v run (C15) of the operations of the allowed calls; the settings only depend on
   the calls made *)
Theorem gated_run_is_section_run : forall ansi w ops st gs f,
  grun ansi w st gs f ops = lift (gates_after gs ops) (srun ansi w st f (erase gs ops)).
Proof. exact grun_erase. Qed.
Print Assumptions gated_run_is_section_run.

(* two sequences that differ only in what their refused calls were given (texts, flags, line counts) have the same result *)
Theorem refused_arguments_do_not_matter : forall ansi w st gs f ops ops', kept gs ops = kept gs ops' ->
  grun ansi w st gs f ops = grun ansi w st gs f ops'.
Proof. exact refused_arguments_irrelevant. Qed.
Print Assumptions refused_arguments_do_not_matter.

(* (c) The C15 screen theorem lifted.  For EVERY sequence of section creations, indentations, set_quiet / set_verbosity,
   flagged writes, overwrites and clears on a decorated output in which the texts of the ALLOWED writes are good markup
   (the refused ones may be anything), every width >= 1: no call raises, and the terminal fed with the emitted bytes shows
   exactly the stacked visible contents of the sections - which are the contents the allowed calls wrote (the Section.v
   run of erase) -, every row count is right, the style stack is empty. *)
Theorem gated_screen_is_stack : forall w, 1 <= w -> forall f0 ops, is_ansi f0 -> f_stack f0 = [] ->
  good_opsb (f_styles f0) (erase [] ops) = true ->
  exists st f es, grun true w [] [] f0 ops = Ok (st, gates_after [] ops, f, es) /\
    srun true w [] f0 (erase [] ops) = Ok (st, f, es) /\
    feed w term_init es = screen w (f_styles f0) st /\ Forall (sec_ok w (f_styles f0)) st /\ fmt_ok (f_styles f0) f.
Proof. exact gated_screen_lemma. Qed.
Print Assumptions gated_screen_is_stack.

(* the groups of calls the driver runs (run_C10S) are the run of their concatenation, one emit list per group *)
Theorem groups_are_one_run : forall ansi w groups st gs f st' gs' f' ess,
  grun_groups ansi w st gs f groups = Ok (st', gs', f', ess) ->
  grun ansi w st gs f (concat groups) = Ok (st', gs', f', concat ess) /\ length ess = length groups.
Proof. exact grun_groups_concat. Qed.
Print Assumptions groups_are_one_run.

(* ---- instances ---- *)
Definition g_f : formatter := match new_formatter (FAnsi true) [] with Ok f => f | Err _ => {| f_kind := FAnsi true; f_styles := []; f_stack := [] |} end.
Definition t_older : str := [111;108;100;101;114]%N.          (* older *)
Definition t_mark : str := [77;65;82;75]%N.                   (* MARK *)
Definition t_later : str := [108;97;116;101;114]%N.           (* later *)
(* the scenario of the seeded change C10-g: two sections; the NEWER one is refused a write_line (flags VERBOSE at
   verbosity NORMAL), then the OLDER one is written to, which prints the newer ones again.  The stream is that of the
   sequence without the refused call, no cell of it is an 'M', the screen shows older / later, section 1 has no content. *)
Example c10g_refused_text_absent :
  let ops := [GCreate; GCreate; GWrite 0 t_older None true; GWrite 1 t_mark (Some VERBOSE) true; GWrite 0 t_later None true] in
  match grun true 10 [] [] g_f ops, grun true 10 [] [] g_f [GCreate; GCreate; GWrite 0 t_older None true; GWrite 0 t_later None true] with
  | Ok (st, _, _, es), Ok (st', _, _, es') =>
      es = es' /\ st = st' /\ existsb (fun e => match e with Ch 77%N => true | _ => false end) es = false
      /\ rows (feed 10 term_init es) = [t_older; t_later; []] /\ map sc_content st = [[t_older; t_later]; []]
      /\ kept [] ops = [GCreate; GCreate; GWrite 0 t_older None true; GWrite 0 t_later None true]
  | _, _ => False
  end.
Proof. vm_compute. repeat split. Qed.
(* the same with a quiet newer section, and the allowed write when the section is verbose enough *)
Example c10g_quiet_and_verbose :
  (match grun true 10 [] [] g_f [GCreate; GCreate; GWrite 0 t_older None true; GSetQuiet 1 true; GWrite 1 t_mark None true;
                                 GOverwrite 1 t_mark; GSetQuiet 1 false; GWrite 0 t_later None true] with
   | Ok (st, _, _, es) => rows (feed 10 term_init es) = [t_older; t_later; []] /\ map sc_content st = [[t_older; t_later]; []]
   | Err _ => False end) /\
  (match grun true 10 [] [] g_f [GCreate; GCreate; GWrite 0 t_older None true; GSetVerbosity 1 LVerbose;
                                 GWrite 1 t_mark (Some VERBOSE) true; GWrite 0 t_later None true] with
   | Ok (st, _, _, es) => rows (feed 10 term_init es) = [t_older; t_later; t_mark; []] /\ map sc_content st = [[t_older; t_later]; [t_mark]]
   | Err _ => False end).
Proof. vm_compute. repeat split. Qed.
(* THE FINDING this model made, repaired in /repo a112510: clear() (and overwrite, clear(1)) of a quiet decorated section
   emits nothing AND leaves the record alone.  The later write into the older section erases the row that is on the
   screen and prints it again: the screen shows older / later / MARK, the contents are older, later / MARK - no trace of
   the refused calls, the run is that of the sequence without them.  (Before the repair the record of section 1 was cut:
   screen older / MARK / later against contents older, later / nothing.) *)
Example c10_refused_clear_leaves_no_trace :
  let ops := [GCreate; GCreate; GWrite 0 t_older None true; GWrite 1 t_mark None true; GSetQuiet 1 true; GClear 1 None;
              GOverwrite 1 t_later; GClear 1 (Some 1); GSetQuiet 1 false; GWrite 0 t_later None true] in
  match grun true 10 [] [] g_f ops with
  | Ok (st, _, _, es) => rows (feed 10 term_init es) = [t_older; t_later; t_mark; []] /\ map sc_content st = [[t_older; t_later]; [t_mark]]
                         /\ map sc_lines st = [2; 1]
                         /\ kept [] ops = [GCreate; GCreate; GWrite 0 t_older None true; GWrite 1 t_mark None true; GSetQuiet 1 true;
                                          GSetQuiet 1 false; GWrite 0 t_later None true]
  | Err _ => False
  end.
Proof. vm_compute. repeat split. Qed.

(* ==== added after the Coq review (REPORT "C10: minor issues" 1 and 3) ====
   Note on gate_iff and refused_call_is_invisible above: both hold by unfolding - emits is forallb may_write over the
   hand-written table `path` (transcribed from the method bodies), gstep is "the Section.v step iff allowed, else the
   identity".  They are statements about the composed MODEL; that the code has this shape is what the tie validates. *)
From Clikit Require Import Proofs.GateMonoLemmas.

(* monotonicity at the level of the entry points: whatever output / section method emits at verbosity v emits at every
   verbosity v' >= v of a non-quiet output (every integer v, v'; gate_monotone above is the same for the bare gate) *)
Theorem emits_monotone : forall k a m q v v' f, (v <= v')%Z ->
  emits k a m q v f = true -> emits k a m false v' f = true.
Proof. exact emits_monotone_lemma. Qed.
Print Assumptions emits_monotone.
Theorem emits_antitone : forall k a m q v v' f, (v <= v')%Z ->
  emits k a m false v' f = false -> emits k a m q v f = false.
Proof. exact emits_antitone_lemma. Qed.
Print Assumptions emits_antitone.
Theorem quiet_silences_every_entry_point : forall k a m v f, emits k a m true v f = false.
Proof. exact emits_quiet_lemma. Qed.
Print Assumptions quiet_silences_every_entry_point.
Example emits_monotone_instance :
  emits KSection true MWriteLine false VERBOSE (Some 3%Z) = true /\ emits KSection true MWriteLine false DEBUG (Some 3%Z) = true /\
  emits KSection true MWriteLine false NORMAL (Some 3%Z) = false /\
  emits KOutput false MWriteRaw false VERY_VERBOSE (Some 6%Z) = true /\ emits KOutput false MWriteRaw false VERBOSE (Some 6%Z) = false.
Proof.
  assert (emits KSection true MWriteLine false VERBOSE (Some 3%Z) = true) as H by (vm_compute; reflexivity).
  split; [exact H|]. split; [apply (emits_monotone_lemma _ _ _ false VERBOSE DEBUG _); [vm_compute; discriminate|exact H]|].
  vm_compute. auto.
Qed.
Print Assumptions emits_monotone_instance.

(* ---- the section index of the composed model ----
   In the code the target of write / overwrite / clear is a SectionOutput OBJECT: "a call on a section that does not exist"
   cannot be written down, and no IndexError of clikit corresponds to it (the harness keeps the created sections in a Python
   list and draws indexes below the number created so far; an index beyond it would be an IndexError of the harness's own
   list, before clikit is entered).  The model totalises it:
     target o         the section index a call names (none for section());
     gate_asked o     the index and the flags a call asks the gate with (write: the caller's; overwrite, clear: None);
     gate_of gs i     uses the `nth` DEFAULT beyond the list: a fresh gate (not quiet, NORMAL);
     Section.v        returns the state unchanged for an index without section.
   So on a nonexistent index gstep is the identity and returns Ok - whether the flags would pass the default gate or not: *)
Theorem gstep_on_nonexistent_section : forall ansi w st gs f o i,
  target o = Some i -> length st <= i -> length gs <= i -> gstep ansi w st gs f o = Ok (st, gs, f, []).
Proof. exact gstep_nonexistent_section_lemma. Qed.
Print Assumptions gstep_on_nonexistent_section.
Theorem gate_asked_out_of_range_is_the_default : forall gs o i fl, gate_asked o = Some (i, fl) -> length gs <= i ->
  allowed gs o = may_write false NORMAL fl.
Proof. exact allowed_out_of_range_lemma. Qed.
Print Assumptions gate_asked_out_of_range_is_the_default.
(* UNDER THE IN-RANGE GUARD (the only calls that exist in the code): the gate asked is the one of the section itself, with
   that section's own quiet / verbosity ... *)
Theorem gate_asked_is_the_sections_own : forall gs o i fl g, gate_asked o = Some (i, fl) -> nth_error gs i = Some g ->
  allowed gs o = may_write (g_quiet g) (g_verb g) fl.
Proof. exact allowed_in_range_lemma. Qed.
Print Assumptions gate_asked_is_the_sections_own.
(* ... and the step is: refused iff THAT gate refuses the flags asked, and then the identity (refused_call_is_invisible);
   otherwise the Section.v step, the settings untouched *)
Theorem gstep_in_range : forall ansi w st gs f o i fl g so, gate_asked o = Some (i, fl) -> sop_of o = Some so ->
  nth_error gs i = Some g ->
  gstep ansi w st gs f o =
    if may_write (g_quiet g) (g_verb g) fl
    then do a <- sec_step ansi w st f so; Ok (fst (fst a), gs, snd (fst a), snd a)
    else Ok (st, gs, f, []).
Proof. exact gstep_in_range_lemma. Qed.
Print Assumptions gstep_in_range.
(* the settings stay parallel to the sections along every run that starts so (every run of the driver starts from [] []),
   hence "the index names a section" and "the index names a gate" are one condition *)
Theorem run_keeps_settings_parallel : forall ansi w ops st gs f st' gs' f' es,
  grun ansi w st gs f ops = Ok (st', gs', f', es) -> length gs = length st -> length gs' = length st'.
Proof. exact grun_parallel_lemma. Qed.
Print Assumptions run_keeps_settings_parallel.

(* Instance.  Two sections, the newer one quiet.  In range: the SAME call (write_line MARK, no flags) is performed on
   section 0 and refused on section 1 - each by its own gate.  Out of range (index 5): write_line with flags VERBOSE (the
   default gate would refuse) and without flags (it would allow), overwrite, clear, set_quiet: all the identity, all Ok. *)
Example section_index_instance :
  match grun true 10 [] [] g_f [GCreate; GCreate; GSetQuiet 1 true] with
  | Ok (st, gs, f, _) =>
      length st = 2 /\ length gs = 2 /\
      allowed gs (GWrite 0 t_mark None true) = true /\ allowed gs (GWrite 1 t_mark None true) = false /\
      (match gstep true 10 st gs f (GWrite 0 t_mark None true) with
       | Ok (st', gs', _, es) => map sc_content st' = [[t_mark]; []] /\ gs' = gs /\ es <> [] | Err _ => False end) /\
      gstep true 10 st gs f (GWrite 1 t_mark None true) = Ok (st, gs, f, []) /\
      allowed gs (GWrite 5 t_mark (Some VERBOSE) true) = false /\ allowed gs (GWrite 5 t_mark None true) = true /\
      gstep true 10 st gs f (GWrite 5 t_mark (Some VERBOSE) true) = Ok (st, gs, f, []) /\
      gstep true 10 st gs f (GWrite 5 t_mark None true) = Ok (st, gs, f, []) /\
      gstep true 10 st gs f (GOverwrite 5 t_mark) = Ok (st, gs, f, []) /\
      gstep false 10 st gs f (GOverwrite 5 t_mark) = Ok (st, gs, f, []) /\
      gstep true 10 st gs f (GClear 5 None) = Ok (st, gs, f, []) /\
      gstep true 10 st gs f (GSetQuiet 5 true) = Ok (st, gs, f, [])
  | Err _ => False
  end.
Proof. vm_compute. repeat split; try reflexivity. discriminate. Qed.
Print Assumptions section_index_instance.
