(* C10 - quiet and verbosity gate every write path identically. *)
From Clikit Require Import Base.Prelude Model.Gate Proofs.GateLemmas.

(* The gate itself: for EVERY flag word (any integer, also undefined bits and negatives)
   and every verbosity >= 0, text passes iff the output is not quiet and its verbosity is
   at least the lowest level the flags ask for. *)
Theorem gate_level : forall q v f, (0 <= v)%Z ->
  may_write q v f = negb q && (lowest_level f <=? v)%Z.
Proof. exact may_write_level. Qed.
Print Assumptions gate_level.

(* Every modelled entry point that writes text (output / section x decorated or not x
   method) emits exactly when the gate, asked with the caller's flags (None for methods
   without a flags parameter), says so. *)
Theorem gate_iff : forall k a m q v f p, path k a m = Some p ->
  emits k a m q v (if takes_flags m then f else None) = may_write q v (if takes_flags m then f else None).
Proof. exact gate_iff_lemma. Qed.
Print Assumptions gate_iff.

Theorem gate_monotone : forall v v' f, (0 <= v <= v')%Z ->
  may_write false v f = true -> may_write false v' f = true.
Proof. exact gate_monotone_lemma. Qed.
Print Assumptions gate_monotone.

Theorem quiet_silent : forall v f, may_write true v f = false.
Proof. exact quiet_silent_lemma. Qed.
Print Assumptions quiet_silent.

Example gate_nonvacuous :
  emits KSection true MWriteLine false VERBOSE (Some 3%Z) = true /\
  emits KSection true MWriteLine false NORMAL (Some 3%Z) = false /\
  emits KSection true MWriteLine false DEBUG (Some 8%Z) = true.
Proof. vm_compute. auto. Qed.
