(* C08 - splitting a command string never fails and inverts shell-style quoting. *)
From Clikit Require Import Base.Prelude Base.Res Model.Conv Model.Format Model.Parser Model.Resolver Model.Run Model.Tokenizer Model.Switches
  Proofs.TokenizerLemmas Proofs.RawArgsLemmas.

(* For EVERY string, tokenising terminates (the fuel length+2 never runs out) and, since the
   repaired scanner has no failing branch left, returns a token list. *)
Theorem tokenize_total : forall s, exists ts, tokenize s = TOk ts.
Proof. exact tokenize_total_lemma. Qed.
Print Assumptions tokenize_total.

(* Unquoted text (no quote, no backslash) splits exactly at runs of whitespace. *)
Theorem unquoted_split : forall s, forallb plain_char s = true -> tokenize s = TOk (words s).
Proof. exact unquoted_split_lemma. Qed.
Print Assumptions unquoted_split.

(* For EVERY list of expressible tokens, every per-token quote style (single, double, or bare for
   plain non-empty tokens), every run of whitespace before each token (non-empty between tokens) and
   every trailing whitespace, the rendered string tokenises back to exactly that list. *)
Theorem roundtrip : forall items trail,
  items_ok items = true -> all_space trail = true -> seps_ok items = true ->
  tokenize (render items trail) = TOk (map it_tok items).
Proof. exact roundtrip_lemma. Qed.
Print Assumptions roundtrip.

(* Only tokens before the first "--" are option tokens (same function for both raw-args forms). *)
Theorem option_tokens_before_ddash : forall l1 l2,
  forallb (fun t => negb (is_ddash t)) l1 = true -> option_tokens (l1 ++ [DASH; DASH] :: l2) = l1.
Proof. exact option_tokens_cut. Qed.
Print Assumptions option_tokens_before_ddash.
Theorem option_tokens_without_ddash : forall ts,
  forallb (fun t => negb (is_ddash t)) ts = true -> option_tokens ts = ts.
Proof. exact option_tokens_all. Qed.
Print Assumptions option_tokens_without_ddash.

(* Non-vacuity: tokens with embedded quotes, an escaped backslash pair, whitespace inside quotes. *)
Example c08_roundtrip_instance :
  let t1 := [97; 39; 98; 34; 32; 99]%N in          (* a, single quote, b, double quote, space, c *)
  let t2 := [92; 92; 39]%N in                       (* two backslashes then a single quote: an even run before a quote *)
  let items := [([32]%N, Single, t1); ([9; 32]%N, Double, t2); ([32]%N, Bare, [45; 45; 120]%N)] in
  items_ok items = true /\ seps_ok items = true /\
  tokenize (render items [10]%N) = TOk [t1; t2; [45; 45; 120]%N].
Proof. vm_compute. auto. Qed.
Example c08_inexpressible : expressible [97; 92; 39]%N = false /\ expressible [97; 92]%N = false.
Proof. vm_compute. auto. Qed.

(* A command string and the argv list it spells are indistinguishable to parser, resolver and run: StringArgs(s) is
   always defined, and whatever is observed of it (parse with any format and mode, resolve and run on any application)
   is what is observed of ArgvArgs of the tokens. *)
Theorem string_args_always_defined : forall s, exists o, string_args s = Some o.
Proof. exact string_args_defined. Qed.
Print Assumptions string_args_always_defined.
Theorem string_and_argv_indistinguishable : forall s ts, tokenize s = TOk ts -> string_args s = Some (argv_args ts).
Proof. exact string_is_argv. Qed.
Print Assumptions string_and_argv_indistinguishable.
(* in particular for every spelling of a token list (any per-token quote style, any white space between) *)
Theorem every_spelling_is_the_argv_list : forall items trail,
  items_ok items = true -> all_space trail = true -> seps_ok items = true ->
  string_args (render items trail) = Some (argv_args (map it_tok items)).
Proof. exact spelled_string_is_argv. Qed.
Print Assumptions every_spelling_is_the_argv_list.
