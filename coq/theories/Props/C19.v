(* C19 - the automatic progress indicator is well-behaved under EVERY interleaving.
   A schedule is any list of booleans: which thread (spinner / main) runs to its next stream write, sleep or join;
   when it is used up the run is completed (main whenever it can run, else the spinner).  Theorems quantify over
   all schedules, all bodies (set_message / work / raise), all clocks and intervals. *)
From Coq Require Import Lia.
From Clikit Require Import Base.Prelude Base.Res Base.Term Model.Spinner Proofs.TermLemmas Proofs.SpinnerLemmas.

(* Leaving the automatic mode always stops and joins the spinner: both threads have ended and the stop flag is set;
   whether the block was left by an exception is decided by the body alone. *)
Theorem auto_always_stops_spinner : forall t0 iv sm em acts sched,
  let f := run_auto t0 iv sm em acts sched in
  all_done f = true /\ stop f = true /\ mphase_ f = MFinished (has_raise acts).
Proof.
  intros. destruct (auto_always_stops t0 iv sm em acts sched) as [H1 H2]. repeat split; auto. apply exit_kind_lemma.
Qed.
Print Assumptions auto_always_stops_spinner.

(* A normal exit: the last two writes are the end-message frame and the line break, both by the main thread ... *)
Theorem normal_exit_last_frame : forall t0 iv sm em acts sched,
  has_raise acts = false ->
  exists pre, writes (run_auto t0 iv sm em acts sched) = pre ++ [(false, Some (frame 0 em)); (false, None)].
Proof.
  intros t0 iv sm em acts sched Hr. apply normal_exit_last_frame_lemma. rewrite exit_kind_lemma, Hr. reflexivity.
Qed.
Print Assumptions normal_exit_last_frame.
(* ... and on a terminal of any width that fits the messages, the last line shown is exactly that frame. *)
Theorem normal_exit_screen : forall w t0 iv sm em acts sched,
  1 <= w -> fits w sm -> fits w em -> Forall (act_ok (fits w)) acts -> has_raise acts = false ->
  exists R, rows (feed w term_init (flat_map (fun x => emits_of_write (snd x)) (writes (run_auto t0 iv sm em acts sched))))
            = R ++ [frame 0 em; []].
Proof. intros. apply normal_exit_screen_lemma; assumption. Qed.
Print Assumptions normal_exit_screen.

(* The terminal line never shows a mixture of two frames: after ANY prefix of the write history, every row of the
   screen is empty or exactly one frame (one indicator value and one message). *)
Theorem line_never_mixed : forall w t0 iv sm em acts sched n,
  1 <= w -> fits w sm -> fits w em -> Forall (act_ok (fits w)) acts ->
  Forall ok_row (rows (feed w term_init (flat_map (fun x => emits_of_write (snd x))
                                                  (firstn n (writes (run_auto t0 iv sm em acts sched)))))).
Proof. intros. apply line_never_mixed_lemma; assumption. Qed.
Print Assumptions line_never_mixed.
(* ... because every single stream write is a whole frame (erase and text in one write) or a line break. *)
Theorem every_write_is_whole : forall t0 iv sm em acts sched,
  Forall (fun w => whole (snd w)) (writes (run_auto t0 iv sm em acts sched)).
Proof. exact all_writes_whole. Qed.
Print Assumptions every_write_is_whole.

(* Manual mode: redraws by advance() are at least one interval apart ... *)
Theorem manual_throttle : forall iv ops t0 m, (0 <= iv)%Z ->
  spaced iv (adv_times iv (manual_init t0 iv m) t0 ops) /\
  Forall (fun t => t0 + iv <= t)%Z (adv_times iv (manual_init t0 iv m) t0 ops).
Proof. intros iv ops t0 m H. destruct (adv_times_spaced iv H ops (manual_init t0 iv m) t0) as [F S]. split; assumption. Qed.
Print Assumptions manual_throttle.
(* ... and every frame is one indicator value followed by the message current at that time. *)
Theorem manual_frames_wf : forall iv ops t0 m,
  let f := manual_run iv (manual_init t0 iv m) t0 ops in
  Forall mwhole (m_frames f) /\
  (exists pre, m_frames f = pre ++ [Some (frame (m_cur f) (m_msg f))] \/ m_frames f = pre ++ [Some (frame (m_cur f) (m_msg f)); None]) /\
  (forall c, In (indicator c) values).
Proof.
  intros. destruct (manual_run_MI iv ops (manual_init t0 iv m) t0 (manual_init_MI t0 iv m)) as [H1 H2].
  split; [exact H1|]. split; [exact H2|]. exact indicator_in_values.
Qed.
Print Assumptions manual_frames_wf.

(* the premises are satisfiable and the outcomes are not vacuous *)
Example nonvacuous :
  let body := [ASet [120%N]; AWork 250; ASet [121%N]] in
  let f := run_auto 0 100 [104%N] [100%N] body [true; true; false; true; true; false] in
  has_raise body = false /\ existsb fst (writes f) = true /\ 5 <= length (writes f).
Proof. vm_compute. repeat split. lia. Qed.

(* ======================================================================================================================
   The same statements at the granularity of ACCESSES TO SHARED STATE (Model/Spinner2.v, driver entry run_C19F): a thread
   stops before every operation on the stop event, every read and write of _started / _update_time / _current / _message /
   _auto_thread (while both threads exist), every stream write, sleep and join; a schedule orders ALL of them.  Any list of
   indicator values, any format of literal text, {indicator} and {message}, any interval.  harness/sched.py drives the two
   real threads at exactly these points. *)
From Clikit Require Import Model.Spinner2 Proofs.Spinner2Lemmas.

(* Leaving the automatic mode always stops and joins the spinner - whichever way the accesses of the two threads interleave. *)
Theorem fine_auto_always_stops_spinner : forall c t0 sm acts sched,
  let f := run_auto2 c t0 sm acts sched in
  all_done2 f = true /\ stop2 f = true /\ sp2 f = SDone /\ ph2 f = HFinished (has_raise acts).
Proof. exact auto2_always_stops. Qed.
Print Assumptions fine_auto_always_stops_spinner.

(* Every single stream write is a line break or a WHOLE frame: the format with each {indicator} replaced by one of the
   indicator values and each {message} by the start message, the end message or a message the body set. *)
Theorem fine_every_write_is_whole : forall c t0 sm acts sched,
  let P := fun m => m = sm \/ m = c_end c \/ In (ASet m) acts in
  Forall (fun w => match snd w with Some t => frame_ok c P t | None => True end) (writes2 (run_auto2 c t0 sm acts sched)).
Proof.
  intros c t0 sm acts sched P.
  apply (all_writes2_built c P); unfold P; auto.
  apply Forall_forall. intros [m|d|] Hin; cbn; auto.
Qed.
Print Assumptions fine_every_write_is_whole.
(* ... for the built-in format " {indicator} {message}": the format filled with ONE value and ONE message. *)
Theorem fine_default_format_frames : forall c P t, c_fmt c = [PLit [32%N]; PInd; PLit [32%N]; PMsg] -> frame_ok c P t ->
  exists k m, P m /\ t = fill_fmt (c_values c) k m (c_fmt c).
Proof. exact built_indicator_message. Qed.
Print Assumptions fine_default_format_frames.

(* The terminal line never shows a mixture of two frames: after ANY prefix of the write history every row of the screen is
   empty or exactly one whole frame (messages of at most L characters, a terminal wide enough for the format). *)
Theorem fine_line_never_mixed : forall w L c t0 sm acts sched n,
  1 <= w -> fmt_width L (c_fmt c) <= w -> short_msg L sm -> short_msg L (c_end c) -> Forall (act_ok (short_msg L)) acts ->
  Forall (okQ (frame_ok c (short_msg L)))
         (rows (feed w term_init (flat_map (fun x => emits_of_write (snd x)) (firstn n (writes2 (run_auto2 c t0 sm acts sched)))))).
Proof. intros. apply line_never_mixed2_lemma; assumption. Qed.
Print Assumptions fine_line_never_mixed.

(* A normal exit: the last two writes are the end-message frame (indicator reset) and the line break, both by the caller ... *)
Theorem fine_normal_exit_last_frame : forall c t0 sm acts sched, has_raise acts = false ->
  exists pre, writes2 (run_auto2 c t0 sm acts sched) = pre ++ [(false, Some (endframe c)); (false, None)].
Proof. exact normal_exit_last_frame2_lemma. Qed.
Print Assumptions fine_normal_exit_last_frame.
(* ... and the last line shown on the terminal is exactly that frame. *)
Theorem fine_normal_exit_screen : forall w L c t0 sm acts sched,
  1 <= w -> fmt_width L (c_fmt c) <= w -> short_msg L sm -> short_msg L (c_end c) -> Forall (act_ok (short_msg L)) acts ->
  has_raise acts = false ->
  exists R, rows (feed w term_init (flat_map (fun x => emits_of_write (snd x)) (writes2 (run_auto2 c t0 sm acts sched)))) = R ++ [endframe c; []].
Proof. intros. eapply normal_exit_screen2_lemma; eassumption. Qed.
Print Assumptions fine_normal_exit_screen.

(* Manual mode with any values / format / interval: redraws by advance() are at least one interval apart ... *)
Theorem manual_throttle_any_interval : forall c ops t0 m, (0 <= c_interval c)%Z ->
  spaced (c_interval c) (adv_times2 c (manual_init2 c t0 m) t0 ops) /\
  Forall (fun t => t0 + c_interval c <= t)%Z (adv_times2 c (manual_init2 c t0 m) t0 ops).
Proof. intros c ops t0 m H. destruct (adv_times2_spaced c H ops (manual_init2 c t0 m) t0) as [Fa Sp]. split; assumption. Qed.
Print Assumptions manual_throttle_any_interval.
(* ... and every frame is the format filled with one of the indicator values and the message current at that call. *)
Theorem manual_frames_any_values : forall c ops t0 m,
  let f := manual_run2 c (manual_init2 c t0 m) t0 ops in
  Forall (mframe2 c) (n_frames f) /\
  (exists pre, n_frames f = pre ++ [Some (fill_fmt (c_values c) (n_cur f) (n_msg f) (c_fmt c))] \/
               n_frames f = pre ++ [Some (fill_fmt (c_values c) (n_cur f) (n_msg f) (c_fmt c)); None]) /\
  (c_values c <> [] -> forall k, In (indicator2 (c_values c) k) (c_values c)).
Proof.
  intros. destruct (manual_run2_MI2 c ops (manual_init2 c t0 m) t0 (manual_init2_MI2 c t0 m)) as [H1 H2].
  split; [exact H1|]. split; [exact H2|]. intros Hv k. apply indicator2_in_values, Hv.
Qed.
Print Assumptions manual_frames_any_values.

(* not vacuous: two values, the format "{message} ({indicator})", a schedule that lets the spinner draw between the caller's
   write of the message and its read of the indicator position *)
Example fine_nonvacuous :
  let c := {| c_values := [97%N; 98%N]; c_fmt := [PMsg; PLit [32%N; 40%N]; PInd; PLit [41%N]]; c_interval := 100; c_nap := 100; c_end := [100%N] |} in
  let body := [AWork 150; ASet [120%N]] in
  let f := run_auto2 c 0 [115%N] body ([false] ++ repeat true 12 ++ [false] ++ repeat true 9 ++ [false]) in
  has_raise body = false /\ existsb fst (writes2 f) = true /\ 5 <= length (writes2 f) /\ skips2 f = 0.
Proof. vm_compute. repeat split; lia. Qed.
