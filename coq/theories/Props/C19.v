(* C19 - the automatic progress indicator is well-behaved under EVERY interleaving.
   A schedule is any list of booleans: which thread (spinner / main) runs to its next stream write, sleep or join;
   when it is used up the run is completed (main whenever it can run, else the spinner).  Theorems quantify over
   all schedules, all bodies (set_message / work / raise), all clocks and intervals. *)
From Coq Require Import Lia.
From Clikit Require Import Base.Prelude Base.Res Base.Term Model.Spinner Proofs.TermLemmas Proofs.SpinnerLemmas
  Proofs.SpinnerHistoryLemmas.

(* Leaving the automatic mode always stops and joins the spinner: both threads have ended and the stop flag is set;
   whether the block was left by an exception is decided by the body alone.
   "Every body": ARaise is an exit of the body by an exception that auto()'s handler catches.  With the proposed repair
   (proposed-fixes/c19-auto-baseexception: `except BaseException`) that is every exception.  The UNCHANGED code catches
   `(Exception, KeyboardInterrupt)` only: a body ended by SystemExit or GeneratorExit is outside this theorem there, and
   the code does violate the clause on it (thread alive, flag unset - see spinner_runs_until_stopped below). *)
Theorem auto_always_stops_spinner : forall t0 iv sm em acts sched,
  let f := run_auto t0 iv sm em acts sched in
  all_done f = true /\ stop f = true /\ mphase_ f = MFinished (has_raise acts).
Proof.
  intros. destruct (auto_always_stops t0 iv sm em acts sched) as [H1 H2]. repeat split; auto. apply exit_kind_lemma.
Qed.
Print Assumptions auto_always_stops_spinner.

(* A normal exit: the last two writes are the end-message frame and the line break, both by the main thread ... *)
Theorem normal_exit_last_frame : forall t0 iv sm em acts sched,
  has_raise acts = false ->
  exists pre, writes (run_auto t0 iv sm em acts sched) = pre ++ [(false, Some (frame 0 em)); (false, None)].
Proof.
  intros t0 iv sm em acts sched Hr. apply normal_exit_last_frame_lemma. rewrite exit_kind_lemma, Hr. reflexivity.
Qed.
Print Assumptions normal_exit_last_frame.
(* ... and on a terminal of any width that fits the messages, the last line shown is exactly that frame. *)
Theorem normal_exit_screen : forall w t0 iv sm em acts sched,
  1 <= w -> fits w sm -> fits w em -> Forall (act_ok (fits w)) acts -> has_raise acts = false ->
  exists R, rows (feed w term_init (flat_map (fun x => emits_of_write (snd x)) (writes (run_auto t0 iv sm em acts sched))))
            = R ++ [frame 0 em; []].
Proof. intros. apply normal_exit_screen_lemma; assumption. Qed.
Print Assumptions normal_exit_screen.

(* The terminal line never shows a mixture of two frames.  After ANY prefix of the write history the screen is given
   exactly by screen_of (a frame replaces the current line, a line break keeps it and opens an empty one) ... *)
Theorem screen_at_every_point : forall w t0 iv sm em acts sched n,
  1 <= w -> fits w sm -> fits w em -> Forall (act_ok (fits w)) acts ->
  let ws := map snd (firstn n (writes (run_auto t0 iv sm em acts sched))) in
  rows (feed w term_init (flat_map emits_of_write ws)) = screen_of [] [] ws.
Proof. intros. apply screen_at_every_point_lemma; assumption. Qed.
Print Assumptions screen_at_every_point.
(* ... hence every row is empty or IS one of the frames written so far, whole (not "some frame of some message": a
   residue of a longer frame or two frames glued together would have to be a frame some thread wrote in one piece),
   and the current line is the most recent write: that frame, or empty after the line break. *)
Theorem line_never_mixed : forall w t0 iv sm em acts sched n,
  1 <= w -> fits w sm -> fits w em -> Forall (act_ok (fits w)) acts ->
  let ws := map snd (firstn n (writes (run_auto t0 iv sm em acts sched))) in
  let scr := rows (feed w term_init (flat_map emits_of_write ws)) in
  Forall (fun r => r = [] \/ In (Some r) ws) scr /\ exists R, scr = R ++ [latest [] ws].
Proof. intros. apply line_never_mixed_strong_lemma; assumption. Qed.
Print Assumptions line_never_mixed.
(* What the frames written are.  The caller's thread: its frames show, in order, exactly the messages set - the start
   message, every set_message up to a raise, and the end message on a normal exit ... *)
Theorem caller_frames_show_the_messages_set : forall t0 iv sm em acts sched,
  mmsgs (writes (run_auto t0 iv sm em acts sched)) = sm :: until_raise acts ++ (if has_raise acts then [] else [em]).
Proof. exact caller_frames_lemma. Qed.
Print Assumptions caller_frames_show_the_messages_set.
(* ... and EVERY write, wherever the history is cut, is one indicator value and one message in a single stream write
   (erase and text together); a spinner frame shows a message that the caller had set when the spinner formatted it:
   the message of a caller frame written before it, or of the caller's next frame after it (message set, its own
   frame still on the way to the stream).  Never a message not yet set, never a text that no one set. *)
Theorem every_write_is_whole : forall t0 iv sm em acts sched pre b x post,
  writes (run_auto t0 iv sm em acts sched) = pre ++ (b, Some x) :: post ->
  exists c m, x = frame c m /\ In (indicator c) values /\
    (b = true -> In m (mmsgs pre) \/ firstm post None = Some m).
Proof. intros t0 iv sm em acts sched. exact (frames_show_set_messages_lemma t0 iv sm em acts sched). Qed.
Print Assumptions every_write_is_whole.
(* Why every way out of the block has to set the stop flag: while it is unset the spinner thread never ends, whatever
   the clock does (n further steps of the spinner, any n). *)
Theorem spinner_runs_until_stopped : forall n s, spinning s -> spinning (Nat.iter n step_spinner s).
Proof. exact spinner_never_ends_unstopped. Qed.
Print Assumptions spinner_runs_until_stopped.

(* Manual mode: redraws by advance() are at least one interval apart ... *)
Theorem manual_throttle : forall iv ops t0 m, (0 <= iv)%Z ->
  spaced iv (adv_times iv (manual_init t0 iv m) t0 ops) /\
  Forall (fun t => t0 + iv <= t)%Z (adv_times iv (manual_init t0 iv m) t0 ops).
Proof. intros iv ops t0 m H. destruct (adv_times_spaced iv H ops (manual_init t0 iv m) t0) as [F S]. split; assumption. Qed.
Print Assumptions manual_throttle.
(* adv_times are exactly the times at which advance() draws: an advance at time now adds one frame iff the interval is over *)
Theorem manual_advance_draws_iff_interval_over : forall iv s now,
  m_frames (manual_step iv s now MAdvance) =
  if (now <? m_upd s)%Z then m_frames s else m_frames s ++ [Some (frame (S (m_cur s)) (m_msg s))].
Proof. exact advance_redraws. Qed.
Print Assumptions manual_advance_draws_iff_interval_over.
(* ... and every frame is one indicator value followed by the message current at that time: the frames are append-only;
   the operation after any history ops1 adds nothing (an advance before the interval is over), or the frame of the
   state it leaves - position m_cur, message m_msg - (and the line break, for finish); and that message is the one most
   recently set (last_set: by start, set_message or finish). *)
Theorem manual_frames_wf : forall iv t0 m ops1 dt o ops2,
  let now1 := fold_left (fun t x => t + fst x)%Z ops1 t0 in
  let s1 := manual_run iv (manual_init t0 iv m) t0 ops1 in
  let s2 := manual_step iv s1 (now1 + dt)%Z o in
  let f := manual_run iv (manual_init t0 iv m) t0 (ops1 ++ (dt, o) :: ops2) in
  m_msg s2 = last_set m (ops1 ++ [(dt, o)]) /\
  exists new later, m_frames f = m_frames s1 ++ new ++ later /\
    (new = [] /\ o = MAdvance /\ (now1 + dt < m_upd s1)%Z
     \/ new = [Some (frame (m_cur s2) (m_msg s2))]
     \/ new = [Some (frame (m_cur s2) (m_msg s2)); None] /\ exists m' r, o = MFinish m' r).
Proof. exact manual_history_lemma. Qed.
Print Assumptions manual_frames_wf.
(* the first frame is the start message at position 0, and the last frame of any history shows the current state *)
Theorem manual_last_frame_current : forall iv ops t0 m,
  let f := manual_run iv (manual_init t0 iv m) t0 ops in
  m_frames (manual_init t0 iv m) = [Some (frame 0 m)] /\
  (exists pre, m_frames f = pre ++ [Some (frame (m_cur f) (m_msg f))] \/ m_frames f = pre ++ [Some (frame (m_cur f) (m_msg f)); None]) /\
  m_msg f = last_set m ops /\
  (forall c, In (indicator c) values).
Proof.
  intros. destruct (manual_run_MI iv ops (manual_init t0 iv m) t0 (manual_init_MI t0 iv m)) as [H1 H2].
  split; [reflexivity|]. split; [exact H2|]. split; [apply manual_run_msg|exact indicator_in_values].
Qed.
Print Assumptions manual_last_frame_current.

(* the premises are satisfiable and the outcomes are not vacuous *)
Example nonvacuous :
  let body := [ASet [120%N]; AWork 250; ASet [121%N]] in
  let f := run_auto 0 100 [104%N] [100%N] body [true; true; false; true; true; false] in
  has_raise body = false /\ existsb fst (writes f) = true /\ 5 <= length (writes f).
Proof. vm_compute. repeat split. lia. Qed.

(* ======================================================================================================================
   The same statements at the granularity of ACCESSES TO SHARED STATE (Model/Spinner2.v, driver entry run_C19F): a thread
   stops before every operation on the stop event, every read and write of _started / _update_time / _current / _message /
   _auto_thread (while both threads exist), every stream write, sleep and join; a schedule orders ALL of them.  Any list of
   indicator values, any format of literal text, {indicator} and {message}, any interval.  harness/sched.py drives the two
   real threads at exactly these points. *)
From Clikit Require Import Model.Spinner2 Proofs.Spinner2Lemmas.

(* Leaving the automatic mode always stops and joins the spinner - whichever way the accesses of the two threads interleave. *)
Theorem fine_auto_always_stops_spinner : forall c t0 sm acts sched,
  let f := run_auto2 c t0 sm acts sched in
  all_done2 f = true /\ stop2 f = true /\ sp2 f = SDone /\ ph2 f = HFinished (has_raise acts).
Proof. exact auto2_always_stops. Qed.
Print Assumptions fine_auto_always_stops_spinner.

(* Every single stream write is a line break or a WHOLE frame: the format with each {indicator} replaced by one of the
   indicator values and each {message} by the start message, the end message or a message the body set. *)
Theorem fine_every_write_is_whole : forall c t0 sm acts sched,
  let P := fun m => m = sm \/ m = c_end c \/ In (ASet m) acts in
  Forall (fun w => match snd w with Some t => frame_ok c P t | None => True end) (writes2 (run_auto2 c t0 sm acts sched)).
Proof.
  intros c t0 sm acts sched P.
  apply (all_writes2_built c P); unfold P; auto.
  apply Forall_forall. intros [m|d|] Hin; cbn; auto.
Qed.
Print Assumptions fine_every_write_is_whole.
(* ... for the built-in format " {indicator} {message}": the format filled with ONE value and ONE message. *)
Theorem fine_default_format_frames : forall c P t, c_fmt c = [PLit [32%N]; PInd; PLit [32%N]; PMsg] -> frame_ok c P t ->
  exists k m, P m /\ t = fill_fmt (c_values c) k m (c_fmt c).
Proof. exact built_indicator_message. Qed.
Print Assumptions fine_default_format_frames.

(* The terminal line never shows a mixture of two frames: after ANY prefix of the write history every row of the screen is
   empty or exactly one whole frame (messages of at most L characters, a terminal wide enough for the format). *)
Theorem fine_line_never_mixed : forall w L c t0 sm acts sched n,
  1 <= w -> fmt_width L (c_fmt c) <= w -> short_msg L sm -> short_msg L (c_end c) -> Forall (act_ok (short_msg L)) acts ->
  Forall (okQ (frame_ok c (short_msg L)))
         (rows (feed w term_init (flat_map (fun x => emits_of_write (snd x)) (firstn n (writes2 (run_auto2 c t0 sm acts sched)))))).
Proof. intros. apply line_never_mixed2_lemma; assumption. Qed.
Print Assumptions fine_line_never_mixed.

(* A normal exit: the last two writes are the end-message frame (indicator reset) and the line break, both by the caller ... *)
Theorem fine_normal_exit_last_frame : forall c t0 sm acts sched, has_raise acts = false ->
  exists pre, writes2 (run_auto2 c t0 sm acts sched) = pre ++ [(false, Some (endframe c)); (false, None)].
Proof. exact normal_exit_last_frame2_lemma. Qed.
Print Assumptions fine_normal_exit_last_frame.
(* ... and the last line shown on the terminal is exactly that frame. *)
Theorem fine_normal_exit_screen : forall w L c t0 sm acts sched,
  1 <= w -> fmt_width L (c_fmt c) <= w -> short_msg L sm -> short_msg L (c_end c) -> Forall (act_ok (short_msg L)) acts ->
  has_raise acts = false ->
  exists R, rows (feed w term_init (flat_map (fun x => emits_of_write (snd x)) (writes2 (run_auto2 c t0 sm acts sched)))) = R ++ [endframe c; []].
Proof. intros. eapply normal_exit_screen2_lemma; eassumption. Qed.
Print Assumptions fine_normal_exit_screen.

(* Manual mode with any values / format / interval: redraws by advance() are at least one interval apart ... *)
Theorem manual_throttle_any_interval : forall c ops t0 m, (0 <= c_interval c)%Z ->
  spaced (c_interval c) (adv_times2 c (manual_init2 c t0 m) t0 ops) /\
  Forall (fun t => t0 + c_interval c <= t)%Z (adv_times2 c (manual_init2 c t0 m) t0 ops).
Proof. intros c ops t0 m H. destruct (adv_times2_spaced c H ops (manual_init2 c t0 m) t0) as [Fa Sp]. split; assumption. Qed.
Print Assumptions manual_throttle_any_interval.
(* ... and every frame is the format filled with one of the indicator values and the message current at that call. *)
Theorem manual_frames_any_values : forall c ops t0 m,
  let f := manual_run2 c (manual_init2 c t0 m) t0 ops in
  Forall (mframe2 c) (n_frames f) /\
  (exists pre, n_frames f = pre ++ [Some (fill_fmt (c_values c) (n_cur f) (n_msg f) (c_fmt c))] \/
               n_frames f = pre ++ [Some (fill_fmt (c_values c) (n_cur f) (n_msg f) (c_fmt c)); None]) /\
  (c_values c <> [] -> forall k, In (indicator2 (c_values c) k) (c_values c)).
Proof.
  intros. destruct (manual_run2_MI2 c ops (manual_init2 c t0 m) t0 (manual_init2_MI2 c t0 m)) as [H1 H2].
  split; [exact H1|]. split; [exact H2|]. intros Hv k. apply indicator2_in_values, Hv.
Qed.
Print Assumptions manual_frames_any_values.

(* not vacuous: two values, the format "{message} ({indicator})", a schedule that lets the spinner draw between the caller's
   write of the message and its read of the indicator position *)
Example fine_nonvacuous :
  let c := {| c_values := [97%N; 98%N]; c_fmt := [PMsg; PLit [32%N; 40%N]; PInd; PLit [41%N]]; c_interval := 100; c_nap := 100; c_end := [100%N] |} in
  let body := [AWork 150; ASet [120%N]] in
  let f := run_auto2 c 0 [115%N] body ([false] ++ repeat true 12 ++ [false] ++ repeat true 9 ++ [false]) in
  has_raise body = false /\ existsb fst (writes2 f) = true /\ 5 <= length (writes2 f) /\ skips2 f = 0.
Proof. vm_compute. repeat split; lia. Qed.
(* what the strengthened statements exclude (the earlier ones did not): a line holding two frames, or the rest of a
   longer frame, is not a screen of any write history unless some thread wrote exactly that text as one frame *)
Example mixture_is_excluded :
  let body := [ASet [120%N]; AWork 250; ASet [121%N]] in
  let f := run_auto 0 100 [104%N] [100%N] body [true; true; false; true; true; false] in
  let ws := map snd (writes f) in
  ~ In (Some (frame 1 [104%N] ++ frame 2 [120%N])) ws /\ ~ In (Some (frame 2 [120%N] ++ [104%N])) ws /\
  mmsgs (writes f) = [[104%N]; [120%N]; [121%N]; [100%N]].
Proof.
  vm_compute. repeat split; intros K; repeat (destruct K as [K|K]; [discriminate K|]); exact K.
Qed.
(* a spinner frame that shows the message of the caller's NEXT frame (set, not yet written): the second disjunct of
   every_write_is_whole is needed *)
Example spinner_shows_pending_message :
  let f := run_auto 0 0 [104%N] [100%N] [ASet [120%N]] [true; true] in
  exists pre post, writes f = pre ++ (true, Some (frame 1 [120%N])) :: post /\ ~ In [120%N] (mmsgs pre) /\ firstm post None = Some [120%N].
Proof.
  exists [(false, Some (frame 0 [104%N]))], [(false, Some (frame 0 [120%N])); (false, Some (frame 0 [100%N])); (false, None)].
  split; [vm_compute; reflexivity|]. split; [|vm_compute; reflexivity]. vm_compute. intros [K|[]]. discriminate K.
Qed.
Example spinning_nonvacuous : spinning (init 0 100 [104%N] [100%N] [AWork 5]).
Proof. right. vm_compute. split; eauto. Qed.
Example manual_nonvacuous :
  let ops1 := [(150, MAdvance); (10, MSetMessage [120%N])]%Z in
  let f := manual_run 100 (manual_init 0 100 [104%N]) 0 (ops1 ++ [(20, MAdvance); (200, MAdvance); (0, MFinish [100%N] true)])%Z in
  m_frames f = [Some (frame 0 [104%N]); Some (frame 1 [104%N]); Some (frame 1 [120%N]); Some (frame 2 [120%N]); Some (frame 0 [100%N]); None]
  /\ last_set [104%N] ops1 = [120%N].
Proof. vm_compute. split; reflexivity. Qed.
(* the width hypotheses of the screen theorems hold for that run on a 20-column terminal *)
Example screen_hypotheses_hold :
  1 <= 20 /\ fits 20 [104%N] /\ fits 20 [100%N] /\ Forall (act_ok (fits 20)) [ASet [120%N]; AWork 250; ASet [121%N]].
Proof. unfold fits. cbn. repeat split; try lia. repeat constructor; cbn; lia. Qed.
Example screen_instance :
  let f := run_auto 0 100 [104%N] [100%N] [ASet [120%N]; AWork 250; ASet [121%N]] [true; true; false; true; true; false] in
  rows (feed 20 term_init (flat_map emits_of_write (map snd (writes f)))) = [frame 0 [100%N]; []].
Proof. vm_compute. reflexivity. Qed.
