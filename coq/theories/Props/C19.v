(* C19 - the automatic progress indicator is well-behaved under EVERY interleaving.
   A schedule is any list of booleans: which thread (spinner / main) runs to its next stream write, sleep or join;
   when it is used up the run is completed (main whenever it can run, else the spinner).  Theorems quantify over
   all schedules, all bodies (set_message / work / raise), all clocks and intervals. *)
From Coq Require Import Lia.
From Clikit Require Import Base.Prelude Base.Res Base.Term Model.Spinner Proofs.TermLemmas Proofs.SpinnerLemmas.

(* Leaving the automatic mode always stops and joins the spinner: both threads have ended and the stop flag is set;
   whether the block was left by an exception is decided by the body alone. *)
Theorem auto_always_stops_spinner : forall t0 iv sm em acts sched,
  let f := run_auto t0 iv sm em acts sched in
  all_done f = true /\ stop f = true /\ mphase_ f = MFinished (has_raise acts).
Proof.
  intros. destruct (auto_always_stops t0 iv sm em acts sched) as [H1 H2]. repeat split; auto. apply exit_kind_lemma.
Qed.
Print Assumptions auto_always_stops_spinner.

(* A normal exit: the last two writes are the end-message frame and the line break, both by the main thread ... *)
Theorem normal_exit_last_frame : forall t0 iv sm em acts sched,
  has_raise acts = false ->
  exists pre, writes (run_auto t0 iv sm em acts sched) = pre ++ [(false, Some (frame 0 em)); (false, None)].
Proof.
  intros t0 iv sm em acts sched Hr. apply normal_exit_last_frame_lemma. rewrite exit_kind_lemma, Hr. reflexivity.
Qed.
Print Assumptions normal_exit_last_frame.
(* ... and on a terminal of any width that fits the messages, the last line shown is exactly that frame. *)
Theorem normal_exit_screen : forall w t0 iv sm em acts sched,
  1 <= w -> fits w sm -> fits w em -> Forall (act_ok (fits w)) acts -> has_raise acts = false ->
  exists R, rows (feed w term_init (flat_map (fun x => emits_of_write (snd x)) (writes (run_auto t0 iv sm em acts sched))))
            = R ++ [frame 0 em; []].
Proof. intros. apply normal_exit_screen_lemma; assumption. Qed.
Print Assumptions normal_exit_screen.

(* The terminal line never shows a mixture of two frames: after ANY prefix of the write history, every row of the
   screen is empty or exactly one frame (one indicator value and one message). *)
Theorem line_never_mixed : forall w t0 iv sm em acts sched n,
  1 <= w -> fits w sm -> fits w em -> Forall (act_ok (fits w)) acts ->
  Forall ok_row (rows (feed w term_init (flat_map (fun x => emits_of_write (snd x))
                                                  (firstn n (writes (run_auto t0 iv sm em acts sched)))))).
Proof. intros. apply line_never_mixed_lemma; assumption. Qed.
Print Assumptions line_never_mixed.
(* ... because every single stream write is a whole frame (erase and text in one write) or a line break. *)
Theorem every_write_is_whole : forall t0 iv sm em acts sched,
  Forall (fun w => whole (snd w)) (writes (run_auto t0 iv sm em acts sched)).
Proof. exact all_writes_whole. Qed.
Print Assumptions every_write_is_whole.

(* Manual mode: redraws by advance() are at least one interval apart ... *)
Theorem manual_throttle : forall iv ops t0 m, (0 <= iv)%Z ->
  spaced iv (adv_times iv (manual_init t0 iv m) t0 ops) /\
  Forall (fun t => t0 + iv <= t)%Z (adv_times iv (manual_init t0 iv m) t0 ops).
Proof. intros iv ops t0 m H. destruct (adv_times_spaced iv H ops (manual_init t0 iv m) t0) as [F S]. split; assumption. Qed.
Print Assumptions manual_throttle.
(* ... and every frame is one indicator value followed by the message current at that time. *)
Theorem manual_frames_wf : forall iv ops t0 m,
  let f := manual_run iv (manual_init t0 iv m) t0 ops in
  Forall mwhole (m_frames f) /\
  (exists pre, m_frames f = pre ++ [Some (frame (m_cur f) (m_msg f))] \/ m_frames f = pre ++ [Some (frame (m_cur f) (m_msg f)); None]) /\
  (forall c, In (indicator c) values).
Proof.
  intros. destruct (manual_run_MI iv ops (manual_init t0 iv m) t0 (manual_init_MI t0 iv m)) as [H1 H2].
  split; [exact H1|]. split; [exact H2|]. exact indicator_in_values.
Qed.
Print Assumptions manual_frames_wf.

(* the premises are satisfiable and the outcomes are not vacuous *)
Example nonvacuous :
  let body := [ASet [120%N]; AWork 250; ASet [121%N]] in
  let f := run_auto 0 100 [104%N] [100%N] body [true; true; false; true; true; false] in
  has_raise body = false /\ existsb fst (writes f) = true /\ 5 <= length (writes f).
Proof. vm_compute. repeat split. lia. Qed.
