(* C07 - option and argument flags are validated and normalised consistently.
   tb f k is bit k of the flag word; bit numbers: Option 0 PREFER_LONG_NAME 1 PREFER_SHORT_NAME 2 NO_VALUE
   3 REQUIRED_VALUE 4 OPTIONAL_VALUE 5 MULTI_VALUED 7 STRING 8 BOOLEAN 9 INTEGER 10 FLOAT 11 NULLABLE;
   Argument 0 REQUIRED 1 OPTIONAL 2 MULTI_VALUED 4 STRING 5 BOOLEAN 6 INTEGER 7 FLOAT 8 NULLABLE.
   Every statement is for ALL integers f (undefined bits, negative words included). *)
From Clikit Require Import Base.Prelude Base.Res Model.Conv Model.Flags Proofs.FlagsLemmas.

(* Construction of an option succeeds exactly when the flag word is free of the documented
   contradictions (opt_flags_ok), the names are well-formed (with or without dash prefix), a
   short-name preference has a short name (inside short_ok) and the default fits the value mode. *)
Theorem opt_accept_iff : forall ln sn f d,
  is_ok (mk_option ln sn f d) = opt_flags_ok f && long_ok ln && short_ok sn f && default_ok f d.
Proof. exact opt_accept_iff_lemma. Qed.
Print Assumptions opt_accept_iff.

Theorem opt_rejects_with_value_error : forall ln sn f d k, mk_option ln sn f d = Err k -> k = ValueError.
Proof. exact mk_option_err. Qed.
Print Assumptions opt_rejects_with_value_error.

(* A constructed option: exactly one value type, exactly one name preference, value-less =>
   takes no value and has no default, multi-valued => requires a value and has a list default,
   the default it holds is the VALUE it was given (whatever that is: '' 0 False and tuples included - the model carries
   it as an opaque payload) or, when none was given, None / the empty list of a multi-valued option (on_default_kept),
   normalisation only adds bits and only among bits 0,1,2,3,7. *)
Theorem opt_normal_form : forall ln sn f d o, mk_option ln sn f d = Ok o ->
  opt_normal f (oo_flags o) (match oo_short o with Some _ => true | None => false end) d (oo_default o).
Proof. exact opt_normal_form_lemma. Qed.
Print Assumptions opt_normal_form.

Theorem arg_accept_iff : forall n f d,
  is_ok (mk_argument n f d) = is_ok (validate_arg_name n) && arg_flags_ok f && arg_default_ok f d.
Proof. exact arg_accept_iff_lemma. Qed.
Print Assumptions arg_accept_iff.

(* ... a required argument was given no default and holds none; the default held is the value given (an_default_kept) *)
Theorem arg_normal_form : forall n f d o, mk_argument n f d = Ok o -> arg_normal f (ao_flags o) d (ao_default o).
Proof. exact arg_normal_form_lemma. Qed.
Print Assumptions arg_normal_form.

(* ---- names: accepted exactly when well-formed, with or without their dash prefix ----
   long_ok / short_ok above are the validators' own verdicts; these theorems say what that verdict is, character by
   character: wf_long_name s := at least two characters, the first an ASCII letter, all of [a-zA-Z0-9-]; wf_short_name := one
   ASCII letter; wf_name_body (argument names, long aliases) := non-empty, first an ASCII letter, all of [a-zA-Z0-9-].
   A leading "--" (long) / "-" (short) is removed first, and the name kept is the one without it. *)
Theorem long_name_ok_iff : forall s,
  validate_long_name (NStr s) =
  if wf_long_name (strip_prefix [DASH; DASH] s) then Ok (strip_prefix [DASH; DASH] s) else Err ValueError.
Proof. exact long_name_ok_iff_lemma. Qed.
Print Assumptions long_name_ok_iff.
Theorem short_name_ok_iff : forall s f,
  validate_short_name (NStr s) f =
  if wf_short_name (strip_prefix [DASH] s) then Ok (Some (strip_prefix [DASH] s)) else Err ValueError.
Proof. exact short_name_ok_iff_lemma. Qed.
Print Assumptions short_name_ok_iff.
Theorem arg_name_ok_iff : forall s, validate_arg_name (NStr s) = if wf_name_body s then Ok s else Err ValueError.
Proof. exact arg_name_ok_iff_lemma. Qed.
Print Assumptions arg_name_ok_iff.
Theorem long_name_with_or_without_prefix : forall s, wf_long_name s = true ->
  validate_long_name (NStr s) = Ok s /\ validate_long_name (NStr (DASH :: DASH :: s)) = Ok s.
Proof. exact long_name_with_or_without_prefix_lemma. Qed.
Print Assumptions long_name_with_or_without_prefix.
Theorem short_name_with_or_without_prefix : forall c f, is_ascii_alpha c = true ->
  validate_short_name (NStr [c]) f = Ok (Some [c]) /\ validate_short_name (NStr [DASH; c]) f = Ok (Some [c]).
Proof. exact short_name_with_or_without_prefix_lemma. Qed.
Print Assumptions short_name_with_or_without_prefix.
(* aliases of a command option: "--x" must be a well-formed long name; otherwise one "-" is removed and what is left is a
   short alias when it is one letter, a long alias when it is a well-formed body of another length *)
Theorem alias_ok_iff : forall a,
  validate_alias a =
  if starts_with [DASH; DASH] a then
    (let s := strip_prefix [DASH; DASH] a in if wf_long_name s then Ok (false, s) else Err ValueError)
  else
    (let s := strip_prefix [DASH] a in
     if wf_short_name s then Ok (true, s)
     else if wf_name_body s && negb (Nat.eqb (length s) 1) then Ok (false, s) else Err ValueError).
Proof. exact alias_ok_iff_lemma. Qed.
Print Assumptions alias_ok_iff.

(* ---- the hand model re-checked against the source on every build ----
   Generated/GenFlags.v is what harness/translate.py (a fail-closed translator of a small pure subset of Python) makes of
   the flag constants of AbstractOption / Option / Argument and of their _validate_flags and _add_default_flags in the
   source tree at hand; bin/setup regenerates it before every build.  option_validate_flags calls
   abstractoption_validate_flags where the code calls super()._validate_flags, likewise _add_default_flags; has_short is
   bool(self._short_name).  The validation and normalisation functions of the model ARE those functions, for every integer: *)
From Clikit Require Generated.GenFlags Proofs.GenEquivLemmas.
Theorem abs_validate_matches_source : forall f, GenFlags.abstractoption_validate_flags f = abs_validate f.
Proof. exact GenEquivLemmas.gen_abs_validate_eq. Qed.
Print Assumptions abs_validate_matches_source.
Theorem opt_validate_matches_source : forall f, GenFlags.option_validate_flags f = opt_validate f.
Proof. exact GenEquivLemmas.gen_opt_validate_eq. Qed.
Print Assumptions opt_validate_matches_source.
Theorem arg_validate_matches_source : forall f, GenFlags.argument_validate_flags f = arg_validate f.
Proof. exact GenEquivLemmas.gen_arg_validate_eq. Qed.
Print Assumptions arg_validate_matches_source.
Theorem abs_defaults_matches_source : forall f has_short,
  GenFlags.abstractoption_add_default_flags has_short f = abs_defaults f has_short.
Proof. exact GenEquivLemmas.gen_abs_defaults_eq. Qed.
Print Assumptions abs_defaults_matches_source.
Theorem opt_defaults_matches_source : forall f has_short,
  GenFlags.option_add_default_flags has_short f = opt_defaults f has_short.
Proof. exact GenEquivLemmas.gen_opt_defaults_eq. Qed.
Print Assumptions opt_defaults_matches_source.
Theorem arg_defaults_matches_source : forall f, GenFlags.argument_add_default_flags f = arg_defaults f.
Proof. exact GenEquivLemmas.gen_arg_defaults_eq. Qed.
Print Assumptions arg_defaults_matches_source.
(* the flag words of the classes are the bit numbers used above *)
Theorem flag_constants_match_source :
  GenFlags.AbstractOption_PREFER_LONG_NAME = (2 ^ 0)%Z /\ GenFlags.AbstractOption_PREFER_SHORT_NAME = (2 ^ 1)%Z /\
  GenFlags.Option_NO_VALUE = (2 ^ 2)%Z /\ GenFlags.Option_REQUIRED_VALUE = (2 ^ 3)%Z /\
  GenFlags.Option_OPTIONAL_VALUE = (2 ^ 4)%Z /\ GenFlags.Option_MULTI_VALUED = (2 ^ 5)%Z /\
  GenFlags.Option_STRING = (2 ^ 7)%Z /\ GenFlags.Option_BOOLEAN = (2 ^ 8)%Z /\ GenFlags.Option_INTEGER = (2 ^ 9)%Z /\
  GenFlags.Option_FLOAT = (2 ^ 10)%Z /\ GenFlags.Option_NULLABLE = (2 ^ 11)%Z /\
  GenFlags.Argument_REQUIRED = (2 ^ 0)%Z /\ GenFlags.Argument_OPTIONAL = (2 ^ 1)%Z /\
  GenFlags.Argument_MULTI_VALUED = (2 ^ 2)%Z /\ GenFlags.Argument_STRING = (2 ^ 4)%Z /\
  GenFlags.Argument_BOOLEAN = (2 ^ 5)%Z /\ GenFlags.Argument_INTEGER = (2 ^ 6)%Z /\ GenFlags.Argument_FLOAT = (2 ^ 7)%Z /\
  GenFlags.Argument_NULLABLE = (2 ^ 8)%Z.
Proof. exact GenEquivLemmas.gen_flag_constants. Qed.
Print Assumptions flag_constants_match_source.
(* ... so the acceptance condition of the flag word is a statement about the translated code itself *)
Theorem source_opt_flags_accept_iff : forall f,
  GenFlags.option_validate_flags f = if opt_flags_ok f then Ok tt else Err ValueError.
Proof. intros f. rewrite GenEquivLemmas.gen_opt_validate_eq. exact (opt_validate_iff f). Qed.
Print Assumptions source_opt_flags_accept_iff.
Theorem source_arg_flags_accept_iff : forall f,
  GenFlags.argument_validate_flags f = if arg_flags_ok f then Ok tt else Err ValueError.
Proof. intros f. rewrite GenEquivLemmas.gen_arg_validate_eq. exact (arg_validate_iff f). Qed.
Print Assumptions source_arg_flags_accept_iff.

(* Conversion by the declared type: a value of that type, or None only when nullable and the
   input is None/"null", or ValueError - never another exception (inputs None/bool/int/str). *)
Theorem conv_typed : forall t nl v, conv_input v = true ->
  match parse_typed t nl v with
  | Ok r => (r = VNone /\ nl = true /\ is_null v = true) \/ has_type t r = true
  | Err k => k = ValueError
  end.
Proof. exact conv_typed_lemma. Qed.
Print Assumptions conv_typed.

(* The text form of every integer of at most 4300 decimal digits converts back to that integer, and that is its text form;
   int_text_ok z := num_digits z <= 4300 is CPython's own criterion (sys.get_int_max_str_digits(), an interpreter default
   outside clikit): beyond it str(z) and int(text) both raise ValueError, which is what the second theorem says. *)
Theorem conv_int_roundtrip : forall z nl, int_text_ok z = true -> parse_int (VStr (dec_text z)) nl = Ok (VInt z).
Proof. exact conv_int_roundtrip_lemma. Qed.
Print Assumptions conv_int_roundtrip.
Theorem conv_int_text : forall z nl, int_text_ok z = true -> parse_string (VInt z) nl = Ok (VStr (dec_text z)).
Proof. exact conv_int_text_lemma. Qed.
Print Assumptions conv_int_text.
(* the same in terms of magnitude: every integer below 10^4300 in absolute value (int_text_ok_small: such a number has at
   most 4300 digits) *)
Theorem conv_int_below_limit : forall z nl, (Z.abs z < 10 ^ 4300)%Z ->
  parse_string (VInt z) nl = Ok (VStr (dec_text z)) /\ parse_int (VStr (dec_text z)) nl = Ok (VInt z).
Proof. exact conv_int_below_limit_lemma. Qed.
Print Assumptions conv_int_below_limit.
Theorem conv_int_there_and_back : forall z nl, int_text_ok z = true ->
  bind (parse_string (VInt z) nl) (fun t => parse_int t nl) = Ok (VInt z).
Proof. exact conv_int_there_and_back_lemma. Qed.
Print Assumptions conv_int_there_and_back.
Theorem conv_int_beyond_limit : forall z nl, int_text_ok z = false ->
  parse_string (VInt z) nl = Err ValueError /\ parse_int (VStr (dec_text z)) nl = Err ValueError.
Proof. exact conv_int_beyond_limit_lemma. Qed.
Print Assumptions conv_int_beyond_limit.
(* float(z) of an integer: ValueError (CPython's OverflowError, caught since fix c07-float-overflow) exactly when |z| rounds
   to 2^1024 or more; otherwise the float written like the integer *)
Theorem conv_float_of_int : forall z,
  parse_float (VInt z) false = if (2 ^ 1024 - 2 ^ 970 <=? Z.abs z)%Z then Err ValueError else Ok (VFloat (dec_text z)).
Proof. exact conv_float_of_int_lemma. Qed.
Print Assumptions conv_float_of_int.
Theorem conv_bool_roundtrip : forall b nl,
  bind (parse_string (VBool b) nl) (fun t => parse_boolean t nl) = Ok (VBool b).
Proof. exact conv_bool_roundtrip_lemma. Qed.
Print Assumptions conv_bool_roundtrip.

Example c07_nonvacuous :
  is_ok (mk_option (NStr [45;45;102;111;111]%N) (NStr [45;102]%N) 32 (DList [])) = true /\
  is_ok (mk_option (NStr [102;111;111]%N) NNone 36 DNone) = false /\
  int_text_ok (-1234567890123456789012345)%Z = true /\
  parse_int (VStr (dec_text (-1234567890123456789012345)%Z)) false = Ok (VInt (-1234567890123456789012345)%Z) /\
  (* a falsy default is a default: kept by an option that takes a value, refused by a value-less one and a required argument *)
  option_map oo_default (match mk_option (NStr [102;111;111]%N) NNone 8 (DScalar (L [A 3%Z; L []])) with Ok o => Some o | Err _ => None end)
    = Some (DScalar (L [A 3%Z; L []])) /\
  is_ok (mk_option (NStr [102;111;111]%N) NNone 4 (DScalar (L [A 2%Z; A 0%Z]))) = false /\
  is_ok (mk_argument (NStr [97]%N) 1 (DList [])) = false /\
  (* non-ASCII decimal digits are digits (ARABIC-INDIC 1 2 -> 12), more than 4300 digits are refused *)
  parse_int (VStr [1633; 1634]%N) false = Ok (VInt 12) /\
  parse_int (VStr (repeat 49%N 4301)) false = Err ValueError /\
  is_ok (parse_int (VStr (repeat 49%N 4300)) false) = true.
Proof. vm_compute. repeat split; reflexivity. Qed.
