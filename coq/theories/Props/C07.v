(* C07 - option and argument flags are validated and normalised consistently.
   tb f k is bit k of the flag word; bit numbers: Option 0 PREFER_LONG_NAME 1 PREFER_SHORT_NAME 2 NO_VALUE
   3 REQUIRED_VALUE 4 OPTIONAL_VALUE 5 MULTI_VALUED 7 STRING 8 BOOLEAN 9 INTEGER 10 FLOAT 11 NULLABLE;
   Argument 0 REQUIRED 1 OPTIONAL 2 MULTI_VALUED 4 STRING 5 BOOLEAN 6 INTEGER 7 FLOAT 8 NULLABLE.
   Every statement is for ALL integers f (undefined bits, negative words included). *)
From Clikit Require Import Base.Prelude Base.Res Model.Conv Model.Flags Proofs.FlagsLemmas.

(* Construction of an option succeeds exactly when the flag word is free of the documented
   contradictions (opt_flags_ok), the names are well-formed (with or without dash prefix), a
   short-name preference has a short name (inside short_ok) and the default fits the value mode. *)
Theorem opt_accept_iff : forall ln sn f d,
  is_ok (mk_option ln sn f d) = opt_flags_ok f && long_ok ln && short_ok sn f && default_ok f d.
Proof. exact opt_accept_iff_lemma. Qed.
Print Assumptions opt_accept_iff.

Theorem opt_rejects_with_value_error : forall ln sn f d k, mk_option ln sn f d = Err k -> k = ValueError.
Proof. exact mk_option_err. Qed.
Print Assumptions opt_rejects_with_value_error.

(* A constructed option: exactly one value type, exactly one name preference, value-less =>
   takes no value and has no default, multi-valued => requires a value and has a list default,
   normalisation only adds bits and only among bits 0,1,2,3,7. *)
Theorem opt_normal_form : forall ln sn f d o, mk_option ln sn f d = Ok o ->
  opt_normal f (oo_flags o) (match oo_short o with Some _ => true | None => false end) (oo_default o).
Proof. exact opt_normal_form_lemma. Qed.
Print Assumptions opt_normal_form.

Theorem arg_accept_iff : forall n f d,
  is_ok (mk_argument n f d) = is_ok (validate_arg_name n) && arg_flags_ok f && arg_default_ok f d.
Proof. exact arg_accept_iff_lemma. Qed.
Print Assumptions arg_accept_iff.

Theorem arg_normal_form : forall n f d o, mk_argument n f d = Ok o -> arg_normal f (ao_flags o) (ao_default o).
Proof. exact arg_normal_form_lemma. Qed.
Print Assumptions arg_normal_form.

(* ---- the hand model re-checked against the source on every build ----
   Generated/GenFlags.v is what harness/translate.py (a fail-closed translator of a small pure subset of Python) makes of
   the flag constants of AbstractOption / Option / Argument and of their _validate_flags and _add_default_flags in the
   source tree at hand; bin/setup regenerates it before every build.  option_validate_flags calls
   abstractoption_validate_flags where the code calls super()._validate_flags, likewise _add_default_flags; has_short is
   bool(self._short_name).  The validation and normalisation functions of the model ARE those functions, for every integer: *)
From Clikit Require Generated.GenFlags Proofs.GenEquivLemmas.
Theorem abs_validate_matches_source : forall f, GenFlags.abstractoption_validate_flags f = abs_validate f.
Proof. exact GenEquivLemmas.gen_abs_validate_eq. Qed.
Print Assumptions abs_validate_matches_source.
Theorem opt_validate_matches_source : forall f, GenFlags.option_validate_flags f = opt_validate f.
Proof. exact GenEquivLemmas.gen_opt_validate_eq. Qed.
Print Assumptions opt_validate_matches_source.
Theorem arg_validate_matches_source : forall f, GenFlags.argument_validate_flags f = arg_validate f.
Proof. exact GenEquivLemmas.gen_arg_validate_eq. Qed.
Print Assumptions arg_validate_matches_source.
Theorem abs_defaults_matches_source : forall f has_short,
  GenFlags.abstractoption_add_default_flags has_short f = abs_defaults f has_short.
Proof. exact GenEquivLemmas.gen_abs_defaults_eq. Qed.
Print Assumptions abs_defaults_matches_source.
Theorem opt_defaults_matches_source : forall f has_short,
  GenFlags.option_add_default_flags has_short f = opt_defaults f has_short.
Proof. exact GenEquivLemmas.gen_opt_defaults_eq. Qed.
Print Assumptions opt_defaults_matches_source.
Theorem arg_defaults_matches_source : forall f, GenFlags.argument_add_default_flags f = arg_defaults f.
Proof. exact GenEquivLemmas.gen_arg_defaults_eq. Qed.
Print Assumptions arg_defaults_matches_source.
(* the flag words of the classes are the bit numbers used above *)
Theorem flag_constants_match_source :
  GenFlags.AbstractOption_PREFER_LONG_NAME = (2 ^ 0)%Z /\ GenFlags.AbstractOption_PREFER_SHORT_NAME = (2 ^ 1)%Z /\
  GenFlags.Option_NO_VALUE = (2 ^ 2)%Z /\ GenFlags.Option_REQUIRED_VALUE = (2 ^ 3)%Z /\
  GenFlags.Option_OPTIONAL_VALUE = (2 ^ 4)%Z /\ GenFlags.Option_MULTI_VALUED = (2 ^ 5)%Z /\
  GenFlags.Option_STRING = (2 ^ 7)%Z /\ GenFlags.Option_BOOLEAN = (2 ^ 8)%Z /\ GenFlags.Option_INTEGER = (2 ^ 9)%Z /\
  GenFlags.Option_FLOAT = (2 ^ 10)%Z /\ GenFlags.Option_NULLABLE = (2 ^ 11)%Z /\
  GenFlags.Argument_REQUIRED = (2 ^ 0)%Z /\ GenFlags.Argument_OPTIONAL = (2 ^ 1)%Z /\
  GenFlags.Argument_MULTI_VALUED = (2 ^ 2)%Z /\ GenFlags.Argument_STRING = (2 ^ 4)%Z /\
  GenFlags.Argument_BOOLEAN = (2 ^ 5)%Z /\ GenFlags.Argument_INTEGER = (2 ^ 6)%Z /\ GenFlags.Argument_FLOAT = (2 ^ 7)%Z /\
  GenFlags.Argument_NULLABLE = (2 ^ 8)%Z.
Proof. exact GenEquivLemmas.gen_flag_constants. Qed.
Print Assumptions flag_constants_match_source.
(* ... so the acceptance condition of the flag word is a statement about the translated code itself *)
Theorem source_opt_flags_accept_iff : forall f,
  GenFlags.option_validate_flags f = if opt_flags_ok f then Ok tt else Err ValueError.
Proof. intros f. rewrite GenEquivLemmas.gen_opt_validate_eq. exact (opt_validate_iff f). Qed.
Print Assumptions source_opt_flags_accept_iff.
Theorem source_arg_flags_accept_iff : forall f,
  GenFlags.argument_validate_flags f = if arg_flags_ok f then Ok tt else Err ValueError.
Proof. intros f. rewrite GenEquivLemmas.gen_arg_validate_eq. exact (arg_validate_iff f). Qed.
Print Assumptions source_arg_flags_accept_iff.

(* Conversion by the declared type: a value of that type, or None only when nullable and the
   input is None/"null", or ValueError - never another exception (inputs None/bool/int/str). *)
Theorem conv_typed : forall t nl v, conv_input v = true ->
  match parse_typed t nl v with
  | Ok r => (r = VNone /\ nl = true /\ is_null v = true) \/ has_type t r = true
  | Err k => k = ValueError
  end.
Proof. exact conv_typed_lemma. Qed.
Print Assumptions conv_typed.

(* The text form of EVERY integer converts back to that integer; likewise booleans. *)
Theorem conv_int_roundtrip : forall z nl, parse_int (VStr (dec_text z)) nl = Ok (VInt z).
Proof. exact conv_int_roundtrip_lemma. Qed.
Print Assumptions conv_int_roundtrip.
Theorem conv_int_text : forall z nl, parse_string (VInt z) nl = Ok (VStr (dec_text z)).
Proof. exact conv_int_text_lemma. Qed.
Print Assumptions conv_int_text.
Theorem conv_bool_roundtrip : forall b nl,
  bind (parse_string (VBool b) nl) (fun t => parse_boolean t nl) = Ok (VBool b).
Proof. exact conv_bool_roundtrip_lemma. Qed.
Print Assumptions conv_bool_roundtrip.

Example c07_nonvacuous :
  is_ok (mk_option (NStr [45;45;102;111;111]%N) (NStr [45;102]%N) 32 DList) = true /\
  is_ok (mk_option (NStr [102;111;111]%N) NNone 36 DNone) = false /\
  parse_int (VStr (dec_text (-1234567890123456789012345)%Z)) false = Ok (VInt (-1234567890123456789012345)%Z).
Proof. vm_compute. auto. Qed.
