(* C07 - option and argument flags are validated and normalised consistently.
   tb f k is bit k of the flag word; bit numbers: Option 0 PREFER_LONG_NAME 1 PREFER_SHORT_NAME 2 NO_VALUE
   3 REQUIRED_VALUE 4 OPTIONAL_VALUE 5 MULTI_VALUED 7 STRING 8 BOOLEAN 9 INTEGER 10 FLOAT 11 NULLABLE;
   Argument 0 REQUIRED 1 OPTIONAL 2 MULTI_VALUED 4 STRING 5 BOOLEAN 6 INTEGER 7 FLOAT 8 NULLABLE.
   Every statement is for ALL integers f (undefined bits, negative words included). *)
From Clikit Require Import Base.Prelude Base.Res Model.Conv Model.Flags Proofs.FlagsLemmas.

(* Construction of an option succeeds exactly when the flag word is free of the documented
   contradictions (opt_flags_ok), the names are well-formed (with or without dash prefix), a
   short-name preference has a short name (inside short_ok) and the default fits the value mode. *)
Theorem opt_accept_iff : forall ln sn f d,
  is_ok (mk_option ln sn f d) = opt_flags_ok f && long_ok ln && short_ok sn f && default_ok f d.
Proof. exact opt_accept_iff_lemma. Qed.
Print Assumptions opt_accept_iff.

Theorem opt_rejects_with_value_error : forall ln sn f d k, mk_option ln sn f d = Err k -> k = ValueError.
Proof. exact mk_option_err. Qed.
Print Assumptions opt_rejects_with_value_error.

(* A constructed option: exactly one value type, exactly one name preference, value-less =>
   takes no value and has no default, multi-valued => requires a value and has a list default,
   normalisation only adds bits and only among bits 0,1,2,3,7. *)
Theorem opt_normal_form : forall ln sn f d o, mk_option ln sn f d = Ok o ->
  opt_normal f (oo_flags o) (match oo_short o with Some _ => true | None => false end) (oo_default o).
Proof. exact opt_normal_form_lemma. Qed.
Print Assumptions opt_normal_form.

Theorem arg_accept_iff : forall n f d,
  is_ok (mk_argument n f d) = is_ok (validate_arg_name n) && arg_flags_ok f && arg_default_ok f d.
Proof. exact arg_accept_iff_lemma. Qed.
Print Assumptions arg_accept_iff.

Theorem arg_normal_form : forall n f d o, mk_argument n f d = Ok o -> arg_normal f (ao_flags o) (ao_default o).
Proof. exact arg_normal_form_lemma. Qed.
Print Assumptions arg_normal_form.

(* Conversion by the declared type: a value of that type, or None only when nullable and the
   input is None/"null", or ValueError - never another exception (inputs None/bool/int/str). *)
Theorem conv_typed : forall t nl v, conv_input v = true ->
  match parse_typed t nl v with
  | Ok r => (r = VNone /\ nl = true /\ is_null v = true) \/ has_type t r = true
  | Err k => k = ValueError
  end.
Proof. exact conv_typed_lemma. Qed.
Print Assumptions conv_typed.

(* The text form of EVERY integer converts back to that integer; likewise booleans. *)
Theorem conv_int_roundtrip : forall z nl, parse_int (VStr (dec_text z)) nl = Ok (VInt z).
Proof. exact conv_int_roundtrip_lemma. Qed.
Print Assumptions conv_int_roundtrip.
Theorem conv_int_text : forall z nl, parse_string (VInt z) nl = Ok (VStr (dec_text z)).
Proof. exact conv_int_text_lemma. Qed.
Theorem conv_bool_roundtrip : forall b nl,
  bind (parse_string (VBool b) nl) (fun t => parse_boolean t nl) = Ok (VBool b).
Proof. exact conv_bool_roundtrip_lemma. Qed.
Print Assumptions conv_bool_roundtrip.

Example c07_nonvacuous :
  is_ok (mk_option (NStr [45;45;102;111;111]%N) (NStr [45;102]%N) 32 DList) = true /\
  is_ok (mk_option (NStr [102;111;111]%N) NNone 36 DNone) = false /\
  parse_int (VStr (dec_text (-1234567890123456789012345)%Z)) false = Ok (VInt (-1234567890123456789012345)%Z).
Proof. vm_compute. auto. Qed.
