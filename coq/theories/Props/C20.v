(* C20 - error traces always render and show the real message and failing line (statements only; proofs in Proofs/TraceLemmas.v) *)
From Clikit Require Import Base.Prelude Base.Res Model.Conv Model.Markup Model.OutputM Model.Trace Proofs.TraceLemmas.

Theorem line_numbers_length : forall u lines mark, length (line_numbers u lines mark) = length lines.
Proof. exact line_numbers_length_l. Qed.
Print Assumptions line_numbers_length.
