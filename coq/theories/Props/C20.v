(* C20 - error traces always render and show the real message and failing line.
   Statements only; the proofs are in Proofs/TraceLemmas.v (highlighter, numbering, frames, report shape) and
   Proofs/LiteralLemmas.v (text put into markup by _literal is shown as it is, decorated or not, and never makes the
   formatter fail) and Proofs/TraceRenderLemmas.v (the composition: every line the renderer writes is such a line,
   indentation keeps it one; the lines always exist - the renderer catches what reading / tokenizing a source raises,
   fix caca46b -; hence render never fails, and what the bytes say).
   tokenize / inspect / crashtest deliver the token streams and frames (or fail): they are inputs of the model;
   the hypotheses on token streams (row_wf, rows_ok, phys_line) are checked on every stream of every run by the harness. *)
From Coq Require Import Lia.
From Clikit Require Import Base.Prelude Base.Res Model.Conv Model.Markup Model.OutputM Model.Trace
  Proofs.StrLemmas Proofs.MarkupLemmas Proofs.OutputLemmas Proofs.TraceLemmas Proofs.LiteralLemmas Proofs.TraceRenderLemmas
  Proofs.TraceSolutionLemmas Proofs.TraceEscLemmas Proofs.TraceFramesLemmas Proofs.TraceBytesLemmas Proofs.TracePiecesLemmas.

(* ---- the code snippet numbers its lines consecutively and marks exactly the failing line ---- *)
Theorem line_numbers_length : forall u lines mark, length (line_numbers u lines mark) = length lines.
Proof. exact line_numbers_length_l. Qed.
Print Assumptions line_numbers_length.
(* line k (from 0) carries the number k+1, right-aligned to the common width, then the delimiter, a blank and the line *)
Theorem line_numbers_consecutive : forall u lines mark k d, (k < length lines)%nat ->
  nth k (line_numbers u lines mark) d = number_line u (number_width (length lines)) mark (Z.of_nat k + 1)%Z (nth k lines []).
Proof. exact line_numbers_nth. Qed.
Print Assumptions line_numbers_consecutive.
Theorem marks_exactly_the_failing_line : forall u lines mark k d, (k < length lines)%nat ->
  (marked u (nth k (line_numbers u lines mark) d) <-> mark = (Z.of_nat k + 1)%Z).
Proof. exact marks_exactly_l. Qed.
Print Assumptions marks_exactly_the_failing_line.
(* the snippet is a window of consecutive numbered lines ... *)
Theorem snippet_is_a_window : forall u toks line before after k d,
  (0 <= before)%Z -> (0 <= after)%Z -> (Z.of_nat k < after + before + 1)%Z ->
  let off := Z.to_nat (Z.max (line - before - 1) 0) in
  (off + k < length (split_to_lines toks))%nat ->
  nth k (code_snippet u toks line before after) d
  = number_line u (number_width (length (split_to_lines toks))) line (Z.of_nat (off + k) + 1)%Z (nth (off + k) (split_to_lines toks) []).
Proof. exact code_snippet_nth. Qed.
Print Assumptions snippet_is_a_window.
(* ... that contains the failing line whenever the source has it *)
Theorem snippet_contains_failing_line : forall toks line before after,
  (0 <= before)%Z -> (0 <= after)%Z -> (1 <= line)%Z -> (line <= Z.of_nat (length (split_to_lines toks)))%Z ->
  exists k, (Z.of_nat k < after + before + 1)%Z /\
    (Z.of_nat (Z.to_nat (Z.max (line - before - 1) 0) + k) + 1)%Z = line /\
    (Z.to_nat (Z.max (line - before - 1) 0) + k < length (split_to_lines toks))%nat.
Proof. exact code_snippet_has_line. Qed.
Print Assumptions snippet_contains_failing_line.

(* the three statements above composed on code_snippet itself: whenever the source has the failing line, some line of
   the snippet IS the failing line with its own number, marked, and no other line of the snippet is marked *)
Theorem snippet_shows_the_failing_line_marked : forall u toks line before after d,
  (0 <= before)%Z -> (0 <= after)%Z -> (1 <= line)%Z -> (line <= Z.of_nat (length (split_to_lines toks)))%Z ->
  let lines := split_to_lines toks in
  let off := Z.to_nat (Z.max (line - before - 1) 0) in
  exists k, (Z.of_nat k < after + before + 1)%Z /\
    nth k (code_snippet u toks line before after) d
      = number_line u (number_width (length lines)) line line (nth (Z.to_nat (line - 1)) lines []) /\
    marked u (nth k (code_snippet u toks line before after) d) /\
    (forall j, (Z.of_nat j < after + before + 1)%Z -> (off + j < length lines)%nat ->
               marked u (nth j (code_snippet u toks line before after) d) -> j = k).
Proof. exact snippet_shows_failing_line. Qed.
Print Assumptions snippet_shows_the_failing_line_marked.

(* ---- every source line made of single-line tokens is shown verbatim, at its own number ---- *)
(* pre: the tokens before row r (any rows, tokens spanning rows included); row: the tokens of row r, lying in order on
   the physical line ln, each covering its own slice; nxt: the first token after them (a later row, or the end marker).
   Then line r-1 of the highlighter's result exists and its text is ln up to trailing white space. *)
Theorem row_shown : forall pre row nxt post ln r c0,
  Forall not_end pre -> rows_ok 1 pre c0 -> (c0 < r \/ Forall (fun t => tk_srow t = 0) pre /\ r = 1)%Z -> (1 <= r)%Z ->
  row <> [] -> row_wf ln r 0 row -> has_real row -> phys_line ln ->
  tk_srow nxt <> 0%Z ->
  (tk_kind nxt = TkEnd /\ Forall (fun c => is_space c = true) (skipn (Z.to_nat (row_end 0 row)) ln)
   \/ tk_kind nxt <> TkEnd /\ (r < tk_srow nxt)%Z) ->
  exists closed, nth_error (split_chunks (pre ++ row ++ nxt :: post)) (Z.to_nat (r - 1)) = Some closed /\ closes_as ln closed.
Proof. exact row_shown_l. Qed.
Print Assumptions row_shown.
(* one line per row of the source *)
Theorem one_line_per_row : forall pre e post c0,
  Forall not_end pre -> rows_ok 1 pre c0 -> tk_kind e = TkEnd -> tk_srow e <> 0%Z ->
  Z.of_nat (length (split_chunks (pre ++ e :: post))) = c0.
Proof. exact split_chunks_length. Qed.
Print Assumptions one_line_per_row.

(* non-vacuity: the token stream of  "x = 1 + \<NL>  2<NL>"  (a backslash continuation) meets the hypotheses for row 1 *)
Module Ex.
  Definition ln1 : str := [120;32;61;32;49;32;43;32;92;10]%N.
  Definition ln2 : str := [32;32;50;10]%N.
  Definition tk k s sr sc er ec ln := {| tk_kind := k; tk_kw := false; tk_bi := false; tk_str := s; tk_srow := sr; tk_scol := sc;
                                         tk_erow := er; tk_ecol := ec; tk_line := ln |}.
  Definition enc := tk TkOther [117;116;102;45;56]%N 0 0 0 0 [].
  Definition row1 := [tk TkOther [120%N] 1 0 1 1 ln1; tk TkOp [61%N] 1 2 1 3 ln1; tk TkNumber [49%N] 1 4 1 5 ln1; tk TkOp [43%N] 1 6 1 7 ln1].
  Definition two := tk TkNumber [50%N] 2 2 2 3 ln2.
  Definition rest := [tk TkNewline [10%N] 2 3 2 4 ln2; tk TkEnd [] 3 0 3 0 []].
  Example row1_shown : exists closed, nth_error (split_chunks ([enc] ++ row1 ++ two :: rest)) 0 = Some closed /\ closes_as ln1 closed.
  Proof.
    apply (row_shown [enc] row1 two rest ln1 1 1).
    - repeat constructor.
    - reflexivity.
    - right. split; [repeat constructor|reflexivity].
    - lia.
    - discriminate.
    - cbn. repeat split; try lia; try reflexivity; try discriminate.
    - exists (tk TkOp [61%N] 1 2 1 3 ln1). split; [right; left; reflexivity|discriminate].
    - intros H. cbn in H. repeat (destruct H as [H|H]; [discriminate|]). exact H.
    - discriminate.
    - right. split; [discriminate|cbn; lia].
  Qed.
  (* and the line really shows the backslash *)
  Example row1_text : option_map chunks_text (nth_error (split_chunks ([enc] ++ row1 ++ two :: rest)) 0) = Some [120;32;61;32;49;32;43;32;92]%N.
  Proof. vm_compute. reflexivity. Qed.
End Ex.

(* ---- frames under an ignored path are left out unless the verbosity is debug ---- *)
Theorem compact_keeps_frames : forall l f, In f (flat_map c_frames (compact l)) -> In f l.
Proof. exact compact_sub_l. Qed.
Print Assumptions compact_keeps_frames.
Theorem listed_frames_are_kept : forall c fs f,
  In f (trace_frames c fs) -> In f fs /\ (f_ignored f = false \/ t_debug c = true).
Proof. exact listed_frames_kept. Qed.
Print Assumptions listed_frames_are_kept.
(* below debug verbosity the stack trace is exactly what it would be if the ignored frames did not exist *)
Theorem ignored_frames_are_invisible : forall c ind fs,
  t_debug c = false -> render_trace c ind fs = render_trace c ind (filter (fun f => negb (f_ignored f)) fs).
Proof. exact ignored_frames_invisible. Qed.
Print Assumptions ignored_frames_are_invisible.
Theorem debug_keeps_every_frame : forall c fs, t_debug c = true -> kept_frames c fs = fs.
Proof. exact debug_lists_all. Qed.
Print Assumptions debug_keeps_every_frame.
(* when the stack trace is printed every frame that compact kept has its location line in it *)
Theorem stack_trace_lists_frames : forall c ind fs ls,
  t_verbose c = true -> (zlen (kept_frames c fs) - 1 <> 0)%Z -> render_trace c ind fs = Ok ls ->
  forall f, In f (trace_frames c fs) -> exists k w, In (loc_line c ind w f k) ls.
Proof. exact render_trace_lists. Qed.
Print Assumptions stack_trace_lists_frames.
(* ... and the stack trace always is printed then: whatever tokenize did on the frames' sources *)
Theorem stack_trace_always_lists_frames : forall c ind fs,
  t_verbose c = true -> (zlen (kept_frames c fs) - 1 <> 0)%Z ->
  exists ls, render_trace c ind fs = Ok ls /\ forall f, In f (trace_frames c fs) -> exists k w, In (loc_line c ind w f k) ls.
Proof. exact render_trace_lists_total. Qed.
Print Assumptions stack_trace_always_lists_frames.
(* The statements above are soundness ("what is listed was kept"); they also hold of a compact that lists nothing.
   Completeness: compact loses no frame - every frame of the kept stack BUT ITS LAST ONE is in some collection, up to the
   equality crashtest folds by (file, function, line number: frame_eqb) - and so has its location line in the trace. *)
Theorem compact_loses_no_frame : forall l x, In x (removelast l) ->
  exists y, In y (flat_map c_frames (compact l)) /\ frame_eqb x y = true.
Proof. exact compact_complete. Qed.
Print Assumptions compact_loses_no_frame.
Theorem kept_frames_are_listed : forall c ind fs f,
  t_verbose c = true -> (zlen (kept_frames c fs) - 1 <> 0)%Z -> In f (removelast (kept_frames c fs)) ->
  exists ls g k w, render_trace c ind fs = Ok ls /\ frame_eqb f g = true /\ In (loc_line c ind w g k) ls.
Proof. exact kept_frames_have_their_line. Qed.
Print Assumptions kept_frames_are_listed.
(* its hypotheses on the three-frame traceback a, b, v(ignored) at -v: the stack trace is printed and a is a kept frame
   that is not the last kept one *)
Example kept_frames_are_listed_instance :
  t_verbose (RenderExamples.demo_cfg true) = true /\
  (zlen (kept_frames (RenderExamples.demo_cfg true) IgnoredLast.fs) - 1 <> 0)%Z /\
  In (IgnoredLast.fr 97 1 false) (removelast (kept_frames (RenderExamples.demo_cfg true) IgnoredLast.fs)).
Proof. vm_compute. split; [reflexivity|]. split; [discriminate|left; reflexivity]. Qed.
(* "But its last one": the listing leaves out the last KEPT frame (crashtest's compact stops before it: it is taken to be
   the frame of the snippet), while the snippet shows the last frame of the TRACEBACK, ignored or not (full_report_*
   below: render_snippet of last (x_frames x), no filter).  The two are the same frame unless the raising frame is under
   the ignored path.  Then - FALSE of the model, and of the code (same listing, same "at" line: notes/a7-coq.md) - a kept
   frame, the caller into the ignored code, is shown nowhere, and the ignored frame is shown below debug verbosity. *)
Theorem kept_frame_lost_when_the_raising_frame_is_ignored_refuted :
  exists c fs f, t_verbose c = true /\ t_debug c = false /\ In f (kept_frames c fs) /\
    ~ In f (trace_frames c fs) /\ f <> last fs dflt_frame /\ f_ignored (last fs dflt_frame) = true.
Proof.
  exists (RenderExamples.demo_cfg true), IgnoredLast.fs, (IgnoredLast.fr 98 2 false).
  destruct IgnoredLast.kept_frame_shown_nowhere as (H1 & H2 & H3 & H4 & H5 & H6).
  split; [exact H1|]. split; [exact H2|]. split; [exact H3|]. split; [|split; [|exact H6]].
  - rewrite H4. intros [K|[]]. discriminate K.
  - rewrite H5. discriminate.
Qed.
Print Assumptions kept_frame_lost_when_the_raising_frame_is_ignored_refuted.
(* under a listed frame, below debug verbosity: its own line, highlighted - or, when tokenize raised on it (whatever it
   raised) or no line came out, as it is (frame_text, plain_code); at debug verbosity: the snippet, or nothing when the
   file cannot be read or tokenized *)
Theorem frame_line_below_debug : forall c ind w f, t_debug c = false ->
  frame_code c ind w f = Ok (render_line ind (rjust [32%N] w ++ [32; 32]%N ++ frame_text f) false 0).
Proof. exact frame_code_verbose. Qed.
Print Assumptions frame_line_below_debug.
Theorem frame_line_falls_back_to_plain : forall f, ~ tok_ok (f_linetoks f) -> frame_text f = styled HDefault (strip (f_line f)).
Proof. exact frame_text_fallback. Qed.
Print Assumptions frame_line_falls_back_to_plain.
Theorem unreadable_source_gives_no_snippet : forall c t line before after, ~ tok_ok t -> snippet_of c t line before after = Ok [].
Proof. exact snippet_of_unreadable. Qed.
Print Assumptions unreadable_source_gives_no_snippet.

(* ---- the report contains the class name and the message; in simple mode just the message ---- *)
Theorem full_report_shape : forall c ind x ls,
  x_frames x <> [] -> render_exception c ind x = Ok ls ->
  exists tr sn, render_trace c ind (x_frames x) = Ok tr /\
    ls = tr ++ [(ind, []); (ind, name_line x); (ind, []); (ind, msg_line x)] ++ sn.
Proof. exact render_exception_shape. Qed.
Print Assumptions full_report_shape.
(* and it always has that shape: the lines of a full report exist for every exception case with frames *)
Theorem full_report_always_has_its_shape : forall c ind x,
  x_frames x <> [] ->
  exists tr sn, render_trace c ind (x_frames x) = Ok tr /\
    render_exception c ind x = Ok (tr ++ [(ind, []); (ind, name_line x); (ind, []); (ind, msg_line x)] ++ sn).
Proof. exact render_exception_shape_total. Qed.
Print Assumptions full_report_always_has_its_shape.
Theorem simple_report_shape : forall c ind x,
  render_lines c true ind x = Ok [(ind, s_error_open ++ literal (x_msg x) st_error ++ s_error_close)].
Proof. exact render_simple_shape. Qed.
Print Assumptions simple_report_shape.

(* ---- text put into the markup is shown as it is, whatever it contains; rendering never fails ---- *)
(* shown s = s, with a blank after a trailing backslash *)
Theorem text_is_shown_as_it_is : forall sty sk tag p s, tag_name tag -> resolve sty (py_lower tag) = Ok (Some p) ->
  colorize sty false sk (tagged tag (literal s tag)) = Ok (sk, shown s).
Proof. exact literal_plain. Qed.
Print Assumptions text_is_shown_as_it_is.
Theorem named_text_is_shown_as_it_is : forall sty sk nm p s, tag_name nm -> resolve sty (py_lower nm) = Ok (Some p) ->
  colorize sty false sk (open_tag nm ++ literal s nm ++ close_tag nm) = Ok (sk, shown s).
Proof. exact literal_named_plain. Qed.
Print Assumptions named_text_is_shown_as_it_is.
(* a whole line of literals and plain separators, undecorated ... *)
Theorem line_shows_its_texts : forall sty sk ps, pieces_ok sty ps ->
  colorize sty false sk (line_str ps) = Ok (sk, flat_map piece_shown ps).
Proof. exact line_plain. Qed.
Print Assumptions line_shows_its_texts.
(* ... and decorated: the same text under the escape codes, the style stack left as it was, no failure *)
Theorem decorated_line_shows_the_same_text : forall sty sk ps, pieces_ok sty ps -> pieces_noesc ps ->
  exists out, colorize sty true sk (line_str ps) = Ok (sk, out) /\ strip_sgr out = flat_map piece_shown ps.
Proof. exact line_decorated. Qed.
Print Assumptions decorated_line_shows_the_same_text.
(* whether colorize succeeds, and the stack it leaves, do not depend on whether it decorates (no hypothesis on ESC:
   pieces_noesc is needed only to read the text back from under the escape codes, above) *)
Theorem decorating_changes_neither_success_nor_stack : forall sty sk m sk' t,
  colorize sty false sk m = Ok (sk', t) -> exists out, colorize sty true sk m = Ok (sk', out).
Proof. exact colorize_status. Qed.
Print Assumptions decorating_changes_neither_success_nor_stack.
Theorem line_never_makes_the_formatter_fail : forall sty sk col ps, pieces_ok sty ps ->
  exists out, colorize sty col sk (line_str ps) = Ok (sk, out).
Proof. exact line_never_raises_any. Qed.
Print Assumptions line_never_makes_the_formatter_fail.
(* highlighted source code: every chunk shows its text, in every style table *)
Theorem highlighted_line_shows_the_source : forall sty sk cs,
  colorize sty false sk (render_chunks cs) = Ok (sk, flat_map (fun c => shown (snd c)) cs).
Proof. exact render_chunks_plain. Qed.
Print Assumptions highlighted_line_shows_the_source.

(* ---- the composition: every line the renderer writes is a line of literals and safe separators ---- *)
(* good_line sty l: l = line_str ps for pieces ps (safe separators, <tag>literal</>, <name>literal</name>) whose tags
   resolve in the style table sty.  The styles written inline (fg=...;options=...) resolve in every table; "error" and
   "b" must be registered. *)
Theorem every_written_line_is_literals_and_separators : forall sty, resolvable sty st_error -> resolvable sty st_b ->
  forall c simple ind x ls, render_lines c simple ind x = Ok ls -> Forall (fun wl => good_line sty (snd wl)) ls.
Proof. exact render_lines_good. Qed.
Print Assumptions every_written_line_is_literals_and_separators.
(* "error" is one of pastel's own styles: every ANSI or plain formatter clikit builds resolves it *)
Theorem every_formatter_resolves_error : forall k set f, new_formatter k set = Ok f -> k <> FNull -> resolvable (f_styles f) st_error.
Proof. exact new_formatter_error. Qed.
Print Assumptions every_formatter_resolves_error.
(* Output's indentation (blanks in front of every non-empty line of the string) maps pieces to pieces *)
Theorem indentation_keeps_a_line_good : forall sty n ps, pieces_ok sty ps ->
  indent_text n (line_str ps) = line_str (ind_pieces n true ps) /\ pieces_ok sty (ind_pieces n true ps) /\
  (pieces_noesc ps -> pieces_noesc (ind_pieces n true ps)).
Proof.
  intros sty n ps H. split; [exact (indent_text_pieces sty n ps H)|]. split; [exact (ind_pieces_ok sty n ps true H)|exact (ind_pieces_noesc n ps true)].
Qed.
Print Assumptions indentation_keeps_a_line_good.
(* one write_line on an ordinary output with an ANSI or plain formatter whose style stack is empty: no failure, the
   stack is empty again, the bytes are the shown texts of the indented pieces (under the escape codes when decorated) *)
Theorem writing_a_good_line_never_fails : forall sty o ind ps,
  out_ok sty o -> pieces_ok sty ps -> (decorated o = true -> pieces_noesc ps) ->
  exists o' text,
    write (with_indent o ind) (line_str ps) true true = Ok o' /\
    out_ok sty o' /\ o_on o' = o_on o /\ f_kind (o_fmt o') = f_kind (o_fmt o) /\
    o_buf o' = o_buf o ++ text ++ [NL] /\
    (if decorated o then strip_sgr text else text) = flat_map piece_shown (wpieces ind ps).
Proof. exact write_pieces. Qed.
Print Assumptions writing_a_good_line_never_fails.
(* the lines ALWAYS exist: for every configuration, report mode, indentation and exception case - any frames, any token
   streams, any failure of tokenize or of reading a file (before fix caca46b: exactly when tokenize succeeded where the
   renderer needed it) *)
Theorem report_lines_always_exist : forall c simple ind x, exists ls, render_lines c simple ind x = Ok ls.
Proof. exact render_lines_total. Qed.
Print Assumptions report_lines_always_exist.
(* writing them cannot fail ... *)
Theorem writing_good_lines_never_fails : forall sty ls o, out_ok sty o -> Forall (fun wl : wline => good_line sty (snd wl)) ls ->
  exists o', write_lines o ls = Ok o' /\ out_ok sty o' /\ o_on o' = o_on o /\ f_kind (o_fmt o') = f_kind (o_fmt o).
Proof. exact write_lines_good_any. Qed.
Print Assumptions writing_good_lines_never_fails.
Theorem writing_the_report_never_fails : forall sty c simple o x,
  out_ok sty o -> resolvable sty st_error -> resolvable sty st_b -> exists bytes, render c simple o x = Ok bytes.
Proof. exact render_never_fails_any. Qed.
Print Assumptions writing_the_report_never_fails.
(* the lines hold no ESC when the inputs hold none (class name, message, file and function names, source text, tokens;
   the path separator is not ESC) *)
Theorem escape_free_inputs_give_escape_free_lines : forall c simple ind x ls,
  inputs_ne c x -> render_lines c simple ind x = Ok ls -> Forall (fun wl => no_esc (snd wl)) ls.
Proof. exact lines_noesc. Qed.
Print Assumptions escape_free_inputs_give_escape_free_lines.
(* THE headline.  Inputs: the exception case x (class name, message, frames with the token streams of their files and
   lines - or the fact that tokenize / reading raised), the configuration c (verbosity, UTF-8, directories), the report
   mode, the output o.  Hypotheses that remain: o is an ordinary output (not a section) with an ANSI or plain formatter
   whose style stack is empty (out_ok); its style table resolves "error" and "b".  No hypothesis on tokenize, and - the
   earlier statement had one - none on ESC in the inputs when the output decorates.  Then ExceptionTrace.render returns
   its bytes: it raises nothing. *)
Theorem render_never_fails_unconditionally : forall sty c simple o x,
  out_ok sty o -> resolvable sty st_error -> resolvable sty st_b -> exists bytes, render c simple o x = Ok bytes.
Proof. exact render_never_fails_any. Qed.
Print Assumptions render_never_fails_unconditionally.
(* ... and for the formatters clikit itself builds there is no premise on the style table either: a formatter made by
   new_formatter (PlainFormatter / AnsiFormatter) over a style set that contains the styles of DefaultStyleSet (what the
   formatters take when given none, and what DefaultApplicationConfig hands them) resolves "error" (pastel's own, then
   clikit's) and "b" (DefaultStyleSet's). *)
Theorem clikit_formatters_resolve_error_and_b : forall f, clikit_formatter f ->
  resolvable (f_styles f) st_error /\ resolvable (f_styles f) st_b.
Proof. exact clikit_formatter_styles. Qed.
Print Assumptions clikit_formatters_resolve_error_and_b.
Theorem any_style_set_with_b_resolves_b : forall k set f c, new_formatter k set = Ok f -> k <> FNull -> In c set -> c_tag c = Some st_b ->
  resolvable (f_styles f) st_b.
Proof. exact new_formatter_b. Qed.
Print Assumptions any_style_set_with_b_resolves_b.
Theorem render_never_fails_on_clikit_outputs : forall c simple o x, clikit_output o -> exists bytes, render c simple o x = Ok bytes.
Proof. exact render_never_fails_clikit. Qed.
Print Assumptions render_never_fails_on_clikit_outputs.
Theorem render_with_solutions_never_fails_on_clikit_outputs : forall c simple o x sols, clikit_output o ->
  exists bytes, render_sol c simple o x sols = Ok bytes.
Proof. exact render_sol_never_fails_clikit. Qed.
Print Assumptions render_with_solutions_never_fails_on_clikit_outputs.
Theorem simple_report_on_clikit_outputs : forall c o x, clikit_output o -> decorated o = false -> (o_indent o <= 0)%Z ->
  render c true o x = Ok (o_buf o ++ shown (x_msg x) ++ [NL]).
Proof. exact simple_bytes_clikit. Qed.
Print Assumptions simple_report_on_clikit_outputs.
Theorem full_report_on_clikit_outputs : forall c o x, clikit_output o -> decorated o = false -> (0 <= o_indent o)%Z -> x_frames x <> [] ->
  let ind := (o_indent o + 2)%Z in
  exists tr_p sn_p,
    render_trace c ind (x_frames x) = Ok (map pline_w tr_p) /\
    render_snippet c ind (last (x_frames x) dflt_frame) = Ok (map pline_w sn_p) /\
    render c false o x
    = Ok (o_buf o ++ flat_map shown_line tr_p
            ++ [NL] ++ spaces ind ++ shown (ind_text ind (x_name x)) ++ [NL]
            ++ [NL] ++ spaces ind ++ shown (ind_text ind (msg_text (x_msg x))) ++ [NL]
            ++ flat_map shown_line sn_p).
Proof. exact full_bytes_clikit. Qed.
Print Assumptions full_report_on_clikit_outputs.
(* non-vacuity: the plain and both ANSI formatters over DefaultStyleSet itself are such formatters; and a DECORATED
   report of an exception whose class name and message hold ESC [ 3 1 m comes out (the case the earlier ESC hypothesis
   excluded) *)
Example default_formatters_qualify : forall k, k <> FNull -> clikit_formatter (default_formatter k).
Proof. exact default_formatters_are_clikit. Qed.
Definition esc_text : str := [27;91;51;49;109;114;101;100;27;91;48;109]%N.
Definition esc_out : outp := {| o_indent := 0; o_on := true; o_sec := false; o_fmt := default_formatter (FAnsi true); o_buf := [] |}.
Example esc_out_qualifies : clikit_output esc_out /\ decorated esc_out = true.
Proof. split; [split; [reflexivity|apply default_formatters_are_clikit; discriminate]|reflexivity]. Qed.
Example decorated_report_with_escapes_in_the_message :
  exists bytes, render (RenderExamples.demo_cfg true) false esc_out
                  {| x_name := esc_text; x_msg := esc_text; x_frames := [RenderExamples.demo_frame; RenderExamples.demo_frame] |} = Ok bytes
                /\ (10 < length bytes)%nat.
Proof. eexists. split; [vm_compute; reflexivity|cbn; lia]. Qed.
(* a failure of render, if there is one (outside these hypotheses), is a failure of writing: never of producing the lines *)
Theorem render_error_is_a_write_error : forall c simple o x e,
  render c simple o x = Err e -> exists ls, render_lines c simple (o_indent o) x = Ok ls /\ write_lines o ls = Err e.
Proof. exact render_err_is_write_err. Qed.
Print Assumptions render_error_is_a_write_error.
(* undecorated, the bytes are the shown texts of the (indented) pieces, line after line *)
Theorem plain_report_bytes : forall sty c simple o x ls,
  out_ok sty o -> resolvable sty st_error -> resolvable sty st_b -> decorated o = false ->
  render_lines c simple (o_indent o) x = Ok ls ->
  exists pls, ls = map pline_w pls /\ Forall (fun p => pieces_ok sty (snd p)) pls /\
    render c simple o x = Ok (o_buf o ++ flat_map shown_line pls).
Proof. exact render_plain_bytes_l. Qed.
Print Assumptions plain_report_bytes.
(* simple mode says the message (a blank after a trailing backslash), indented, and nothing else *)
Theorem simple_report_says_the_message : forall sty c o x, out_ok sty o -> resolvable sty st_error -> decorated o = false ->
  render c true o x
  = Ok (o_buf o ++ (if (0 <? o_indent o)%Z then spaces (o_indent o) ++ shown (ind_text (o_indent o) (x_msg x)) else shown (x_msg x)) ++ [NL]).
Proof. exact simple_bytes. Qed.
Print Assumptions simple_report_says_the_message.
Theorem simple_report_unindented : forall sty c o x, out_ok sty o -> resolvable sty st_error -> decorated o = false -> (o_indent o <= 0)%Z ->
  render c true o x = Ok (o_buf o ++ shown (x_msg x) ++ [NL]).
Proof. exact simple_bytes_0. Qed.
Print Assumptions simple_report_unindented.
(* the full report: stack trace, blank line, class name, blank line, message block (two more blanks after every line
   break of the message), snippet *)
Theorem full_report_says_name_and_message : forall sty c o x bytes,
  out_ok sty o -> resolvable sty st_error -> resolvable sty st_b -> decorated o = false -> (0 <= o_indent o)%Z ->
  x_frames x <> [] -> render c false o x = Ok bytes ->
  let ind := (o_indent o + 2)%Z in
  exists tr_p sn_p,
    render_trace c ind (x_frames x) = Ok (map pline_w tr_p) /\
    render_snippet c ind (last (x_frames x) dflt_frame) = Ok (map pline_w sn_p) /\
    bytes = o_buf o ++ flat_map shown_line tr_p
              ++ [NL] ++ spaces ind ++ shown (ind_text ind (x_name x)) ++ [NL]
              ++ [NL] ++ spaces ind ++ shown (ind_text ind (msg_text (x_msg x))) ++ [NL]
              ++ flat_map shown_line sn_p.
Proof. exact full_bytes. Qed.
Print Assumptions full_report_says_name_and_message.
(* and render always returns these bytes on an undecorated output: no hypothesis on the exception case but that it has frames *)
Theorem full_report_always_says_name_and_message : forall sty c o x,
  out_ok sty o -> resolvable sty st_error -> resolvable sty st_b -> decorated o = false -> (0 <= o_indent o)%Z ->
  x_frames x <> [] ->
  let ind := (o_indent o + 2)%Z in
  exists tr_p sn_p,
    render_trace c ind (x_frames x) = Ok (map pline_w tr_p) /\
    render_snippet c ind (last (x_frames x) dflt_frame) = Ok (map pline_w sn_p) /\
    render c false o x
    = Ok (o_buf o ++ flat_map shown_line tr_p
            ++ [NL] ++ spaces ind ++ shown (ind_text ind (x_name x)) ++ [NL]
            ++ [NL] ++ spaces ind ++ shown (ind_text ind (msg_text (x_msg x))) ++ [NL]
            ++ flat_map shown_line sn_p).
Proof. exact full_bytes_total. Qed.
Print Assumptions full_report_always_says_name_and_message.
(* the file of the failing frame cannot be read or tokenized: the report is produced all the same; after the message
   block come a blank line and the location line  "at file:line in function"  (at_pieces) - and no snippet lines *)
Theorem unreadable_source_report : forall sty c o x,
  out_ok sty o -> resolvable sty st_error -> resolvable sty st_b -> decorated o = false -> (0 <= o_indent o)%Z ->
  x_frames x <> [] -> ~ tok_ok (f_content (last (x_frames x) dflt_frame)) ->
  let ind := (o_indent o + 2)%Z in
  exists tr_p,
    render_trace c ind (x_frames x) = Ok (map pline_w tr_p) /\
    render c false o x
    = Ok (o_buf o ++ flat_map shown_line tr_p
            ++ [NL] ++ spaces ind ++ shown (ind_text ind (x_name x)) ++ [NL]
            ++ [NL] ++ spaces ind ++ shown (ind_text ind (msg_text (x_msg x))) ++ [NL]
            ++ [NL] ++ shown_line (ind, at_pieces c (last (x_frames x) dflt_frame))).
Proof. exact full_bytes_unreadable. Qed.
Print Assumptions unreadable_source_report.
Theorem full_report_one_line_message : forall sty c o x bytes,
  out_ok sty o -> resolvable sty st_error -> resolvable sty st_b -> decorated o = false -> (0 <= o_indent o)%Z ->
  x_frames x <> [] -> no_nl (x_name x) -> no_nl (x_msg x) -> render c false o x = Ok bytes ->
  let ind := (o_indent o + 2)%Z in
  exists pre post, (pre = [] \/ exists pre', pre = pre' ++ [NL]) /\
    bytes = o_buf o ++ pre ++ [NL] ++ spaces ind ++ shown (x_name x) ++ [NL] ++ [NL] ++ spaces ind ++ shown (x_msg x) ++ [NL] ++ post.
Proof. exact full_bytes_one_line. Qed.
Print Assumptions full_report_one_line_message.

(* ---- the solutions (ExceptionTrace._render_solution): proofs in Proofs/TraceSolutionLemmas.v ---- *)
(* the line of a solution is a line of literals and safe separators - the explicit pieces: the bullet, the title without
   its trailing dots, ": ", the description (four blanks after every line break, blanks at the ends dropped), the links *)
Theorem solution_line_is_its_pieces : forall utf8 s, solution_line utf8 s = line_str (sol_pieces utf8 s).
Proof. exact solution_line_pieces. Qed.
Print Assumptions solution_line_is_its_pieces.
(* in every style table, for EVERY title, description and links *)
Theorem solution_line_is_literals_and_separators : forall sty utf8 s, good_line sty (solution_line utf8 s).
Proof. exact solution_line_good. Qed.
Print Assumptions solution_line_is_literals_and_separators.
Theorem solution_line_escape_free : forall sty utf8 s, sol_ne s -> good_line_ne sty (solution_line utf8 s).
Proof. exact solution_line_good_ne. Qed.
Print Assumptions solution_line_escape_free.
Theorem every_written_line_with_solutions_is_literals_and_separators : forall sty, resolvable sty st_error -> resolvable sty st_b ->
  forall c simple ind x sols ls, render_lines_sol c simple ind x sols = Ok ls -> Forall (fun wl => good_line sty (snd wl)) ls.
Proof. exact render_lines_sol_good. Qed.
Print Assumptions every_written_line_with_solutions_is_literals_and_separators.
(* the solutions add no failure: the lines always exist ... *)
Theorem solutions_add_no_failure : forall c simple ind x sols, exists ls, render_lines_sol c simple ind x sols = Ok ls.
Proof. exact render_lines_sol_total. Qed.
Print Assumptions solutions_add_no_failure.
(* ... and writing them cannot fail: render with a solution provider repository never fails, decorated or not,
   for every exception case and solutions *)
Theorem writing_the_report_with_solutions_never_fails : forall sty c simple o x sols,
  out_ok sty o -> resolvable sty st_error -> resolvable sty st_b -> exists bytes, render_sol c simple o x sols = Ok bytes.
Proof. exact render_sol_never_fails_any. Qed.
Print Assumptions writing_the_report_with_solutions_never_fails.
Theorem escape_free_solutions_give_escape_free_lines : forall c simple ind x sols ls, inputs_ne c x -> Forall sol_ne sols ->
  render_lines_sol c simple ind x sols = Ok ls -> Forall (fun wl => no_esc (snd wl)) ls.
Proof. exact lines_sol_noesc. Qed.
Print Assumptions escape_free_solutions_give_escape_free_lines.
(* the headline with solutions: hypotheses as in render_never_fails_unconditionally - none on the solution texts *)
Theorem render_with_solutions_never_fails_unconditionally : forall sty c simple o x sols,
  out_ok sty o -> resolvable sty st_error -> resolvable sty st_b -> exists bytes, render_sol c simple o x sols = Ok bytes.
Proof. exact render_sol_never_fails_any. Qed.
Print Assumptions render_with_solutions_never_fails_unconditionally.
(* undecorated, the bytes are those of the report followed by, per solution, a blank line and the block:
   sol_shown ind utf8 s = blanks, bullet, blank, shown title, ": ", shown description, the links each on its own line
   (links_shown), a line break - every text indented as Output does (ind_text) *)
Theorem solutions_follow_the_report : forall sty c o x sols bytes,
  out_ok sty o -> resolvable sty st_error -> resolvable sty st_b -> decorated o = false -> (0 <= o_indent o)%Z ->
  x_frames x <> [] -> render_sol c false o x sols = Ok bytes ->
  let ind := (o_indent o + 2)%Z in
  exists report, render c false o x = Ok report /\
    bytes = report ++ flat_map (fun s => [NL] ++ sol_shown ind (t_utf8 c) s) sols.
Proof. exact sol_bytes. Qed.
Print Assumptions solutions_follow_the_report.
Theorem solutions_always_follow_the_report : forall sty c o x sols,
  out_ok sty o -> resolvable sty st_error -> resolvable sty st_b -> decorated o = false -> (0 <= o_indent o)%Z ->
  x_frames x <> [] ->
  let ind := (o_indent o + 2)%Z in
  exists report, render c false o x = Ok report /\
    render_sol c false o x sols = Ok (report ++ flat_map (fun s => [NL] ++ sol_shown ind (t_utf8 c) s) sols).
Proof. exact sol_bytes_total. Qed.
Print Assumptions solutions_always_follow_the_report.
Theorem full_report_with_solutions : forall sty c o x sols bytes,
  out_ok sty o -> resolvable sty st_error -> resolvable sty st_b -> decorated o = false -> (0 <= o_indent o)%Z ->
  x_frames x <> [] -> render_sol c false o x sols = Ok bytes ->
  let ind := (o_indent o + 2)%Z in
  exists tr_p sn_p,
    render_trace c ind (x_frames x) = Ok (map pline_w tr_p) /\
    render_snippet c ind (last (x_frames x) dflt_frame) = Ok (map pline_w sn_p) /\
    bytes = o_buf o ++ flat_map shown_line tr_p
              ++ [NL] ++ spaces ind ++ shown (ind_text ind (x_name x)) ++ [NL]
              ++ [NL] ++ spaces ind ++ shown (ind_text ind (msg_text (x_msg x))) ++ [NL]
              ++ flat_map shown_line sn_p
              ++ flat_map (fun s => [NL] ++ sol_shown ind (t_utf8 c) s) sols.
Proof. exact sol_full_bytes. Qed.
Print Assumptions full_report_with_solutions.
(* a solution whose texts hold no line break: the title without its trailing dots, the description without the blanks at
   its ends, every link on its own line two blanks further in, a comma after all but the last *)
Theorem solution_block_one_line_texts : forall ind utf8 s, no_nl (so_title s) -> no_nl (so_desc s) -> Forall no_nl (so_links s) ->
  sol_shown ind utf8 s
  = spaces ind ++ bullet utf8 ++ [32%N] ++ shown (rstrip_char 46 (so_title s)) ++ [58; 32]%N ++ shown (strip_char 32 (so_desc s))
      ++ join_with COMMA (map (fun l => [NL] ++ spaces ind ++ [32; 32]%N ++ shown l) (so_links s)) ++ [NL].
Proof. exact sol_shown_one_line. Qed.
Print Assumptions solution_block_one_line_texts.
(* simple mode and exceptions without frames: no solutions are printed *)
Theorem simple_report_has_no_solutions : forall c o x sols, render_sol c true o x sols = render c true o x.
Proof. exact render_sol_simple. Qed.
Print Assumptions simple_report_has_no_solutions.

(* ---- a source that cannot be read or tokenized: the report is produced without snippet lines (vm_compute) ---- *)
Module Unreadable.
  Import RenderExamples SolutionExamples.
  (* bad_frame: tokenize raised TokenError on the file and on the line; bad_frame2: another exception (the file cannot be
     read: UnicodeDecodeError).  The write_line calls: blank, class name, blank, message, blank, location - no snippet *)
  Example token_error_lines :
    render_lines (demo_cfg false) false 0 (demo_x [bad_frame])
    = Ok [(2, []); (2, name_line (demo_x [])); (2, []); (2, msg_line (demo_x [])); (2, []);
          (2, s_at ++ location (demo_cfg false) st_green bad_frame)]%Z.
  Proof. vm_compute. reflexivity. Qed.
  Example other_exception_lines :
    render_lines (demo_cfg false) false 0 (demo_x [bad_frame2])
    = Ok [(2, []); (2, name_line (demo_x [])); (2, []); (2, msg_line (demo_x [])); (2, []);
          (2, s_at ++ location (demo_cfg false) st_green bad_frame2)]%Z.
  Proof. vm_compute. reflexivity. Qed.
  (* the bytes: ... the message, a blank line, "  at a.py:1 in f" / "  at b.py:7 in g" and nothing after it *)
  Example token_error_bytes :
    render (demo_cfg false) false (demo_out FPlain false 0) (demo_x [bad_frame])
    = Ok (ex_head ++ [10;32;32;97;116;32;97;46;112;121;58;49;32;105;110;32;102;10]%N).
  Proof. exact ex_unreadable_vm. Qed.
  Example other_exception_bytes :
    render (demo_cfg false) false (demo_out FPlain false 0) (demo_x [bad_frame2])
    = Ok (ex_head ++ [10;32;32;97;116;32;98;46;112;121;58;55;32;105;110;32;103;10]%N).
  Proof. exact ex_unreadable_other_vm. Qed.
  (* with the stack trace (-v): the frame's own line shown plain; at -vvv nothing under a frame whose file is unreadable *)
  Example verbose_bytes :
    render (demo_cfg true) false (demo_out FPlain false 0) (demo_x [bad_frame2; demo_frame; bad_frame])
    = Ok ([10;32;32;83;116;97;99;107;32;116;114;97;99;101;58;10]%N
          ++ [10;32;32;50;32;32;98;46;112;121;58;55;32;105;110;32;103;10]%N ++ [32;32;32;32;32;121;32;60;32;49;10]%N
          ++ [10;32;32;49;32;32;97;46;112;121;58;49;32;105;110;32;60;102;62;10]%N ++ [32;32;32;32;32;120;10]%N
          ++ ex_head ++ [10;32;32;97;116;32;97;46;112;121;58;49;32;105;110;32;102;10]%N).
  Proof. exact ex_unreadable_verbose_vm. Qed.
  Example debug_bytes :
    render demo_cfg_debug false (demo_out FPlain false 0) (demo_x [bad_frame2; demo_frame; bad_frame])
    = Ok ([10;32;32;83;116;97;99;107;32;116;114;97;99;101;58;10]%N
          ++ [10;32;32;50;32;32;98;46;112;121;58;55;32;105;110;32;103;10]%N
          ++ [10;32;32;49;32;32;97;46;112;121;58;49;32;105;110;32;60;102;62;10]%N ++ [32;32;32;32;62;32;32;32;49;124;32;120;10]%N
          ++ ex_head ++ [10;32;32;97;116;32;97;46;112;121;58;49;32;105;110;32;102;10]%N).
  Proof. exact ex_unreadable_debug_vm. Qed.
  (* with a solution: the block follows the location line *)
  Example token_error_bytes_with_solution :
    render_sol (demo_cfg false) false (demo_out FPlain false 0) (demo_x [bad_frame]) [ex_s1]
    = Ok (ex_head ++ [10;32;32;97;116;32;97;46;112;121;58;49;32;105;110;32;102;10]%N ++ ex_block1).
  Proof. exact ex_sol_unreadable_vm. Qed.
End Unreadable.

(* ================= the DECORATED report, as one whole-buffer statement (Proofs/TraceBytesLemmas.v) ================= *)
(* full_report_on_clikit_outputs above characterises the bytes of an undecorated output; for a decorating one
   writing_a_good_line_never_fails says "strip_sgr text = the shown pieces" line by line.  Here the whole buffer, both cases in
   one: vis_of_out o w = w with the SGR sequences removed when o decorates, w itself otherwise.
   part_of p s: p is a piece (infix) of s. *)
(* what write_lines appends to the buffer shows, line after line, the texts of the (indented) pieces *)
Theorem written_lines_show_their_pieces : forall sty (pls : list pline) o,
  out_ok sty o -> Forall (fun p => pieces_ok sty (snd p)) pls -> (decorated o = true -> Forall (fun p => pieces_noesc (snd p)) pls) ->
  exists o' w, write_lines o (map pline_w pls) = Ok o' /\ out_ok sty o' /\ o_on o' = o_on o /\ f_kind (o_fmt o') = f_kind (o_fmt o) /\
    o_buf o' = o_buf o ++ w /\ vis_of_out o w = flat_map shown_line pls.
Proof. exact write_lines_pieces_vis. Qed.
Print Assumptions written_lines_show_their_pieces.
(* THE FULL REPORT on an output clikit builds, decorated or not, for EVERY exception case with frames - when the output
   decorates: whose texts hold no ESC (inputs_ne; needed: decorated_report_of_a_message_with_escape_codes_refuted below).
   What render appends to the buffer shows (vis_of_out) exactly the report text: stack trace, blank line, class name, blank
   line, message block, snippet; that is what the SAME output writes with formatting off (undecorate); it holds every piece
   without line break - in particular every line - of the class name and of the message.  The pieces of the trace and snippet
   lines are good pieces (pieces_ok: the texts of shown_line are what the undecorated formatter writes for them,
   line_shows_its_texts) - the two conjuncts missing from full_report_on_clikit_outputs. *)
Theorem full_report_visible_on_clikit_outputs : forall c o x, clikit_output o -> (0 <= o_indent o)%Z -> x_frames x <> [] ->
  (decorated o = true -> inputs_ne c x) ->
  let ind := (o_indent o + 2)%Z in
  let sty := f_styles (o_fmt o) in
  exists tr_p sn_p w,
    render_trace c ind (x_frames x) = Ok (map pline_w tr_p) /\ Forall (fun p => pieces_ok sty (snd p)) tr_p /\
    render_snippet c ind (last (x_frames x) dflt_frame) = Ok (map pline_w sn_p) /\ Forall (fun p => pieces_ok sty (snd p)) sn_p /\
    render c false o x = Ok (o_buf o ++ w) /\
    vis_of_out o w = flat_map shown_line tr_p
                       ++ [NL] ++ spaces ind ++ shown (ind_text ind (x_name x)) ++ [NL]
                       ++ [NL] ++ spaces ind ++ shown (ind_text ind (msg_text (x_msg x))) ++ [NL]
                       ++ flat_map shown_line sn_p /\
    render c false (undecorate o) x = Ok (o_buf o ++ vis_of_out o w) /\
    (forall l, no_nl l -> part_of l (x_name x) -> part_of l (vis_of_out o w)) /\
    (forall l, no_nl l -> part_of l (x_msg x) -> part_of l (vis_of_out o w)).
Proof. exact full_report_visible_clikit. Qed.
Print Assumptions full_report_visible_on_clikit_outputs.
(* the lines of a text are pieces without line break of it: "every line of the message" *)
Theorem every_line_is_a_piece : forall s l, In l (split_on NL s) -> no_nl l /\ part_of l s.
Proof. exact line_is_part. Qed.
Print Assumptions every_line_is_a_piece.
(* the report text holds the class name and the message, whatever the trace and the snippet are *)
Theorem report_text_holds_name_and_message : forall ind x tr_p sn_p,
  (forall l, no_nl l -> part_of l (x_name x) -> part_of l (report_text ind x tr_p sn_p))
  /\ (forall l, no_nl l -> part_of l (x_msg x) -> part_of l (report_text ind x tr_p sn_p)).
Proof. exact report_has_name_and_message. Qed.
Print Assumptions report_text_holds_name_and_message.
(* simple mode: just the message *)
Theorem simple_report_visible_on_clikit_outputs : forall c o x, clikit_output o -> (o_indent o <= 0)%Z ->
  (decorated o = true -> no_esc (x_msg x)) ->
  exists w, render c true o x = Ok (o_buf o ++ w) /\ vis_of_out o w = shown (x_msg x) ++ [NL].
Proof. exact simple_report_visible_clikit. Qed.
Print Assumptions simple_report_visible_on_clikit_outputs.
Theorem partb_decides : forall p s, partb p s = true <-> part_of p s.
Proof. exact partb_spec. Qed.
Print Assumptions partb_decides.

(* non-vacuity: the ANSI formatter over DefaultStyleSet, decorating, the verbose report of the demo exception (class name
   B</error>, message <b>x\ - markup-like texts, no ESC - two frames): the hypotheses hold, the bytes hold escape codes, and
   with them removed they are the bytes of the undecorated run *)
Definition ansi_out : outp := {| o_indent := 0; o_on := true; o_sec := false; o_fmt := default_formatter (FAnsi true); o_buf := [] |}.
Example full_report_visible_instance :
  clikit_output ansi_out /\ decorated ansi_out = true /\
  inputs_ne (RenderExamples.demo_cfg true) (RenderExamples.demo_x [RenderExamples.demo_frame; RenderExamples.demo_frame]) /\
  match render (RenderExamples.demo_cfg true) false ansi_out (RenderExamples.demo_x [RenderExamples.demo_frame; RenderExamples.demo_frame]),
        render (RenderExamples.demo_cfg true) false (undecorate ansi_out) (RenderExamples.demo_x [RenderExamples.demo_frame; RenderExamples.demo_frame]) with
  | Ok b, Ok p => str_eqb (strip_sgr b) p && Nat.ltb (length p) (length b) && partb RenderExamples.demo_name p && partb RenderExamples.demo_msg p
  | _, _ => false end = true.
Proof.
  split; [split; [reflexivity|apply default_formatters_are_clikit; discriminate]|]. split; [reflexivity|].
  split; [exact RenderExamples.ex_inputs_ne|vm_compute; reflexivity].
Qed.
(* REFUTED without "no ESC in the texts" - for the reading "the decorated bytes, SGR sequences removed, hold the message": the
   exception whose message is  ESC[31m red ESC[0m  on the decorating output esc_out (above): the report is produced, its bytes
   hold the message as it is, and so do the bytes of the undecorated run - but removing the SGR sequences removes the message's
   own: what is left holds "red" and not the message.  Observed alike on the Python code (ExceptionTrace(Boom(that message))
   .render on a BufferedIO with AnsiFormatter(forced=True): the message is in the output, not in the output with
   ESC[...m removed).  A reading, not a defect: "style markup aside" cannot tell the renderer's escape codes from the message's. *)
Definition esc_x : exn_case := {| x_name := [66%N]; x_msg := esc_text; x_frames := [RenderExamples.demo_frame; RenderExamples.demo_frame] |}.
Theorem decorated_report_of_a_message_with_escape_codes_refuted :
  exists c o x, clikit_output o /\ decorated o = true /\ (0 <= o_indent o)%Z /\ x_frames x <> [] /\
    exists bytes plain, render c false o x = Ok bytes /\ render c false (undecorate o) x = Ok plain /\
      part_of (x_msg x) bytes /\ part_of (x_msg x) plain /\ ~ part_of (x_msg x) (strip_sgr bytes) /\ strip_sgr bytes <> plain.
Proof.
  exists (RenderExamples.demo_cfg true), esc_out, esc_x. split; [exact (proj1 esc_out_qualifies)|]. split; [reflexivity|].
  split; [cbn; lia|]. split; [discriminate|].
  destruct (render (RenderExamples.demo_cfg true) false esc_out esc_x) as [b|e] eqn:Eb; [|vm_compute in Eb; discriminate].
  destruct (render (RenderExamples.demo_cfg true) false (undecorate esc_out) esc_x) as [p|e] eqn:Ep; [|vm_compute in Ep; discriminate].
  exists b, p. split; [reflexivity|]. split; [reflexivity|].
  assert (partb esc_text b = true /\ partb esc_text p = true /\ partb esc_text (strip_sgr b) = false /\ str_eqb (strip_sgr b) p = false) as (H1 & H2 & H3 & H4).
  { vm_compute in Eb. vm_compute in Ep. injection Eb as <-. injection Ep as <-. vm_compute. repeat split; reflexivity. }
  split; [now apply partb_spec|]. split; [now apply partb_spec|]. split.
  - intros H. apply partb_spec in H. change (x_msg esc_x) with esc_text in H. congruence.
  - intros E. rewrite E, str_eqb_refl in H4. discriminate.
Qed.
Print Assumptions decorated_report_of_a_message_with_escape_codes_refuted.

(* ================= no piece left existential (Proofs/TracePiecesLemmas.v) ================= *)
(* The byte theorems above say "there are pieces tr_p, sn_p with render_trace ... = Ok (map pline_w tr_p)".  The pieces are
   functions of the inputs: trace_plines c ind fs (the header, per collection the fold line, per frame the location line and the
   line(s) under it - the frame's own line highlighted or plain, or at debug verbosity its numbered snippet) and snippet_plines
   c ind f (blank line, "at file:line in function", the numbered highlighted lines).  The lines written ARE their strings: *)
Theorem trace_lines_are_their_pieces : forall c ind fs, render_trace c ind fs = Ok (map pline_w (trace_plines c ind fs)).
Proof. exact trace_plines_w. Qed.
Print Assumptions trace_lines_are_their_pieces.
Theorem snippet_lines_are_their_pieces : forall c ind f, render_snippet c ind f = Ok (map pline_w (snippet_plines c ind f)).
Proof. exact snippet_plines_w. Qed.
Print Assumptions snippet_lines_are_their_pieces.
(* they are good pieces in every style table that knows "b" (the inline styles resolve everywhere) *)
Theorem trace_and_snippet_pieces_are_good : forall sty c ind fs f, resolvable sty st_b ->
  Forall (fun p : pline => pieces_ok sty (snd p)) (trace_plines c ind fs) /\
  Forall (fun p : pline => pieces_ok sty (snd p)) (snippet_plines c ind f).
Proof. intros sty c ind fs f Hb. split; [apply (trace_plines_ok sty Hb)|apply (snippet_plines_ok sty Hb)]. Qed.
Print Assumptions trace_and_snippet_pieces_are_good.
(* the full report on an output clikit builds, decorated or not: what is seen of the bytes appended is the report text of these
   pieces - a function of the exception case, the configuration and the indentation *)
Theorem full_report_explicit_on_clikit_outputs : forall c o x, clikit_output o -> (0 <= o_indent o)%Z -> x_frames x <> [] ->
  (decorated o = true -> inputs_ne c x) ->
  let ind := (o_indent o + 2)%Z in
  exists w, render c false o x = Ok (o_buf o ++ w) /\
    vis_of_out o w = report_text ind x (trace_plines c ind (x_frames x)) (snippet_plines c ind (last (x_frames x) dflt_frame)).
Proof. exact full_report_explicit_clikit. Qed.
Print Assumptions full_report_explicit_on_clikit_outputs.
(* non-vacuity: the verbose report of the demo exception with two frames: the stack trace has lines, and the undecorated bytes
   are the report text of the explicit pieces (computed on both sides) *)
Example explicit_pieces_instance :
  let c := RenderExamples.demo_cfg true in
  let x := RenderExamples.demo_x [RenderExamples.demo_frame; RenderExamples.demo_frame] in
  (0 < length (trace_plines c 2 (x_frames x)))%nat /\ (0 < length (snippet_plines c 2 RenderExamples.demo_frame))%nat /\
  match render c false (undecorate ansi_out) x with
  | Ok b => str_eqb b (report_text 2 x (trace_plines c 2 (x_frames x)) (snippet_plines c 2 RenderExamples.demo_frame))
  | Err _ => false end = true.
Proof. vm_compute. repeat split; try reflexivity; lia. Qed.
(* simple mode on the decorating output: the hypotheses of simple_report_visible_on_clikit_outputs, and the bytes computed *)
Example simple_report_visible_instance :
  clikit_output ansi_out /\ (o_indent ansi_out <= 0)%Z /\ no_esc RenderExamples.demo_msg /\
  match render (RenderExamples.demo_cfg false) true ansi_out (RenderExamples.demo_x [RenderExamples.demo_frame]) with
  | Ok b => str_eqb (strip_sgr b) (shown RenderExamples.demo_msg ++ [NL]) && Nat.ltb (length (shown RenderExamples.demo_msg ++ [NL])) (length b)
  | Err _ => false end = true.
Proof.
  split; [split; [reflexivity|apply default_formatters_are_clikit; discriminate]|]. split; [cbn; lia|].
  split; [repeat constructor; discriminate|vm_compute; reflexivity].
Qed.
