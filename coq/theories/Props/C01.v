(* C01 - parsing a well-formed command line recovers exactly the intended values.

   FULL STATEMENT (parse_spells), not proved here:
     forall f (d : line description: command-name spellings, option items in the forms --n=v / --n v / -nv / -n v /
     bare / grouped, positionals, optional "--" tail), wf_line f d = true -> forall lenient,
       parse lenient f (render d) = Ok (denote f d).
   What IS proved: the read side (access by long name, short name or position agrees; everything not set
   reports its default), that nothing after "--" is read as an option, and - shared with C02/C05 - that
   lenient and strict parsing agree on every line strict parsing accepts and that the result does not depend
   on the parser object's history.  The functional statement itself is decided by the correspondence run:
   the model equals the implementation on every generated spelling, and the implementation's result equals
   the assignment computed independently by the oracle.  Named partial in MANIFEST/DESIGN. *)
From Clikit Require Import Base.Prelude Base.Res Model.Conv Model.Format Model.Parser Proofs.ParserLemmas.

Theorem access_agrees_options : forall f a n m o,
  get_option f n true = Ok o -> get_option f m true = Ok o -> args_option f a n = args_option f a m.
Proof. exact option_access_agrees. Qed.
Print Assumptions access_agrees_options.
Theorem access_agrees_option_set : forall f a n m o,
  has_option f n true = true -> has_option f m true = true ->
  get_option f n true = Ok o -> get_option f m true = Ok o ->
  args_is_option_set f a n = args_is_option_set f a m.
Proof. exact option_set_agrees. Qed.
Print Assumptions access_agrees_option_set.
Theorem access_agrees_arguments : forall f a r1 r2 ar,
  get_argument f r1 true = Ok ar -> get_argument f r2 true = Ok ar -> args_argument f a r1 = args_argument f a r2.
Proof. exact argument_access_agrees. Qed.
Print Assumptions access_agrees_arguments.
Theorem access_agrees_argument_set : forall f a r1 r2 ar,
  has_argument f r1 true = true -> has_argument f r2 true = true ->
  get_argument f r1 true = Ok ar -> get_argument f r2 true = Ok ar ->
  args_is_argument_set f a r1 = args_is_argument_set f a r2.
Proof. exact argument_set_agrees. Qed.
Print Assumptions access_agrees_argument_set.

Theorem unset_option_reports_default : forall f a n o,
  get_option f n true = Ok o -> sget (o_long o) (ar_opts a) = None ->
  args_option f a n = Ok (if o_accepts o then o_default o else VBool false).
Proof. exact unset_option_default. Qed.
Print Assumptions unset_option_reports_default.
Theorem unset_argument_reports_default : forall f a r ar,
  get_argument f r true = Ok ar -> sget (a_name ar) (ar_args a) = None -> args_argument f a r = Ok (a_default ar).
Proof. exact unset_argument_default. Qed.
Print Assumptions unset_argument_reports_default.

Theorem tail_is_never_read_as_options : forall f len fuel st toks,
  ps_opts (fst (loop fuel f len false st toks)) = ps_opts st.
Proof. exact loop_after_dd_keeps_options. Qed.
Print Assumptions tail_is_never_read_as_options.

Theorem spelled_lines_mode_independent : forall f toks r, parse f false toks = Ok r -> parse f true toks = Ok r.
Proof. exact lenient_extends_strict_lemma. Qed.
Print Assumptions spelled_lines_mode_independent.
